package main

// Configuration evaluation (P13): the package initialiser is evaluated with its registrations (plugins, converters,
// levels, properties, rotation policies), then NewPlugin and Refresh are evaluated on generated configurations with
// package reflect modelled over go/types (absint_reflect.go) and the real flatten.Storage.
//
// For every registered plugin type, attribute by attribute (read from the struct tags of the type as registered):
// configured value wins, else the declared default, else creation fails; ${key} is replaced by the top-level
// property (absent ⇒ error); camelCase, kebab-case and snake_case keys are equivalent; a value that does not convert
// is an error; elements take the configured type, else their default, else (unless optional) creation fails; an
// unknown element type is an error. For Refresh: every registered logger and appender type is instantiated from a
// minimal configuration, and a battery of ill-formed configurations returns an error — no evaluation ends in a panic.

import (
	"fmt"
	"go/constant"
	"go/token"
	"go/types"
	"os"
	"reflect"
	"sort"
	"strconv"
	"strings"
	"time"

	"golang.org/x/tools/go/ssa"
)

type cfgAttr struct {
	path    []int // field path inside the plugin struct
	field   *types.Var
	name    string // attribute name as in the tag
	def     string
	hasDef  bool
	isName  bool
	sample  string // a value that converts
	sample2 string // a second, different value that converts ("" if none found)
}

type cfgElem struct {
	path     []int
	field    *types.Var
	kind     string // element type as in the tag (without ?)
	optional bool
	def      string
	hasDef   bool
	slice    bool
}

type cfgPlugin struct {
	kind  string
	name  string
	T     types.Type
	attrs []cfgAttr
	elems []cfgElem
}

type cfgWorld struct {
	c        *Ctx
	ro       *Roles
	newPlug  *ssa.Function
	toStore  *ssa.Function
	refresh  *ssa.Function
	registry *ssa.Global
	convs    *ssa.Global
	// exprParse: the inline-expression parser called by toStorage (stubbed: it returns the written-down sub-map)
	exprParse *ssa.Function
}

func (w *cfgWorld) interp() (*Interp, *fsWorld) {
	fw, _, _ := w.c.newFsWorld(w.ro)
	ip := fw.ip
	// the package initialises itself: drop the presets of the file world so that the initialiser's values are used
	for g := range ip.Globals {
		if g.Pkg == w.c.LogS {
			delete(ip.Globals, g)
		}
	}
	ip.PoolNew = map[*Obj]*ssa.Function{}
	ip.InitFull = true
	ip.MaxSteps = 4000000
	fw.now = time.Date(2025, 3, 9, 14, 7, 33, 0, time.UTC)
	ip.initGlobals()
	ip.Steps = 0
	prev := ip.Ext
	ip.Ext = func(ip *Interp, callee *ssa.Function, args []AV) (AV, bool) {
		if w.exprParse != nil && callee == w.exprParse {
			return TupleV{mapOf(inlineDecode(avStr(args[0]))), NilV{}}, true
		}
		if prev != nil {
			return prev(ip, callee, args)
		}
		return nil, false
	}
	return ip, fw
}

func parseTag(tag string) (first string, kv map[string]string) {
	parts := strings.Split(tag, ",")
	kv = map[string]string{}
	for _, p := range parts[1:] {
		if k, v, ok := strings.Cut(p, "="); ok {
			kv[k] = v
		}
	}
	return parts[0], kv
}

func (w *cfgWorld) describe(t types.Type) (attrs []cfgAttr, elems []cfgElem) {
	var walk func(st *types.Struct, path []int)
	walk = func(st *types.Struct, path []int) {
		for i := 0; i < st.NumFields(); i++ {
			f := st.Field(i)
			p := append(append([]int{}, path...), i)
			tag := reflect.StructTag(st.Tag(i))
			if a, ok := tag.Lookup("PluginAttribute"); ok {
				name, kv := parseTag(a)
				d, hasD := kv["default"]
				attrs = append(attrs, cfgAttr{path: p, field: f, name: name, def: d, hasDef: hasD, isName: name == "name"})
				continue
			}
			if e, ok := tag.Lookup("PluginElement"); ok {
				kind, kv := parseTag(e)
				d, hasD := kv["default"]
				opt := strings.HasSuffix(kind, "?")
				_, isSlice := f.Type().Underlying().(*types.Slice)
				elems = append(elems, cfgElem{path: p, field: f, kind: strings.TrimSuffix(kind, "?"), optional: opt, def: d, hasDef: hasD, slice: isSlice})
				continue
			}
			if sub, ok := f.Type().Underlying().(*types.Struct); ok && f.Embedded() {
				walk(sub, p)
			}
		}
	}
	if st, ok := t.Underlying().(*types.Struct); ok {
		walk(st, nil)
	}
	return
}

func camel(s string) string {
	// reference normalisation: kebab/snake → camel, every dot-separated segment starting in lower case
	var b strings.Builder
	up, first := false, true
	for i := 0; i < len(s); i++ {
		c := s[i]
		if (c == '-' || c == '_') && !first {
			up = true
			continue
		}
		if first && c >= 'A' && c <= 'Z' {
			c += 32
		} else if up && c >= 'a' && c <= 'z' {
			c -= 32
		}
		up, first = false, c == '.'
		b.WriteByte(c)
	}
	return b.String()
}

func kebab(s string) string {
	var b strings.Builder
	for i := 0; i < len(s); i++ {
		c := s[i]
		if c >= 'A' && c <= 'Z' && i > 0 {
			b.WriteByte('-')
			c += 32
		}
		b.WriteByte(c)
	}
	return b.String()
}

func snake(s string) string { return strings.ReplaceAll(kebab(s), "-", "_") }

func mapOf(kv map[string]string) *MapV {
	m := &MapV{M: map[string]AV{}}
	var ks []string
	for k := range kv {
		ks = append(ks, k)
	}
	sort.Strings(ks)
	for _, k := range ks {
		qk := constant.MakeString(k).ExactString()
		m.M[qk] = kStr(kv[k])
		m.Keys = append(m.Keys, qk)
	}
	return m
}

// plugins reads the plugin registry the evaluated initialiser filled.
func (w *cfgWorld) plugins(ip *Interp) []cfgPlugin {
	var out []cfgPlugin
	o, ok := ip.Globals[w.registry]
	if !ok || o.V == nil {
		return nil
	}
	top, ok := o.V.(*MapV)
	if !ok {
		return nil
	}
	for _, kk := range top.Keys {
		sub, ok := top.M[kk].(*MapV)
		if !ok {
			continue
		}
		kind, _ := strconv.Unquote(kk)
		for _, nk := range sub.Keys {
			name, _ := strconv.Unquote(nk)
			p, ok := sub.M[nk].(*Ptr)
			if !ok {
				continue
			}
			pv, ok := p.peek().(*StructV)
			if !ok {
				continue
			}
			for _, f := range pv.F {
				if iv, ok := f.(*IfaceV); ok {
					if rt, ok := iv.V.(*RTypeV); ok {
						pl := cfgPlugin{kind: kind, name: name, T: rt.T}
						pl.attrs, pl.elems = w.describe(rt.T)
						out = append(out, pl)
					}
				}
			}
		}
	}
	sort.Slice(out, func(i, j int) bool { return out[i].kind+out[i].name < out[j].kind+out[j].name })
	return out
}

// converterFor returns the registered converter of type t, if any.
func (w *cfgWorld) converterFor(ip *Interp, t types.Type) *Closure {
	o, ok := ip.Globals[w.convs]
	if !ok || o.V == nil {
		return nil
	}
	m, ok := o.V.(*MapV)
	if !ok {
		return nil
	}
	v, ok := m.M["rtype:"+types.TypeString(t, nil)]
	if !ok {
		return nil
	}
	if iv, ok := v.(*IfaceV); ok {
		if cl, ok := iv.V.(*Closure); ok {
			return cl
		}
	}
	return nil
}

// convert: what the attribute's string value must become in a field of type t (reference semantics).
func (w *cfgWorld) convert(ip *Interp, t types.Type, val string) (AV, bool) {
	val = strings.TrimSpace(val)
	if cl := w.converterFor(ip, t); cl != nil {
		res, err := ip.Run(cl.Fn, []AV{kStr(val)}, cl.Free)
		if err != nil {
			return nil, false
		}
		tv, ok := res.(TupleV)
		if !ok || len(tv) != 2 {
			return nil, false
		}
		if _, isNil := tv[1].(NilV); !isNil {
			return nil, false
		}
		return tv[0], true
	}
	switch kindOf(t) {
	case reflect.String:
		return kStr(val), true
	case reflect.Bool:
		b, err := strconv.ParseBool(val)
		return kBool(b), err == nil
	case reflect.Int, reflect.Int8, reflect.Int16, reflect.Int32, reflect.Int64:
		i, err := strconv.ParseInt(val, 0, 0)
		if err != nil {
			return nil, false
		}
		k, _ := convertConst(constant.MakeInt64(i), t)
		return k, true
	case reflect.Uint, reflect.Uint8, reflect.Uint16, reflect.Uint32, reflect.Uint64:
		u, err := strconv.ParseUint(val, 0, 0)
		if err != nil {
			return nil, false
		}
		k, _ := convertConst(constant.MakeUint64(u), t)
		return k, true
	case reflect.Float32, reflect.Float64:
		f, err := strconv.ParseFloat(val, 64)
		return &FloatV{F: f}, err == nil
	}
	return nil, false
}

func avEqualSafe(a, b AV) (eq bool) {
	defer func() {
		if recover() != nil {
			eq = false
		}
	}()
	return avEqual(a, b)
}

func fieldAt(v AV, path []int) AV {
	for _, i := range path {
		sv, ok := v.(*StructV)
		if !ok || i >= len(sv.F) {
			return nil
		}
		v = sv.F[i]
	}
	return v
}

// ---- reference semantics (the property statement, executed on the checker's side) ----

// normCfg is a configuration with normalised keys: leaves only.
type normCfg map[string]string

func (n normCfg) hasTree(k string) bool {
	if _, ok := n[k]; ok {
		return true
	}
	for kk := range n {
		if strings.HasPrefix(kk, k+".") || strings.HasPrefix(kk, k+"[") {
			return true
		}
	}
	return false
}

const inlineSep, inlineEq = "\x1e", "\x1f"

func inlineValue(kv map[string]string) string {
	var ks []string
	for k := range kv {
		ks = append(ks, k)
	}
	sort.Strings(ks)
	var b strings.Builder
	for _, k := range ks {
		b.WriteString(inlineSep + k + inlineEq + kv[k])
	}
	return b.String()
}

func inlineDecode(v string) map[string]string {
	out := map[string]string{}
	for _, part := range strings.Split(v, inlineSep) {
		if k, val, ok := strings.Cut(part, inlineEq); ok {
			out[k] = val
		}
	}
	return out
}

func normalise(cfg map[string]string) normCfg {
	n := normCfg{}
	for k, v := range cfg {
		ck := camel(k)
		if strings.HasSuffix(ck, "!") {
			for k2, v2 := range inlineDecode(v) {
				n[strings.TrimSuffix(ck, "!")+"."+camel(k2)] = v2
			}
			continue
		}
		n[ck] = v
	}
	return n
}

type refObj struct {
	pl    *cfgPlugin
	attrs map[string]AV
	elems map[string]any // nil | *refObj | []*refObj
}

func pathKey(p []int) string { return fmt.Sprint(p) }

func (w *cfgWorld) lookup(plugins []cfgPlugin, kind, name string) *cfgPlugin {
	for i := range plugins {
		if plugins[i].kind == kind && plugins[i].name == name {
			return &plugins[i]
		}
	}
	return nil
}

// resolve: what the statement says the plugin created at prefix must look like, or why creation must fail.
func (w *cfgWorld) resolve(ip *Interp, plugins []cfgPlugin, pl *cfgPlugin, prefix string, n normCfg, depth int) (*refObj, string) {
	if depth > 6 {
		return nil, "nesting"
	}
	ro := &refObj{pl: pl, attrs: map[string]AV{}, elems: map[string]any{}}
	for _, a := range pl.attrs {
		if a.isName {
			ro.attrs[pathKey(a.path)] = kStr(prefix[strings.LastIndex(prefix, ".")+1:])
			continue
		}
		val, ok := n[prefix+"."+camel(a.name)]
		if !ok {
			if !a.hasDef {
				return nil, "attribute " + a.name + " has neither a configured value nor a default"
			}
			val = a.def
		}
		if t := strings.TrimSpace(val); strings.HasPrefix(t, "${") && strings.HasSuffix(t, "}") {
			pv, ok := n[camel(t[2:len(t)-1])]
			if !ok {
				return nil, "property " + t + " is not set"
			}
			val = pv
		}
		cv, ok := w.convert(ip, a.field.Type(), val)
		if !ok {
			return nil, fmt.Sprintf("attribute %s: %q does not convert to %s", a.name, val, rtypeString(a.field.Type()))
		}
		ro.attrs[pathKey(a.path)] = cv
	}
	for _, e := range pl.elems {
		key := prefix + "." + camel(e.kind)
		kind := camel(e.kind)
		sub := func(at, typ string) (*refObj, string) {
			q := w.lookup(plugins, kind, typ)
			if q == nil {
				return nil, "plugin type " + typ + " of kind " + kind + " is not registered"
			}
			return w.resolve(ip, plugins, q, at, n, depth+1)
		}
		typeAt := func(at string) string {
			if t, ok := n[at+".type"]; ok {
				return t
			}
			return e.kind
		}
		if e.slice {
			var list []*refObj
			switch {
			case n.hasTree(key + "[0]"):
				for i := 0; n.hasTree(fmt.Sprintf("%s[%d]", key, i)); i++ {
					at := fmt.Sprintf("%s[%d]", key, i)
					o, why := sub(at, typeAt(at))
					if o == nil {
						return nil, why
					}
					list = append(list, o)
				}
			case n.hasTree(key):
				o, why := sub(key, typeAt(key))
				if o == nil {
					return nil, why
				}
				list = append(list, o)
			case e.hasDef:
				i := 0
				for _, typ := range strings.Split(e.def, ";") {
					if typ = strings.TrimSpace(typ); typ == "" {
						continue
					}
					o, why := sub(fmt.Sprintf("%s[%d]", key, i), typ)
					if o == nil {
						return nil, why
					}
					list = append(list, o)
					i++
				}
				if i == 0 {
					return nil, "empty element default"
				}
			case e.optional:
			default:
				return nil, "required element " + e.kind + " is missing"
			}
			ro.elems[pathKey(e.path)] = list
			continue
		}
		switch {
		case n.hasTree(key):
			typ, ok := n[key+".type"]
			if !ok {
				return nil, "element " + e.kind + " without a type"
			}
			o, why := sub(key, typ)
			if o == nil {
				return nil, why
			}
			ro.elems[pathKey(e.path)] = o
		case e.hasDef:
			o, why := sub(key, e.def)
			if o == nil {
				return nil, why
			}
			ro.elems[pathKey(e.path)] = o
		case e.optional:
			ro.elems[pathKey(e.path)] = nil
		default:
			return nil, "required element " + e.kind + " is missing"
		}
	}
	return ro, ""
}

// same compares a created object with the reference; "" when they agree.
func (w *cfgWorld) same(obj AV, ro *refObj, where string) string {
	for _, a := range ro.pl.attrs {
		got, want := fieldAt(obj, a.path), ro.attrs[pathKey(a.path)]
		if !avEqualSafe(got, want) {
			return fmt.Sprintf("%s attribute %s is %s, want %s", where, a.name, avString(got), avString(want))
		}
	}
	deref := func(v AV, q *refObj, at string) string {
		if iv, ok := v.(*IfaceV); ok {
			if !types.Identical(iv.T, types.NewPointer(q.pl.T)) {
				return fmt.Sprintf("%s is a %s, want %s %s", at, rtypeString(iv.T), q.pl.kind, q.pl.name)
			}
			v = iv.V
		}
		p, ok := v.(*Ptr)
		if !ok {
			return fmt.Sprintf("%s is %s, want a %s", at, avString(v), q.pl.name)
		}
		return w.same(p.load(), q, at)
	}
	for _, e := range ro.pl.elems {
		got := fieldAt(obj, e.path)
		at := where + " element " + e.kind
		switch want := ro.elems[pathKey(e.path)].(type) {
		case nil:
			if !isNilAV(got) {
				return fmt.Sprintf("%s is %s, want nil (optional, not configured)", at, avString(got))
			}
		case *refObj:
			if isNilAV(got) {
				return at + " is nil, want a " + want.pl.name
			}
			if why := deref(got, want, at); why != "" {
				return why
			}
		case []*refObj:
			var es []AV
			if sv, ok := got.(*SliceV); ok {
				es = sv.elems()
			}
			if len(es) != len(want) {
				return fmt.Sprintf("%s has %d entries, want %d", at, len(es), len(want))
			}
			for i := range es {
				if why := deref(es[i], want[i], fmt.Sprintf("%s[%d]", at, i)); why != "" {
					return why
				}
			}
		}
	}
	return ""
}

// synthetic: plugin types built on the checker's side (never registered, handed to NewPlugin directly) so that every
// attribute kind, every tag spelling and every element shape of the statement's grammar is evaluated even where no
// registered type has it: sized integers, floats, kebab-case and snake_case tag names, a promoted embedded struct,
// single elements (defaulted, optional, required) and element lists (default list, optional).
func (w *cfgWorld) synthetic(ip *Interp, plugins []cfgPlugin) []*cfgPlugin {
	pkg := w.c.LogS.Pkg
	var ifaceElem, sliceElem types.Type
	var ifaceKind, sliceKind string
	var convTypes []types.Type
	seen := map[string]bool{}
	for i := range plugins {
		for _, e := range plugins[i].elems {
			if e.slice && sliceElem == nil {
				sliceElem, sliceKind = e.field.Type(), e.kind
			} else if !e.slice && ifaceElem == nil {
				ifaceElem, ifaceKind = e.field.Type(), e.kind
			}
		}
		for _, a := range plugins[i].attrs {
			if t := a.field.Type(); w.converterFor(ip, t) != nil && !seen[types.TypeString(t, nil)] {
				seen[types.TypeString(t, nil)] = true
				convTypes = append(convTypes, t)
			}
		}
	}
	mk := func(name string, fields []*types.Var, tags []string) *cfgPlugin {
		nt := types.NewNamed(types.NewTypeName(token.NoPos, pkg, name, nil), types.NewStruct(fields, tags), nil)
		pl := &cfgPlugin{kind: "synthetic", name: name, T: nt}
		pl.attrs, pl.elems = w.describe(nt)
		return pl
	}
	fld := func(name string, t types.Type) *types.Var { return types.NewField(token.NoPos, pkg, name, t, false) }
	var out []*cfgPlugin
	{
		inner := types.NewNamed(types.NewTypeName(token.NoPos, pkg, "SynthInner", nil), types.NewStruct(
			[]*types.Var{fld("InnerS", types.Typ[types.String]), fld("InnerI", types.Typ[types.Int16])},
			[]string{`PluginAttribute:"innerS,default=in"`, `PluginAttribute:"inner-i"`}), nil)
		fs := []*types.Var{fld("Name", types.Typ[types.String]), types.NewField(token.NoPos, pkg, "SynthInner", inner, true)}
		tags := []string{`PluginAttribute:"name"`, ""}
		for _, b := range []struct {
			n string
			k types.BasicKind
			d string
		}{{"I8", types.Int8, "-3"}, {"I16", types.Int16, ""}, {"I32", types.Int32, "7"}, {"I64", types.Int64, ""}, {"I", types.Int, "1"},
			{"U8", types.Uint8, ""}, {"U16", types.Uint16, "9"}, {"U32", types.Uint32, ""}, {"U64", types.Uint64, "0"}, {"U", types.Uint, ""},
			{"F32", types.Float32, "0.5"}, {"F64", types.Float64, ""}, {"B", types.Bool, ""}, {"S", types.String, ""}} {
			fs = append(fs, fld(b.n, types.Typ[b.k]))
			tag := strings.ToLower(b.n[:1]) + b.n[1:]
			if b.d != "" {
				tag += ",default=" + b.d
			}
			tags = append(tags, `PluginAttribute:"`+tag+`"`)
		}
		fs = append(fs, fld("KebabTag", types.Typ[types.String]), fld("SnakeTag", types.Typ[types.String]), fld("KebabReq", types.Typ[types.Int]))
		tags = append(tags, `PluginAttribute:"kebab-tag,default=kd"`, `PluginAttribute:"snake_tag,default=sd"`, `PluginAttribute:"kebab-req"`)
		for i, t := range convTypes {
			fs = append(fs, fld(fmt.Sprintf("Conv%d", i), t))
			tags = append(tags, fmt.Sprintf(`PluginAttribute:"conv%d"`, i))
		}
		out = append(out, mk("SynthAttrs", fs, tags))
	}
	if ifaceElem != nil {
		out = append(out, mk("SynthSingleRequired", []*types.Var{fld("E", ifaceElem)}, []string{`PluginElement:"` + ifaceKind + `"`}))
		out = append(out, mk("SynthSingleOptional", []*types.Var{fld("E", ifaceElem)}, []string{`PluginElement:"` + ifaceKind + `?"`}))
		var names []string
		for i := range plugins {
			if plugins[i].kind == camel(ifaceKind) {
				names = append(names, plugins[i].name)
			}
		}
		if len(names) > 0 {
			out = append(out, mk("SynthSingleDefault", []*types.Var{fld("E", ifaceElem)}, []string{`PluginElement:"` + ifaceKind + `,default=` + names[len(names)-1] + `"`}))
			out = append(out, mk("SynthListDefault", []*types.Var{fld("Es", types.NewSlice(ifaceElem))}, []string{`PluginElement:"` + ifaceKind + `,default=` + strings.Join(names, ";") + `"`}))
			out = append(out, mk("SynthListRequired", []*types.Var{fld("Es", types.NewSlice(ifaceElem))}, []string{`PluginElement:"` + ifaceKind + `"`}))
		}
	}
	if sliceElem != nil {
		out = append(out, mk("SynthListOptional", []*types.Var{fld("Es", sliceElem)}, []string{`PluginElement:"` + sliceKind + `?"`}))
	}
	return out
}

type cfgCase struct {
	pl   *cfgPlugin
	cfg  map[string]string
	what string
}

func cloneCfg(m map[string]string) map[string]string {
	o := make(map[string]string, len(m))
	for k, v := range m {
		o[k] = v
	}
	return o
}

// values: well-typed and ill-typed configured values of an attribute.
func (w *cfgWorld) values(ip *Interp, a *cfgAttr) (good, ill []string) {
	t := a.field.Type()
	if w.converterFor(ip, t) != nil {
		cands := []string{"info", "warn~error", "debug", "h", "d", "10m", "1h", "30s", "Discard", "Block", "DiscardOldest", "10KB", "2MB", "stdout", "stderr", "true", "7", "zz-not-a-value", "", "{}", "[]", "<nil>", "12x"}
		if a.hasDef {
			cands = append(cands, a.def)
		}
		seen := map[string]bool{}
		for _, cnd := range cands {
			if seen[cnd] {
				continue
			}
			seen[cnd] = true
			if _, ok := w.convert(ip, t, cnd); ok {
				if len(good) < 4 {
					good = append(good, cnd)
				}
			} else if len(ill) < 5 {
				ill = append(ill, cnd)
			}
		}
		return
	}
	bits := func(k reflect.Kind) int {
		switch k {
		case reflect.Int8, reflect.Uint8:
			return 8
		case reflect.Int16, reflect.Uint16:
			return 16
		case reflect.Int32, reflect.Uint32:
			return 32
		}
		return 64
	}
	switch k := kindOf(t); k {
	case reflect.String:
		good = []string{"value-of-" + a.name, "other " + a.name, "{}", "[]", "<nil>", "", "${unclosed", "closed}", "x${inner}", "$", "${}", "a.b.c", "UPPER_snake-kebab"}
	case reflect.Bool:
		good, ill = []string{"true", "false"}, []string{"yes", "", "{}", "2"}
	case reflect.Int, reflect.Int8, reflect.Int16, reflect.Int32, reflect.Int64:
		b := uint(bits(k))
		good = []string{"0", "-5", "12", strconv.FormatInt(1<<(b-1)-1, 10), strconv.FormatInt(-1<<(b-1), 10)}
		if b == 64 {
			good = append(good, "2147483648", "-2147483649", "4294967296")
			ill = append(ill, "9223372036854775808")
		}
		ill = append(ill, "1.5", "abc", "", "[]", "12x")
	case reflect.Uint, reflect.Uint8, reflect.Uint16, reflect.Uint32, reflect.Uint64:
		b := uint(bits(k))
		good = []string{"0", "12", strconv.FormatUint(1<<b-1, 10)}
		if b == 64 {
			good = []string{"0", "12", "4294967296", "18446744073709551615"}
			ill = append(ill, "18446744073709551616")
		}
		ill = append(ill, "-1", "abc", "", "{}")
	case reflect.Float32, reflect.Float64:
		good, ill = []string{"1.5", "-2", "1e3"}, []string{"abc", "", "<nil>"}
	}
	return
}

func (c *Ctx) checkConfigSemantics(r *Report, ro *Roles, rule string) bool {
	if c.cfgMemo != nil {
		return *c.cfgMemo
	}
	okAll := false
	defer func() { c.cfgMemo = &okAll }()
	w := &cfgWorld{c: c, ro: ro, newPlug: c.logFunc("NewPlugin"), toStore: c.logFunc("toStorage"), refresh: c.logFunc("Refresh")}
	key := rule + ":plugins"
	pluginT := c.logType("Plugin")
	for _, m := range c.LogS.Members {
		g, ok := m.(*ssa.Global)
		if !ok {
			continue
		}
		if mt, ok := g.Type().(*types.Pointer).Elem().Underlying().(*types.Map); ok {
			if inner, ok := mt.Elem().Underlying().(*types.Map); ok && pluginT != nil {
				if pp, ok := inner.Elem().(*types.Pointer); ok && types.Identical(pp.Elem(), pluginT) {
					w.registry = g
				}
			}
			if isNamed(mt.Key(), "reflect", "Type") {
				w.convs = g
			}
		}
	}
	if w.newPlug == nil || w.toStore == nil || w.refresh == nil || w.registry == nil || w.convs == nil {
		r.Inconclusive(key, "NewPlugin / toStorage / Refresh / plugin registry / converter registry not found")
		return false
	}
	// the inline-expression parser is the subject of C17; here it returns the sub-map the evaluation wrote down
	eachInstr(w.toStore, func(in ssa.Instruction) {
		if call, ok := in.(*ssa.Call); ok {
			if sc := call.Common().StaticCallee(); sc != nil && sc.Pkg != nil && sc.Pkg != c.LogS && c.inModule(sc) {
				if res := sc.Signature.Results(); res.Len() == 2 {
					if _, ok := res.At(0).Type().Underlying().(*types.Map); ok {
						w.exprParse = sc
					}
				}
			}
		}
	})
	ip0, _ := w.interp()
	plugins := w.plugins(ip0)
	if len(plugins) < 4 {
		r.Inconclusive(key, "the evaluated initialiser registered %d plugin types (the registrations are outside the evaluated fragment)", len(plugins))
		return false
	}
	var bad []string
	nBad := 0
	var oodWhy string
	fail := func(format string, args ...any) {
		nBad++
		if len(bad) < 6 {
			bad = append(bad, fmt.Sprintf(format, args...))
		}
	}
	runs, errs := 0, 0
	// create: NewPlugin(class, prefix, toStorage(cfg)) → (object, "ok" | "error" | "ood" | "run-time panic: …")
	create := func(ip *Interp, pl *cfgPlugin, cfg map[string]string) (AV, string) {
		ip.Steps = 0
		runs++
		sres, err := ip.Run(w.toStore, []AV{mapOf(cfg)}, nil)
		if err != nil {
			if _, isOOD := err.(oodError); isOOD {
				oodWhy = err.Error()
				return nil, "ood"
			}
			return nil, err.Error()
		}
		stv, _ := sres.(TupleV)
		if len(stv) != 2 {
			oodWhy = "toStorage result"
			return nil, "ood"
		}
		if !isNilAV(stv[1]) {
			return nil, "error"
		}
		res, err := ip.Run(w.newPlug, []AV{ip.rtypeIface(pl.T), kStr("x.inst"), stv[0]}, nil)
		if err != nil {
			if _, isOOD := err.(oodError); isOOD {
				oodWhy = err.Error()
				return nil, "ood"
			}
			return nil, err.Error()
		}
		tv, _ := res.(TupleV)
		if len(tv) != 2 {
			oodWhy = "NewPlugin result"
			return nil, "ood"
		}
		if !isNilAV(tv[1]) {
			return nil, "error"
		}
		rv, ok := tv[0].(*RValV)
		if !ok {
			oodWhy = "NewPlugin did not return a reflect.Value of the evaluation"
			return nil, "ood"
		}
		p, ok := rv.get().(*Ptr)
		if !ok {
			return nil, "error"
		}
		return p.load(), "ok"
	}
	type attrVals struct{ good, ill []string }
	vals := map[*cfgAttr]attrVals{}
	valsOf := func(a *cfgAttr) attrVals {
		if v, ok := vals[a]; ok {
			return v
		}
		g, i := w.values(ip0, a)
		vals[a] = attrVals{g, i}
		return vals[a]
	}
	// minimal: the keys a plugin needs under prefix to be created (required attributes, required elements)
	var minimal func(pl *cfgPlugin, prefix string, cfg map[string]string, all bool, depth int) bool
	minimal = func(pl *cfgPlugin, prefix string, cfg map[string]string, all bool, depth int) bool {
		if depth > 4 {
			return false
		}
		for i := range pl.attrs {
			a := &pl.attrs[i]
			if a.isName || (a.hasDef && !all) {
				continue
			}
			g := valsOf(a).good
			if len(g) == 0 {
				return false
			}
			cfg[prefix+"."+a.name] = g[0]
		}
		for _, e := range pl.elems {
			if e.hasDef || e.optional {
				continue
			}
			at := prefix + "." + e.kind
			var q *cfgPlugin
			if q = w.lookup(plugins, camel(e.kind), e.kind); q == nil {
				for j := range plugins {
					if plugins[j].kind == camel(e.kind) {
						q = &plugins[j]
						cfg[at+".type"] = q.name
						break
					}
				}
			}
			if q == nil || !minimal(q, at, cfg, false, depth+1) {
				return false
			}
		}
		return true
	}
	var cases []cfgCase
	skipped := 0
	var targets []*cfgPlugin
	for pi := range plugins {
		targets = append(targets, &plugins[pi])
	}
	synth := w.synthetic(ip0, plugins)
	targets = append(targets, synth...)
	for _, pl := range targets {
		who := pl.kind + " " + pl.name
		base := map[string]string{}
		if !minimal(pl, "x.inst", base, true, 0) {
			skipped++
			continue
		}
		add := func(what string, f func(m map[string]string)) {
			m := cloneCfg(base)
			f(m)
			cases = append(cases, cfgCase{pl, m, who + ": " + what})
		}
		add("every attribute configured", func(m map[string]string) {})
		add("only what is required configured", func(m map[string]string) {
			for k := range m {
				delete(m, k)
			}
			minimal(pl, "x.inst", m, false, 0)
		})
		// the whole sub-tree written inline, with keys in mixed spellings
		add("the plugin written as an inline 'x.inst!' expression with kebab-case keys", func(m map[string]string) {
			sub := map[string]string{}
			for k, v := range m {
				sub[kebab(strings.TrimPrefix(k, "x.inst."))] = v
				delete(m, k)
			}
			m["x.inst!"] = inlineValue(sub)
		})
		add("the plugin written as an inline 'x.inst!' expression with snake_case keys", func(m map[string]string) {
			sub := map[string]string{}
			for k, v := range m {
				sub[snake(strings.TrimPrefix(k, "x.inst."))] = v
				delete(m, k)
			}
			m["x.inst!"] = inlineValue(sub)
		})
		add("every key in kebab-case", func(m map[string]string) {
			for k, v := range cloneCfg(m) {
				delete(m, k)
				m[kebab(k)] = v
			}
		})
		add("every key in snake_case", func(m map[string]string) {
			for k, v := range cloneCfg(m) {
				delete(m, k)
				m[snake(k)] = v
			}
		})
		for ai := range pl.attrs {
			a := &pl.attrs[ai]
			if a.isName {
				continue
			}
			k := "x.inst." + a.name
			av := valsOf(a)
			for _, v := range av.good {
				v := v
				add(fmt.Sprintf("attribute %s = %q", a.name, v), func(m map[string]string) { m[k] = v })
			}
			for _, v := range av.ill {
				v := v
				add(fmt.Sprintf("attribute %s = %q (does not convert)", a.name, v), func(m map[string]string) { m[k] = v })
			}
			second := av.good[len(av.good)-1]
			if len(av.good) > 1 {
				second = av.good[1]
			}
			if kebab(a.name) != a.name {
				add(fmt.Sprintf("attribute %s written %s", a.name, kebab(a.name)), func(m map[string]string) { delete(m, k); m["x.inst."+kebab(a.name)] = second })
				add(fmt.Sprintf("attribute %s written %s", a.name, snake(a.name)), func(m map[string]string) { delete(m, k); m["x.inst."+snake(a.name)] = second })
			}
			add(fmt.Sprintf("attribute %s left out", a.name), func(m map[string]string) { delete(m, k) })
			add(fmt.Sprintf("attribute %s left out, a key below its name present", a.name), func(m map[string]string) { delete(m, k); m[k+".hint"] = "ignored" })
			add(fmt.Sprintf("attribute %s left out, an indexed key below its name present", a.name), func(m map[string]string) { delete(m, k); m[k+"[0]"] = "ignored" })
			add(fmt.Sprintf("attribute %s = ${some-prop.for_it}, property set", a.name), func(m map[string]string) { m[k] = "${some-prop.for_it}"; m["some-prop.for_it"] = second })
			add(fmt.Sprintf("attribute %s = ${someProp.forIt}, property set under its kebab-case spelling", a.name), func(m map[string]string) { m[k] = "${someProp.forIt}"; m["some-prop.for-it"] = second })
			add(fmt.Sprintf("attribute %s = ${some-prop.for_it}, property not set", a.name), func(m map[string]string) { m[k] = "${some-prop.for_it}" })
			// a placeholder naming a section (a key with children, no value of its own) names no property: creation must fail
			add(fmt.Sprintf("attribute %s = ${some-prop}, which is a section holding for_it, not a property", a.name), func(m map[string]string) { m[k] = "${some-prop}"; m["some-prop.for_it"] = second })
			add(fmt.Sprintf("attribute %s = ${x.inst}, the section of the plugin itself", a.name), func(m map[string]string) { m[k] = "${x.inst}" })
			add(fmt.Sprintf("attribute %s = ${some-list}, which is an indexed list, not a property", a.name), func(m map[string]string) { m[k] = "${some-list}"; m["some-list[0]"] = second })
			if len(av.ill) > 0 {
				add(fmt.Sprintf("attribute %s = ${p}, property p set to the non-converting %q", a.name, av.ill[0]), func(m map[string]string) { m[k] = "${p}"; m["p"] = av.ill[0] })
			}
		}
		for _, e := range pl.elems {
			e := e
			at := "x.inst." + e.kind
			clear := func(m map[string]string) {
				for k := range m {
					if strings.HasPrefix(k, at+".") || strings.HasPrefix(k, at+"[") {
						delete(m, k)
					}
				}
			}
			add("element "+e.kind+" left out", clear)
			add("element "+e.kind+" of the unknown type NoSuchPluginType", func(m map[string]string) { clear(m); m[at+".type"] = "NoSuchPluginType" })
			// the element's section is present (it has keys of its own) but names no type: not the same as "left out"
			add("element "+e.kind+" with a section of its own but no type key", func(m map[string]string) { clear(m); m[at+".someAttr"] = "v" })
			add("element "+e.kind+" with only a nested key and no type key", func(m map[string]string) { clear(m); m[at+".sub.key"] = "v" })
			for qi := range plugins {
				q := &plugins[qi]
				if q.kind != camel(e.kind) {
					continue
				}
				add(fmt.Sprintf("element %s of type %s, every attribute of it configured", e.kind, q.name), func(m map[string]string) {
					clear(m)
					m[at+".type"] = q.name
					minimal(q, at, m, true, 1)
				})
				add(fmt.Sprintf("element %s of type %s in kebab-case", e.kind, q.name), func(m map[string]string) {
					clear(m)
					sub := map[string]string{}
					minimal(q, at, sub, true, 1)
					m[kebab(at)+".type"] = q.name
					for k, v := range sub {
						m[kebab(k)] = v
					}
				})
				add(fmt.Sprintf("element %s of type %s written inline", e.kind, q.name), func(m map[string]string) {
					clear(m)
					sub := map[string]string{}
					minimal(q, "", sub, true, 1)
					in := map[string]string{"type": q.name}
					for k, v := range sub {
						in[snake(strings.TrimPrefix(k, "."))] = v
					}
					m[at+"!"] = inlineValue(in)
				})
				for ai := range q.attrs {
					qa := &q.attrs[ai]
					if qa.isName || qa.hasDef {
						continue
					}
					add(fmt.Sprintf("element %s of type %s without its required attribute %s", e.kind, q.name, qa.name), func(m map[string]string) {
						clear(m)
						m[at+".type"] = q.name
						minimal(q, at, m, true, 1)
						delete(m, at+"."+qa.name)
					})
				}
				if e.slice {
					for _, n := range []int{1, 2, 3} {
						n := n
						add(fmt.Sprintf("element list %s with %d indexed entries of type %s", e.kind, n, q.name), func(m map[string]string) {
							clear(m)
							for i := 0; i < n; i++ {
								p := fmt.Sprintf("%s[%d]", at, i)
								if i%2 == 1 {
									m[p+".type"] = q.name
								}
								minimal(q, p, m, i == 0, 1)
								for ai := range q.attrs {
									qa := &q.attrs[ai]
									if g := valsOf(qa).good; !qa.isName && len(g) > 0 && kindOf(qa.field.Type()) == reflect.String && w.converterFor(ip0, qa.field.Type()) == nil {
										m[p+"."+qa.name] = fmt.Sprintf("%s-%d", g[0], i)
									}
								}
							}
						})
					}
					add(fmt.Sprintf("element list %s with entry [1] of an unknown type", e.kind), func(m map[string]string) {
						clear(m)
						minimal(q, at+"[0]", m, false, 1)
						minimal(q, at+"[1]", m, false, 1)
						m[at+"[1].type"] = "NoSuchPluginType"
					})
				}
			}
		}
	}
	r.Count("config_cases", len(cases))
	t0 := time.Now()
	for _, cs := range cases {
		if oodWhy != "" {
			break
		}
		want, why := w.resolve(ip0, plugins, cs.pl, "x.inst", normalise(cs.cfg), 0)
		obj, out := create(ip0, cs.pl, cs.cfg)
		switch {
		case out == "ood":
		case out != "ok" && out != "error":
			fail("%s: creation ends with %s (configuration %v)", cs.what, out, cs.cfg)
		case want == nil && out == "ok":
			fail("%s: created although %s (configuration %v)", cs.what, why, cs.cfg)
		case want != nil && out == "error":
			fail("%s: creation fails although the configuration is complete and well-typed (%v)", cs.what, cs.cfg)
		case want != nil:
			if d := w.same(obj, want, cs.pl.name); d != "" {
				fail("%s: %s (configuration %v)", cs.what, d, cs.cfg)
			}
		default:
			errs++
		}
	}
	r.Count("config_creations", runs)
	if absDebug {
		fmt.Fprintf(os.Stderr, "config: %d creations in %v\n", runs, time.Since(t0))
	}
	t0 = time.Now()
	// Refresh: every registered logger × appender type from a minimal configuration, and ill-formed ones
	nRefresh := 0
	if oodWhy == "" {
		var loggers, appenders []*cfgPlugin
		for i := range plugins {
			switch plugins[i].kind {
			case "logger":
				loggers = append(loggers, &plugins[i])
			case "appender":
				appenders = append(appenders, &plugins[i])
			}
		}
		var lastIP *Interp
		refresh := func(cfg map[string]string) string {
			ip, _ := w.interp()
			lastIP = ip
			nRefresh++
			// with tasks and channels: workers a logger starts are parked tasks, and a Refresh that waits for something
			// that never comes (a Stop of a logger that was never started, …) shows as a task that does not finish
			ip.OnGo = nil
			sched := ip.NewSched()
			defer sched.Kill()
			var res AV
			main := sched.Spawn("Refresh", func() { res = ip.call(w.refresh, []AV{mapOf(cfg)}, nil) })
			state := sched.Step(main)
			for n := 0; n < 20 && state != "done"; n++ {
				// let everything else run; if Refresh is still parked afterwards nothing will ever wake it
				var others []*Task
				for _, t := range sched.Tasks {
					if t != main {
						others = append(others, t)
					}
				}
				sched.RunUntilQuiet(others, 50)
				before := ip.Steps
				state = sched.Step(main)
				if state != "done" && ip.Steps-before < 3 {
					break
				}
			}
			if main.Err != nil {
				if e, isOOD := main.Err.(oodError); isOOD {
					oodWhy = e.Error()
					return "ood"
				}
				return fmt.Sprint(main.Err)
			}
			if state != "done" {
				return "never returns (" + main.Why + ")"
			}
			if isNilAV(res) {
				return "ok"
			}
			return "error"
		}
		hasRefs := func(lg *cfgPlugin) bool {
			for _, e := range lg.elems {
				if strings.EqualFold(e.kind, "appenderRef") {
					return true
				}
			}
			return false
		}
		mk := func(lg, ap *cfgPlugin, lname string) map[string]string {
			cfg := map[string]string{}
			minimal(ap, "appender.a1", cfg, false, 0)
			cfg["appender.a1.type"] = ap.name
			m2 := map[string]string{}
			minimal(lg, "logger."+lname, m2, false, 0)
			for k, v := range m2 {
				if !strings.Contains(k, "ppenderRef") {
					cfg[k] = v
				}
			}
			cfg["logger."+lname+".type"] = lg.name
			if lname != "root" {
				cfg["logger."+lname+".tags"] = "_app_*"
			}
			if hasRefs(lg) {
				cfg["logger."+lname+".appenderRef[0].ref"] = "a1"
			}
			return cfg
		}
		for _, lg := range loggers {
			for _, ap := range appenders {
				if oodWhy != "" {
					break
				}
				for _, lname := range []string{"l1", "root"} {
					cfg := mk(lg, ap, lname)
					if out := refresh(cfg); out != "ok" && out != "ood" {
						fail("Refresh with a minimal configuration of logger type %s (as %s) and appender type %s: %s (%v)", lg.name, lname, ap.name, out, cfg)
					}
				}
			}
			// "every appender of the logger": two references to two appenders, the first with a range disjoint from the
			// logger's own (no event can take it — a raw write must). After Refresh every declared appender must still be
			// reachable from the created logger (whatever structure holds it): one that is not can receive nothing.
			if oodWhy == "" && hasRefs(lg) && len(appenders) > 0 {
				ap := appenders[0]
				cfg := mk(lg, ap, "l1")
				for k, v := range cfg {
					if strings.HasPrefix(k, "appender.a1.") {
						cfg["appender.a2."+strings.TrimPrefix(k, "appender.a1.")] = v
					}
				}
				cfg["logger.l1.level"] = "warn"
				cfg["logger.l1.appenderRef[0].ref"] = "a1"
				cfg["logger.l1.appenderRef[0].level"] = "debug~info"
				cfg["logger.l1.appenderRef[1].ref"] = "a2"
				if out := refresh(cfg); out == "ok" {
					if miss, why := w.unreachableAppenders(lastIP, lg.T); why != "" {
						r.Inconclusive(key+"#refs-kept:"+lg.name, "%s", why)
					} else if miss > 0 {
						fail("Refresh of logger type %s (level warn) with references a1 (debug~info) and a2: %d of the 2 declared appenders is no longer reachable from the created logger — a raw Write through the logger cannot reach it (%v)", lg.name, miss, cfg)
					}
				} else if out != "ood" {
					fail("Refresh of logger type %s with two appender references, the first with a range disjoint from the logger's: %s (%v)", lg.name, out, cfg)
				}
			}
			// the same logger written inline in snake_case
			if oodWhy == "" && len(appenders) > 0 {
				cfg := mk(lg, appenders[0], "l1")
				sub := map[string]string{}
				for k, v := range cfg {
					if strings.HasPrefix(k, "logger.l1.") {
						sub[snake(strings.TrimPrefix(k, "logger.l1."))] = v
						delete(cfg, k)
					}
				}
				cfg["logger.l1!"] = inlineValue(sub)
				if out := refresh(cfg); out != "ok" && out != "ood" {
					fail("Refresh with logger type %s written as an inline expression with snake_case keys: %s (%v)", lg.name, out, cfg)
				}
			}
		}
		// every attribute value of the creation sweep, through Refresh (creation, reference resolution and start-up):
		// a well-typed value gives nil or an error, a non-converting one an error — never a panic
		sweep := func(pl *cfgPlugin, prefix string, cfg func() map[string]string) {
			for ai := range pl.attrs {
				a := &pl.attrs[ai]
				if a.isName || oodWhy != "" {
					continue
				}
				if r.Tier != "thorough" && kindOf(a.field.Type()) == reflect.String && w.converterFor(ip0, a.field.Type()) == nil {
					continue
				}
				av := valsOf(a)
				for _, v := range av.good {
					m := cfg()
					m[prefix+"."+a.name] = v
					if out := refresh(m); out != "ok" && out != "error" && out != "ood" {
						fail("Refresh with %s %s attribute %s = %q: %s (%v)", pl.kind, pl.name, a.name, v, out, m)
					}
				}
				for _, v := range av.ill {
					m := cfg()
					m[prefix+"."+a.name] = v
					if out := refresh(m); out != "error" && out != "ood" {
						fail("Refresh with %s %s attribute %s = %q, which does not convert: %s (%v)", pl.kind, pl.name, a.name, v, out, m)
					}
				}
			}
		}
		if len(appenders) > 0 && len(loggers) > 0 {
			for _, lg := range loggers {
				sweep(lg, "logger.l1", func() map[string]string { return mk(lg, appenders[0], "l1") })
			}
			var anyL *cfgPlugin
			for _, lg := range loggers {
				if hasRefs(lg) && anyL == nil {
					anyL = lg
				}
			}
			if anyL != nil {
				for _, ap := range appenders {
					sweep(ap, "appender.a1", func() map[string]string { return mk(anyL, ap, "l1") })
				}
			}
		}
		// ill-formed configurations: an error, never a panic
		if len(loggers) > 0 && len(appenders) > 0 && oodWhy == "" {
			var syncL *cfgPlugin
			for _, lg := range loggers {
				if hasRefs(lg) && syncL == nil {
					syncL = lg
				}
			}
			if syncL == nil {
				syncL = loggers[0]
			}
			good := mk(syncL, appenders[0], "l1")
			type mut struct {
				what string
				f    func(m map[string]string)
			}
			muts := []mut{
				{"an appender reference that names no appender", func(m map[string]string) { m["logger.l1.appenderRef[0].ref"] = "nope" }},
				{"a second appender reference that names no appender", func(m map[string]string) { m["logger.l1.appenderRef[1].ref"] = "nope" }},
				{"an unknown logger type", func(m map[string]string) { m["logger.l1.type"] = "NoSuchLogger" }},
				{"an unknown appender type", func(m map[string]string) { m["appender.a1.type"] = "NoSuchAppender" }},
				{"a logger without a type", func(m map[string]string) { delete(m, "logger.l1.type") }},
				{"an appender without a type", func(m map[string]string) { delete(m, "appender.a1.type") }},
				{"a level that is not a level", func(m map[string]string) { m["logger.l1.level"] = "loud" }},
				{"a reference level that is not a level", func(m map[string]string) { m["logger.l1.appenderRef[0].level"] = "info~loud" }},
				{"an unknown layout type", func(m map[string]string) { m["logger.l1.layout.type"] = "NoSuchLayout" }},
				{"an unknown layout type in the appender", func(m map[string]string) { m["appender.a1.layout.type"] = "NoSuchLayout" }},
				{"no appender reference in a logger that needs one", func(m map[string]string) { delete(m, "logger.l1.appenderRef[0].ref") }},
				{"an asynchronous logger whose buffer size is rejected at start-up, next to another asynchronous logger", func(m map[string]string) {
					for _, n := range []string{"la", "lb", "lc"} {
						m["logger."+n+".type"] = "AsyncLogger"
						m["logger."+n+".tags"] = "_" + n + "_*"
						m["logger."+n+".appenderRef[0].ref"] = "a1"
					}
					m["logger.lb.bufferSize"] = "10"
				}},
				{"a second logger that lists the same tag", func(m map[string]string) {
					for k, v := range cloneCfg(m) {
						if strings.HasPrefix(k, "logger.l1.") {
							m["logger.l2."+strings.TrimPrefix(k, "logger.l1.")] = v
						}
					}
				}},
				{"a second logger that lists the same tag, both given the same explicit name attribute", func(m map[string]string) {
					for k, v := range cloneCfg(m) {
						if strings.HasPrefix(k, "logger.l1.") {
							m["logger.l2."+strings.TrimPrefix(k, "logger.l1.")] = v
						}
					}
					m["logger.l1.name"], m["logger.l2.name"] = "twin", "twin"
				}},
				{"no appenders at all", func(m map[string]string) {
					for k := range m {
						if strings.HasPrefix(k, "appender.") {
							delete(m, k)
						}
					}
				}},
				{"an empty map", func(m map[string]string) {
					for k := range m {
						delete(m, k)
					}
				}},
			}
			// a type name of the other plugin kind, in several spellings
			isName := func(ps []*cfgPlugin, n string) bool {
				for _, p := range ps {
					if p.name == n {
						return true
					}
				}
				return false
			}
			for _, ap := range appenders {
				for _, sp := range []func(string) string{func(s string) string { return s }, strings.ToLower, strings.ToUpper} {
					if n := sp(ap.name); !isName(loggers, n) {
						muts = append(muts, mut{fmt.Sprintf("logger type %q, which names no logger type (an appender type is spelled %q)", n, ap.name), func(m map[string]string) { m["logger.l1.type"] = n }})
					}
				}
			}
			for _, lg := range loggers {
				for _, sp := range []func(string) string{func(s string) string { return s }, strings.ToLower} {
					if n := sp(lg.name); !isName(appenders, n) {
						muts = append(muts, mut{fmt.Sprintf("appender type %q, which names no appender type", n), func(m map[string]string) { m["appender.a1.type"] = n }})
					}
				}
			}
			for i := range plugins {
				if q := &plugins[i]; q.kind != "logger" && q.kind != "appender" {
					muts = append(muts, mut{fmt.Sprintf("logger type %q, which is a %s type", q.name, q.kind), func(m map[string]string) { m["logger.l1.type"] = q.name }})
					muts = append(muts, mut{fmt.Sprintf("appender type %q, which is a %s type", q.name, q.kind), func(m map[string]string) { m["appender.a1.type"] = q.name }})
				}
			}
			for _, mu := range muts {
				if oodWhy != "" {
					break
				}
				cfg := cloneCfg(good)
				mu.f(cfg)
				if out := refresh(cfg); out != "error" && out != "ood" {
					fail("Refresh of a configuration with %s ends with %q (want an error, never a panic)", mu.what, out)
				}
			}
		}
	}
	r.Count("config_refreshes", nRefresh)
	if absDebug {
		fmt.Fprintf(os.Stderr, "config: %d refreshes in %v\n", nRefresh, time.Since(t0))
	}
	switch {
	case oodWhy != "":
		r.Inconclusive(key, "%s", oodWhy)
	case len(bad) > 0:
		r.Fail(key, c.pos(w.newPlug.Pos()), "%d of %d evaluated configurations disagree with the statement, e.g. %s", nBad, len(cases)+nRefresh, strings.Join(bad, "; "))
	default:
		okAll = true
		var names []string
		for _, pl := range plugins {
			names = append(names, pl.kind+":"+pl.name)
		}
		r.OK(key, "%d registered plugin types %v: %d configurations created through toStorage + NewPlugin and compared field by field, element by element, with the statement's reference resolution (%d of them must fail and do): configured values incl. 64-bit boundaries and the strings {} [] <nil>, kebab/snake/inline spellings, declared defaults, missing required attributes, keys below an attribute name, non-converting values, ${} substitution present/absent/spelled/non-converting/naming a section or a list instead of a property, elements left out / unknown / every registered type / inline / indexed lists of 1–3; %d Refresh evaluations (every logger type × appender type as a tagged logger and as root, inline loggers, %s) — nothing panics", len(plugins), names, len(cases), errs, nRefresh, "dangling references, unknown and cross-kind type names in three spellings, missing types, bad levels")
	}
	return okAll
}

// checkCamelSemantics evaluates the key normaliser: on every string of length ≤ 4 over a 9-symbol boundary alphabet
// (and the empty string) it returns without a run-time panic; on well-formed keys (1–3 dot-separated segments of
// 1–3 words, optionally indexed or ending in '!', words covering every letter a–z) the camelCase, kebab-case and
// snake_case spellings normalise to the camelCase spelling itself.
func (c *Ctx) checkCamelSemantics(r *Report, rule string) bool {
	fn := c.names().CamelFn
	key := rule + ":normaliser"
	if fn == nil {
		r.Inconclusive(key, "key normaliser not found")
		return false
	}
	key = rule + ":" + fname(fn)
	ip := newInterp(c)
	ip.MaxSteps = 200000
	run := func(s string) (string, string) {
		ip.Steps = 0
		res, err := ip.Run(fn, []AV{kStr(s)}, nil)
		if err != nil {
			if _, isOOD := err.(oodError); isOOD {
				return "", "ood: " + err.Error()
			}
			return "", err.Error()
		}
		k, ok := res.(constant.Value)
		if !ok || k.Kind() != constant.String {
			return "", "ood: result " + avString(res)
		}
		return constant.StringVal(k), ""
	}
	var bad []string
	n := 0
	alphabet := []byte("azAZ.-_9!")
	var gen func(prefix []byte, left int) bool
	gen = func(prefix []byte, left int) bool {
		n++
		if _, why := run(string(prefix)); why != "" {
			if strings.HasPrefix(why, "ood") {
				r.Inconclusive(key, "%s", why)
				return false
			}
			if len(bad) < 4 {
				bad = append(bad, fmt.Sprintf("%q: %s", string(prefix), why))
			}
		}
		if left == 0 {
			return true
		}
		for _, ch := range alphabet {
			if !gen(append(prefix, ch), left-1) {
				return false
			}
		}
		return true
	}
	if !gen(nil, 4) {
		return false
	}
	// well-formed keys
	words := []string{"a", "file", "name", "x9", "buffer", "qjkvwz", "dgmpty", "chlosu", "b", "e", "i", "r"}
	var segs []string
	up := func(w string) string { return strings.ToUpper(w[:1]) + w[1:] }
	for i, w1 := range words {
		segs = append(segs, w1)
		w2 := words[(i+3)%len(words)]
		segs = append(segs, w1+up(w2))
		segs = append(segs, w1+up(w2)+up(words[(i+5)%len(words)]))
	}
	var keys []string
	for i, s1 := range segs {
		keys = append(keys, s1, s1+"!", s1+"[0]", s1+"."+segs[(i+7)%len(segs)], s1+"[12]."+segs[(i+1)%len(segs)]+"."+segs[(i+2)%len(segs)], s1+"."+segs[(i+4)%len(segs)]+"!")
	}
	for _, k := range keys {
		for _, sp := range []struct {
			n string
			f func(string) string
		}{{"camelCase", func(s string) string { return s }}, {"kebab-case", kebab}, {"snake_case", snake}} {
			n++
			got, why := run(sp.f(k))
			if strings.HasPrefix(why, "ood") {
				r.Inconclusive(key, "%s", why)
				return false
			}
			if why != "" || got != k {
				if len(bad) < 4 {
					bad = append(bad, fmt.Sprintf("%s spelling %q normalises to %q%s, want %q", sp.n, sp.f(k), got, why, k))
				}
			}
		}
	}
	r.Count("camel_evaluations", n)
	if len(bad) > 0 {
		r.Fail(key, c.pos(fn.Pos()), "%s", strings.Join(bad, "; "))
		return false
	}
	r.OK(key, "%d evaluations: total (no run-time panic) on every string of length ≤ 4 over %q; camelCase, kebab-case and snake_case spellings of %d well-formed keys (1–3 segments of 1–3 words, indexed, inline '!') normalise to the camelCase spelling", n, string(alphabet), len(keys))
	return true
}


// unreachableAppenders: after a Refresh in ip, how many of the appenders held in the package's appender list cannot be
// reached from the created logger of struct type T (object graph walk: pointers, fields, slices within their bounds,
// interfaces, maps, closures). why != "" when the lists cannot be identified.
func (w *cfgWorld) unreachableAppenders(ip *Interp, T types.Type) (int, string) {
	leaf := map[string]bool{}
	for _, a := range w.ro.LeafAppenders {
		leaf[a.Obj().Name()] = true
	}
	var loggerObjs, appenderObjs []*Obj
	ifaceSlice := func(v AV) []AV {
		sv, ok := v.(*SliceV)
		if !ok || sv.B == nil {
			return nil
		}
		var out []AV
		for i := sv.Lo; i < sv.Hi && i < len(sv.B.cells); i++ {
			out = append(out, sv.B.cells[i].V)
		}
		return out
	}
	for g, o := range ip.Globals {
		if g.Pkg != w.c.LogS || o == nil {
			continue
		}
		st, ok := o.V.(*StructV)
		if !ok {
			continue
		}
		for _, f := range st.F {
			for _, e := range ifaceSlice(f) {
				iv, ok := e.(*IfaceV)
				if !ok {
					continue
				}
				pt, ok := iv.T.(*types.Pointer)
				p, ok2 := iv.V.(*Ptr)
				if !ok || !ok2 || p.O == nil {
					continue
				}
				switch {
				case types.Identical(pt.Elem(), T):
					loggerObjs = append(loggerObjs, p.O)
				default:
					if nt, ok := pt.Elem().(*types.Named); ok && leaf[nt.Obj().Name()] {
						appenderObjs = append(appenderObjs, p.O)
					}
				}
			}
		}
	}
	if len(loggerObjs) == 0 || len(appenderObjs) < 2 {
		return 0, fmt.Sprintf("cannot identify the created logger and its two appenders in the package state after Refresh (%d loggers of type %s, %d appenders found)", len(loggerObjs), rtypeString(T), len(appenderObjs))
	}
	seen := map[*Obj]bool{}
	var walk func(v AV, depth int)
	walk = func(v AV, depth int) {
		if depth > 40 {
			return
		}
		switch x := v.(type) {
		case *Ptr:
			if x.O != nil && !seen[x.O] {
				seen[x.O] = true
				walk(x.O.V, depth+1)
			}
		case *StructV:
			for _, f := range x.F {
				walk(f, depth+1)
			}
		case *ArrV:
			for _, c := range x.C {
				if c != nil && !seen[c] {
					seen[c] = true
					walk(c.V, depth+1)
				}
			}
		case *SliceV:
			if x.B != nil {
				for i := x.Lo; i < x.Hi && i < len(x.B.cells); i++ {
					walk(x.B.cells[i].V, depth+1)
				}
			}
		case *IfaceV:
			walk(x.V, depth+1)
		case *MapV:
			for _, e := range x.M {
				walk(e, depth+1)
			}
		case *Closure:
			for _, f := range x.Free {
				walk(f, depth+1)
			}
		case TupleV:
			for _, f := range x {
				walk(f, depth+1)
			}
		}
	}
	for _, lo := range loggerObjs {
		seen[lo] = true
		walk(lo.V, 0)
	}
	miss := 0
	for _, ao := range appenderObjs {
		if !seen[ao] {
			miss++
		}
	}
	return miss, ""
}
