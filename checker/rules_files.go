package main

// rules_files.go: C13 (rolling appender), C14 (retention), C19 (failed rotation), C20 (write-through).

import (
	"fmt"
	"go/constant"
	"go/token"
	"go/types"
	"regexp"
	"strings"

	"golang.org/x/tools/go/ssa"
)

func init() {
	register("C13", checkC13)
	register("C14", checkC14)
	register("C19", checkC19)
	register("C20", checkC20)
}

const producerLayout = "20060102150405"

// osConst returns the value of os.<name> for the loaded platform.
func (c *Ctx) osConst(name string) (int64, bool) {
	for _, p := range c.Prog.AllPackages() {
		if p.Pkg.Path() == "os" {
			if nc, ok := p.Members[name].(*ssa.NamedConst); ok {
				return constant.Int64Val(nc.Value.Value)
			}
		}
	}
	return 0, false
}

type openSite struct {
	Call ssa.CallInstruction
	Fn   *ssa.Function
}

func (c *Ctx) openFileSites() []openSite {
	var out []openSite
	for _, f := range c.Funcs {
		eachInstr(f, func(in ssa.Instruction) {
			if ci, ok := in.(ssa.CallInstruction); ok {
				if calleeIs(ci, "os", "", "OpenFile") || calleeIs(ci, "os", "", "Create") || calleeIs(ci, "os", "", "Open") {
					out = append(out, openSite{ci, f})
				}
			}
		})
	}
	return out
}

// openedOnlyForReading: every use of the *os.File an os.Open call returns is a read-side method call on it (or a nil
// test); it is not stored, returned, captured or passed on.
func openedOnlyForReading(ci ssa.CallInstruction) bool {
	v := ci.Value()
	if v == nil {
		return false
	}
	readSide := map[string]bool{"ReadDir": true, "Readdir": true, "Readdirnames": true, "Read": true, "ReadAt": true, "Close": true, "Stat": true, "Name": true, "Seek": true}
	var okUse func(x ssa.Value, depth int) bool
	var okCell func(cell ssa.Value, depth int) bool
	okCell = func(cell ssa.Value, depth int) bool {
		refs := cell.Referrers()
		if refs == nil || depth > 8 {
			return false
		}
		for _, u := range *refs {
			switch u := u.(type) {
			case *ssa.DebugRef:
			case *ssa.Store:
				if u.Addr != cell {
					return false
				}
			case *ssa.UnOp:
				if u.Op != token.MUL || !okUse(u, depth+1) {
					return false
				}
			case *ssa.MakeClosure:
				fn, _ := u.Fn.(*ssa.Function)
				if fn == nil {
					return false
				}
				for i, b := range u.Bindings {
					if b == cell && (i >= len(fn.FreeVars) || !okCell(fn.FreeVars[i], depth+1)) {
						return false
					}
				}
			case *ssa.Defer, *ssa.Go:
				return false
			default:
				return false
			}
		}
		return true
	}
	okUse = func(x ssa.Value, depth int) bool {
		refs := x.Referrers()
		if refs == nil || depth > 8 {
			return false
		}
		for _, u := range *refs {
			switch u := u.(type) {
			case *ssa.DebugRef:
			case *ssa.Extract:
				if u.Index == 0 && !okUse(u, depth+1) {
					return false
				}
			case *ssa.BinOp:
			case *ssa.Store:
				// kept in a local variable (captured by a deferred closure that closes it): every load of that variable,
				// here and in the closures that capture it, is again used on the read side only
				al, isLocal := u.Addr.(*ssa.Alloc)
				if u.Val != x || !isLocal || !okCell(al, depth+1) {
					return false
				}
			case ssa.CallInstruction:
				sc := u.Common().StaticCallee()
				if sc == nil || sc.Signature.Recv() == nil || len(u.Common().Args) == 0 || u.Common().Args[0] != x || !readSide[sc.Name()] {
					return false
				}
				if p, ok := sc.Signature.Recv().Type().(*types.Pointer); !ok || !isNamed(p.Elem(), "os", "File") {
					return false
				}
			default:
				return false
			}
		}
		return true
	}
	return okUse(v, 0)
}

// checkOpenFlags is shared by C03.append-flag and C13.flags.
func checkOpenFlags(c *Ctx, r *Report, rule string) {
	sites := c.openFileSites()
	r.Floor("os.OpenFile sites", len(sites), 2)
	app, _ := c.osConst("O_APPEND")
	trunc, _ := c.osConst("O_TRUNC")
	creat, _ := c.osConst("O_CREATE")
	wr, _ := c.osConst("O_WRONLY")
	rdwr, _ := c.osConst("O_RDWR")
	for _, s := range sites {
		key := fmt.Sprintf("%s:%s→%s", rule, fname(s.Fn), s.Call.Common().StaticCallee().Name())
		r.SawFunc(s.Fn)
		r.Count("call_sites", 1)
		if s.Call.Common().StaticCallee().Name() == "Open" && openedOnlyForReading(s.Call) {
			r.OK(key, "opened read-only and used only to read (a directory listing or a file's contents), never stored, returned or handed on: not a log target")
			continue
		}
		if s.Call.Common().StaticCallee().Name() != "OpenFile" {
			r.Fail(key, c.instrPos(s.Call), "log target opened with os.%s (truncating or read-only) instead of OpenFile(O_CREATE|O_WRONLY|O_APPEND)", s.Call.Common().StaticCallee().Name())
			continue
		}
		fl, ok := constInt(s.Call.Common().Args[1])
		if !ok {
			r.Undecided(key, c.instrPos(s.Call), "open flags are not a compile-time constant")
			continue
		}
		var miss []string
		if fl&app == 0 {
			miss = append(miss, "O_APPEND missing")
		}
		if fl&trunc != 0 {
			miss = append(miss, "O_TRUNC set")
		}
		if fl&creat == 0 {
			miss = append(miss, "O_CREATE missing")
		}
		if fl&wr == 0 && fl&rdwr == 0 {
			miss = append(miss, "not opened for writing")
		}
		if len(miss) > 0 {
			r.Fail(key, c.instrPos(s.Call), "open flags %#x: %s", fl, strings.Join(miss, ", "))
		} else {
			r.OK(key, "flags %#x = O_CREATE|O_WRONLY|O_APPEND without O_TRUNC (platform constants of %s/%s)", fl, c.goos(), c.goarch())
		}
	}
}

func (c *Ctx) goos() string {
	if c.GOOS != "" {
		return c.GOOS
	}
	return "linux"
}
func (c *Ctx) goarch() string {
	if c.GOARCH != "" {
		return c.GOARCH
	}
	return "amd64"
}

// rollingType returns the leaf appender type that owns the rotation step.
func rollingType(ro *Roles) *types.Named {
	if ro.Rotation == nil {
		return nil
	}
	t := ro.Rotation.Signature.Recv().Type()
	if p, ok := t.(*types.Pointer); ok {
		t = p.Elem()
	}
	n, _ := t.(*types.Named)
	return n
}

// sinkWrites lists the calls in fn that hand bytes to the OS: (*os.File).Write*, io.Writer.Write.
func sinkWrites(fn *ssa.Function) []ssa.CallInstruction {
	var out []ssa.CallInstruction
	eachInstr(fn, func(in ssa.Instruction) {
		ci, ok := in.(ssa.CallInstruction)
		if !ok {
			return
		}
		if isSinkWrite(ci) {
			out = append(out, ci)
		}
	})
	return out
}

func isSinkWrite(ci ssa.CallInstruction) bool {
	com := ci.Common()
	if com.IsInvoke() {
		if com.Method.Name() == "Write" || com.Method.Name() == "WriteString" {
			if n, ok := com.Value.Type().(*types.Named); ok && n.Obj().Pkg() != nil && n.Obj().Pkg().Path() == "io" {
				return true
			}
		}
		return false
	}
	if f := com.StaticCallee(); f != nil {
		if funcIs(f, "os", "File", "Write") || funcIs(f, "os", "File", "WriteString") || funcIs(f, "os", "File", "WriteAt") {
			return true
		}
		if funcIs(f, "fmt", "", "Fprint") || funcIs(f, "fmt", "", "Fprintf") || funcIs(f, "fmt", "", "Fprintln") {
			return false // diagnostics to stderr, not a log sink
		}
	}
	return false
}

// ---------------------------------------------------------------------------
// C13

func checkC13(c *Ctx, r *Report) {
	r.Explanation = "decided (necessary structural conditions only): every log file is opened O_CREATE|O_WRONLY|O_APPEND without O_TRUNC; the rolling file name is FileDir/FileName+\".\"+<time formatted with the 14-digit layout> and the same clock reading feeds the interval computation and the name; Write runs the rotation step before the single load of the current file and performs one sink write; stores to the file-holding fields in the rotation step are control-dependent on a successful compare-and-swap of the interval marker and the created file is published on the success path; state shared between writers is held in sync/atomic types. Not decided: loss-freedom / exactly-once under real interleavings and interval crossings."
	r.Undecidedcl = []string{"exactly-once landing under concurrent writers and interval boundaries (schedule property)", "a write after a boundary goes to the new file (needs clock values)"}
	r.Assumptions = []string{"O_APPEND semantics of the OS", "time.Time.Format/Truncate contracts"}
	ro := c.roles(r)
	fileAppenderDecisions(r, c.checkFileAppenderSemantics(r, ro, "C13.file-values"))
	checkOpenFlags(c, r, "C13.flags")
	rt := rollingType(ro)
	if rt == nil || ro.Rotation == nil {
		r.Undecided("C13.anchor:rotation-step", "", "no rotation step found (a leaf appender method other than Start/Stop that writes a file-holding field)")
		return
	}
	r.SawFunc(ro.Rotation)

	// C13.name — provenance of the OpenFile path in functions of the rolling type
	var creators []openSite
	for _, s := range c.openFileSites() {
		if recvNamed(s.Fn) == rt {
			creators = append(creators, s)
		}
	}
	if len(creators) == 0 {
		r.Undecided("C13.name:"+rt.Obj().Name(), "", "no os.OpenFile in a method of the rolling appender")
	}
	for _, s := range creators {
		// evaluate the path for every in-module call site of the creating function (context)
		sites := c.callSitesOf(s.Fn)
		if len(sites) == 0 {
			c.checkRollingName(r, s, nil)
		}
		for _, cs := range sites {
			c.checkRollingName(r, s, cs)
		}
	}

	// C13.rotate-first
	wr := c.declaredMethod(rt, "Write")
	if wr == nil {
		r.Undecided("C13.rotate-first:"+rt.Obj().Name(), "", "no Write method")
	} else {
		r.SawFunc(wr)
		key := "C13.rotate-first:" + fname(wr)
		var rotCalls, loads []ssa.Instruction
		cur := currentFileField(c, ro)
		eachInstr(wr, func(in ssa.Instruction) {
			if ci, ok := in.(ssa.CallInstruction); ok {
				if ci.Common().StaticCallee() == ro.Rotation {
					rotCalls = append(rotCalls, in)
				}
				if f := ci.Common().StaticCallee(); f != nil && f.Name() == "Load" && len(ci.Common().Args) > 0 {
					if fa, ok := ci.Common().Args[0].(*ssa.FieldAddr); ok && fieldOfAddr(fa) == cur {
						loads = append(loads, in)
					}
				}
			}
			if ld, ok := in.(*ssa.UnOp); ok && ld.Op == token.MUL {
				if fa, ok := ld.X.(*ssa.FieldAddr); ok && fieldOfAddr(fa) == cur {
					loads = append(loads, in)
				}
			}
		})
		sw := sinkWrites(wr)
		switch {
		case cur == nil:
			r.Undecided(key, c.pos(wr.Pos()), "cannot identify the current-file field")
		case len(rotCalls) == 0:
			r.Fail(key, c.pos(wr.Pos()), "Write does not call the rotation step %s", fname(ro.Rotation))
		case len(loads) != 1:
			r.Fail(key, c.pos(wr.Pos()), "expected exactly one load of the current file %s per Write, found %d (two loads can observe two different files)", cur.Name(), len(loads))
		case !instrDominates(rotCalls[0], loads[0]):
			r.Fail(key, c.instrPos(loads[0]), "the current file is loaded before the rotation step ran (a write after an interval boundary would go to the previous file)")
		case len(sw) != 1:
			r.Fail(key, c.pos(wr.Pos()), "expected exactly one sink write in Write, found %d", len(sw))
		default:
			r.OK(key, "rotation step %s dominates the single load of %s; one sink write", fname(ro.Rotation), cur.Name())
		}
	}

	// C13.cas
	c.checkCAS(r, ro, rt)
	// C13.boundary
	c.checkBoundary(r, ro)

	// C13.atomic — unexported state fields of the rolling type are sync/atomic types
	st := rt.Underlying().(*types.Struct)
	nstate := 0
	for i := 0; i < st.NumFields(); i++ {
		f := st.Field(i)
		tag := st.Tag(i)
		if f.Embedded() || strings.Contains(tag, "PluginAttribute") || strings.Contains(tag, "PluginElement") {
			continue
		}
		nstate++
		key := "C13.atomic:" + rt.Obj().Name() + "." + f.Name()
		if n, ok := f.Type().(*types.Named); ok && n.Obj().Pkg() != nil && n.Obj().Pkg().Path() == "sync/atomic" {
			r.OK(key, "run-time state field has type %s", types.TypeString(f.Type(), shortQual))
		} else if n, ok := f.Type().(*types.Named); ok && n.Obj().Pkg() != nil && n.Obj().Pkg().Path() == "sync" {
			r.OK(key, "run-time state field is a sync primitive %s", types.TypeString(f.Type(), shortQual))
		} else {
			r.Fail(key, c.pos(f.Pos()), "run-time state field of type %s is shared between concurrent writers without an atomic type", types.TypeString(f.Type(), shortQual))
		}
	}
	r.Floor("rolling appender state fields", nstate, 3)
	// "every write lands whole in exactly one file": a writer may still hold the file rotated out a moment ago, so
	// the rotation step may close only a file that was handed over at an earlier rotation (shared with C05.fd-bound)
	r.include("C13.handover/", "file-ownership", func(sub *Report) { c.checkFdBound(sub, ro) })
}

func recvNamed(f *ssa.Function) *types.Named {
	if f == nil || f.Signature.Recv() == nil {
		return nil
	}
	t := f.Signature.Recv().Type()
	if p, ok := t.(*types.Pointer); ok {
		t = p.Elem()
	}
	n, _ := t.(*types.Named)
	return n
}

// currentFileField: the file-holding field of the rolling type that Write loads from
// (the one whose value is used as receiver of the sink write).
func currentFileField(c *Ctx, ro *Roles) *types.Var {
	rt := rollingType(ro)
	if rt == nil {
		return nil
	}
	wr := c.declaredMethod(rt, "Write")
	if wr == nil {
		return nil
	}
	var out *types.Var
	for _, sw := range sinkWrites(wr) {
		if len(sw.Common().Args) == 0 {
			continue
		}
		// receiver of (*os.File).Write: result of <field>.Load() or load of field
		recv := sw.Common().Args[0]
		switch x := recv.(type) {
		case *ssa.Call:
			if len(x.Call.Args) > 0 {
				if fa, ok := x.Call.Args[0].(*ssa.FieldAddr); ok && isFileHolder(fieldOfAddr(fa).Type()) {
					out = fieldOfAddr(fa)
				}
			}
		case *ssa.UnOp:
			if fa, ok := x.X.(*ssa.FieldAddr); ok && isFileHolder(fieldOfAddr(fa).Type()) {
				out = fieldOfAddr(fa)
			}
		}
	}
	return out
}

func (c *Ctx) checkRollingName(r *Report, s openSite, site ssa.CallInstruction) {
	var fr *Frame
	ctxName := "direct"
	if site != nil {
		fr = &Frame{Fn: s.Fn, Site: site, Parent: &Frame{Fn: site.Parent()}, Depth: 1}
		ctxName = fname(site.Parent())
		r.SawFunc(site.Parent())
	} else {
		fr = &Frame{Fn: s.Fn}
	}
	r.SawFunc(s.Fn)
	key := fmt.Sprintf("C13.name:%s@%s", fname(s.Fn), ctxName)
	p := c.prov(s.Call.Common().Args[0], fr)
	r.Count("provenance_trees", 1)
	join := p.eff()
	if !join.isCall("filepath.Join") && !(join.Kind == "concat") {
		r.Undecided(key, c.instrPos(s.Call), "file path is not built by filepath.Join or concatenation: %s", p)
		return
	}
	// collect leaves in order
	var parts []*PNode
	var flat func(n *PNode)
	flat = func(n *PNode) {
		n = n.eff()
		if n.isCall("filepath.Join") {
			for i, a := range n.Args {
				if i > 0 {
					parts = append(parts, &PNode{Kind: "const", Const: constant.MakeString("/")})
				}
				// variadic slice: args appear as a slice literal; prov gives the alloc — handle below
				flat(a)
			}
			return
		}
		if n.Kind == "concat" {
			for _, a := range n.Args {
				flat(a)
			}
			return
		}
		// fmt.Sprintf with a constant format of literal text and %s/%v verbs is a concatenation
		if n.isCall("fmt.Sprintf") {
			if call, ok := n.V.(*ssa.Call); ok && len(call.Call.Args) == 2 {
				if format, ok := constString(call.Call.Args[0]); ok {
					if lits, okf := splitStringFormat(format); okf {
						if elems := variadicElems(call.Call.Args[1], c, n.Fr); len(elems) == len(lits)-1 && allStrings(elems) {
							for i, l := range lits {
								if l != "" {
									parts = append(parts, &PNode{Kind: "const", Const: constant.MakeString(l)})
								}
								if i < len(elems) {
									flat(elems[i])
								}
							}
							return
						}
					}
				}
			}
		}
		parts = append(parts, n)
	}
	flat(join)
	// variadic Join: the argument is a slice of a local array; recover elements from stores
	if join.isCall("filepath.Join") && len(join.Args) == 1 {
		parts = nil
		elems := variadicElems(s.Call.Common().Args[0], c, fr)
		if jc, ok := join.V.(*ssa.Call); ok {
			elems = variadicElems(jc.Call.Args[0], c, fr)
		}
		for i, e := range elems {
			if i > 0 {
				parts = append(parts, &PNode{Kind: "const", Const: constant.MakeString("/")})
			}
			flat(e)
		}
	}
	var shape []string
	var timeNode *PNode
	for _, q := range parts {
		if s, ok := q.constString(); ok {
			shape = append(shape, fmt.Sprintf("%q", s))
			continue
		}
		if q.Kind == "path" {
			shape = append(shape, q.Name[strings.LastIndex(q.Name, ".")+1:])
			continue
		}
		if tn := q.find(func(n *PNode) bool { return n.isCall("(time.Time).Format") }); tn != nil {
			shape = append(shape, "time.Format")
			timeNode = tn
			continue
		}
		shape = append(shape, "?"+q.String())
	}
	got := strings.Join(shape, " ")
	want := `FileDir "/" FileName "." time.Format`
	if got != want {
		r.Fail(key, c.instrPos(s.Call), "file name shape is [%s], expected [%s] (files must be named <name>.<yyyyMMddHHmmss> in the configured directory)", got, want)
		return
	}
	lay, ok := timeNode.Args[1].constString()
	if !ok || lay != producerLayout {
		r.Fail(key, c.instrPos(s.Call), "timestamp layout is %s, expected the 14-digit layout %q", timeNode.Args[1], producerLayout)
		return
	}
	// the formatted time value and the interval computation use the same clock reading
	tv := timeNode.Args[0]
	if !tv.eff().isCall("time.Now") {
		r.Fail(key, c.instrPos(s.Call), "the time in the file name is not a direct clock reading: %s", tv)
		return
	}
	nowV := tv.eff().V
	// in the context function, find the interval computation: a call whose provenance contains (time.Time).Truncate / Unix on a time value
	ctxFn := s.Fn
	if site != nil {
		ctxFn = site.Parent()
	}
	sameClock, otherClock := 0, 0
	eachInstr(ctxFn, func(in ssa.Instruction) {
		call, ok := in.(*ssa.Call)
		if !ok {
			return
		}
		f := call.Common().StaticCallee()
		if f == nil || !c.inModule(f) {
			return
		}
		// interval function: in-module function whose single return derives from Truncate
		pp := c.prov(call, &Frame{Fn: ctxFn})
		if pp.Inl == nil {
			return
		}
		if tr := pp.Inl.find(func(n *PNode) bool { return n.isCall("(time.Time).Truncate") }); tr != nil {
			src := tr.Args[0].eff()
			if src.V == nowV {
				sameClock++
			} else {
				otherClock++
			}
		}
	})
	if sameClock == 0 || otherClock > 0 {
		r.Fail(key, c.instrPos(s.Call), "interval computation and file name do not use the same clock reading (same=%d, other=%d): a file could be named after a time outside its interval", sameClock, otherClock)
		return
	}
	r.OK(key, "path = [%s], layout %q, one time.Now() feeds both the interval (%d use) and the name", got, lay, sameClock)
}

// variadicElems recovers the elements of a variadic argument slice built by go/ssa
// (new [n]T; stores to &t[i]; slice t[:]).
// splitStringFormat splits a format made only of literal text, %% and plain %s / %v verbs at the verbs.
func splitStringFormat(f string) ([]string, bool) {
	var lits []string
	cur := ""
	for i := 0; i < len(f); i++ {
		if f[i] != '%' {
			cur += string(f[i])
			continue
		}
		if i+1 >= len(f) {
			return nil, false
		}
		switch f[i+1] {
		case '%':
			cur += "%"
		case 's', 'v':
			lits = append(lits, cur)
			cur = ""
		default:
			return nil, false
		}
		i++
	}
	return append(lits, cur), true
}

// allStrings: every operand is of string type (so %s and %v print it verbatim).
func allStrings(ns []*PNode) bool {
	for _, n := range ns {
		if n.V == nil || !isStringType(n.V.Type()) {
			return false
		}
	}
	return true
}

func variadicElems(v ssa.Value, c *Ctx, fr *Frame) []*PNode {
	sl, ok := v.(*ssa.Slice)
	if !ok {
		return nil
	}
	al, ok := sl.X.(*ssa.Alloc)
	if !ok {
		return nil
	}
	m := map[int64]*PNode{}
	max := int64(-1)
	if refs := al.Referrers(); refs != nil {
		for _, r := range *refs {
			ia, ok := r.(*ssa.IndexAddr)
			if !ok {
				continue
			}
			idx, ok := constInt(ia.Index)
			if !ok {
				continue
			}
			for _, st := range storesTo(ia) {
				m[idx] = c.prov(st.Val, fr)
				if idx > max {
					max = idx
				}
			}
		}
	}
	var out []*PNode
	for i := int64(0); i <= max; i++ {
		if m[i] == nil {
			return nil
		}
		out = append(out, m[i])
	}
	return out
}

func (c *Ctx) checkCAS(r *Report, ro *Roles, rt *types.Named) {
	fn := ro.Rotation
	key := "C13.cas:" + fname(fn)
	// find CompareAndSwap on an atomic integer field
	var cas *ssa.Call
	eachInstr(fn, func(in ssa.Instruction) {
		if call, ok := in.(*ssa.Call); ok {
			if f := call.Common().StaticCallee(); f != nil && strings.HasPrefix(f.Name(), "CompareAndSwap") {
				if f.Object() != nil && f.Object().Pkg() != nil && f.Object().Pkg().Path() == "sync/atomic" {
					// the interval marker is an integer; a compare-and-swap of a pointer (publishing a snapshot) is a write
					// to be guarded, not the guard
					if rv := f.Signature.Recv(); rv != nil && strings.Contains(rv.Type().String(), "Pointer[") {
						return
					}
					if strings.HasSuffix(f.Name(), "Pointer") {
						return
					}
					cas = call
				}
			}
		}
	})
	writes := c.fileFieldWrites(fn)
	if cas == nil {
		// the rotation step may be split into helpers (claim the interval, open, install): follow the call chains from
		// the appender's Write to every write of a file-holding field and collect the guards on the way
		if ok, n, why := c.casGuardsChains(rt); ok {
			r.OK(key, "%d call chain(s) from Write to a write of a file-holding field, each passing the true edge of a compare-and-swap on the interval marker (rotation split into helpers)", n)
			return
		} else if why != "" {
			r.Fail(key, c.pos(fn.Pos()), "%s", why)
			return
		}
		r.Fail(key, c.pos(fn.Pos()), "rotation step has no compare-and-swap on the interval marker: two writers crossing a boundary together would both rotate (double open, lost file handle)")
		return
	}
	bad := 0
	for _, w := range writes {
		ok := false
		// a store into a struct this function has just allocated (an immutable snapshot built before it is published)
		// is not a write to shared state; its publication is
		if st, isSt := w.Instr.(*ssa.Store); isSt {
			if fa, isFA := st.Addr.(*ssa.FieldAddr); isFA {
				if _, fresh := fa.X.(*ssa.Alloc); fresh {
					continue
				}
			}
		}
		for _, g := range guardsOfInstr(w.Instr) {
			if g.Cond == cas && g.Polarity {
				ok = true
			}
		}
		if !ok {
			bad++
			r.Fail(key+"→"+w.Field.Name()+"."+w.Op, c.instrPos(w.Instr), "write to file-holding field %s is not control-dependent on the successful compare-and-swap", w.Field.Name())
		}
	}
	// also the open itself must be under the CAS
	for _, s := range c.openFileSites() {
		_ = s
	}
	cur := currentFileField(c, ro)
	// publication: on the success path a store of the created file into the current-file field
	published := false
	for _, w := range writes {
		if w.Field == cur && (w.Op == "Store" || w.Op == "store" || w.Op == "Swap") && w.Val != nil {
			p := c.prov(w.Val, &Frame{Fn: fn})
			if p.find(func(n *PNode) bool {
				return n.isCall("os.OpenFile")
			}) != nil {
				// must be guarded by err == nil (i.e. not on the error path) and not by anything else after the CAS
				published = true
				// error path must not publish: guarded by an error comparison with polarity "nil"
				nilGuard := false
				for _, g := range guardsOfInstr(w.Instr) {
					if isErrNilTest(g) {
						nilGuard = true
					}
				}
				if !nilGuard {
					r.Fail(key+":publish", c.instrPos(w.Instr), "the new file is stored without a dominating err == nil test")
					bad++
				}
			}
		}
	}
	if !published {
		r.Fail(key+":publish", c.pos(fn.Pos()), "the rotation step never publishes the newly created file into %v", cur)
		bad++
	}
	if bad == 0 {
		r.OK(key, "%d file-field writes all on the true edge of %s; created file published under err == nil", len(writes), cas.Common().StaticCallee().Name())
	}
	r.Count("file_field_writes", len(writes))
}

// checkBoundary: the rotation step creates a new file iff the current interval is strictly later than the stored
// one (all three orderings of now's interval vs the stored interval), and the compare-and-swap moves the marker
// from the value that was read to the current interval.
func (c *Ctx) checkBoundary(r *Report, ro *Roles) {
	fn := ro.Rotation
	key := "C13.boundary:" + fname(fn)
	var nowV, oldV ssa.Value
	var cas *ssa.Call
	eachInstr(fn, func(in ssa.Instruction) {
		call, ok := in.(*ssa.Call)
		if !ok {
			return
		}
		s := call.Common().StaticCallee()
		if s == nil {
			return
		}
		if c.inModule(s) {
			p := c.prov(call, &Frame{Fn: fn})
			if p.Inl != nil && p.Inl.find(func(n *PNode) bool { return n.isCall("(time.Time).Truncate") }) != nil {
				nowV = call
			}
		}
		if s.Object() != nil && s.Object().Pkg() != nil && s.Object().Pkg().Path() == "sync/atomic" {
			if s.Name() == "Load" && oldV == nil && !isFileHolder(fieldTypeOfArg0(call)) {
				oldV = call
			}
			if strings.HasPrefix(s.Name(), "CompareAndSwap") {
				cas = call
			}
		}
	})
	if nowV == nil || oldV == nil {
		r.Undecided(key, c.pos(fn.Pos()), "cannot identify the current-interval value and the stored-interval load in the rotation step")
		return
	}
	var bad []string
	for _, pr := range [][2]int64{{0, 1}, {1, 1}, {2, 1}} {
		ts := &TS{C: c, Ev: &Evaluator{Assume: func(v ssa.Value, fr *Frame) (constant.Value, bool) {
			if v == nowV {
				return constant.MakeInt64(pr[0]), true
			}
			if v == oldV {
				return constant.MakeInt64(pr[1]), true
			}
			return nil, false
		}}}
		creates := false
		ts.OnInstr = func(s *TSCtx, in ssa.Instruction) []string {
			if ci, ok := in.(ssa.CallInstruction); ok && c.callOpensFile(ci) {
				creates = true
			}
			return nil
		}
		ts.Run(fn, "", nil)
		r.Count("typestate_states", ts.States)
		want := pr[0] > pr[1]
		if creates != want {
			bad = append(bad, fmt.Sprintf("interval(now)=%d stored=%d: creates a file=%v, want %v", pr[0], pr[1], creates, want))
		}
	}
	if cas != nil {
		args := cas.Call.Args
		if len(args) == 3 && (args[1] != oldV || args[2] != nowV) {
			bad = append(bad, "the compare-and-swap does not move the marker from the value that was read to the current interval")
		}
	}
	if len(bad) > 0 {
		r.Fail(key, c.pos(fn.Pos()), "%s", strings.Join(bad, "; "))
	} else {
		r.OK(key, "a new file is created iff the current interval is strictly later than the stored one (3 orderings); CAS(read value → current interval)")
	}
}

func fieldTypeOfArg0(call *ssa.Call) types.Type {
	if len(call.Call.Args) == 0 {
		return types.Typ[types.Invalid]
	}
	if fa, ok := call.Call.Args[0].(*ssa.FieldAddr); ok {
		return fieldOfAddr(fa).Type()
	}
	return types.Typ[types.Invalid]
}

// isErrNilTest: guard is `err == nil` taken true or `err != nil` taken false.
func isErrNilTest(g Guard) bool {
	b, ok := g.Cond.(*ssa.BinOp)
	if !ok {
		return false
	}
	isErr := func(v ssa.Value) bool {
		n, ok := v.Type().(*types.Named)
		return ok && n.Obj().Name() == "error" && n.Obj().Pkg() == nil
	}
	isNil := func(v ssa.Value) bool { k, ok := v.(*ssa.Const); return ok && k.Value == nil }
	if !((isErr(b.X) && isNil(b.Y)) || (isErr(b.Y) && isNil(b.X))) {
		return false
	}
	return (b.Op == token.EQL && g.Polarity) || (b.Op == token.NEQ && !g.Polarity)
}

// isErrNonNilTest: the edge on which err != nil.
func isErrNonNilTest(g Guard) bool {
	g.Polarity = !g.Polarity
	return isErrNilTest(g)
}

// ---------------------------------------------------------------------------
// C14

var destructiveOS = []string{"Remove", "RemoveAll", "Rename", "Truncate"}

type destructiveSite struct {
	Call ssa.CallInstruction
	Fn   *ssa.Function
	Name string
}

func (c *Ctx) destructiveSites() []destructiveSite {
	var out []destructiveSite
	for _, f := range c.Funcs {
		eachInstr(f, func(in ssa.Instruction) {
			ci, ok := in.(ssa.CallInstruction)
			if !ok {
				return
			}
			for _, n := range destructiveOS {
				if calleeIs(ci, "os", "", n) {
					out = append(out, destructiveSite{ci, f, "os." + n})
				}
			}
			if calleeIs(ci, "os", "File", "Truncate") {
				out = append(out, destructiveSite{ci, f, "(*os.File).Truncate"})
			}
			if calleeIs(ci, "syscall", "", "Unlink") || calleeIs(ci, "syscall", "", "Rename") {
				out = append(out, destructiveSite{ci, f, "syscall"})
			}
		})
	}
	return out
}

func checkC14(c *Ctx, r *Report) {
	r.Explanation = "decided: the only file-destroying calls in the module (os.Remove/RemoveAll/Rename/Truncate) are in the retention routine; the removal is dominated by a not-a-directory test, a prefix test on FileName+\".\" and a suffix-shape test tied to the producer's 14-digit timestamp format; the age test is equivalent to mtime < now − MaxAge·time.Hour; the removed path is FileDir joined with the tested entry's name. Not decided: the file system's mtime semantics, races with concurrent writers of the directory."
	r.Undecidedcl = []string{"directory populations and modification times are runtime data; only the guards dominating the removal are decided"}
	r.Assumptions = []string{"time.Parse(layout, s) succeeds only for strings in the layout's format", "os.DirEntry contract"}
	ro := c.roles(r)
	fileAppenderDecisions(r, c.checkFileAppenderSemantics(r, ro, "C14.file-values"))
	c.checkRollingLoggerSemantics(r, ro, "C14.rolling-values") // a start-up sweep must not remove the file being written
	if c.checkRetentionSemantics(r, ro, "C14.retention-values") {
		r.Decide([]string{"C14.age:", "C14.guards:", "C14.path:"}, nil, "the cleanup launched by a rotation evaluated over directory populations: the removed set equals the statement's")
	}
	sites := c.destructiveSites()
	if ro.Retention == nil {
		r.Undecided("C14.anchor:retention", "", "no function calling os.Remove found")
		return
	}
	ret := ro.Retention
	r.SawFunc(ret)
	nIn := 0
	for _, s := range sites {
		r.Count("call_sites", 1)
		if s.Fn == ret && (s.Name == "os.Remove") {
			nIn++
			continue
		}
		r.Fail(fmt.Sprintf("C14.only-here:%s→%s", fname(s.Fn), s.Name), c.instrPos(s.Call), "file-destroying call %s outside the retention routine's single guarded os.Remove", s.Name)
	}
	if nIn == 1 {
		r.OK("C14.only-here:"+fname(ret), "1 destructive call site in the module, inside the retention routine")
	} else {
		r.Fail("C14.only-here:"+fname(ret), c.pos(ret.Pos()), "%d os.Remove sites in the retention routine, expected exactly 1 (each needs its own guards)", nIn)
	}
	var rm ssa.CallInstruction
	for _, s := range sites {
		if s.Fn == ret && s.Name == "os.Remove" {
			rm = s.Call
		}
	}
	if rm == nil {
		return
	}
	// launched asynchronously only, from the rotation step; a synchronous sweep is a violation where it delays a log
	// call, i.e. in a function reachable from an Append/Write without crossing a go statement (a sweep at start-up is
	// not: what it may remove is decided by C14.rolling-values)
	hot := map[*ssa.Function]bool{}
	{
		var work []*ssa.Function
		for _, nt := range append(append([]*types.Named{}, ro.LeafAppenders...), ro.Loggers...) {
			for _, m := range []string{"Append", "Write"} {
				if f := c.declaredMethod(nt, m); f != nil && !hot[f] {
					hot[f] = true
					work = append(work, f)
				}
			}
		}
		for len(work) > 0 {
			f := work[len(work)-1]
			work = work[:len(work)-1]
			goT := map[*ssa.Function]bool{}
			eachInstr(f, func(in ssa.Instruction) {
				if t, ok := goStart(in); ok && t != nil {
					goT[t] = true
				}
			})
			for _, g := range c.moduleCallees(f) {
				if !hot[g] && !goT[g] {
					hot[g] = true
					work = append(work, g)
				}
			}
		}
	}
	for _, cs := range c.callSitesOf(ret) {
		if _, isGo := cs.(*ssa.Go); !isGo {
			if !hot[cs.Parent()] {
				r.OK("C14.async:"+fname(cs.Parent()), "a synchronous sweep in %s, which no Append/Write reaches without a go statement: it delays no log call", fname(cs.Parent()))
				continue
			}
			r.Fail("C14.async:"+fname(cs.Parent()), c.instrPos(cs), "retention runs synchronously on the log call path")
		} else {
			r.OK("C14.async:"+fname(cs.Parent()), "retention launched with go from %s", fname(cs.Parent()))
		}
	}

	fr := &Frame{Fn: ret}
	guards := c.expandGuards(guardsOfInstr(rm), fr, 0)
	r.Count("guards_examined", len(guards))
	var gdesc []string
	var haveDir, havePrefix, haveShape, haveAge, haveParse, haveLen bool
	var entryPath string
	var prefixNode *PNode
	pathArg := c.prov(rm.Common().Args[0], fr)
	for _, g := range guards {
		gfr := fr
		if g.Fr != nil {
			gfr = g.Fr
		}
		p := c.prov(g.Cond, gfr)
		gdesc = append(gdesc, fmt.Sprintf("%s=%v", p, g.Polarity))
		e := p.eff()
		switch {
		case e.Kind == "call" && e.Name == "invoke:IsDir" && !g.Polarity:
			haveDir = true
			entryPath = e.Args[0].String()
		case e.isCall("strings.HasPrefix") && g.Polarity:
			if c.isOwnPrefix(e.Args[1]) {
				havePrefix = true
				prefixNode = e.Args[0]
			}
		case e.Kind == "extract" && e.Name == "#1" && e.Args[0].eff().isCall("strings.CutPrefix") && g.Polarity:
			cp := e.Args[0].eff()
			if c.isOwnPrefix(cp.Args[1]) {
				havePrefix = true
				prefixNode = cp.Args[0]
			}
		}
		if ok, why := c.isSuffixShapeGuard(g, gfr); ok {
			if strings.HasPrefix(why, "time.Parse") {
				// time.Parse also accepts a fractional-second tail the layout does not mention ("<ts>.5", "<ts>,123"):
				// on its own it does not establish "exactly 14 digits"
				haveParse = true
				gdesc[len(gdesc)-1] += " [parses as a timestamp: " + why + "]"
			} else {
				haveShape = true
				gdesc[len(gdesc)-1] += " [suffix-shape:" + why + "]"
			}
		}
		if c.isLen14Guard(g, gfr) {
			haveLen = true
			gdesc[len(gdesc)-1] += " [remainder has the layout's length]"
		}
	}
	if haveParse && haveLen {
		haveShape = true
	}
	key := "C14.guards:" + fname(ret) + "→os.Remove"
	pathS := "path: " + strings.Join(gdesc, " → ") + " → os.Remove"
	if !haveDir {
		r.Fail(key+"#dir", c.instrPos(rm), "removal is not dominated by a !IsDir() test; %s", pathS)
	}
	if !havePrefix {
		r.Fail(key+"#prefix", c.instrPos(rm), "removal is not dominated by a prefix test on FileName+\".\"; %s", pathS)
	}
	if !haveShape && haveParse {
		r.Fail(key, c.instrPos(rm), "the suffix test is time.Parse alone, which also accepts a fractional-second tail after the seconds (\"<ts>.5\", \"<ts>,123\"): files such as name.20060102150405.5 that this appender cannot have produced are deleted (no length test against the 14-character layout); %s", pathS)
	} else if !haveShape {
		r.Fail(key, c.instrPos(rm), "missing suffix-shape guard: any file whose name merely starts with FileName+\".\" (name.wf.<ts>, name.bak, name.1.gz) is deleted; %s", pathS)
	}
	if haveDir && havePrefix && haveShape {
		r.OK(key, "guards: %s", strings.Join(gdesc, " → "))
	}
	// C14.age
	c.checkAge(r, ret, rm, guards, fr, &haveAge)
	// C14.path
	key = "C14.path:" + fname(ret)
	pe := pathArg.eff()
	okPath := false
	var elems []*PNode
	if pe.isCall("fmt.Sprintf") {
		if f, ok := pe.Args[0].constString(); ok && (f == "%s/%s" || f == "%s"+string('/')+"%s") {
			if call, ok := pe.V.(*ssa.Call); ok {
				elems = variadicElems(call.Call.Args[1], c, fr)
			}
		}
	} else if pe.isCall("filepath.Join") {
		if call, ok := pe.V.(*ssa.Call); ok {
			elems = variadicElems(call.Call.Args[0], c, fr)
		}
	} else if pe.Kind == "concat" && len(pe.Args) == 3 {
		if s, ok := pe.Args[1].constString(); ok && s == "/" {
			elems = []*PNode{pe.Args[0], pe.Args[2]}
		}
	}
	if len(elems) == 2 {
		d, n := elems[0].eff(), elems[1].eff()
		if d.Kind == "path" && strings.HasSuffix(d.Name, ".FileDir") && n.Kind == "call" && n.Name == "invoke:Name" {
			if prefixNode == nil || n.String() == prefixNode.eff().String() {
				okPath = true
			}
			_ = entryPath
		}
	}
	if okPath {
		r.OK(key, "removed path = %s", pathArg)
	} else {
		r.Fail(key, c.instrPos(rm), "removed path is not FileDir joined with the tested entry's name: %s", pathArg)
	}
}

// isOwnPrefix: node is FileName + "." of the receiver.
func (c *Ctx) isOwnPrefix(n *PNode) bool {
	n = n.eff()
	if n.Kind != "concat" || len(n.Args) != 2 {
		return false
	}
	a, b := n.Args[0].eff(), n.Args[1].eff()
	s, ok := b.constString()
	return a.Kind == "path" && strings.HasSuffix(a.Name, ".FileName") && ok && s == "."
}

// isSuffixShapeGuard recognises the accepted family of timestamp-suffix tests.
func (c *Ctx) isSuffixShapeGuard(g Guard, fr *Frame) (bool, string) {
	p := c.prov(g.Cond, fr).eff()
	// (i) _, err := time.Parse(layout, suffix); err == nil
	if b, ok := g.Cond.(*ssa.BinOp); ok && isErrNilTest(g) {
		var ev ssa.Value = b.X
		if k, isK := b.X.(*ssa.Const); isK && k.Value == nil {
			ev = b.Y
		}
		ep := c.prov(ev, fr).eff()
		if ep.Kind == "extract" && ep.Name == "#1" {
			call := ep.Args[0].eff()
			if call.isCall("time.Parse") || call.isCall("time.ParseInLocation") {
				lay, ok := call.Args[0].constString()
				if ok && lay == producerLayout && c.derivesFromEntryRemainder(call.Args[1]) {
					return true, "time.Parse(" + lay + ")"
				}
			}
		}
	}
	// (ii) constant regexp on the remainder / whole name
	if p.Kind == "call" && (strings.HasSuffix(p.Name, "regexp.Regexp).MatchString") || p.Name == "regexp.MatchString") && g.Polarity {
		var pat string
		var ok bool
		if p.Name == "regexp.MatchString" {
			pat, ok = p.Args[0].constString()
		} else {
			// receiver is a global initialised by MustCompile(const)
			pat, ok = c.globalRegexpPattern(p.Args[0])
		}
		if ok {
			if re, err := regexp.Compile(pat); err == nil {
				good := re.MatchString("20060102150405") || re.MatchString("app.log.20060102150405")
				bad := false
				for _, s := range []string{"wf.20060102150405", "bak", "1.gz", "2006010215040", "200601021504050", "2006010215040a", "20060102150405.5", "20060102150405,123", ""} {
					if re.MatchString(s) && !strings.Contains(pat, `\.`) {
						bad = true
					}
				}
				if good && !bad {
					return true, "regexp " + pat
				}
			}
		}
	}
	// (iii) an in-module predicate on the remainder whose body has a length test against 14 and a digit-range loop
	if p.Kind == "call" && g.Polarity {
		if call, ok := g.Cond.(*ssa.Call); ok {
			if f := call.Common().StaticCallee(); f != nil && c.inModule(f) && isDigitsPredicate(f) {
				return true, "predicate " + fname(f)
			}
		}
	}
	return false, ""
}

// isLen14Guard: the edge establishes len(remainder) == len(producer layout).
func (c *Ctx) isLen14Guard(g Guard, fr *Frame) bool {
	b, ok := g.Cond.(*ssa.BinOp)
	if !ok {
		return false
	}
	eq := (b.Op == token.EQL && g.Polarity) || (b.Op == token.NEQ && !g.Polarity)
	if !eq {
		return false
	}
	for _, pair := range [][2]ssa.Value{{b.X, b.Y}, {b.Y, b.X}} {
		k, isK := constInt(pair[1])
		if !isK || k != int64(len(producerLayout)) {
			continue
		}
		call, isCall := pair[0].(*ssa.Call)
		if !isCall {
			continue
		}
		if bi, isB := call.Call.Value.(*ssa.Builtin); !isB || bi.Name() != "len" {
			continue
		}
		if c.derivesFromEntryRemainder(c.prov(call.Call.Args[0], fr)) {
			return true
		}
	}
	return false
}

func (c *Ctx) derivesFromEntryRemainder(n *PNode) bool {
	n = n.eff()
	switch {
	case n.Kind == "extract" && n.Name == "#0" && n.Args[0].eff().isCall("strings.CutPrefix"):
		cp := n.Args[0].eff()
		return c.isOwnPrefix(cp.Args[1]) && cp.Args[0].eff().Name == "invoke:Name"
	case n.isCall("strings.TrimPrefix"):
		return c.isOwnPrefix(n.Args[1]) && n.Args[0].eff().Name == "invoke:Name"
	case n.Kind == "slice":
		return n.Args[0].eff().Name == "invoke:Name"
	}
	return false
}

func (c *Ctx) globalRegexpPattern(n *PNode) (string, bool) {
	n = n.eff()
	if n.Kind != "path" || !strings.HasPrefix(n.Name, "global:") {
		return "", false
	}
	g := c.logGlobal(strings.TrimPrefix(n.Name, "global:"))
	if g == nil {
		return "", false
	}
	var pat string
	found := false
	for _, f := range c.Funcs {
		eachInstr(f, func(in ssa.Instruction) {
			if st, ok := in.(*ssa.Store); ok && st.Addr == g {
				if call, ok := st.Val.(*ssa.Call); ok && calleeIs(call, "regexp", "", "MustCompile") {
					if s, ok := constString(call.Call.Args[0]); ok {
						pat, found = s, true
					}
				}
			}
		})
	}
	return pat, found
}

// isDigitsPredicate: f(s string) bool with len(s) == 14 test and byte comparisons against '0' and '9'.
func isDigitsPredicate(f *ssa.Function) bool {
	has14, has0, has9 := false, false, false
	eachInstr(f, func(in ssa.Instruction) {
		b, ok := in.(*ssa.BinOp)
		if !ok {
			return
		}
		for _, o := range []ssa.Value{b.X, b.Y} {
			if k, ok := constInt(o); ok {
				switch k {
				case 14:
					has14 = true
				case '0':
					has0 = true
				case '9':
					has9 = true
				}
			}
		}
	})
	return has14 && has0 && has9
}

// time expression = base + coef*MaxAge (ns); base ∈ {"now","mtime"}
type timeLin struct {
	base string
	coef int64 // multiplier of MaxAge in nanoseconds
	ok   bool
}

func (c *Ctx) durLin(n *PNode) (coef int64, konst int64, ok bool) {
	n = n.eff()
	switch n.Kind {
	case "const":
		if n.Const != nil && n.Const.Kind() == constant.Int {
			v, _ := constant.Int64Val(n.Const)
			return 0, v, true
		}
	case "path":
		if strings.HasSuffix(n.Name, ".MaxAge") {
			return 1, 0, true
		}
	case "convert":
		return c.durLin(n.Args[0])
	case "unop":
		if n.Name == "-" {
			a, b, ok := c.durLin(n.Args[0])
			return -a, -b, ok
		}
	case "binop":
		a1, k1, ok1 := c.durLin(n.Args[0])
		a2, k2, ok2 := c.durLin(n.Args[1])
		if !ok1 || !ok2 {
			return 0, 0, false
		}
		switch n.Name {
		case "+":
			return a1 + a2, k1 + k2, true
		case "-":
			return a1 - a2, k1 - k2, true
		case "*":
			// a product with the configured age formed in less than 64 bits wraps for configurable ages
			if (a1 != 0 || a2 != 0) && n.V != nil {
				if bits, _, isInt := intBits(n.V.Type()); isInt && bits < 64 {
					c.narrowAgeMul = fmt.Sprintf("the configured maximum age is multiplied in %d-bit arithmetic (%s) before being widened: the product wraps for configurable ages (e.g. hours×3600000 exceeds int32 from 597 h on), which moves the cut-off into the future and deletes files younger than the maximum age", bits, n.V.Type())
					return 0, 0, false
				}
			}
			if a1 == 0 {
				return k1 * a2, k1 * k2, true
			}
			if a2 == 0 {
				return a1 * k2, k1 * k2, true
			}
		}
	}
	return 0, 0, false
}

func (c *Ctx) timeLin(n *PNode) timeLin {
	n = n.eff()
	switch {
	case n.isCall("time.Now"):
		return timeLin{"now", 0, true}
	case n.Kind == "call" && n.Name == "invoke:ModTime":
		return timeLin{"mtime", 0, true}
	case n.isCall("(time.Time).Add"):
		t := c.timeLin(n.Args[0])
		a, k, ok := c.durLin(n.Args[1])
		if t.ok && ok && k == 0 {
			return timeLin{t.base, t.coef + a, true}
		}
	}
	return timeLin{}
}

func (c *Ctx) checkAge(r *Report, ret *ssa.Function, rm ssa.CallInstruction, guards []Guard, fr *Frame, have *bool) {
	key := "C14.age:" + fname(ret)
	hour := int64(3600e9)
	var seen []string
	c.narrowAgeMul = ""
	for _, g := range guards {
		gfr := fr
		if g.Fr != nil {
			gfr = g.Fr
		}
		p := c.prov(g.Cond, gfr).eff()
		var lhs, rhs timeLin // condition lhs < rhs
		switch {
		case p.isCall("(time.Time).Before"):
			lhs, rhs = c.timeLin(p.Args[0]), c.timeLin(p.Args[1])
		case p.isCall("(time.Time).After"):
			lhs, rhs = c.timeLin(p.Args[1]), c.timeLin(p.Args[0])
		case p.Kind == "binop" && (p.Name == ">" || p.Name == "<" || p.Name == ">=" || p.Name == "<="):
			// duration comparison: now.Sub(mtime) > d  |  time.Since(mtime) > d
			a, b := p.Args[0].eff(), p.Args[1].eff()
			if p.Name == "<" || p.Name == "<=" {
				a, b = b, a
			}
			var age *PNode = a
			if age.isCall("time.Since") {
				m := c.timeLin(age.Args[0])
				dc, dk, ok := c.durLin(b)
				if m.ok && ok && dk == 0 {
					lhs, rhs = timeLin{m.base, m.coef + dc, true}, timeLin{"now", 0, true}
				}
			} else if age.isCall("(time.Time).Sub") {
				x, y := c.timeLin(age.Args[0]), c.timeLin(age.Args[1])
				dc, dk, ok := c.durLin(b)
				if x.ok && y.ok && ok && dk == 0 {
					lhs, rhs = timeLin{y.base, y.coef + dc, true}, x
				}
			}
		default:
			continue
		}
		if !lhs.ok || !rhs.ok {
			if p.isCall("(time.Time).Before") || p.isCall("(time.Time).After") {
				seen = append(seen, "unrecognised:"+p.String())
			}
			continue
		}
		pol := g.Polarity
		// normalise: mtime + k*MaxAge < now
		if lhs.base == "mtime" && rhs.base == "now" {
			k := lhs.coef - rhs.coef
			seen = append(seen, fmt.Sprintf("mtime %+d·MaxAge ns < now (taken=%v)", k, pol))
			if pol && k == hour {
				*have = true
				r.OK(key, "removal guarded by mtime + MaxAge·time.Hour < now, from %s", p)
				return
			}
			if pol {
				r.Fail(key, c.instrPos(rm), "age test is mtime %+d ns·MaxAge < now, expected +%d (time.Hour): %s", k, hour, p)
				return
			}
			r.Fail(key, c.instrPos(rm), "removal happens when the file is NOT older than the cut-off: %s taken=%v", p, pol)
			return
		}
		if lhs.base == "now" && rhs.base == "mtime" {
			r.Fail(key, c.instrPos(rm), "age comparison is inverted (removes files younger than the cut-off): %s", p)
			return
		}
	}
	if c.narrowAgeMul != "" {
		r.Fail(key, c.instrPos(rm), "%s", c.narrowAgeMul)
		return
	}
	if len(seen) > 0 {
		r.Undecided(key, c.instrPos(rm), "age test outside the recognised family: %v", seen)
		return
	}
	for _, g := range guards {
		gfr := fr
		if g.Fr != nil {
			gfr = g.Fr
		}
		if p := c.prov(g.Cond, gfr).String(); strings.Contains(p, "ModTime") {
			r.Undecided(key, c.instrPos(rm), "the modification time is tested in a form outside the recognised family (time.Time comparisons / durations linear in MaxAge): %s — integer arithmetic on MaxAge (e.g. in milliseconds) can overflow its int32 type and is not accepted", p)
			return
		}
	}
	r.Fail(key, c.instrPos(rm), "removal is not dominated by any modification-time test")
}

// ---------------------------------------------------------------------------
// C20

func checkC20(c *Ctx, r *Report) {
	r.Explanation = "decided: no synchronous logger, leaf appender, appender reference or layout type has a field that can buffer log bytes in user space (bufio.*, bytes.Buffer, channels, byte slices); in every leaf appender the formatted bytes flow only into the sink write ((*os.File).Write / io.Writer.Write) executed on the caller's goroutine — no goroutine start, channel send, heap store or closure capture of those bytes; synchronous loggers deliver before returning (no send/go of the event or bytes); the console stream is os.Stdout. Not decided: what the kernel does after write(2) returns."
	r.Undecidedcl = []string{"durability after write(2) returns is an OS property"}
	r.Assumptions = []string{"(*os.File).Write issues write(2) before returning and does not buffer"}
	ro := c.roles(r)
	fileAppenderDecisions(r, c.checkFileAppenderSemantics(r, ro, "C20.file-values"))
	// "once a log call has returned its complete line is in the target" presupposes that the synchronous logger hands the
	// line to every appender the event's level selects before it returns: the fan-out evaluation (shared with C01/C12)
	c.checkFanoutSemantics(r, ro, "C20.fanout-values")
	r.Floor("leaf appenders", len(ro.LeafAppenders), 4)
	r.Floor("logger implementations", len(ro.Loggers), 6)

	// C20.types
	var syncTypes []*types.Named
	syncTypes = append(syncTypes, ro.LeafAppenders...)
	syncTypes = append(syncTypes, ro.Layouts...)
	if ro.AppenderRef != nil {
		syncTypes = append(syncTypes, ro.AppenderRef)
	}
	for _, l := range ro.Loggers {
		if l != ro.WorkerOwner {
			syncTypes = append(syncTypes, l)
		}
	}
	for _, nt := range syncTypes {
		key := "C20.types:" + nt.Obj().Name()
		bad := bufferingFields(c, nt, nt.Obj().Name(), map[types.Type]bool{}, ro)
		r.Count("types_examined", 1)
		if len(bad) > 0 {
			r.Fail(key, c.pos(nt.Obj().Pos()), "user-space buffering field(s) on a synchronous path: %s", strings.Join(bad, "; "))
		} else {
			r.OK(key, "no bufio/bytes.Buffer/chan/[]byte field (embedded structs included)")
		}
	}

	// C20.direct — per leaf appender
	for _, nt := range ro.LeafAppenders {
		for _, mname := range []string{"Write", "Append"} {
			m := c.declaredMethod(nt, mname)
			if m == nil {
				continue
			}
			r.SawFunc(m)
			key := fmt.Sprintf("C20.direct:%s", fname(m))
			if len(m.Blocks) == 0 || (len(m.Blocks) == 1 && len(m.Blocks[0].Instrs) == 1) {
				r.OKTrivial(key, "no-op appender")
				continue
			}
			fl := newFlow(c)
			if mname == "Write" {
				fl.Add(m.Params[1])
			} else {
				// bytes produced by the layout inside Append
				eachInstr(m, func(in ssa.Instruction) {
					if call, ok := in.(*ssa.Call); ok && call.Common().IsInvoke() && call.Common().Method.Name() == "ToBytes" {
						fl.Add(call)
					}
				})
			}
			r.Count("flows", len(fl.Set))
			var bad []string
			sinks := 0
			for _, s := range fl.Sinks {
				switch s.Kind {
				case "external-call":
					if ci, ok := s.Instr.(ssa.CallInstruction); ok && isSinkWrite(ci) {
						sinks++
						continue
					}
					bad = append(bad, fmt.Sprintf("%s %s at %s", s.Kind, s.Note, c.instrPos(s.Instr)))
				case "return":
					// returning bytes from a helper is fine as long as they end in the sink (tracked interprocedurally)
				default:
					bad = append(bad, fmt.Sprintf("%s at %s", s.Kind, c.instrPos(s.Instr)))
				}
			}
			if len(bad) > 0 {
				r.Fail(key, c.pos(m.Pos()), "formatted bytes leave the direct path to the sink: %s", strings.Join(bad, "; "))
			} else if sinks == 0 {
				r.Fail(key, c.pos(m.Pos()), "formatted bytes never reach a sink write ((*os.File).Write / io.Writer.Write) on the caller's goroutine")
			} else {
				r.OK(key, "%d value(s) in the alias closure, %d sink write(s), no go/send/store/capture", len(fl.Set), sinks)
			}
		}
	}
	// C20.sync-logger: synchronous loggers neither send nor spawn with the event/bytes
	for _, l := range ro.Loggers {
		if l == ro.WorkerOwner {
			continue
		}
		for _, mname := range []string{"Append", "Write"} {
			m := c.declaredMethod(l, mname)
			if m == nil {
				continue
			}
			r.SawFunc(m)
			key := fmt.Sprintf("C20.sync-logger:%s", fname(m))
			var bad []string
			for f := range c.reachNoAsync(m, ro) {
				eachInstr(f, func(in ssa.Instruction) {
					switch x := in.(type) {
					case *ssa.Send:
						bad = append(bad, "channel send at "+c.instrPos(in))
					case *ssa.Go:
						// allowed only if it carries neither event nor bytes
						for _, a := range x.Call.Args {
							if isByteLike(a.Type()) || isEventPtr(a.Type()) {
								bad = append(bad, "go with log data at "+c.instrPos(in))
							}
						}
						if mc, ok := x.Call.Value.(*ssa.MakeClosure); ok {
							for _, b := range mc.Bindings {
								if isByteLike(b.Type()) || isEventPtr(b.Type()) {
									bad = append(bad, "go closure capturing log data at "+c.instrPos(in))
								}
							}
						}
					}
				})
			}
			if len(bad) > 0 {
				r.Fail(key, c.pos(m.Pos()), "synchronous delivery is deferred: %s", strings.Join(bad, "; "))
			} else {
				r.OK(key, "no send / goroutine carrying log data reachable without passing through the asynchronous logger")
			}
		}
	}
	// C20.async-opt-in: the asynchronous logger is built by the library itself only where the `async` attribute asks for it
	c.checkAsyncOptIn(r, ro)
	// C20.console
	c.checkStdoutInit(r)
	// an acknowledged line is lost if the rotation step closes a file a concurrent writer may still hold
	r.include("C20.handover/", "file-ownership", func(sub *Report) { c.checkFdBound(sub, ro) })
	// thorough: no buffered writer anywhere below the synchronous appenders
	var roots []*ssa.Function
	for _, nt := range ro.LeafAppenders {
		roots = append(roots, c.declaredMethod(nt, "Write"), c.declaredMethod(nt, "Append"))
	}
	c.wholeProgramObligation(r, "C20.direct:whole-program", roots, false, false, true, "user-space buffered writer reachable below a synchronous appender")
}

// checkAsyncOptIn: every in-module construction of the asynchronous logger type (outside its own methods) sits on
// the true edge of a test of a boolean configuration field whose documented attribute name is "async" — a logger
// configured as synchronous must not be served by the buffering one.
func (c *Ctx) checkAsyncOptIn(r *Report, ro *Roles) {
	if ro.WorkerOwner == nil {
		return
	}
	isAsyncAttr := func(v ssa.Value) bool {
		ld, ok := v.(*ssa.UnOp)
		if !ok || ld.Op != token.MUL {
			return false
		}
		fa, ok := ld.X.(*ssa.FieldAddr)
		if !ok {
			return false
		}
		st := fa.X.Type().Underlying().(*types.Pointer).Elem().Underlying().(*types.Struct)
		tag, ok := lookupTag(st.Tag(fa.Field), "PluginAttribute")
		if !ok {
			return false
		}
		name := tag
		if i := strings.Index(tag, ","); i >= 0 {
			name = tag[:i]
		}
		return name == "async"
	}
	n := 0
	for _, f := range c.Funcs {
		if recvNamed(f) == ro.WorkerOwner || (f.Parent() != nil && recvNamed(f.Parent()) == ro.WorkerOwner) {
			continue
		}
		eachInstr(f, func(in ssa.Instruction) {
			al, ok := in.(*ssa.Alloc)
			if !ok {
				return
			}
			p, ok := al.Type().(*types.Pointer)
			if !ok || p.Elem() != types.Type(ro.WorkerOwner) {
				return
			}
			n++
			key := "C20.async-opt-in:" + fname(f)
			// guards of the allocation; failing that, of every site where the constructing function is created,
			// passed on or called — outwards until an `async` test is found on each way in
			var guarded func(at ssa.Instruction, fn *ssa.Function, seen map[*ssa.Function]bool) bool
			guarded = func(at ssa.Instruction, fn *ssa.Function, seen map[*ssa.Function]bool) bool {
				for _, g := range guardsOfInstr(at) {
					if g.Polarity && isAsyncAttr(g.Cond) {
						return true
					}
				}
				if seen[fn] {
					return false
				}
				seen[fn] = true
				var sites []ssa.Instruction
				for _, g := range c.Funcs {
					eachInstr(g, func(j ssa.Instruction) {
						if ci, ok := j.(ssa.CallInstruction); ok && ci.Common().StaticCallee() == fn {
							sites = append(sites, j)
							return
						}
						for _, op := range j.Operands(nil) {
							if *op == ssa.Value(fn) {
								sites = append(sites, j)
								return
							}
							if mc, ok := (*op).(*ssa.MakeClosure); ok && mc.Fn == ssa.Value(fn) && j != ssa.Instruction(mc) {
								_ = mc
							}
						}
						if mc, ok := j.(*ssa.MakeClosure); ok && mc.Fn == ssa.Value(fn) {
							sites = append(sites, j)
						}
					})
				}
				if len(sites) == 0 {
					return false
				}
				for _, st := range sites {
					if !guarded(st, st.Parent(), seen) {
						return false
					}
				}
				return true
			}
			found := guarded(in, f, map[*ssa.Function]bool{})
			// a logger type without an `async` attribute has no synchronous mode to promise: choosing the type is the opt-in
			owner := recvNamed(f)
			if owner == nil && f.Parent() != nil {
				owner = recvNamed(f.Parent())
			}
			declaresAsync := func(t *types.Named) bool {
				var walk func(st *types.Struct) bool
				walk = func(st *types.Struct) bool {
					for i := 0; i < st.NumFields(); i++ {
						if tag, ok := lookupTag(st.Tag(i), "PluginAttribute"); ok {
							if name, _, _ := strings.Cut(tag, ","); name == "async" {
								return true
							}
						}
						if sub, ok := st.Field(i).Type().Underlying().(*types.Struct); ok && st.Field(i).Embedded() && walk(sub) {
							return true
						}
					}
					return false
				}
				st, ok := t.Underlying().(*types.Struct)
				return ok && walk(st)
			}
			isLogger := false
			for _, l := range ro.Loggers {
				if owner != nil && l == owner {
					isLogger = true
				}
			}
			if found {
				r.OK(key, "the asynchronous logger is constructed only where the `async` attribute is set")
			} else if isLogger && !declaresAsync(owner) {
				r.OK(key, "%s is a logger type of its own without an `async` attribute: it has no synchronous mode, configuring this type is the opt-in to buffering", owner.Obj().Name())
			} else {
				r.Fail(key, c.instrPos(in), "an asynchronous (buffering) logger is constructed on a path that is not selected by the `async` attribute: a logger configured as synchronous would acknowledge lines that only sit in a channel buffer")
			}
		})
	}
	r.Count("async_constructions", n)
}

func isEventPtr(t types.Type) bool {
	p, ok := t.(*types.Pointer)
	if !ok {
		return false
	}
	n, ok := p.Elem().(*types.Named)
	return ok && n.Obj().Name() == "Event" && n.Obj().Pkg() != nil && n.Obj().Pkg().Path() == logPath
}

// reachNoAsync: functions reachable from m without entering methods of the async logger type.
func (c *Ctx) reachNoAsync(m *ssa.Function, ro *Roles) map[*ssa.Function]bool {
	seen := map[*ssa.Function]bool{m: true}
	work := []*ssa.Function{m}
	for len(work) > 0 {
		f := work[len(work)-1]
		work = work[:len(work)-1]
		for _, g := range c.moduleCallees(f) {
			if seen[g] {
				continue
			}
			if ro.WorkerOwner != nil && (recvNamed(g) == ro.WorkerOwner || g.Parent() != nil && recvNamed(g.Parent()) == ro.WorkerOwner) {
				continue
			}
			seen[g] = true
			work = append(work, g)
		}
	}
	return seen
}

func bufferingFields(c *Ctx, nt *types.Named, path string, seen map[types.Type]bool, ro *Roles) []string {
	if seen[nt] {
		return nil
	}
	seen[nt] = true
	st, ok := nt.Underlying().(*types.Struct)
	if !ok {
		return nil
	}
	var bad []string
	for i := 0; i < st.NumFields(); i++ {
		f := st.Field(i)
		t := f.Type()
		if p, ok := t.(*types.Pointer); ok {
			t = p.Elem()
		}
		name := path + "." + f.Name()
		switch u := t.(type) {
		case *types.Named:
			pk := ""
			if u.Obj().Pkg() != nil {
				pk = u.Obj().Pkg().Path()
			}
			if pk == "bufio" || (pk == "bytes" && u.Obj().Name() == "Buffer") || (pk == "strings" && u.Obj().Name() == "Builder") {
				bad = append(bad, fmt.Sprintf("%s %s", name, types.TypeString(f.Type(), shortQual)))
				continue
			}
			if pk == logPath {
				if _, isStruct := u.Underlying().(*types.Struct); isStruct && (f.Embedded() || true) {
					// nested module structs held by value or pointer: descend unless it is the async logger
					if u == ro.WorkerOwner {
						continue
					}
					bad = append(bad, bufferingFields(c, u, name, seen, ro)...)
				}
			}
			if _, isChan := u.Underlying().(*types.Chan); isChan {
				bad = append(bad, name+" (channel)")
			}
		case *types.Chan:
			bad = append(bad, name+" (channel)")
		case *types.Slice:
			if isByteLike(u) {
				bad = append(bad, name+" ([]byte)")
			}
		}
	}
	return bad
}

func (c *Ctx) checkStdoutInit(r *Report) {
	g := c.logGlobal("Stdout")
	key := "C20.console:Stdout"
	if g == nil {
		r.Undecided(key, "", "package variable Stdout not found")
		return
	}
	var stores []*ssa.Store
	for _, f := range c.Funcs {
		eachInstr(f, func(in ssa.Instruction) {
			if st, ok := in.(*ssa.Store); ok && st.Addr == g {
				stores = append(stores, st)
			}
		})
	}
	if ini := c.LogS.Func("init"); ini != nil {
		eachInstr(ini, func(in ssa.Instruction) {
			if st, ok := in.(*ssa.Store); ok && st.Addr == g {
				stores = append(stores, st)
			}
		})
	}
	if len(stores) != 1 {
		r.Fail(key, c.pos(g.Pos()), "expected exactly one initialising store to Stdout, found %d", len(stores))
		return
	}
	p := c.prov(stores[0].Val, nil)
	if p.Kind == "path" && p.Name == "global:Stdout" || strings.Contains(p.String(), "global:Stdout") && !strings.Contains(p.String(), "(") {
		r.OK(key, "Stdout initialised to os.Stdout (%s)", p)
		return
	}
	// os.Stdout is a global of package os; accessPath renders it as global:Stdout as well
	if mi, ok := stores[0].Val.(*ssa.MakeInterface); ok {
		if ld, ok := mi.X.(*ssa.UnOp); ok {
			if og, ok := ld.X.(*ssa.Global); ok && og.Pkg.Pkg.Path() == "os" && og.Name() == "Stdout" {
				r.OK(key, "Stdout initialised to os.Stdout (unbuffered *os.File)")
				return
			}
		}
	}
	r.Fail(key, c.instrPos(stores[0]), "console stream is initialised to %s, not os.Stdout", p)
}

// ---------------------------------------------------------------------------
// C19

func checkC19(c *Ctx, r *Report) {
	r.Explanation = "decided: on the create-error path of the rotation step no file-holding field is written and the step returns normally (the current file stays in place; the interval marker has already advanced only via the CAS, so creation is retried at the next boundary); on the hot path no I/O error result reaches a panic and no explicit panic/os.Exit/log.Fatal is reachable; sink writes are nil-guarded or go through *os.File methods (which return ErrInvalid on a nil receiver); retention runs only under go. Not decided: fault/boundary/writer interleavings."
	r.Undecidedcl = []string{"placement of directory outages relative to interval boundaries and concurrent writes (fault-sequence property)"}
	r.Assumptions = []string{"(*os.File)(nil).Write returns os.ErrInvalid instead of panicking (stdlib contract)"}
	ro := c.roles(r)
	fileAppenderDecisions(r, c.checkFileAppenderSemantics(r, ro, "C19.file-values"))
	if ro.Rotation == nil {
		r.Undecided("C19.anchor:rotation-step", "", "no rotation step found")
		return
	}
	fn := ro.Rotation
	r.SawFunc(fn)
	// C19.keep-file: typestate over the rotation step, tracking "on create-error path"
	key := "C19.keep-file:" + fname(fn)
	writes := c.fileFieldWrites(fn)
	cur := currentFileField(c, ro)
	// find the error value of the file creation
	var createErr ssa.Value
	eachInstr(fn, func(in ssa.Instruction) {
		ex, ok := in.(*ssa.Extract)
		if !ok {
			return
		}
		if n, ok := ex.Type().(*types.Named); !ok || n.Obj().Name() != "error" {
			return
		}
		if call, ok := ex.Tuple.(*ssa.Call); ok && c.callOpensFile(call) {
			createErr = ex
		}
	})
	if cur == nil {
		r.Undecided(key, c.pos(fn.Pos()), "cannot identify the field that holds the current file")
	} else if createErr == nil {
		r.Undecided(key, c.pos(fn.Pos()), "cannot identify the error result of the file creation in the rotation step")
	} else {
		bad := 0
		checked := 0
		for _, w := range writes {
			if w.Field != cur {
				continue
			}
			checked++
			onErr, onOK := false, false
			for _, g := range guardsOfInstr(w.Instr) {
				if b, ok := g.Cond.(*ssa.BinOp); ok && (b.X == createErr || b.Y == createErr) {
					if isErrNilTest(g) {
						onOK = true
					} else {
						onErr = true
					}
				}
			}
			if onErr || !onOK {
				bad++
				r.Fail(key+"→"+w.Field.Name(), c.instrPos(w.Instr), "the current-file field is written on a path where file creation may have failed (guards: err==nil=%v, err!=nil=%v): a failed rotation would drop the file being written", onOK, onErr)
			}
		}
		// the error branch returns normally: every block guarded by err != nil ends without panic
		panics := 0
		for _, b := range fn.Blocks {
			for _, g := range guardsOf(b) {
				if bb, ok := g.Cond.(*ssa.BinOp); ok && (bb.X == createErr || bb.Y == createErr) && isErrNonNilTest(g) {
					if _, isPanic := b.Instrs[len(b.Instrs)-1].(*ssa.Panic); isPanic {
						panics++
						r.Fail(key+":panic", c.instrPos(b.Instrs[len(b.Instrs)-1]), "panic on the create-error path")
					}
				}
			}
		}
		if bad == 0 && panics == 0 {
			r.OK(key, "%d write(s) to %s, all under err == nil of the creation; error path returns normally", checked, cur.Name())
		}
	}
	// a failed rotation must not leave the current file owned by a field that a later rotation closes
	r.include("C19.ownership/", "file-ownership", func(sub *Report) { c.checkFdBound(sub, ro) })
	// C19.swallow / no-panic: explicit panics, os.Exit, log.Fatal reachable from appender hot path
	checkNoPanicHot(c, r, ro, "C19.no-panic-hot")
	// C19.nil-file
	for _, nt := range ro.LeafAppenders {
		wr := c.declaredMethod(nt, "Write")
		if wr == nil {
			continue
		}
		for _, sw := range sinkWrites(wr) {
			key := "C19.nil-file:" + fname(wr)
			f := sw.Common().StaticCallee()
			if f != nil && funcIs(f, "os", "File", f.Name()) {
				r.OK(key, "sink write is a *os.File method (nil receiver returns ErrInvalid)")
			} else if sw.Common().IsInvoke() {
				// interface sink: must be a package-level writer that is never nil by initialisation (console)
				p := c.prov(sw.Common().Value, &Frame{Fn: wr})
				if p.Kind == "path" && strings.HasPrefix(p.Name, "global:") {
					r.OK(key, "sink is the package-level stream %s (initialised in C20.console)", p.Name)
				} else {
					nilG := false
					for _, g := range guardsOfInstr(sw) {
						if b, ok := g.Cond.(*ssa.BinOp); ok && (b.Op == token.NEQ && g.Polarity || b.Op == token.EQL && !g.Polarity) {
							nilG = true
						}
					}
					if nilG {
						r.OK(key, "interface sink write is nil-guarded")
					} else {
						r.Fail(key, c.instrPos(sw), "write through interface value %s without nil guard", p)
					}
				}
			}
			// error results ignored: the call's value must not flow into a panic
			if v, ok := sw.(ssa.Value); ok {
				if refs := v.Referrers(); refs != nil && len(*refs) > 0 {
					for _, rr := range *refs {
						if ex, ok := rr.(*ssa.Extract); ok && ex.Index == 1 {
							if er := ex.Referrers(); er != nil {
								for _, u := range *er {
									if _, isP := u.(*ssa.Panic); isP {
										r.Fail("C19.swallow:"+fname(wr), c.instrPos(u), "write error is turned into a panic")
									}
								}
							}
						}
					}
				}
			}
		}
	}
	// methods of *os.File other than the nil-safe ones (those that begin with checkValid) dereference a nil receiver
	for _, nt := range ro.LeafAppenders {
		for _, mn := range []string{"Write", "Append"} {
			m := c.declaredMethod(nt, mn)
			if m == nil {
				continue
			}
			for f := range c.reach(m) {
				if recvNamed(f) != nt {
					continue
				}
				eachInstr(f, func(in ssa.Instruction) {
					call, ok := in.(*ssa.Call)
					if !ok {
						return
					}
					s := call.Common().StaticCallee()
					if s == nil || !funcIs(s, "os", "File", s.Name()) || len(call.Call.Args) == 0 {
						return
					}
					recv := call.Call.Args[0]
					held := false
					for _, fld := range fileHolderFields(nt) {
						if c.fromFileField(recv, fld) {
							held = true
						}
					}
					if !held || osFileNilSafe(s) {
						return
					}
					for _, g := range guardsOfInstr(in) {
						if b, ok := g.Cond.(*ssa.BinOp); ok && isNilConst(b.Y) && (b.X == recv || c.sameFieldLoad(b.X, recv)) && ((b.Op == token.NEQ) == g.Polarity) {
							return
						}
					}
					r.Fail("C19.nil-file:"+fname(f)+"→"+s.Name(), c.instrPos(in), "(*os.File).%s is called on the appender's file without a nil test; unlike Write it dereferences a nil receiver, so logging through an appender whose file was never opened (failed Start) panics", s.Name())
				})
			}
		}
	}
	// retention under go only
	if ro.Retention != nil {
		for _, cs := range c.callSitesOf(ro.Retention) {
			if _, isGo := cs.(*ssa.Go); !isGo {
				r.Fail("C19.retention-async:"+fname(cs.Parent()), c.instrPos(cs), "retention is called synchronously on the write path; a slow or failing directory scan blocks the log call")
			} else {
				r.OK("C19.retention-async:"+fname(cs.Parent()), "retention launched with go")
			}
		}
	}
	// I/O errors on the hot path are not propagated into panics: every error-typed value on the appender hot path is never an operand of panic
	n := 0
	for _, nt := range ro.LeafAppenders {
		for _, m := range []string{"Write", "Append"} {
			root := c.declaredMethod(nt, m)
			if root == nil {
				continue
			}
			for f := range c.reach(root) {
				eachInstr(f, func(in ssa.Instruction) {
					if p, ok := in.(*ssa.Panic); ok && !isCompilerPanic(p) {
						n++
						r.Fail("C19.swallow:"+fname(f), c.instrPos(p), "explicit panic reachable from %s", fname(root))
					}
				})
			}
		}
	}
	if n == 0 {
		r.OK("C19.swallow:appenders", "no panic instruction reachable from any leaf appender's Write/Append (module-local call graph)")
	}
}

// callOpensFile: the call is os.OpenFile/Create or an in-module function that (transitively) opens a file.
func (c *Ctx) callOpensFile(call ssa.CallInstruction) bool {
	if calleeIs(call, "os", "", "OpenFile") || calleeIs(call, "os", "", "Create") {
		return true
	}
	f := call.Common().StaticCallee()
	if f == nil || !c.inModule(f) {
		return false
	}
	reach := c.reach(f)
	for _, s := range c.openFileSites() {
		if reach[s.Fn] {
			return true
		}
	}
	return false
}

// checkNoPanicHot: no explicit panic, os.Exit, log.Fatal* in functions of the hot path.
func checkNoPanicHot(c *Ctx, r *Report, ro *Roles, rule string) {
	n := 0
	for _, f := range sortedFuncs(ro.HotPath) {
		r.SawFunc(f)
		eachInstr(f, func(in ssa.Instruction) {
			switch x := in.(type) {
			case *ssa.Panic:
				// compiler-inserted guards of range-over-func loops
				if strings.Contains(in.Block().Comment, "yield") || strings.HasPrefix(in.Block().Comment, "rangefunc") {
					return
				}
				if mi, ok := x.X.(*ssa.MakeInterface); ok {
					if k, ok := constString(mi.X); ok && (strings.Contains(k, "range function") || strings.Contains(k, "iteration")) {
						return
					}
				}
				// the SSA builder ends a blocking select with an unreachable panic of its own
				if mi, ok := x.X.(*ssa.MakeInterface); ok {
					if k, ok := constString(mi.X); ok && strings.HasPrefix(k, "blocking select matched no case") {
						return
					}
				}
				n++
				r.Fail(rule+":"+fname(f), c.instrPos(in), "explicit panic on the log call path")
			case ssa.CallInstruction:
				if calleeIs(x, "os", "", "Exit") {
					n++
					r.Fail(rule+":"+fname(f), c.instrPos(in), "os.Exit on the log call path")
				}
				if f2 := x.Common().StaticCallee(); f2 != nil && f2.Object() != nil && f2.Object().Pkg() != nil && f2.Object().Pkg().Path() == "log" && strings.HasPrefix(f2.Name(), "Fatal") {
					n++
					r.Fail(rule+":"+fname(f), c.instrPos(in), "log.Fatal on the log call path")
				}
			}
		})
	}
	r.Count("hot_path_functions", len(ro.HotPath))
	if n == 0 {
		r.OK(rule+":module", "no explicit panic / os.Exit / log.Fatal in the %d hot-path functions of the module", len(ro.HotPath))
	}
	var roots []*ssa.Function
	for f := range ro.HotPath {
		roots = append(roots, f)
	}
	c.wholeProgramObligation(r, rule+":whole-program", roots, false, true, false, "process-ending call reachable from the log call path")
}

// osFileNilSafe: the method starts by validating its receiver (calls (*File).checkValid first), so a nil *os.File
// yields ErrInvalid instead of a nil dereference.
func osFileNilSafe(f *ssa.Function) bool {
	if len(f.Blocks) == 0 {
		return false
	}
	for _, in := range f.Blocks[0].Instrs {
		switch x := in.(type) {
		case *ssa.Call:
			if s := x.Common().StaticCallee(); s != nil && s.Name() == "checkValid" {
				return true
			}
			return false
		case *ssa.FieldAddr, *ssa.UnOp:
			if fa, ok := in.(*ssa.FieldAddr); ok && fa.X == ssa.Value(f.Params[0]) {
				return false
			}
		case *ssa.If:
			if b, ok := x.Cond.(*ssa.BinOp); ok && b.X == ssa.Value(f.Params[0]) && isNilConst(b.Y) {
				return true
			}
		}
	}
	return false
}

// casGuardsChains: every static call chain from the rolling appender's Write (through methods of the same type) to a
// write of a file-holding field carries, at a call site or at the write itself, the true edge of a
// sync/atomic CompareAndSwap on a field that is not a file holder (directly, or as the result of a predicate helper).
func (c *Ctx) casGuardsChains(rt *types.Named) (ok bool, chains int, why string) {
	write := c.declaredMethod(rt, "Write")
	if write == nil {
		return false, 0, ""
	}
	norm := func(gs []Guard) []Guard {
		out := make([]Guard, 0, len(gs))
		for _, g := range gs {
			for {
				u, isU := g.Cond.(*ssa.UnOp)
				if !isU || u.Op != token.NOT {
					break
				}
				g.Cond, g.Polarity = u.X, !g.Polarity
			}
			out = append(out, g)
		}
		return out
	}
	isCAS := func(g Guard) bool {
		if !g.Polarity {
			return false
		}
		call, isCall := g.Cond.(*ssa.Call)
		if !isCall {
			return false
		}
		pk, name := calleePkgName(call)
		if pk != "sync/atomic" || !strings.HasPrefix(name, "CompareAndSwap") || len(call.Call.Args) == 0 {
			return false
		}
		if fa, isFA := call.Call.Args[0].(*ssa.FieldAddr); isFA && isFileHolder(fieldOfAddr(fa).Type()) {
			return false
		}
		return true
	}
	hasCAS := func(gs []Guard, fr *Frame) bool {
		for _, g := range c.expandGuards(norm(gs), fr, 0) {
			for _, h := range norm([]Guard{g}) {
				if isCAS(h) {
					return true
				}
			}
		}
		return false
	}
	bad := ""
	seenWrite := false
	var walk func(f *ssa.Function, fr *Frame, guarded bool, depth int, path []string)
	walk = func(f *ssa.Function, fr *Frame, guarded bool, depth int, path []string) {
		if depth > 5 || bad != "" {
			return
		}
		for _, w := range c.fileFieldWrites(f) {
			seenWrite = true
			chains++
			if !guarded && !hasCAS(guardsOfInstr(w.Instr), fr) {
				bad = fmt.Sprintf("the write to %s at %s (reached through %s) is not control-dependent on a successful compare-and-swap of the interval marker: two writers crossing a boundary together would both rotate", w.Field.Name(), c.instrPos(w.Instr), strings.Join(path, "→"))
				return
			}
		}
		eachInstr(f, func(in ssa.Instruction) {
			call, isCall := in.(*ssa.Call)
			if !isCall {
				return
			}
			g := call.Common().StaticCallee()
			if g == nil || recvNamed(g) != rt || len(g.Blocks) == 0 || g == f {
				return
			}
			for _, p := range path {
				if p == fname(g) {
					return
				}
			}
			site := guarded || hasCAS(guardsOfInstr(in), fr)
			walk(g, &Frame{Fn: g, Site: call, Parent: fr, Depth: depth + 1}, site, depth+1, append(append([]string{}, path...), fname(g)))
		})
	}
	walk(write, &Frame{Fn: write}, false, 0, []string{fname(write)})
	if bad != "" {
		return false, chains, bad
	}
	return seenWrite, chains, ""
}
