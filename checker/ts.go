package main

// ts.go: P3 — path-sensitive typestate simulation (ESP-style property
// simulation). The abstract state is (automaton state, partial environment
// of constant-valued SSA values, pending defers). A worklist explores every
// reachable abstract state of a function; in-module callees chosen by the
// rule are analysed in their calling context (call strings, bounded depth,
// no recursion). Branches whose condition evaluates to a constant under the
// environment are pruned; all others fork. The state space is finite, so the
// exploration terminates and is exhaustive for the abstraction.

import (
	"fmt"
	"go/constant"
	"sort"
	"strings"

	"golang.org/x/tools/go/ssa"
)

type TSOut struct {
	Cells map[string]constant.Value // tracked memory cells at the exit (nil if none tracked)
	A     string
	Kind  string // "return" | "panic"
	Ret   []constant.Value
	Trail []string
	At    ssa.Instruction
}

type TSCtx struct {
	A     string
	Env   Env
	Frame *Frame
	Trail []string
	ts    *TS
}

func (s *TSCtx) Eval(v ssa.Value) (constant.Value, bool) {
	return s.ts.Ev.eval(v, s.Env, s.Frame)
}

func (s *TSCtx) Path(v ssa.Value) string { return s.ts.C.accessPath(v, s.Frame) }

type TS struct {
	C  *Ctx
	Ev *Evaluator
	// OnInstr is called for every instruction that is not control flow and not
	// an inlined call. It returns the successor automaton states; nil keeps
	// the state, an empty non-nil slice kills the path (infeasible).
	OnInstr func(s *TSCtx, in ssa.Instruction) []string
	// OnSelect is called once per possible outcome of a select (chosen = case
	// index, -1 for default). Same return convention as OnInstr.
	OnSelect func(s *TSCtx, sel *ssa.Select, chosen int) []string
	// OnBranch is called when an If edge is taken (cond not folded away or
	// folded to this edge). Return ("", false) to keep the state.
	OnBranch func(s *TSCtx, iff *ssa.If, taken bool) (string, bool)
	// OnJump is called when an unconditional edge is taken (loop back edges, joins).
	OnJump func(s *TSCtx, from, to *ssa.BasicBlock) (string, bool)
	// Inline decides whether a resolved in-module callee is analysed in context.
	Inline func(s *TSCtx, call ssa.CallInstruction, callee *ssa.Function) bool
	// OnEnter/OnLeave are called around an inlined callee (optional).
	OnEnter  func(s *TSCtx, call ssa.CallInstruction, callee *ssa.Function) []string
	MaxDepth int

	States    int
	Truncated []string // reasons the exploration was cut (depth, recursion): makes results undecided
	memo      map[string][]TSOut
}

type tsItem struct {
	b      *ssa.BasicBlock
	pred   *ssa.BasicBlock
	a      string
	env    Env
	defers []*ssa.Defer
	trail  []string
}

func (ts *TS) Run(fn *ssa.Function, initA string, env Env) []TSOut {
	if ts.memo == nil {
		ts.memo = map[string][]TSOut{}
	}
	if ts.MaxDepth == 0 {
		ts.MaxDepth = 8
	}
	if env == nil {
		env = Env{}
	}
	return ts.runFn(&Frame{Fn: fn}, initA, env, nil)
}

func (ts *TS) runFn(fr *Frame, initA string, env Env, trail []string) []TSOut {
	fn := fr.Fn
	if len(fn.Blocks) == 0 {
		return []TSOut{{A: initA, Kind: "return", Trail: trail}}
	}
	mkey := fmt.Sprintf("%s|%s|%s", fr.chainKey(), initA, env.String())
	if r, ok := ts.memo[mkey]; ok {
		// re-attach the caller's trail
		out := make([]TSOut, len(r))
		for i, o := range r {
			o.Trail = append(append([]string{}, trail...), o.Trail...)
			out[i] = o
		}
		return out
	}
	var outs []TSOut
	seenOut := map[string]bool{}
	visited := map[string]bool{}
	work := []tsItem{{b: fn.Blocks[0], a: initA, env: env}}
	for len(work) > 0 {
		it := work[len(work)-1]
		work = work[:len(work)-1]
		key := fmt.Sprintf("%d|%p|%s|%s|%d", it.b.Index, it.pred, it.a, it.env.String(), len(it.defers))
		if visited[key] {
			continue
		}
		visited[key] = true
		ts.States++
		if ts.States > 60000 {
			ts.Truncated = append(ts.Truncated, "state budget exceeded in "+fname(fn))
			break
		}
		if len(it.a) > 2500 {
			// an automaton word that keeps growing means the rule's loop summarisation does not apply to this shape
			ts.Truncated = append(ts.Truncated, "automaton word grows without bound in "+fname(fn)+": "+it.a[:300])
			break
		}
		// phis
		env2 := it.env.clone()
		if it.pred != nil {
			pi := -1
			for i, p := range it.b.Preds {
				if p == it.pred {
					pi = i
				}
			}
			// evaluate all phis simultaneously against the incoming env
			type upd struct {
				k  envKey
				v  constant.Value
				ok bool
			}
			var us []upd
			for _, in := range it.b.Instrs {
				phi, ok := in.(*ssa.Phi)
				if !ok {
					break
				}
				var kv constant.Value
				okc := false
				if pi >= 0 {
					e := phi.Edges[pi]
					if k, isC := e.(*ssa.Const); isC && k.Value != nil {
						kv, okc = k.Value, true
					} else if v, has := it.env[envKey{e, -1, ""}]; has {
						kv, okc = v, true
					} else if v, ok := ts.Ev.eval(e, it.env, fr); ok {
						// computed values are tracked only where they cannot grow without bound:
						// booleans anywhere, other kinds on forward (non-loop) edges
						back := it.b == it.pred || it.b.Dominates(it.pred)
						if v.Kind() == constant.Bool || !back {
							kv, okc = v, true
						}
					}
				}
				us = append(us, upd{envKey{phi, -1, ""}, kv, okc})
				// a φ that takes a non-constant value over a forward edge: remember which edge this path came in
				// on, so rules can name the value (key index -2 is never read by the evaluator)
				back := it.b == it.pred || it.b.Dominates(it.pred)
				if !okc && pi >= 0 && !back {
					us = append(us, upd{envKey{phi, -2, ""}, constant.MakeInt64(int64(pi)), true})
				} else {
					us = append(us, upd{envKey{phi, -2, ""}, nil, false})
				}
			}
			for _, u := range us {
				if u.ok {
					env2[u.k] = u.v
				} else {
					delete(env2, u.k)
				}
			}
		}
		ts.execBlock(fr, it.b, 0, it.a, env2, it.defers, it.trail, &work, &outs, seenOut)
	}
	// memoise with trails relative to this call
	rel := make([]TSOut, len(outs))
	for i, o := range outs {
		r := o
		r.Trail = append([]string{}, o.Trail...)
		rel[i] = r
	}
	ts.memo[mkey] = rel
	res := make([]TSOut, len(outs))
	for i, o := range outs {
		o.Trail = append(append([]string{}, trail...), o.Trail...)
		res[i] = o
	}
	return res
}

func (ts *TS) addOut(outs *[]TSOut, seen map[string]bool, o TSOut) {
	var rs []string
	for _, r := range o.Ret {
		if r == nil {
			rs = append(rs, "?")
		} else {
			rs = append(rs, r.ExactString())
		}
	}
	var cs []string
	for n, v := range o.Cells {
		cs = append(cs, n+"="+v.ExactString())
	}
	sort.Strings(cs)
	k := o.Kind + "|" + o.A + "|" + strings.Join(rs, ",") + "|" + strings.Join(cs, ",")
	if seen[k] {
		return
	}
	seen[k] = true
	*outs = append(*outs, o)
}

// execBlock executes b from instruction index i under (a, env).
func (ts *TS) execBlock(fr *Frame, b *ssa.BasicBlock, i int, a string, env Env, defers []*ssa.Defer, trail []string, work *[]tsItem, outs *[]TSOut, seenOut map[string]bool) {
	for ; i < len(b.Instrs); i++ {
		in := b.Instrs[i]
		sc := &TSCtx{A: a, Env: env, Frame: fr, Trail: trail, ts: ts}
		switch x := in.(type) {
		case *ssa.Phi:
			continue
		case *ssa.DebugRef:
			continue
		case *ssa.If:
			kv, ok := ts.Ev.eval(x.Cond, env, fr)
			for k := 0; k < 2; k++ {
				taken := k == 0
				if ok && kv.Kind() == constant.Bool && constant.BoolVal(kv) != taken {
					continue
				}
				na := a
				if ts.OnBranch != nil {
					if s, ch := ts.OnBranch(sc, x, taken); ch {
						na = s
					}
				}
				*work = append(*work, tsItem{b: b.Succs[k], pred: b, a: na, env: env, defers: defers, trail: sc.Trail})
			}
			return
		case *ssa.Jump:
			na := a
			if ts.OnJump != nil {
				if s, ch := ts.OnJump(sc, b, b.Succs[0]); ch {
					na = s
				}
			}
			*work = append(*work, tsItem{b: b.Succs[0], pred: b, a: na, env: env, defers: defers, trail: sc.Trail})
			return
		case *ssa.Return:
			var rets []constant.Value
			for _, r := range x.Results {
				kv, ok := ts.Ev.eval(r, env, fr)
				if ok {
					rets = append(rets, kv)
				} else {
					rets = append(rets, nil)
				}
			}
			ts.addOut(outs, seenOut, TSOut{A: a, Kind: "return", Ret: rets, Trail: trail, At: in, Cells: cellsOf(env)})
			return
		case *ssa.Panic:
			na := []string{a}
			if ts.OnInstr != nil {
				if r := ts.OnInstr(sc, in); r != nil {
					na = r
				}
			}
			for _, s := range na {
				ts.addOut(outs, seenOut, TSOut{A: s, Kind: "panic", Trail: sc.Trail, At: in})
			}
			return
		case *ssa.Defer:
			defers = append(append([]*ssa.Defer{}, defers...), x)
			continue
		case *ssa.RunDefers:
			// replay pending defers LIFO as calls
			states := []struct {
				a     string
				env   Env
				trail []string
			}{{a, env, trail}}
			for j := len(defers) - 1; j >= 0; j-- {
				var next []struct {
					a     string
					env   Env
					trail []string
				}
				for _, st := range states {
					for _, r := range ts.doCall(fr, defers[j], st.a, st.env, st.trail) {
						if r.Kind == "panic" {
							ts.addOut(outs, seenOut, TSOut{A: r.A, Kind: "panic", Trail: r.Trail, At: in})
							continue
						}
						next = append(next, struct {
							a     string
							env   Env
							trail []string
						}{r.A, st.env, r.Trail})
					}
				}
				states = next
			}
			for _, st := range states {
				ts.execBlock(fr, b, i+1, st.a, st.env, nil, st.trail, work, outs, seenOut)
			}
			return
		case *ssa.Select:
			n := len(x.States)
			lo := 0
			if !x.Blocking {
				lo = -1
			}
			for ch := lo; ch < n; ch++ {
				e2 := env.clone()
				e2[envKey{x, 0, ""}] = constant.MakeInt64(int64(ch))
				sc2 := &TSCtx{A: a, Env: e2, Frame: fr, Trail: trail, ts: ts}
				nas := []string{a}
				if ts.OnSelect != nil {
					if r := ts.OnSelect(sc2, x, ch); r != nil {
						nas = r
					}
				}
				for _, na := range nas {
					ts.execBlock(fr, b, i+1, na, e2, defers, sc2.Trail, work, outs, seenOut)
				}
			}
			return
		case ssa.CallInstruction:
			if _, isGo := in.(*ssa.Go); isGo {
				// a goroutine start is an event, never inlined
				if ts.OnInstr != nil {
					if r := ts.OnInstr(sc, in); r != nil {
						for _, na := range r {
							ts.execBlock(fr, b, i+1, na, env, defers, sc.Trail, work, outs, seenOut)
						}
						return
					}
				}
				trail = sc.Trail
				continue
			}
			res := ts.doCall(fr, x, a, env, trail)
			if len(res) == 1 && res[0].Kind == "return" && res[0].Ret == nil && res[0].Cells == nil && !hasCells(env) {
				a = res[0].A
				trail = res[0].Trail
				continue
			}
			for _, r := range res {
				if r.Kind == "panic" {
					ts.addOut(outs, seenOut, TSOut{A: r.A, Kind: "panic", Trail: r.Trail, At: in})
					continue
				}
				e2 := env
				if r.Cells != nil || hasCells(env) {
					e2 = env.clone()
					for k := range e2 {
						if k.cell != "" {
							delete(e2, k)
						}
					}
					for n, v := range r.Cells {
						e2[envKey{nil, 0, n}] = v
					}
				}
				if len(r.Ret) > 0 {
					e2 = e2.clone()
					if v, ok := in.(ssa.Value); ok {
						if len(r.Ret) == 1 {
							if r.Ret[0] != nil {
								e2[envKey{v, -1, ""}] = r.Ret[0]
							} else {
								delete(e2, envKey{v, -1, ""})
							}
						} else {
							for ti, rv := range r.Ret {
								if rv != nil {
									e2[envKey{v, ti, ""}] = rv
								} else {
									delete(e2, envKey{v, ti, ""})
								}
							}
						}
					}
				}
				ts.execBlock(fr, b, i+1, r.A, e2, defers, r.Trail, work, outs, seenOut)
			}
			return
		default:
			if st, isStore := in.(*ssa.Store); isStore && ts.Ev != nil && ts.Ev.Cell != nil {
				if name, ok := ts.Ev.Cell(st.Addr, fr); ok {
					env = env.clone()
					if k, okc := ts.Ev.eval(st.Val, env, fr); okc {
						env[envKey{nil, 0, name}] = k
					} else {
						delete(env, envKey{nil, 0, name})
					}
					sc.Env = env
				}
			}
			if ts.OnInstr != nil {
				if r := ts.OnInstr(sc, in); r != nil {
					if len(r) == 1 {
						a = r[0]
						trail = sc.Trail
						continue
					}
					for _, na := range r {
						ts.execBlock(fr, b, i+1, na, env, defers, sc.Trail, work, outs, seenOut)
					}
					return
				}
				trail = sc.Trail
			}
		}
	}
}

// doCall handles one call: inline the chosen in-module callees in context,
// otherwise deliver it to OnInstr as an event.
func (ts *TS) doCall(fr *Frame, call ssa.CallInstruction, a string, env Env, trail []string) []TSOut {
	sc := &TSCtx{A: a, Env: env, Frame: fr, Trail: trail, ts: ts}
	info := ts.C.resolveCall(call)
	var inl []*ssa.Function
	if ts.Inline != nil {
		for _, f := range info.Fns {
			if ts.C.inModule(f) && len(f.Blocks) > 0 && ts.Inline(sc, call, f) {
				inl = append(inl, f)
			}
		}
	}
	if len(inl) == 0 {
		nas := []string{a}
		if ts.OnInstr != nil {
			if r := ts.OnInstr(sc, call); r != nil {
				nas = r
			}
		}
		var out []TSOut
		for _, na := range nas {
			out = append(out, TSOut{A: na, Kind: "return", Trail: sc.Trail, Cells: cellsOf(env)})
		}
		return out
	}
	var out []TSOut
	for _, f := range inl {
		// recursion / depth
		rec := false
		for p := fr; p != nil; p = p.Parent {
			if p.Fn == f {
				rec = true
			}
		}
		if rec || fr.Depth+1 > ts.MaxDepth {
			why := "depth"
			if rec {
				why = "recursion"
			}
			ts.Truncated = append(ts.Truncated, fmt.Sprintf("%s at %s→%s", why, fr.chain(), fname(f)))
			out = append(out, TSOut{A: a, Kind: "return", Trail: trail, Cells: cellsOf(env)})
			continue
		}
		nfr := &Frame{Fn: f, Site: call, Parent: fr, Depth: fr.Depth + 1}
		as := []string{a}
		sc2 := &TSCtx{A: a, Env: env, Frame: fr, Trail: trail, ts: ts}
		if ts.OnEnter != nil {
			if r := ts.OnEnter(sc2, call, f); r != nil {
				as = r
			}
		}
		for _, ia := range as {
			// the callee sees the caller's env (values are distinct SSA objects, so no clash)
			rs := ts.runFn(nfr, ia, env, sc2.Trail)
			for _, r := range rs {
				if r.Kind == "return" && len(r.Ret) == 0 {
					r.Ret = nil
				}
				out = append(out, r)
			}
		}
	}
	return out
}

func cellsOf(env Env) map[string]constant.Value {
	var m map[string]constant.Value
	for k, v := range env {
		if k.cell != "" {
			if m == nil {
				m = map[string]constant.Value{}
			}
			m[k.cell] = v
		}
	}
	return m
}

func hasCells(env Env) bool {
	for k := range env {
		if k.cell != "" {
			return true
		}
	}
	return false
}
