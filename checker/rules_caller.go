package main

// rules_caller.go: C11 — frame arithmetic of the two caller look-ups.

import (
	"fmt"
	"go/token"
	"go/types"
	"sort"
	"strings"

	"golang.org/x/tools/go/ssa"
)

func init() { register("C11", checkC11) }

// callersDepth finds, inside fn or its in-module callees (depth ≤ 2), a call to
// runtime.Callers and returns the linear form of its skip argument in terms of
// fn's parameters plus the helper depth h (number of frames between fn's caller
// and runtime.Callers, i.e. 1 when fn calls runtime.Callers itself).
func (c *Ctx) callersSite(fn *ssa.Function) (site *ssa.Call, owner *ssa.Function) {
	eachInstr(fn, func(in ssa.Instruction) {
		if call, ok := in.(*ssa.Call); ok && calleeIs(call, "runtime", "", "Callers") {
			site, owner = call, fn
		}
	})
	return
}

func singleLin(lc *linCtx, v ssa.Value) (Lin, bool) {
	as := lc.lin(v, 0)
	if len(as) != 1 {
		return Lin{}, false
	}
	return as[0].L, true
}

func substitute(l Lin, varName string, by Lin) Lin {
	co, ok := l.Coef[varName]
	if !ok {
		return l
	}
	n := l.clone()
	delete(n.Coef, varName)
	return n.add(by.scale(co), 1)
}

func checkC11(c *Ctx, r *Report) {
	r.Explanation = "decided by frame arithmetic (linear forms in the skip argument): inside the recorder, runtime.Caller(a) reports frame a above the recorder and the fast helper reports runtime.Callers(s+k) = frame s+k−(1+h) above the recorder (h = helper depth); with d = length of the static call chain from an entry point to the recorder, the caller's statement is frame d+1 above the recorder for the 14 named entry points (which must pass the constant their chain requires) and d+skip for Record; both look-ups must evaluate to that frame and to each other; File/Line are written only from values produced under enableCaller. Not decided: the runtime's frame attribution for closures, defers, generics and inlined functions."
	r.Undecidedcl = []string{"runtime.Caller/Callers behaviour for inlined, generic, deferred and closure frames (runtime contract)", "cache hits of the fast look-up return the same location (sync.Map keyed by pc)"}
	r.Assumptions = []string{"runtime.Caller(n): n = 0 is the caller of Caller; runtime.Callers(n): n = 0 is Callers itself, 1 its caller"}
	ro := c.roles(r)
	R := ro.Recorder
	if R == nil {
		r.Undecided("C11.anchor:recorder", "", "recorder not found")
		return
	}
	r.SawFunc(R)
	r.Floor("logging entry points", len(ro.EntryPoints), 15)
	entryDecisions(r, ro, c.checkEntrySemantics(r, ro, "C11.entry-values"), "C11")
	lc := &linCtx{c: c, fn: R, vars: map[string]ssa.Value{}}

	// look-ups inside the recorder
	type lookup struct {
		name  string
		alpha Lin // frame above the recorder as a linear form in the recorder's parameters
		pos   string
		ok    bool
		guard string
	}
	var lks []lookup
	eachInstr(R, func(in ssa.Instruction) {
		call, ok := in.(*ssa.Call)
		if !ok {
			return
		}
		if calleeIs(call, "runtime", "", "Caller") {
			l, ok := singleLin(lc, call.Call.Args[0])
			lks = append(lks, lookup{name: "default(runtime.Caller)", alpha: l, pos: c.instrPos(in), ok: ok})
			return
		}
		f := call.Common().StaticCallee()
		if f == nil || !c.inModule(f) {
			return
		}
		// helper that reaches runtime.Callers: depth 1 (direct) or 2
		site, owner := c.callersSite(f)
		h := int64(1)
		var mid *ssa.Call
		if site == nil {
			for _, g := range c.moduleCallees(f) {
				if s2, o2 := c.callersSite(g); s2 != nil {
					site, owner = s2, o2
					h = 2
					eachInstr(f, func(j ssa.Instruction) {
						if cc, ok := j.(*ssa.Call); ok && cc.Common().StaticCallee() == g {
							mid = cc
						}
					})
				}
			}
		}
		if site == nil {
			return
		}
		r.SawFunc(owner)
		olc := &linCtx{c: c, fn: owner, vars: map[string]ssa.Value{}}
		inner, ok1 := singleLin(olc, site.Call.Args[0]) // in terms of owner's params
		// bind owner's skip parameter
		bind := func(callee *ssa.Function, form Lin, at *ssa.Call, lcx *linCtx) (Lin, bool) {
			out := form
			for i, p := range callee.Params {
				vn := "param:" + p.Name()
				if _, uses := out.Coef[vn]; uses {
					a, ok := singleLin(lcx, at.Call.Args[i])
					if !ok {
						return out, false
					}
					out = substitute(out, vn, a)
				}
			}
			return out, true
		}
		ok2 := true
		if h == 2 && mid != nil {
			flc := &linCtx{c: c, fn: f, vars: map[string]ssa.Value{}}
			inner, ok2 = bind(owner, inner, mid, flc)
			r.SawFunc(f)
		}
		total, ok3 := bind(f, inner, call, lc)
		alpha := total.add(linConst(1+h), -1)
		lks = append(lks, lookup{name: "fast(" + fname(f) + "→runtime.Callers)", alpha: alpha, pos: c.instrPos(in), ok: ok1 && ok2 && ok3})
	})
	if len(lks) < 2 {
		r.Undecided("C11.anchor:lookups", c.pos(R.Pos()), "expected a runtime.Caller look-up and a runtime.Callers-based look-up in the recorder, found %d", len(lks))
		return
	}
	// the skip parameter of the recorder
	skipVar := ""
	for _, lk := range lks {
		for v := range lk.alpha.Coef {
			if strings.HasPrefix(v, "param:") {
				skipVar = v
			}
		}
	}
	if skipVar == "" {
		r.Fail("C11.same:"+fname(R), c.pos(R.Pos()), "caller look-ups do not depend on the recorder's skip parameter")
		return
	}
	for _, lk := range lks {
		if !lk.ok || len(lk.alpha.Coef) != 1 || lk.alpha.Coef[skipVar] != 1 {
			r.Undecided("C11.form:"+lk.name, lk.pos, "frame expression is not skip + constant: %s", lk.alpha)
			return
		}
	}
	// C11.same
	same := true
	for _, lk := range lks[1:] {
		if lk.alpha.K != lks[0].alpha.K {
			same = false
		}
	}
	var forms []string
	for _, lk := range lks {
		forms = append(forms, fmt.Sprintf("%s reports frame %s above the recorder", lk.name, strings.ReplaceAll(lk.alpha.String(), skipVar, "skip")))
	}
	if same {
		r.OK("C11.same:"+fname(R), "%s", strings.Join(forms, "; "))
	} else {
		r.Fail("C11.same:"+fname(R), lks[1].pos, "the two caller look-ups report different frames for the same call: %s", strings.Join(forms, "; "))
	}
	// per entry point
	skipIdx := -1
	for i, p := range R.Params {
		if "param:"+p.Name() == skipVar {
			skipIdx = i
		}
	}
	for _, E := range ro.EntryPoints {
		r.SawFunc(E)
		chains := c.chainsTo(E, R, 3)
		r.Count("paths_enumerated", len(chains))
		if len(chains) == 0 {
			r.Undecided("C11.entry:"+fname(E), c.pos(E.Pos()), "no static call chain to the recorder")
			continue
		}
		for _, ch := range chains {
			d := int64(len(ch))
			// value reaching the recorder's skip parameter, in terms of E's parameters
			var v Lin
			okv := true
			idx := skipIdx
			// walk from the last call site backwards substituting parameters
			last := ch[len(ch)-1]
			llc := &linCtx{c: c, fn: last.Parent(), vars: map[string]ssa.Value{}}
			v, okv = singleLin(llc, last.Call.Args[idx])
			for i := len(ch) - 2; i >= 0 && okv; i-- {
				callee := ch[i].Common().StaticCallee()
				plc := &linCtx{c: c, fn: ch[i].Parent(), vars: map[string]ssa.Value{}}
				for pi, p := range callee.Params {
					vn := "param:" + p.Name()
					if _, uses := v.Coef[vn]; uses {
						a, ok := singleLin(plc, ch[i].Call.Args[pi])
						if !ok {
							okv = false
							break
						}
						v = substitute(v, vn, a)
					}
				}
			}
			if !okv {
				r.Undecided("C11.entry:"+fname(E), c.instrPos(last), "skip argument is not a linear expression")
				continue
			}
			// expected frame above the recorder: d + s, s = 1 for named entry points, E's own skip parameter for Record-like ones
			want := linConst(d + 1)
			sDesc := "1"
			for _, p := range E.Params {
				if _, uses := v.Coef["param:"+p.Name()]; uses {
					want = linVar("param:"+p.Name()).add(linConst(d), 1)
					sDesc = p.Name()
				}
			}
			for _, lk := range lks {
				key := fmt.Sprintf("C11.%s:%s", strings.SplitN(lk.name, "(", 2)[0], fname(E))
				got := substitute(lk.alpha, skipVar, v)
				if got.String() == want.String() {
					r.OK(key, "chain length %d, passes skip=%s: reports frame %s above the recorder = the statement calling %s (skip semantics %s)", d, v, got, E.Name(), sDesc)
				} else {
					r.Fail(key, lk.pos, "chain length %d, passes skip=%s: %s reports frame %s above the recorder, the caller's statement is frame %s (reports a frame inside the logging package / above the caller)", d, v, lk.name, got, want)
				}
			}
		}
	}
	// C11.frames: program counters are symbolised only through runtime.CallersFrames (or runtime.Caller), the APIs that
	// expand inlined frames; runtime.FuncForPC/(*Func).FileLine attribute a pc inside an inlined body to the wrong line
	c.checkFrameAPI(r, ro)
	c.checkFrameCache(r, ro)
	c.checkCallerSetters(r)
	// C11.disabled: File/Line of the event are assigned only from look-up results obtained under enableCaller
	c.checkCallerDisabled(r, R)
}

func (c *Ctx) checkFrameAPI(r *Report, ro *Roles) {
	n := 0
	var bad []string
	frames := 0
	for f := range c.reach(ro.Recorder) {
		eachInstr(f, func(in ssa.Instruction) {
			ci, ok := in.(ssa.CallInstruction)
			if !ok {
				return
			}
			s := ci.Common().StaticCallee()
			if s == nil || s.Pkg == nil || s.Pkg.Pkg.Path() != "runtime" {
				return
			}
			n++
			switch {
			case s.Name() == "FuncForPC" || (s.Signature.Recv() != nil && (s.Name() == "FileLine" || s.Name() == "Entry")):
				bad = append(bad, fmt.Sprintf("runtime.%s in %s at %s", s.Name(), fname(f), c.instrPos(in)))
			case s.Name() == "CallersFrames" || s.Name() == "Caller":
				frames++
			}
		})
	}
	key := "C11.frames:" + fname(ro.Recorder)
	r.Count("runtime_calls", n)
	if len(bad) > 0 {
		r.Fail(key, "", "a program counter is symbolised with %s: FuncForPC/FileLine do not expand inlined frames, so a call made from (or returning into) an inlined function is attributed to the wrong line, and the two caller modes disagree", strings.Join(bad, "; "))
	} else if frames < 2 {
		r.Fail(key, "", "expected runtime.Caller and runtime.CallersFrames as the only symbolisation APIs below the recorder, found %d", frames)
	} else {
		r.OK(key, "%d runtime calls below the recorder; locations come only from runtime.Caller / runtime.CallersFrames (inline-aware)", n)
	}
}

// chainsTo enumerates static call chains from -> ... -> to (length ≤ depth), as call-site lists.
func (c *Ctx) chainsTo(from, to *ssa.Function, depth int) [][]*ssa.Call {
	var out [][]*ssa.Call
	var rec func(f *ssa.Function, acc []*ssa.Call, d int)
	rec = func(f *ssa.Function, acc []*ssa.Call, d int) {
		if d == 0 {
			return
		}
		eachInstr(f, func(in ssa.Instruction) {
			call, ok := in.(*ssa.Call)
			if !ok {
				return
			}
			g := call.Common().StaticCallee()
			if g == nil || !c.inModule(g) {
				return
			}
			if g == to {
				out = append(out, append(append([]*ssa.Call{}, acc...), call))
				return
			}
			if c.reachesWithin(g, to, d-1) && g != f {
				rec(g, append(append([]*ssa.Call{}, acc...), call), d-1)
			}
		})
	}
	rec(from, nil, depth)
	return out
}

func (c *Ctx) checkCallerDisabled(r *Report, R *ssa.Function) {
	g := c.names().EnableCaller
	key := "C11.disabled:" + fname(R)
	if g == nil {
		r.Undecided(key, "", "the package variable that switches caller look-up on and off was not found (a bool guarding runtime.Caller in the recorder)")
		return
	}
	n := 0
	bad := 0
	eachInstr(R, func(in ssa.Instruction) {
		st, ok := in.(*ssa.Store)
		if !ok {
			return
		}
		fa, ok := st.Addr.(*ssa.FieldAddr)
		if !ok || !isEventPtr(fa.X.Type()) {
			return
		}
		if fn := fieldName(fa); fn != "File" && fn != "Line" {
			return
		}
		n++
		// every non-zero source of the stored value must be produced in a block guarded by enableCaller == true
		var srcs []ssa.Value
		seen := map[ssa.Value]bool{}
		var walk func(v ssa.Value)
		walk = func(v ssa.Value) {
			if seen[v] {
				return
			}
			seen[v] = true
			switch x := v.(type) {
			case *ssa.Phi:
				for _, e := range x.Edges {
					walk(e)
				}
			case *ssa.Const:
			default:
				srcs = append(srcs, v)
			}
		}
		walk(st.Val)
		for _, s := range srcs {
			in2, ok := s.(ssa.Instruction)
			guarded := false
			if ok {
				for _, gd := range guardsOfInstr(in2) {
					if ld, ok := gd.Cond.(*ssa.UnOp); ok && ld.Op == token.MUL && ld.X == g && gd.Polarity {
						guarded = true
					}
				}
			}
			if !guarded {
				bad++
				r.Fail(key+"#"+fieldName(fa), c.instrPos(st), "Event.%s receives a value not obtained under enableCaller", fieldName(fa))
			}
		}
	})
	// the location is (re)written on every path to publication: a pooled event otherwise keeps the location of
	// an earlier record when the look-up is disabled
	pd := postDominators(R)
	var getEv ssa.Instruction
	eachInstr(R, func(in ssa.Instruction) {
		if call, ok := in.(*ssa.Call); ok {
			if s := call.Common().StaticCallee(); s != nil && (s.Name() == "GetEvent" || funcIs(s, "sync", "Pool", "Get")) {
				getEv = in
			}
		}
	})
	stale := false
	if getEv != nil {
		for _, fld := range []string{"File", "Line"} {
			every := false
			eachInstr(R, func(in ssa.Instruction) {
				if st, ok := in.(*ssa.Store); ok {
					if fa, ok := st.Addr.(*ssa.FieldAddr); ok && isEventPtr(fa.X.Type()) && fieldName(fa) == fld {
						if in.Block() == getEv.Block() || pd[getEv.Block()][in.Block()] {
							every = true
						}
					}
				}
			})
			if !every && !c.resetClears(fld) {
				stale = true
				r.Fail(key+"#"+fld+"-every-path", c.pos(R.Pos()), "Event.%s is not written on every path from obtaining the pooled event to publishing it, and Event.Reset does not clear it: with caller look-up disabled a recycled event carries the location of an earlier, unrelated record instead of an empty one", fld)
			}
		}
	}
	if stale {
		return
	}
	if n < 2 {
		r.Fail(key, c.pos(R.Pos()), "the recorder does not populate Event.File and Event.Line")
	} else if bad == 0 {
		r.OK(key, "Event.File/Line come only from look-ups guarded by enableCaller; zero values otherwise")
	}
}

// resetClears: (*Event).Reset stores a zero value into the named field.
func (c *Ctx) resetClears(field string) bool {
	ev := c.logType("Event")
	if ev == nil {
		return false
	}
	reset := c.declaredMethod(ev, "Reset")
	if reset == nil {
		return false
	}
	ok := false
	eachInstr(reset, func(in ssa.Instruction) {
		if st, isSt := in.(*ssa.Store); isSt {
			if fa, isFa := st.Addr.(*ssa.FieldAddr); isFa && fieldName(fa) == field {
				if k, isK := st.Val.(*ssa.Const); isK && (k.Value == nil || k.Value.ExactString() == "0" || k.Value.ExactString() == `""`) {
					ok = true
				}
				// Level is reset to the NONE level variable, Time to the zero time
				if _, isLoad := st.Val.(*ssa.UnOp); isLoad {
					ok = true
				}
				// a slice truncated to length 0 (`e.f = e.f[:0]`) carries nothing over
				if sl, isSl := st.Val.(*ssa.Slice); isSl && sl.High != nil {
					if k, isK := sl.High.(*ssa.Const); isK && k.Value != nil && k.Value.ExactString() == "0" {
						ok = true
					}
				}
			}
		}
	})
	return ok
}

// checkFrameCache: a cache of symbolised frames below the recorder is keyed by the program counter itself — the
// full-width uintptr read from the Callers buffer, the same value at the look-up and at the insertion, with no
// arithmetic or narrowing on the way (two call sites must never share an entry).
func (c *Ctx) checkFrameCache(r *Report, ro *Roles) {
	type site struct {
		in  ssa.Instruction
		key ssa.Value
		op  string
	}
	byFn := map[*ssa.Function][]site{}
	for f := range c.reach(ro.Recorder) {
		eachInstr(f, func(in ssa.Instruction) {
			call, ok := in.(*ssa.Call)
			if !ok {
				return
			}
			s := call.Common().StaticCallee()
			if s == nil || !(funcIs(s, "sync", "Map", "Load") || funcIs(s, "sync", "Map", "Store") || funcIs(s, "sync", "Map", "LoadOrStore")) || len(call.Call.Args) < 2 {
				return
			}
			k := call.Call.Args[1]
			if mi, ok := k.(*ssa.MakeInterface); ok {
				k = mi.X
			}
			byFn[f] = append(byFn[f], site{in, k, s.Name()})
		})
	}
	for _, f := range sortedFuncs(func() map[*ssa.Function]bool {
		m := map[*ssa.Function]bool{}
		for f := range byFn {
			m[f] = true
		}
		return m
	}()) {
		r.SawFunc(f)
		key := "C11.cache-key:" + fname(f)
		var bad []string
		var first ssa.Value
		for _, st := range byFn[f] {
			if b, ok := st.key.Type().Underlying().(*types.Basic); !ok || b.Kind() != types.Uintptr {
				bad = append(bad, fmt.Sprintf("%s at %s is keyed by a %s, not by the uintptr program counter: call sites whose counters agree in the kept bits share one entry and report each other's location", st.op, c.instrPos(st.in), st.key.Type()))
				continue
			}
			switch st.key.(type) {
			case *ssa.Convert, *ssa.BinOp:
				bad = append(bad, fmt.Sprintf("%s at %s is keyed by a value computed from the program counter (%s), not by the counter itself", st.op, c.instrPos(st.in), c.prov(st.key, &Frame{Fn: f})))
				continue
			}
			if first == nil {
				first = st.key
			} else if st.key != first {
				bad = append(bad, fmt.Sprintf("%s at %s uses a different key value than the other cache operations", st.op, c.instrPos(st.in)))
			}
		}
		if len(bad) > 0 {
			r.Fail(key, c.pos(f.Pos()), "%s", strings.Join(bad, "; "))
		} else {
			r.OK(key, "%d cache operations keyed by one full-width program counter value", len(byFn[f]))
		}
	}
	r.Count("frame_cache_sites", len(byFn))
}

// checkCallerSetters: every registered configuration property writes a package variable of its own (two properties
// writing the same variable means one of them silently changes the other's setting), and the variable that switches
// caller look-up on and off is the one written by the property documented as `enableCaller`.
func (c *Ctx) checkCallerSetters(r *Report) {
	writes := map[*ssa.Global][]string{}
	byName := map[string][]*ssa.Global{}
	n := 0
	for _, f := range c.Funcs {
		eachInstr(f, func(in ssa.Instruction) {
			call, ok := in.(*ssa.Call)
			if !ok {
				return
			}
			reg := call.Common().StaticCallee()
			if reg == nil || !c.inModule(reg) || len(call.Call.Args) != 2 {
				return
			}
			name, ok := constString(call.Call.Args[0])
			if !ok {
				return
			}
			sig, ok := call.Call.Args[1].Type().Underlying().(*types.Signature)
			if !ok || sig.Params().Len() != 1 || !isStringType(sig.Params().At(0).Type()) || sig.Results().Len() != 1 {
				return
			}
			var fn *ssa.Function
			switch x := call.Call.Args[1].(type) {
			case *ssa.MakeClosure:
				fn = x.Fn.(*ssa.Function)
			case *ssa.Function:
				fn = x
			}
			if fn == nil {
				return
			}
			n++
			r.SawFunc(fn)
			seen := map[*ssa.Global]bool{}
			for g := range c.reach(fn) {
				eachInstr(g, func(j ssa.Instruction) {
					if st, ok := j.(*ssa.Store); ok {
						if gl, ok := st.Addr.(*ssa.Global); ok && gl.Pkg == c.LogS && !seen[gl] {
							seen[gl] = true
							writes[gl] = append(writes[gl], name)
							byName[name] = append(byName[name], gl)
						}
					}
				})
			}
		})
	}
	key := "C11.setters:properties"
	var bad []string
	for gl, names := range writes {
		if len(names) > 1 {
			sort.Strings(names)
			bad = append(bad, fmt.Sprintf("package variable %s is written by the setters of %d properties (%s)", gl.Name(), len(names), strings.Join(names, ", ")))
		}
	}
	if ec := c.names().EnableCaller; ec != nil && len(byName["enableCaller"]) > 0 {
		hit := false
		for _, gl := range byName["enableCaller"] {
			if gl == ec {
				hit = true
			}
		}
		if !hit {
			bad = append(bad, "the property `enableCaller` does not write the variable that switches the caller look-up in the recorder")
		}
	}
	sort.Strings(bad)
	if len(bad) > 0 {
		r.Fail(key, "", "%s", strings.Join(bad, "; "))
	} else {
		r.OK(key, "%d registered property setters, each writing its own package variable; enableCaller writes the look-up switch", n)
	}
	r.Floor("registered property setters", n, 2)
}
