package main

// rules_level.go: C01 (level gating on the whole path) and C10 (hooks and lazy generators).

import (
	"fmt"
	"go/constant"
	"go/token"
	"go/types"
	"sort"
	"strings"

	"golang.org/x/tools/go/ssa"
)

func init() {
	register("C01", checkC01)
	register("C10", checkC10)
}

// apiLevel is the public API: entry-point name -> level variable.
var apiLevel = map[string]string{
	"Trace": "TraceLevel", "Tracef": "TraceLevel", "Debug": "DebugLevel", "Debugf": "DebugLevel",
	"Info": "InfoLevel", "Infof": "InfoLevel", "Warn": "WarnLevel", "Warnf": "WarnLevel",
	"Error": "ErrorLevel", "Errorf": "ErrorLevel", "Panic": "PanicLevel", "Panicf": "PanicLevel",
	"Fatal": "FatalLevel", "Fatalf": "FatalLevel",
}

// gateOf: cond is a call to LevelRange.Enable → (range path, level path).
func (c *Ctx) gateOf(cond ssa.Value, ro *Roles, fr *Frame) (string, string, bool) {
	call, ok := cond.(*ssa.Call)
	if !ok || ro.Enable == nil {
		return "", "", false
	}
	if call.Common().StaticCallee() == ro.Enable {
		args := call.Common().Args
		return strings.TrimPrefix(c.accessPath(args[0], fr), "&"), strings.TrimPrefix(c.accessPath(args[1], fr), "&"), true
	}
	// a helper whose single result is the range test (e.g. `func (c *X) enabled(e *Event) bool { return c.Level.Enable(e.Level) }`)
	if f := call.Common().StaticCallee(); f != nil && c.inModule(f) && f.Signature.Results().Len() == 1 {
		if rv := singleReturn(f); rv != nil {
			if inner, ok := rv.Results[0].(*ssa.Call); ok && inner.Common().StaticCallee() == ro.Enable {
				d := 0
				if fr != nil {
					d = fr.Depth
				}
				nfr := &Frame{Fn: f, Site: call, Parent: fr, Depth: d + 1}
				if fr == nil {
					nfr.Parent = &Frame{Fn: call.Parent()}
				}
				args := inner.Common().Args
				return strings.TrimPrefix(c.accessPath(args[0], nfr), "&"), strings.TrimPrefix(c.accessPath(args[1], nfr), "&"), true
			}
		}
	}
	return "", "", false
}

type delivery struct {
	Kind  string // "dyn-append" | "dyn-write" | "leaf" | "send" | "inner-logger"
	Recv  string // access path of the receiver / channel
	Arg   string
	Gates []string
	Pos   string
	Chain string
	Instr ssa.Instruction
	Paths int
}

// deliveries explores root with in-module static callees inlined and reports every
// delivery point together with the Enable gates that hold (true edge) on the path.
func (c *Ctx) deliveries(root *ssa.Function, ro *Roles, r *Report) ([]delivery, []string) {
	leaf := map[*ssa.Function]bool{}
	for _, nt := range ro.LeafAppenders {
		for _, m := range []string{"Append", "Write"} {
			if f := c.declaredMethod(nt, m); f != nil {
				leaf[f] = true
			}
		}
	}
	var out []delivery
	seenIdx := map[string]int{}
	add := func(s *TSCtx, d delivery) {
		var gs []string
		for _, g := range strings.Split(s.A, "\x1f") {
			if g != "" {
				gs = append(gs, g)
			}
		}
		sort.Strings(gs)
		d.Gates = gs
		d.Chain = s.Frame.chain()
		k := d.Kind + d.Recv + d.Arg + d.Pos + d.Chain
		if i, ok := seenIdx[k]; ok {
			// must-gates = intersection over all paths reaching this delivery
			var inter []string
			for _, g := range out[i].Gates {
				for _, h := range gs {
					if g == h {
						inter = append(inter, g)
					}
				}
			}
			out[i].Gates = inter
			out[i].Paths++
			return
		}
		seenIdx[k] = len(out)
		d.Paths = 1
		out = append(out, d)
	}
	ts := &TS{C: c, Ev: &Evaluator{}}
	ts.Inline = func(s *TSCtx, call ssa.CallInstruction, callee *ssa.Function) bool {
		if call.Common().IsInvoke() {
			return false
		}
		if leaf[callee] || callee == ro.Enable {
			return false
		}
		if cv, ok := call.(*ssa.Call); ok {
			if _, _, isGate := c.gateOf(cv, ro, s.Frame); isGate {
				return false
			}
		}
		return call.Common().StaticCallee() != nil
	}
	ts.OnBranch = func(s *TSCtx, iff *ssa.If, taken bool) (string, bool) {
		cond := iff.Cond
		pol := taken
		for {
			u, ok := cond.(*ssa.UnOp)
			if !ok || u.Op != token.NOT {
				break
			}
			cond, pol = u.X, !pol
		}
		na, ch := s.A, false
		if rg, lv, ok := c.gateOf(cond, ro, s.Frame); ok {
			g := fmt.Sprintf("Enable(%s,%s)=%v", rg, lv, pol)
			if !strings.Contains(na, g) {
				na, ch = na+"\x1f"+g, true
			}
		}
		succ := iff.Block().Succs[1]
		if taken {
			succ = iff.Block().Succs[0]
		}
		if succ == iff.Block() || succ.Dominates(iff.Block()) {
			na, ch = dropLoopVariant(na), true
		}
		return na, ch
	}
	ts.OnJump = func(s *TSCtx, from, to *ssa.BasicBlock) (string, bool) {
		// back edge: gates about the previous element / received item do not carry over
		if to == from || to.Dominates(from) {
			return dropLoopVariant(s.A), true
		}
		return "", false
	}
	ts.OnInstr = func(s *TSCtx, in ssa.Instruction) []string {
		switch x := in.(type) {
		case *ssa.Send:
			add(s, delivery{Kind: "send", Recv: c.accessPath(x.Chan, s.Frame), Arg: c.accessPath(x.X, s.Frame), Pos: c.instrPos(in), Instr: in})
		case ssa.CallInstruction:
			com := x.Common()
			if com.IsInvoke() && c.moduleIface(com.Value.Type()) && (com.Method.Name() == "Append" || com.Method.Name() == "Write") {
				kind := "dyn-" + strings.ToLower(com.Method.Name())
				if types.Implements(com.Value.Type(), c.logIface("Logger")) {
					kind = "inner-logger-" + strings.ToLower(com.Method.Name())
				}
				add(s, delivery{Kind: kind, Recv: c.accessPath(com.Value, s.Frame), Arg: c.accessPath(com.Args[0], s.Frame), Pos: c.instrPos(in), Instr: in})
			}
			if f := com.StaticCallee(); f != nil && leaf[f] {
				add(s, delivery{Kind: "leaf", Recv: c.accessPath(com.Args[0], s.Frame), Arg: c.accessPath(com.Args[1], s.Frame), Pos: c.instrPos(in), Instr: in})
			}
		}
		return nil
	}
	ts.OnSelect = func(s *TSCtx, sel *ssa.Select, chosen int) []string {
		if chosen >= 0 && sel.States[chosen].Dir == types.SendOnly {
			st := sel.States[chosen]
			add(s, delivery{Kind: "send-select", Recv: c.accessPath(st.Chan, s.Frame), Arg: c.accessPath(st.Send, s.Frame), Pos: c.instrPos(sel), Instr: sel})
		}
		return nil
	}
	ts.Run(root, "", nil)
	if r != nil {
		r.Count("typestate_states", ts.States)
	}
	return out, ts.Truncated
}

// dropLoopVariant removes gates that speak about a loop element or a received item.
func dropLoopVariant(a string) string {
	na := ""
	for _, g := range strings.Split(a, "\x1f") {
		if g != "" && !strings.Contains(g, "[]") && !strings.Contains(g, "<-") {
			na += "\x1f" + g
		}
	}
	return na
}

func hasGate(gs []string, rangePath, levelPath string) bool {
	want := fmt.Sprintf("Enable(%s,%s)=true", rangePath, levelPath)
	for _, g := range gs {
		if g == want {
			return true
		}
	}
	return false
}

func checkC01(c *Ctx, r *Report) {
	r.Explanation = "decided: each of the 15 entry points gates on and records at the level its name denotes (Record: its parameter), with the logger serving the tag; the nine built-in levels are constants in strictly increasing order; LevelRange.Enable is min ≤ l < max on all order types of (l,min,max); every chain from a logger's Append to a delivery point (appender call, channel send, inner logger) carries the logger-range gate on its true edge, and every chain to a referenced appender carries that reference's own range gate applied to the event's level; per reference and event there is exactly one delivery on the gate-true path and the layout/no-layout fan-outs are exclusive; ParseLevelRange normalises both bounds like the registry writer and maps part 0/1 to min/max and the empty string to [NONE,MAX); chaining of open-ended references depends on a strict comparison of two references' lower bounds in the right direction; the rolling-file logger's generated references tile the logger range. Not decided: correctness of sort-and-chain for all reference sets, '~' splitting corner cases, user-registered level codes."
	r.Undecidedcl = []string{"the sort+chain algorithm yields the specified ranges for every set of references (only necessary comparisons are decided)", "level codes registered at run time"}
	r.Assumptions = []string{"closed world: appenders are the module's implementations", "sort.Slice sorts by the given comparator"}
	ro := c.roles(r)
	r.Floor("logger implementations", len(ro.Loggers), 6)
	r.Floor("logging entry points", len(ro.EntryPoints), 15)
	if ro.Enable == nil || ro.Recorder == nil {
		r.Undecided("C01.anchor:enable/recorder", "", "LevelRange.Enable or the recorder not found")
		return
	}
	c.checkEntryLevels(r, ro)
	entryDecisions(r, ro, c.checkEntrySemantics(r, ro, "C01.entry-values"), "C01")
	c.checkLevelTable(r)
	c.checkEnableFormula(r, ro)
	c.checkLoggerGates(r, ro)
	c.checkParseLevelRange(r)
	c.checkChain(r, ro)
	if conclusive, ok := c.checkChainSemantics(r, ro); conclusive && ok {
		r.Decide([]string{"C01.chain:"}, nil, "sort-and-chain evaluated over every reference set of size 1–4")
	}
	c.checkParseSemantics(r, ro)
	c.checkFanoutSemantics(r, ro, "C01.fanout-values")
	for tn, ok := range c.checkRollingLoggerSemantics(r, ro, "C01.rolling-values") {
		if ok {
			tn := tn
			r.Decide([]string{"C01.gate-logger:", "C01.split:"}, func(k string) bool { return strings.Contains(k, "(*"+tn+")") },
				tn+" evaluated end to end in synchronous mode: every in-range event is written once, to the file its level selects; GetLevel is the configured range the entry points gate on")
		}
	}
	c.checkSplit(r, ro)
}

// ---- C01.entry

func (c *Ctx) checkEntryLevels(r *Report, ro *Roles) {
	R := ro.Recorder
	levelT := c.logType("Level")
	lvIdx, lgIdx, tagIdx := -1, -1, -1
	for i, p := range R.Params {
		switch {
		case types.Identical(p.Type(), levelT):
			lvIdx = i
		case c.moduleIface(p.Type()):
			lgIdx = i
		case isStringType(p.Type()):
			tagIdx = i
		}
	}
	for _, E := range ro.EntryPoints {
		r.SawFunc(E)
		key := "C01.entry:" + fname(E)
		fr := &Frame{Fn: E}
		var gateLv, gateRg, recLv, recLg, recTag []string
		eachInstr(E, func(in ssa.Instruction) {
			call, ok := in.(*ssa.Call)
			if !ok {
				return
			}
			if call.Common().StaticCallee() == ro.Enable {
				gateRg = append(gateRg, c.prov(call.Call.Args[0], fr).String())
				gateLv = append(gateLv, c.accessPath(call.Call.Args[1], fr))
			}
			if call.Common().StaticCallee() == R {
				recLv = append(recLv, c.accessPath(call.Call.Args[lvIdx], fr))
				recLg = append(recLg, c.prov(call.Call.Args[lgIdx], fr).String())
				if tagIdx >= 0 {
					recTag = append(recTag, c.accessPath(call.Call.Args[tagIdx], fr))
				}
			}
		})
		r.Count("call_sites", len(gateLv)+len(recLv))
		if len(recLv) != 1 {
			r.Fail(key, c.pos(E.Pos()), "expected exactly one call to the recorder, found %d", len(recLv))
			continue
		}
		want := "param:" + paramOfType(E, isLevelType)
		tagParam := "param:" + paramOfType(E, isTagPtr)
		if g, ok := apiLevel[E.Name()]; ok {
			want = "global:" + g
		} else {
			// Record-like: the level parameter
			want = ""
			for _, p := range E.Params {
				if types.Identical(p.Type(), levelT) {
					want = "param:" + p.Name()
				}
			}
		}
		var bad []string
		if recLv[0] != want {
			bad = append(bad, fmt.Sprintf("records at %s, the API level of %s is %s", recLv[0], E.Name(), want))
		}
		if len(gateLv) != 1 {
			bad = append(bad, fmt.Sprintf("%d level gates in the entry point, expected 1", len(gateLv)))
		} else {
			if gateLv[0] != recLv[0] {
				bad = append(bad, fmt.Sprintf("gates on %s but records at %s", gateLv[0], recLv[0]))
			}
			// gate range = <logger passed to the recorder>.GetLevel()
			if !strings.HasPrefix(gateRg[0], "invoke:GetLevel(") || !strings.Contains(gateRg[0], recLg[0]) {
				bad = append(bad, fmt.Sprintf("gate range %s is not the level range of the logger handed to the recorder (%s)", gateRg[0], recLg[0]))
			}
		}
		if !strings.Contains(recLg[0], tagParam) {
			bad = append(bad, "logger handed to the recorder is not the one serving the tag: "+recLg[0])
		}
		if tagIdx >= 0 && (len(recTag) == 0 || !strings.HasPrefix(recTag[0], tagParam)) {
			bad = append(bad, "tag name handed to the recorder is not the tag's own name")
		}
		if len(bad) > 0 {
			r.Fail(key, c.pos(E.Pos()), "%s", strings.Join(bad, "; "))
		} else {
			r.OK(key, "gate and record at %s with the logger serving the tag", want)
		}
	}
}

// ---- C01.levels

func (c *Ctx) checkLevelTable(r *Report) {
	ini := c.LogS.Func("init")
	regL := c.logFunc("RegisterLevel")
	if ini == nil || regL == nil {
		r.Undecided("C01.levels:init", "", "package init / RegisterLevel not found")
		return
	}
	type lv struct {
		global string
		code   int64
		name   string
	}
	var lvs []lv
	eachInstr(ini, func(in ssa.Instruction) {
		st, ok := in.(*ssa.Store)
		if !ok {
			return
		}
		g, ok := st.Addr.(*ssa.Global)
		if !ok {
			return
		}
		call, ok := st.Val.(*ssa.Call)
		if !ok || call.Common().StaticCallee() != regL {
			return
		}
		code, ok1 := constInt(call.Call.Args[0])
		name, ok2 := constString(call.Call.Args[1])
		if !ok1 || !ok2 {
			r.Fail("C01.levels:"+g.Name(), c.instrPos(in), "built-in level registered with non-constant code or name")
			return
		}
		lvs = append(lvs, lv{g.Name(), code, name})
	})
	r.Floor("built-in levels", len(lvs), 9)
	order := []string{"NoneLevel", "TraceLevel", "DebugLevel", "InfoLevel", "WarnLevel", "ErrorLevel", "PanicLevel", "FatalLevel", "MaxLevel"}
	by := map[string]lv{}
	for _, l := range lvs {
		by[l.global] = l
	}
	var bad []string
	prev := int64(-1 << 62)
	for _, g := range order {
		l, ok := by[g]
		if !ok {
			bad = append(bad, g+" missing")
			continue
		}
		if l.code <= prev {
			bad = append(bad, fmt.Sprintf("%s code %d is not above the previous level's %d", g, l.code, prev))
		}
		prev = l.code
		if strings.ToUpper(l.name) != strings.ToUpper(strings.TrimSuffix(g, "Level")) {
			bad = append(bad, fmt.Sprintf("%s is registered under the name %q", g, l.name))
		}
	}
	// names unique
	names := map[string]string{}
	for _, l := range lvs {
		if o, dup := names[strings.ToUpper(l.name)]; dup {
			bad = append(bad, fmt.Sprintf("%s and %s share the name %q", o, l.global, l.name))
		}
		names[strings.ToUpper(l.name)] = l.global
	}
	if len(bad) > 0 {
		r.Fail("C01.levels:builtin", c.pos(ini.Pos()), "%s", strings.Join(bad, "; "))
	} else {
		r.OK("C01.levels:builtin", "NONE<TRACE<DEBUG<INFO<WARN<ERROR<PANIC<FATAL<MAX with constant codes %v", func() []int64 {
			var cs []int64
			for _, g := range order {
				cs = append(cs, by[g].code)
			}
			return cs
		}())
	}
	// RegisterLevel stores under ToUpper(name) and returns the same level
	key := "C01.levels:" + fname(regL)
	okW := false
	eachInstr(regL, func(in ssa.Instruction) {
		if mu, ok := in.(*ssa.MapUpdate); ok {
			p := c.prov(mu.Key, &Frame{Fn: regL})
			if strings.Contains(p.String(), "strings.ToUpper(param:"+paramOfType(regL, isStringType)+")") {
				okW = true
			}
		}
	})
	if okW {
		r.OK(key, "registry key is strings.ToUpper(name)")
	} else {
		r.Fail(key, c.pos(regL.Pos()), "level registry is not keyed by the upper-cased name (case-insensitive parsing would miss)")
	}
}

// ---- C01.enable

func (c *Ctx) checkEnableFormula(r *Report, ro *Roles) {
	fn := ro.Enable
	r.SawFunc(fn)
	key := "C01.enable:" + fname(fn)
	recv, lp := fn.Params[0].Name(), fn.Params[1].Name()
	var bad []string
	n := 0
	for l := int64(0); l < 3; l++ {
		for mn := int64(0); mn < 3; mn++ {
			for mx := int64(0); mx < 3; mx++ {
				vals := map[string]int64{
					"param:" + lp + ".code":            l,
					"param:" + recv + ".MinLevel.code": mn,
					"param:" + recv + ".MaxLevel.code": mx,
				}
				unknown := ""
				ts := &TS{C: c, Ev: &Evaluator{Assume: func(v ssa.Value, fr *Frame) (constant.Value, bool) {
					ld, ok := v.(*ssa.UnOp)
					if ok && ld.Op == token.MUL {
						if _, isF := ld.X.(*ssa.FieldAddr); isF {
							p := strings.ReplaceAll(c.accessPath(v, fr), "&", "")
							if k, ok := vals[p]; ok {
								return constant.MakeInt64(k), true
							}
							if b, ok := ld.Type().Underlying().(*types.Basic); ok && b.Info()&types.IsInteger != 0 {
								unknown = p
							}
						}
					}
					if f, ok := v.(*ssa.Field); ok {
						p := strings.ReplaceAll(c.accessPath(v, fr), "&", "")
						if k, ok := vals[p]; ok {
							return constant.MakeInt64(k), true
						}
						_ = f
					}
					return nil, false
				}}}
				outs := ts.Run(fn, "", nil)
				r.Count("typestate_states", ts.States)
				n++
				want := mn <= l && l < mx
				if len(outs) != 1 || len(outs[0].Ret) != 1 || outs[0].Ret[0] == nil {
					bad = append(bad, fmt.Sprintf("(l=%d,min=%d,max=%d): result not determined by the three codes (depends on %s)", l, mn, mx, unknown))
					continue
				}
				if got := constant.BoolVal(outs[0].Ret[0]); got != want {
					bad = append(bad, fmt.Sprintf("l=%d min=%d max=%d → %v, want %v", l, mn, mx, got, want))
				}
			}
		}
	}
	if len(bad) > 0 {
		r.Fail(key, c.pos(fn.Pos()), "Enable differs from the half-open interval min ≤ l < max: %s", strings.Join(firstN(bad, 4), "; "))
	} else {
		r.OK(key, "min ≤ l < max on all %d assignments covering the 13 weak orderings of (l,min,max)", n)
	}
}

// ---- C01.gate-logger / gate-ref / once

func (c *Ctx) checkLoggerGates(r *Report, ro *Roles) {
	type root struct {
		fn    *ssa.Function
		owner *types.Named
		event string
		kind  string
	}
	var roots []root
	for _, l := range ro.Loggers {
		if m := c.declaredMethod(l, "Append"); m != nil {
			roots = append(roots, root{m, l, "param:" + m.Params[1].Name(), "append"})
		} else if pm := c.method(l, "Append"); pm != nil {
			// promoted from an embedded leaf appender: the logger's own range is never consulted
			isNoop := len(pm.Blocks) == 0 || (len(pm.Blocks) == 1 && len(pm.Blocks[0].Instrs) == 1)
			key := "C01.gate-logger:" + l.Obj().Name() + ".Append"
			if isNoop {
				r.OKTrivial(key, "promoted no-op Append (%s): nothing is ever delivered", fname(pm))
			} else {
				r.Fail(key, c.pos(l.Obj().Pos()), "Append is promoted from %s without consulting the logger's level range", fname(pm))
			}
		}
	}
	nChains := 0
	for _, rt := range roots {
		r.SawFunc(rt.fn)
		ds, trunc := c.deliveries(rt.fn, ro, r)
		if len(trunc) > 0 {
			r.Undecided("C01.gate-logger:"+fname(rt.fn), c.pos(rt.fn.Pos()), "exploration truncated: %v", trunc)
			continue
		}
		recv := "param:" + rt.fn.Params[0].Name()
		lvl := rt.event + ".Level"
		if len(ds) == 0 {
			r.Fail("C01.gate-logger:"+fname(rt.fn), c.pos(rt.fn.Pos()), "no delivery point reachable from Append: events are silently dropped")
			continue
		}
		for _, d := range ds {
			nChains++
			key := fmt.Sprintf("C01.gate-logger:%s→%s(%s)@%s", fname(rt.fn), d.Kind, strings.TrimPrefix(d.Recv, recv+"."), strings.TrimPrefix(d.Chain, fname(rt.fn)))
			if strings.HasPrefix(d.Kind, "inner-logger") {
				c.checkInnerLoggerBase(r, rt.owner, d, key)
				continue
			}
			if hasGate(d.Gates, recv+".LoggerBase.Level", lvl) || hasGate(d.Gates, recv+".Level", lvl) {
				r.OK(key, "logger-range gate on the true edge; gates on the chain: %v", d.Gates)
			} else if fld := c.innerGateField(rt.owner, recv, lvl, d.Gates); fld != "" {
				r.OK(key, "the range gate is applied by the inner logger %s.%s, every value stored there is built with a copy of the outer LoggerBase; gates on the chain: %v", recv, fld, d.Gates)
			} else {
				r.Fail(key, d.Pos, "delivery without the logger's own range gate Enable(%s.Level, %s)=true; gates on the chain %s: %v", recv, lvl, d.Chain, d.Gates)
			}
			// reference gate
			if d.Kind == "dyn-append" || d.Kind == "dyn-write" {
				c.checkRefGate(r, rt.fn, d, lvl)
			}
		}
	}
	// worker
	if ro.Worker != nil {
		r.SawFunc(ro.Worker)
		ds, trunc := c.deliveries(ro.Worker, ro, r)
		if len(trunc) > 0 {
			r.Undecided("C01.gate-ref:"+fname(ro.Worker), c.pos(ro.Worker.Pos()), "exploration truncated: %v", trunc)
		}
		for _, d := range ds {
			if d.Kind != "dyn-append" && d.Kind != "dyn-write" {
				continue
			}
			nChains++
			// the event of this chain: a gate over <x>.Level where x is the received item
			// raw []byte items carry no level: decided in C12; only chains that format an event are checked here
			isEventChain := d.Kind == "dyn-append" || strings.Contains(d.Arg, "ToBytes")
			if !isEventChain {
				continue
			}
			c.checkRefGate(r, ro.Worker, d, "")
		}
	}
	r.Count("delivery_chains", nChains)
	r.Floor("delivery chains", nChains, 8)
	c.checkOnce(r, ro)
}

// checkRefGate: a dynamic appender call on <P>.Appender needs Enable(<P>.Level, <event>.Level)=true.
func (c *Ctx) checkRefGate(r *Report, root *ssa.Function, d delivery, lvl string) {
	key := fmt.Sprintf("C01.gate-ref:%s→%s@%s", fname(root), d.Kind, strings.TrimPrefix(d.Chain, fname(root)))
	if !strings.HasSuffix(d.Recv, ".Appender") {
		r.Undecided(key, d.Pos, "dynamic appender call on %s, which is not the embedded Appender of a reference", d.Recv)
		return
	}
	ref := strings.TrimSuffix(d.Recv, ".Appender")
	ok := false
	for _, g := range d.Gates {
		if !strings.HasPrefix(g, "Enable("+ref+".Level,") || !strings.HasSuffix(g, ")=true") {
			continue
		}
		arg := strings.TrimSuffix(strings.TrimPrefix(g, "Enable("+ref+".Level,"), ")=true")
		if lvl != "" && arg == lvl {
			ok = true
		}
		if lvl == "" && strings.HasSuffix(arg, ".Level") && !strings.HasPrefix(arg, "global:") {
			ok = true
		}
	}
	if ok {
		r.OK(key, "reference-range gate Enable(%s.Level, event level)=true on the chain", ref)
	} else {
		r.Fail(key, d.Pos, "appender of reference %s is reached without that reference's range gate applied to the event's level; gates on the chain: %v", ref, d.Gates)
	}
}

// checkInnerLoggerBase: delegation to an inner logger is accepted only if every inner logger
// is constructed with a copy of the outer logger's LoggerBase (same level range).
// innerGateField: the chain is gated by Enable(<recv>.<field>.LoggerBase.Level, level) where <field> holds a concrete
// inner logger, and every value stored into that field is a fresh struct whose LoggerBase is a copy of the owner's
// LoggerBase (so the inner gate applies the configured range). Returns the field name or "".
func (c *Ctx) innerGateField(owner *types.Named, recv, lvl string, gates []string) string {
	st, ok := owner.Underlying().(*types.Struct)
	if !ok {
		return ""
	}
	for i := 0; i < st.NumFields(); i++ {
		f := st.Field(i)
		if !hasGate(gates, recv+"."+f.Name()+".LoggerBase.Level", lvl) && !hasGate(gates, recv+"."+f.Name()+".Level", lvl) {
			continue
		}
		n, okAll := 0, true
		for _, fn := range c.Funcs {
			eachInstr(fn, func(in ssa.Instruction) {
				sto, ok := in.(*ssa.Store)
				if !ok {
					return
				}
				fa, ok := sto.Addr.(*ssa.FieldAddr)
				if !ok || fieldName(fa) != f.Name() || recvTypeOfAddr(fa) != owner {
					return
				}
				if isNilConst(sto.Val) {
					return
				}
				n++
				al, ok := sto.Val.(*ssa.Alloc)
				if !ok {
					okAll = false
					return
				}
				copied := false
				for _, u := range *al.Referrers() {
					fa2, ok := u.(*ssa.FieldAddr)
					if !ok || fieldName(fa2) != "LoggerBase" || fa2.Referrers() == nil {
						continue
					}
					for _, u2 := range *fa2.Referrers() {
						if st2, ok := u2.(*ssa.Store); ok && st2.Addr == fa2 {
							p := c.accessPath(st2.Val, &Frame{Fn: fn})
							if strings.HasSuffix(p, ".LoggerBase") && strings.HasPrefix(p, "param:") {
								copied = true
							}
						}
					}
				}
				if !copied {
					okAll = false
				}
			})
		}
		if n > 0 && okAll {
			return f.Name()
		}
	}
	return ""
}

func (c *Ctx) checkInnerLoggerBase(r *Report, owner *types.Named, d delivery, key string) {
	// stores into the delegating field
	field := d.Recv[strings.LastIndex(d.Recv, ".")+1:]
	var vals []ssa.Value
	for _, f := range c.Funcs {
		eachInstr(f, func(in ssa.Instruction) {
			if st, ok := in.(*ssa.Store); ok {
				if fa, ok := st.Addr.(*ssa.FieldAddr); ok && fieldName(fa) == field && recvTypeOfAddr(fa) == owner {
					vals = append(vals, st.Val)
				}
			}
		})
	}
	if len(vals) == 0 {
		r.Fail(key, d.Pos, "events are delegated to %s, which is never assigned", d.Recv)
		return
	}
	n, bad := 0, 0
	// a value stored into the field may be a literal built on the spot (`f.logger = &SyncLogger{LoggerBase: f.LoggerBase}`),
	// possibly behind an interface conversion or a φ of such literals
	copiesBase := func(al *ssa.Alloc) bool {
		if al.Referrers() == nil {
			return false
		}
		for _, u := range *al.Referrers() {
			fa, ok := u.(*ssa.FieldAddr)
			if !ok || fieldName(fa) != "LoggerBase" || fa.Referrers() == nil {
				continue
			}
			for _, u2 := range *fa.Referrers() {
				if st, ok := u2.(*ssa.Store); ok && st.Addr == fa {
					p := c.accessPath(st.Val, &Frame{Fn: al.Parent()})
					if strings.HasSuffix(p, ".LoggerBase") && strings.HasPrefix(p, "param:") {
						return true
					}
				}
			}
		}
		return false
	}
	var literals func(v ssa.Value, depth int) ([]*ssa.Alloc, bool)
	literals = func(v ssa.Value, depth int) ([]*ssa.Alloc, bool) {
		if depth > 4 {
			return nil, false
		}
		switch x := v.(type) {
		case *ssa.MakeInterface:
			return literals(x.X, depth+1)
		case *ssa.ChangeInterface:
			return literals(x.X, depth+1)
		case *ssa.Alloc:
			return []*ssa.Alloc{x}, true
		case *ssa.Phi:
			var out []*ssa.Alloc
			for _, e := range x.Edges {
				as, ok := literals(e, depth+1)
				if !ok {
					return nil, false
				}
				out = append(out, as...)
			}
			return out, true
		}
		return nil, false
	}
	var rest []ssa.Value
	for _, v := range vals {
		if as, ok := literals(v, 0); ok && len(as) > 0 {
			for _, al := range as {
				n++
				if !copiesBase(al) {
					bad++
					r.Fail(key+"#"+c.instrPos(al), c.instrPos(al), "the inner logger literal does not copy the outer logger's LoggerBase: its level gate differs from the configured range")
				}
			}
			continue
		}
		rest = append(rest, v)
	}
	vals = rest
	for _, v := range vals {
		var ctors []*ssa.Function
		if call, ok := v.(*ssa.Call); ok {
			fns, _ := c.resolveFuncValue(call.Call.Value, 0)
			if f := call.Common().StaticCallee(); f != nil {
				fns = []*ssa.Function{f}
			}
			ctors = fns
		}
		if len(ctors) == 0 {
			bad++
			r.Fail(key, d.Pos, "cannot resolve how the inner logger %s is constructed", d.Recv)
			continue
		}
		for _, ctor := range ctors {
			r.SawFunc(ctor)
			n++
			copied := false
			eachInstr(ctor, func(in ssa.Instruction) {
				st, ok := in.(*ssa.Store)
				if !ok {
					return
				}
				fa, ok := st.Addr.(*ssa.FieldAddr)
				if !ok || fieldName(fa) != "LoggerBase" {
					return
				}
				if _, isNew := fa.X.(*ssa.Alloc); !isNew {
					return
				}
				p := c.accessPath(st.Val, &Frame{Fn: ctor})
				if strings.HasSuffix(p, ".LoggerBase") && strings.HasPrefix(p, "param:") {
					copied = true
				}
			})
			if !copied {
				bad++
				r.Fail(key+"#"+fname(ctor), c.pos(ctor.Pos()), "inner logger built by %s does not copy the outer logger's LoggerBase: its level gate differs from the configured range", fname(ctor))
			}
		}
	}
	if bad == 0 {
		r.OK(key, "delegation to the inner logger; all %d constructor(s) copy the outer LoggerBase, so the inner logger's own gate applies the configured range", n)
	}
}

func recvTypeOfAddr(fa *ssa.FieldAddr) *types.Named {
	t := fa.X.Type()
	if p, ok := t.Underlying().(*types.Pointer); ok {
		t = p.Elem()
	}
	n, _ := t.(*types.Named)
	return n
}

// checkOnce: fan-out functions deliver at most once per reference and iteration, exactly once when
// the reference gate holds; a logger's Append calls exactly one fan-out on the enabled path.
func (c *Ctx) checkOnce(r *Report, ro *Roles) {
	// fan-out functions: methods that loop over []*AppenderRef and call its Append/Write
	if ro.AppenderRef == nil {
		r.Undecided("C01.once:anchor", "", "appender reference type not found")
		return
	}
	refAppend, refWrite := c.declaredMethod(ro.AppenderRef, "Append"), c.declaredMethod(ro.AppenderRef, "Write")
	var fanouts []*ssa.Function
	for _, f := range c.Funcs {
		calls := 0
		eachInstr(f, func(in ssa.Instruction) {
			if ci, ok := in.(ssa.CallInstruction); ok {
				if s := ci.Common().StaticCallee(); s != nil && (s == refAppend || s == refWrite) {
					calls++
				}
			}
		})
		if calls > 0 && recvNamed(f) != ro.AppenderRef {
			fanouts = append(fanouts, f)
		}
	}
	r.Floor("fan-out functions", len(fanouts), 2)
	isFan := map[*ssa.Function]bool{}
	for _, f := range fanouts {
		isFan[f] = true
		r.SawFunc(f)
		key := "C01.once:" + fname(f)
		// per-iteration delivery count
		var header *ssa.BasicBlock
		for _, b := range f.Blocks {
			if strings.Contains(b.Comment, "range") && strings.Contains(b.Comment, "loop") {
				header = b
			}
		}
		if header == nil {
			r.Undecided(key, c.pos(f.Pos()), "fan-out is not a range loop over the references")
			continue
		}
		records := map[string]bool{}
		ts := &TS{C: c, Ev: &Evaluator{}}
		ts.OnInstr = func(s *TSCtx, in ssa.Instruction) []string {
			if ci, ok := in.(ssa.CallInstruction); ok {
				if sc := ci.Common().StaticCallee(); sc != nil && (sc == refAppend || sc == refWrite) {
					return []string{s.A + "D"}
				}
				if ci.Common().IsInvoke() && (ci.Common().Method.Name() == "Append" || ci.Common().Method.Name() == "Write") {
					return []string{s.A + "D"}
				}
			}
			return nil
		}
		ts.OnBranch = func(s *TSCtx, iff *ssa.If, taken bool) (string, bool) {
			if iff.Block() == header {
				if s.A != "" {
					records[s.A] = true
				}
				return "", true
			}
			if _, _, ok := c.gateOf(iff.Cond, ro, s.Frame); ok {
				return s.A + fmt.Sprintf("g%v;", taken), true
			}
			return "", false
		}
		ts.OnJump = func(s *TSCtx, from, to *ssa.BasicBlock) (string, bool) {
			if to == header && from != f.Blocks[0] {
				records[s.A+"|"] = true
				return "", true
			}
			return "", false
		}
		ts.Run(f, "", nil)
		r.Count("typestate_states", ts.States)
		var bad []string
		for rec := range records {
			rec = strings.TrimSuffix(rec, "|")
			n := strings.Count(rec, "D")
			switch {
			case strings.Contains(rec, "gfalse") && n != 0:
				bad = append(bad, "delivery on the gate-false edge")
			case !strings.Contains(rec, "gfalse") && n != 1:
				bad = append(bad, fmt.Sprintf("%d deliveries per reference on the enabled path (want exactly 1): %q", n, rec))
			}
		}
		if len(records) == 0 {
			bad = append(bad, "no loop iteration found")
		}
		if len(bad) > 0 {
			r.Fail(key, c.pos(f.Pos()), "%s", strings.Join(uniq(bad), "; "))
		} else {
			r.OK(key, "%d iteration path(s): one delivery per reference when its gate holds, none otherwise", len(records))
		}
	}
	// per logger Append / worker: exactly one fan-out on each enabled path
	check := func(root *ssa.Function, label string) {
		ts := &TS{C: c, Ev: &Evaluator{}}
		ts.OnInstr = func(s *TSCtx, in ssa.Instruction) []string {
			if ci, ok := in.(ssa.CallInstruction); ok {
				if sc := ci.Common().StaticCallee(); sc != nil && isFan[sc] {
					if strings.Count(s.A, "F") >= 3 {
						return nil
					}
					return []string{s.A + "F"}
				}
			}
			return nil
		}
		ts.OnBranch = func(s *TSCtx, iff *ssa.If, taken bool) (string, bool) {
			if _, _, ok := c.gateOf(iff.Cond, ro, s.Frame); ok {
				return s.A + fmt.Sprintf("g%v;", taken), true
			}
			return "", false
		}
		var recs []string
		if label == "worker" {
			// per received item: reset at the loop header
			var header *ssa.BasicBlock
			for _, b := range root.Blocks {
				if strings.Contains(b.Comment, "rangechan") && strings.Contains(b.Comment, "loop") {
					header = b
				}
			}
			ts.OnJump = func(s *TSCtx, from, to *ssa.BasicBlock) (string, bool) {
				if header != nil && to == header {
					if from != root.Blocks[0] {
						recs = append(recs, s.A)
					}
					return "", true
				}
				return "", false
			}
			ts.Run(root, "", nil)
		} else {
			for _, o := range ts.Run(root, "", nil) {
				recs = append(recs, o.A)
			}
		}
		r.Count("typestate_states", ts.States)
		var bad []string
		nF := 0
		for _, a := range recs {
			n := strings.Count(a, "F")
			nF += n
			if n > 1 {
				bad = append(bad, fmt.Sprintf("%d fan-outs on one path (%q): the event is delivered twice", n, a))
			}
			if strings.Contains(a, "gfalse") && n > 0 {
				bad = append(bad, "fan-out on the disabled path")
			}
		}
		key := "C01.once:" + fname(root)
		if nF == 0 {
			return // this logger does not use references
		}
		if len(bad) > 0 {
			r.Fail(key, c.pos(root.Pos()), "%s", strings.Join(uniq(bad), "; "))
		} else {
			r.OK(key, "at most one fan-out per event on every path (%d path(s)); layout and no-layout branches are exclusive", len(recs))
		}
	}
	for _, l := range ro.Loggers {
		if m := c.declaredMethod(l, "Append"); m != nil {
			check(m, "logger")
		}
	}
	if ro.Worker != nil {
		check(ro.Worker, "worker")
	}
}

// ---- C01.parse

func (c *Ctx) checkParseLevelRange(r *Report) {
	fn := c.logFunc("ParseLevelRange")
	key := "C01.parse:ParseLevelRange"
	if fn == nil {
		r.Undecided(key, "", "ParseLevelRange not found")
		return
	}
	r.SawFunc(fn)
	fr := &Frame{Fn: fn}
	var bad []string
	nOK := 0
	eachInstr(fn, func(in ssa.Instruction) {
		ret, ok := in.(*ssa.Return)
		if !ok || len(ret.Results) != 2 {
			return
		}
		// only success returns (err == nil const)
		if k, isK := ret.Results[1].(*ssa.Const); !isK || k.Value != nil {
			return
		}
		ld, ok := ret.Results[0].(*ssa.UnOp)
		if !ok {
			return
		}
		al, ok := ld.X.(*ssa.Alloc)
		if !ok {
			return
		}
		var mn, mx string
		if refs := al.Referrers(); refs != nil {
			for _, rr := range *refs {
				if fa, ok := rr.(*ssa.FieldAddr); ok {
					for _, st := range storesTo(fa) {
						if fieldName(fa) == "MinLevel" {
							mn = c.prov(st.Val, fr).String()
						} else if fieldName(fa) == "MaxLevel" {
							mx = c.prov(st.Val, fr).String()
						}
					}
				}
			}
		}
		// empty-string path?
		emptyPath := false
		for _, g := range guardsOfInstr(in) {
			if b, ok := g.Cond.(*ssa.BinOp); ok {
				if s, isS := constString(b.Y); isS && s == "" && ((b.Op == token.EQL) == g.Polarity) {
					emptyPath = true
				}
			}
		}
		if emptyPath {
			if mn == "global:NoneLevel" && mx == "global:MaxLevel" { // exported level variables
				nOK++
			} else {
				bad = append(bad, fmt.Sprintf("empty range string yields [%s,%s), want [NoneLevel,MaxLevel)", mn, mx))
			}
			return
		}
		reg := globalPath(c.names().LevelRegistry)
		wantMin := "extract:#0(lookup:lookup(" + reg + ", strings.ToUpper("
		if !strings.HasPrefix(mn, wantMin) || !strings.Contains(mn, "[0]") {
			bad = append(bad, "lower bound is not levelRegistry[ToUpper(part 0)]: "+mn)
		}
		if !(strings.HasPrefix(mx, "phi:phi(") && strings.Contains(mx, "global:MaxLevel") && strings.Contains(mx, wantMin) && strings.Contains(mx, "[1]")) {
			bad = append(bad, "upper bound is not (MaxLevel | levelRegistry[ToUpper(part 1)]): "+mx)
		}
		if strings.Contains(mn, "[1]") || strings.Count(mx, "[0]") > 0 {
			bad = append(bad, "parts are swapped between the bounds")
		}
		nOK++
	})
	// both look-ups are comma-ok with an error return on miss
	nLook := 0
	eachInstr(fn, func(in ssa.Instruction) {
		if lk, ok := in.(*ssa.Lookup); ok && lk.CommaOk {
			nLook++
		}
	})
	if nLook < 2 {
		bad = append(bad, fmt.Sprintf("%d checked registry look-ups, expected 2 (unknown level names must be errors)", nLook))
	}
	// separator
	sepOK := false
	eachInstr(fn, func(in ssa.Instruction) {
		if call, ok := in.(*ssa.Call); ok && calleeIs(call, "strings", "", "Split") {
			if s, ok := constString(call.Call.Args[1]); ok && s == "~" {
				sepOK = true
			}
		}
	})
	if !sepOK {
		bad = append(bad, "range string is not split on \"~\"")
	}
	if len(bad) > 0 {
		r.Fail(key, c.pos(fn.Pos()), "%s", strings.Join(uniq(bad), "; "))
	} else if nOK < 2 {
		r.Fail(key, c.pos(fn.Pos()), "expected an empty-string return and a parsed return, found %d success returns", nOK)
	} else {
		r.OK(key, "\"\" → [NONE,MAX); MIN[~MAX] → levelRegistry[ToUpper(part0)], (MAX | levelRegistry[ToUpper(part1)]); misses are errors")
	}
}

// ---- C01.chain

func (c *Ctx) checkChain(r *Report, ro *Roles) {
	// the function that sorts the references and rewrites their upper bounds
	var fn *ssa.Function
	for _, f := range c.Funcs {
		sorts, stores := false, false
		eachInstr(f, func(in ssa.Instruction) {
			if call, ok := in.(*ssa.Call); ok {
				if s := call.Common().StaticCallee(); s != nil && s.Object() != nil && s.Object().Pkg() != nil {
					pk := s.Object().Pkg().Path()
					if (pk == "sort" || pk == "slices") && strings.HasPrefix(s.Object().Name(), "S") {
						sorts = true
					}
				}
			}
			if st, ok := in.(*ssa.Store); ok {
				if fa, ok := st.Addr.(*ssa.FieldAddr); ok && fieldName(fa) == "MaxLevel" {
					stores = true
				}
			}
		})
		if sorts && stores {
			fn = f
		}
	}
	key := "C01.chain:"
	if fn == nil {
		r.Undecided(key+"anchor", "", "no function that sorts references and rewrites MaxLevel found")
		return
	}
	key += fname(fn)
	r.SawFunc(fn)
	lc := &linCtx{c: c, fn: fn, vars: map[string]ssa.Value{}}
	refKey := func(v ssa.Value) string {
		// v is (derived from) refs[idx]: canonical index expression
		for d := 0; d < 10; d++ {
			switch x := v.(type) {
			case *ssa.FieldAddr:
				v = x.X
				continue
			case *ssa.UnOp:
				v = x.X
				continue
			case *ssa.IndexAddr:
				as := lc.lin(x.Index, 0)
				if len(as) == 1 {
					return as[0].L.String()
				}
				return x.Index.Name()
			}
			break
		}
		return "?"
	}
	n := 0
	eachInstr(fn, func(in ssa.Instruction) {
		st, ok := in.(*ssa.Store)
		if !ok {
			return
		}
		fa, ok := st.Addr.(*ssa.FieldAddr)
		if !ok || fieldName(fa) != "MaxLevel" {
			return
		}
		n++
		target := refKey(fa)
		source := "?"
		if ld, ok := st.Val.(*ssa.UnOp); ok {
			if sfa, ok := ld.X.(*ssa.FieldAddr); ok && fieldName(sfa) == "MinLevel" {
				source = refKey(sfa)
			}
		}
		if source == "?" {
			r.Undecided(key, c.instrPos(in), "chained upper bound is not another reference's MinLevel")
			return
		}
		// guards comparing two MinLevel codes
		found := false
		var seenCmp []string
		for _, g := range guardsOfInstr(in) {
			b, ok := g.Cond.(*ssa.BinOp)
			if !ok {
				continue
			}
			kx, ky := codeRef(b.X, refKey), codeRef(b.Y, refKey)
			if kx == "" || ky == "" {
				continue
			}
			op := b.Op
			if !g.Polarity {
				op = map[token.Token]token.Token{token.LSS: token.GEQ, token.LEQ: token.GTR, token.GTR: token.LEQ, token.GEQ: token.LSS, token.EQL: token.NEQ, token.NEQ: token.EQL}[op]
			}
			seenCmp = append(seenCmp, fmt.Sprintf("min[%s] %s min[%s]", kx, op, ky))
			// normalise to source REL target
			var rel token.Token
			switch {
			case kx == source && ky == target:
				rel = op
			case kx == target && ky == source:
				rel = map[token.Token]token.Token{token.LSS: token.GTR, token.GTR: token.LSS, token.LEQ: token.GEQ, token.GEQ: token.LEQ, token.EQL: token.EQL, token.NEQ: token.NEQ}[op]
			default:
				continue
			}
			if rel == token.GTR || rel == token.NEQ {
				found = true
			}
		}
		if found {
			r.OK(key, "upper bound of refs[%s] ← lower bound of refs[%s] only under a strict comparison min[%s] > min[%s]", target, source, source, target)
		} else if len(seenCmp) > 0 {
			r.Fail(key, c.instrPos(in), "chained upper bound is taken from refs[%s] under %v, which does not establish min[%s] > min[%s]: references with equal lower bounds get an empty range", source, seenCmp, source, target)
		} else {
			r.Fail(key, c.instrPos(in), "upper bound of refs[%s] is set to the lower bound of refs[%s] chosen by position only (no comparison of the two lower bounds): with equal lower bounds the first reference gets the empty range [m,m) and receives nothing", target, source)
		}
	})
	if n == 0 {
		r.Undecided(key, c.pos(fn.Pos()), "no chained upper-bound store found")
	}
	// only open-ended references are rewritten: store guarded by MaxLevel == global MaxLevel
	// the comparator sorts by MinLevel code
	cmpOK := false
	for _, a := range fn.AnonFuncs {
		eachInstr(a, func(in ssa.Instruction) {
			if b, ok := in.(*ssa.BinOp); ok && b.Op == token.LSS {
				px, py := c.accessPath(b.X, nil), c.accessPath(b.Y, nil)
				if strings.HasSuffix(px, ".MinLevel.code") && strings.HasSuffix(py, ".MinLevel.code") {
					cmpOK = true
				}
			}
		})
	}
	if cmpOK {
		r.OK(key+"#sort", "references are sorted ascending by MinLevel.code")
	} else {
		r.Fail(key+"#sort", c.pos(fn.Pos()), "the sort comparator does not order references by ascending MinLevel.code")
	}
}

// codeRef: v is a load of <ref>.Level.MinLevel.code → key of the reference.
func codeRef(v ssa.Value, refKey func(ssa.Value) string) string {
	ld, ok := v.(*ssa.UnOp)
	if !ok || ld.Op != token.MUL {
		return ""
	}
	fa, ok := ld.X.(*ssa.FieldAddr)
	if !ok || fieldName(fa) != "code" {
		return ""
	}
	fa2, ok := fa.X.(*ssa.FieldAddr)
	if !ok || fieldName(fa2) != "MinLevel" {
		return ""
	}
	return refKey(fa2)
}

// ---- C01.split

func (c *Ctx) checkSplit(r *Report, ro *Roles) {
	if ro.AppenderRef == nil {
		return
	}
	// functions that allocate AppenderRef composites with explicit Level ranges
	type lit struct {
		al       *ssa.Alloc
		at       ssa.Instruction // where the reference comes into being in the function it is attributed to
		mn, mx   ssa.Value
		guards   []Guard
		mnS, mxS string
	}
	byFn := map[*ssa.Function][]*lit{}
	var order []*ssa.Function
	for _, f := range c.Funcs {
		var lits []*lit
		eachInstr(f, func(in ssa.Instruction) {
			al, ok := in.(*ssa.Alloc)
			if !ok {
				return
			}
			if p, ok := al.Type().(*types.Pointer); !ok || p.Elem() != types.Type(ro.AppenderRef) {
				return
			}
			l := &lit{al: al, at: in, guards: guardsOfInstr(in)}
			// stores to al.Level.MinLevel / MaxLevel
			if refs := al.Referrers(); refs != nil {
				for _, rr := range *refs {
					fa, ok := rr.(*ssa.FieldAddr)
					if !ok || fieldName(fa) != "Level" {
						continue
					}
					if r2 := fa.Referrers(); r2 != nil {
						for _, q := range *r2 {
							if fa2, ok := q.(*ssa.FieldAddr); ok {
								for _, st := range storesTo(fa2) {
									if fieldName(fa2) == "MinLevel" {
										l.mn = st.Val
									} else if fieldName(fa2) == "MaxLevel" {
										l.mx = st.Val
									}
								}
							}
							// whole-struct store of a LevelRange literal
							if st, ok := q.(*ssa.Store); ok && st.Addr == fa {
								if ld, ok := st.Val.(*ssa.UnOp); ok {
									if a2, ok := ld.X.(*ssa.Alloc); ok {
										if r3 := a2.Referrers(); r3 != nil {
											for _, z := range *r3 {
												if fa3, ok := z.(*ssa.FieldAddr); ok {
													for _, st3 := range storesTo(fa3) {
														if fieldName(fa3) == "MinLevel" {
															l.mn = st3.Val
														} else if fieldName(fa3) == "MaxLevel" {
															l.mx = st3.Val
														}
													}
												}
											}
										}
									}
								}
							}
						}
					}
				}
			}
			if l.mn != nil && l.mx != nil {
				lits = append(lits, l)
			}
		})
		if len(lits) == 0 {
			continue
		}
		byFn[f] = lits
		order = append(order, f)
	}
	// a constructor helper (bounds passed in as parameters, only called directly): its literal counts once per call
	// site, in the caller, with the caller's arguments and the call's guards
	for _, f := range append([]*ssa.Function{}, order...) {
		lits := byFn[f]
		isParam := func(v ssa.Value) int {
			for i, p := range f.Params {
				if ssa.Value(p) == v {
					return i
				}
			}
			return -1
		}
		if len(lits) != 1 || (isParam(lits[0].mn) < 0 && isParam(lits[0].mx) < 0) {
			continue
		}
		sites := c.callSitesOf(f)
		if len(sites) == 0 || c.usedAsValue(f) || (f.Object() != nil && f.Object().Exported()) {
			continue
		}
		r.SawFunc(f)
		for _, cs := range sites {
			g := cs.Parent()
			nl := &lit{al: lits[0].al, at: cs, mn: lits[0].mn, mx: lits[0].mx, guards: guardsOfInstr(cs)}
			if i := isParam(nl.mn); i >= 0 {
				nl.mn = cs.Common().Args[i]
			}
			if i := isParam(nl.mx); i >= 0 {
				nl.mx = cs.Common().Args[i]
			}
			if _, had := byFn[g]; !had {
				order = append(order, g)
			}
			byFn[g] = append(byFn[g], nl)
		}
		delete(byFn, f)
	}
	for _, f := range order {
		lits := byFn[f]
		if len(lits) == 0 {
			continue
		}
		// in source order
		sort.SliceStable(lits, func(i, j int) bool { return lits[i].at.Pos() < lits[j].at.Pos() })
		r.SawFunc(f)
		key := "C01.split:" + fname(f)
		fr := &Frame{Fn: f}
		for _, l := range lits {
			l.mnS, l.mxS = c.prov(l.mn, fr).String(), c.prov(l.mx, fr).String()
		}
		if len(lits) != 2 {
			r.Undecided(key, c.pos(f.Pos()), "expected two generated references (normal / .wf), found %d", len(lits))
			continue
		}
		a, b := lits[0], lits[1]
		var bad []string
		if !strings.HasSuffix(a.mnS, ".Level.MinLevel") || !strings.HasPrefix(a.mnS, "param:") {
			bad = append(bad, "first reference does not start at the logger's lower bound: "+a.mnS)
		}
		if !strings.HasSuffix(b.mxS, ".Level.MaxLevel") || !strings.HasPrefix(b.mxS, "param:") {
			bad = append(bad, "second reference does not end at the logger's upper bound: "+b.mxS)
		}
		if a.mx != b.mn {
			bad = append(bad, fmt.Sprintf("the two ranges do not tile: first ends at %s, second starts at %s (a gap loses events, an overlap duplicates them)", a.mxS, b.mnS))
		}
		// the split point: phi(MaxLevel when !Separate, a level when Separate)
		if phi, ok := a.mx.(*ssa.Phi); ok && len(phi.Edges) == 2 {
			var tops, splits int
			for i, e := range phi.Edges {
				p := c.prov(e, fr).String()
				pred := phi.Block().Preds[i]
				sepTrue := false
				for _, g := range append(guardsOf(pred), edgeGuard(pred, phi.Block())...) {
					if strings.HasSuffix(c.accessPath(g.Cond, fr), ".Separate") && g.Polarity {
						sepTrue = true
					}
				}
				if p == "global:MaxLevel" && !sepTrue {
					tops++
				} else if strings.HasPrefix(p, "global:") && sepTrue {
					splits++
				} else {
					bad = append(bad, fmt.Sprintf("split point %s under Separate=%v", p, sepTrue))
				}
			}
			if tops != 1 || splits != 1 {
				bad = append(bad, "without Separate the single range must end at MaxLevel, with Separate at the split level")
			}
		} else {
			bad = append(bad, "split point is not chosen by the Separate flag: "+a.mxS)
		}
		// second reference only under Separate
		sepGuard := false
		for _, g := range b.guards {
			if strings.HasSuffix(c.accessPath(g.Cond, fr), ".Separate") && g.Polarity {
				sepGuard = true
			}
		}
		if !sepGuard {
			bad = append(bad, "the second (.wf) reference is created even when Separate is false")
		}
		if len(bad) > 0 {
			r.Fail(key, c.pos(f.Pos()), "%s", strings.Join(bad, "; "))
		} else {
			r.OK(key, "[logger.min, split) and [split, logger.max) share the split value; split = MaxLevel unless Separate")
		}
	}
}

// edgeGuard: the branch condition of pred when it decides the edge pred→succ.
func edgeGuard(pred, succ *ssa.BasicBlock) []Guard {
	iff, ok := pred.Instrs[len(pred.Instrs)-1].(*ssa.If)
	if !ok || pred.Succs[0] == pred.Succs[1] {
		return nil
	}
	g := Guard{Cond: iff.Cond, Polarity: pred.Succs[0] == succ, If: iff}
	for {
		u, ok := g.Cond.(*ssa.UnOp)
		if !ok || u.Op != token.NOT {
			break
		}
		g.Cond, g.Polarity = u.X, !g.Polarity
	}
	return []Guard{g}
}

// ---------------------------------------------------------------------------
// C10

var hookGlobals = []string{"TimeNow", "StringFromContext", "FieldsFromContext"}

func checkC10(c *Ctx, r *Report) {
	r.Explanation = "decided on every path: each call to a context hook (through the package variables TimeNow/StringFromContext/FieldsFromContext), to time.Now, to a lazy generator and to Msgf made from an entry point or the recorder is preceded by the level gate of the logger serving the tag, taken on its true edge; in the recorder each hook is called exactly once when its variable is non-nil and never otherwise, always with the caller's context, and its result is what is stored into the event (the hook's time, else the wall clock); the lazy generator is invoked exactly once on the enabled path and its result is what is recorded; no hook is reachable from the asynchronous worker; both layouts encode context fields before the call's fields."
	r.Undecidedcl = []string{"user hooks' own behaviour"}
	r.Assumptions = []string{"hook variables are not reassigned concurrently with logging"}
	ro := c.roles(r)
	R := ro.Recorder
	if R == nil || ro.Enable == nil {
		r.Undecided("C10.anchor:recorder", "", "recorder not found")
		return
	}
	r.Floor("logging entry points", len(ro.EntryPoints), 15)
	entryDecisions(r, ro, c.checkEntrySemantics(r, ro, "C10.entry-values"), "C10")
	// "enabled for the serving logger" across rebinding: operation sequences with loggers of different level ranges
	c.checkLifecycleSemantics(r, ro, "C10.lifecycle-values", r.Tier == "thorough")
	{
		jok, tok := c.checkLayoutSemantics(r, ro, "C10.layout-values")
		layoutDecisions(r, jok, tok)
	}
	hooks := map[*ssa.Global]string{}
	for _, h := range hookGlobals {
		if g := c.logGlobal(h); g != nil {
			hooks[g] = h
		} else {
			r.Undecided("C10.anchor:"+h, "", "hook variable not found")
		}
	}
	msgf := c.logFunc("Msgf")
	hookOf := func(v ssa.Value) string {
		if ld, ok := v.(*ssa.UnOp); ok && ld.Op == token.MUL {
			if g, ok := ld.X.(*ssa.Global); ok {
				return hooks[g]
			}
		}
		return ""
	}
	// the recorder's scope: the recorder plus unexported helpers that only the recorder (or such a helper) calls —
	// code extracted out of the recorder is still the recorder
	recScope := map[*ssa.Function]bool{R: true}
	for changed := true; changed; {
		changed = false
		for _, f := range c.Funcs {
			if recScope[f] || f.Pkg != c.LogS || f.Parent() != nil || f.Signature.Recv() != nil || f.Object() == nil || f.Object().Exported() {
				continue
			}
			sites := c.callSitesOf(f)
			if len(sites) == 0 {
				continue
			}
			all := true
			for _, cs := range sites {
				if _, isCall := cs.(*ssa.Call); !isCall || !recScope[cs.Parent()] {
					all = false
				}
			}
			if owners := c.ownerRoots(f, map[*ssa.Function]bool{}); len(owners) == 1 && owners[0] == f.Name() {
				all = false // used as a value somewhere
			}
			if all {
				recScope[f] = true
				changed = true
				r.SawFunc(f)
			}
		}
	}
	nEffects := 0
	for _, E := range ro.EntryPoints {
		r.SawFunc(E)
		type eff struct {
			what, pos string
			gates     string
			ctxArg    string
		}
		var effs []eff
		var exits []string
		ts := &TS{C: c, Ev: &Evaluator{}}
		ts.Inline = func(s *TSCtx, call ssa.CallInstruction, callee *ssa.Function) bool { return recScope[callee] }
		ts.OnBranch = func(s *TSCtx, iff *ssa.If, taken bool) (string, bool) {
			cond, pol := iff.Cond, taken
			for {
				u, ok := cond.(*ssa.UnOp)
				if !ok || u.Op != token.NOT {
					break
				}
				cond, pol = u.X, !pol
			}
			if call, ok := cond.(*ssa.Call); ok && call.Common().StaticCallee() == ro.Enable {
				rg := c.prov(call.Call.Args[0], s.Frame).String()
				lv := c.accessPath(call.Call.Args[1], s.Frame)
				return s.A + fmt.Sprintf("\x1fG(%s,%s)=%v", rg, lv, pol), true
			}
			if b, ok := cond.(*ssa.BinOp); ok {
				if h := hookOf(b.X); h != "" {
					if k, isK := b.Y.(*ssa.Const); isK && k.Value == nil {
						nn := (b.Op == token.NEQ) == pol
						return s.A + fmt.Sprintf("\x1fnn(%s)=%v", h, nn), true
					}
				}
			}
			return "", false
		}
		ts.OnInstr = func(s *TSCtx, in ssa.Instruction) []string {
			ci, ok := in.(ssa.CallInstruction)
			if !ok {
				return nil
			}
			com := ci.Common()
			what := ""
			ctxArg := ""
			switch {
			case com.StaticCallee() != nil && funcIs(com.StaticCallee(), "time", "", "Now"):
				what = "time.Now"
			case com.StaticCallee() != nil && com.StaticCallee() == msgf:
				what = "Msgf"
			case com.StaticCallee() == nil && !com.IsInvoke():
				if h := hookOf(com.Value); h != "" {
					what = "hook:" + h
					if len(com.Args) > 0 {
						ctxArg = c.accessPath(com.Args[0], s.Frame)
					}
				} else if p, ok := com.Value.(*ssa.Parameter); ok && p.Parent() == E {
					what = "lazy:" + p.Name()
				} else {
					what = "dynamic:" + c.accessPath(com.Value, s.Frame)
				}
			case com.IsInvoke() && com.Method.Name() == "Append" && c.moduleIface(com.Value.Type()):
				exits = append(exits, s.A)
				return nil
			}
			if what == "" {
				return nil
			}
			effs = append(effs, eff{what, c.instrPos(in), s.A, ctxArg})
			if strings.Count(s.A, "\x1fE:"+what) >= 3 {
				return nil
			}
			return []string{s.A + "\x1fE:" + what}
		}
		ts.Run(E, "", nil)
		r.Count("typestate_states", ts.States)
		if len(ts.Truncated) > 0 {
			r.Undecided("C10.gated:"+fname(E), c.pos(E.Pos()), "truncated: %v", ts.Truncated)
			continue
		}
		// the gate required: G(invoke:GetLevel(<logger>), <level>)=true where level is the entry's level
		wantLv := "param:" + paramOfType(E, isLevelType)
		tagParam := "param:" + paramOfType(E, isTagPtr)
		ctxParam := "param:" + paramOfType(E, isContext)
		if g, ok := apiLevel[E.Name()]; ok {
			wantLv = "global:" + g
		}
		byWhat := map[string][]string{}
		for _, e := range effs {
			nEffects++
			ok := false
			for _, g := range strings.Split(e.gates, "\x1f") {
				if strings.HasPrefix(g, "G(invoke:GetLevel(") && strings.HasSuffix(g, ","+wantLv+")=true") && strings.Contains(g, tagParam) {
					ok = true
				}
			}
			st := "gated"
			if !ok {
				st = "UNGATED at " + e.pos
			}
			if strings.HasPrefix(e.what, "hook:") && e.ctxArg != ctxParam {
				st = "called with " + e.ctxArg + " instead of the caller's context at " + e.pos
			}
			if strings.HasPrefix(e.what, "dynamic:") {
				st = "unrecognised dynamic call " + e.what + " at " + e.pos
			}
			byWhat[e.what] = append(byWhat[e.what], st)
		}
		var whats []string
		for w := range byWhat {
			whats = append(whats, w)
		}
		sort.Strings(whats)
		for _, w := range whats {
			key := fmt.Sprintf("C10.gated:%s→%s", fname(E), w)
			var bad []string
			for _, s := range byWhat[w] {
				if s != "gated" {
					bad = append(bad, s)
				}
			}
			if len(bad) > 0 {
				r.Fail(key, c.pos(E.Pos()), "%s is evaluated without the level gate of the logger serving the tag on its true edge: %s", w, strings.Join(uniq(bad), "; "))
			} else {
				r.OK(key, "every call is preceded by G(getLogger(tag).GetLevel(), %s)=true", wantLv)
			}
		}
		// once: per path reaching Logger.Append
		key := "C10.once:" + fname(E)
		var bad []string
		if len(exits) == 0 {
			bad = append(bad, "no path reaches Logger.Append")
		}
		for _, a := range exits {
			evs := strings.Split(a, "\x1f")
			cnt := map[string]int{}
			nn := map[string]string{}
			for _, e := range evs {
				if strings.HasPrefix(e, "E:") {
					cnt[strings.TrimPrefix(e, "E:")]++
				}
				if strings.HasPrefix(e, "nn(") {
					h := e[3:strings.Index(e, ")")]
					nn[h] = e[strings.Index(e, "=")+1:]
				}
			}
			for _, h := range hookGlobals {
				n := cnt["hook:"+h]
				switch nn[h] {
				case "true":
					if n != 1 {
						bad = append(bad, fmt.Sprintf("%s set: called %d times on a path to Append (want exactly 1)", h, n))
					}
				case "false":
					if n != 0 {
						bad = append(bad, fmt.Sprintf("%s nil: still called", h))
					}
				default:
					if n != 0 {
						bad = append(bad, fmt.Sprintf("%s called without a nil test", h))
					} else {
						bad = append(bad, fmt.Sprintf("%s is never consulted on a path to Append", h))
					}
				}
			}
			if nn["TimeNow"] == "false" && cnt["time.Now"] < 1 {
				bad = append(bad, "no timestamp source when TimeNow is unset")
			}
			for w, n := range cnt {
				if strings.HasPrefix(w, "lazy:") && n != 1 {
					bad = append(bad, fmt.Sprintf("lazy generator invoked %d times on an emitting path", n))
				}
			}
			for _, p := range E.Params {
				if _, isFn := p.Type().Underlying().(*types.Signature); isFn && cnt["lazy:"+p.Name()] != 1 {
					bad = append(bad, fmt.Sprintf("lazy generator %s invoked %d times on an emitting path (want exactly 1)", p.Name(), cnt["lazy:"+p.Name()]))
				}
			}
		}
		r.Count("paths_enumerated", len(exits))
		if len(bad) > 0 {
			r.Fail(key, c.pos(E.Pos()), "%s", strings.Join(firstN(uniq(bad), 4), "; "))
		} else {
			r.OK(key, "%d emitting path(s): each set hook exactly once, unset hooks never, lazy generator exactly once", len(exits))
		}
		// lazy result is what gets recorded
		for _, p := range E.Params {
			if _, isFn := p.Type().Underlying().(*types.Signature); !isFn {
				continue
			}
			okFlow := false
			eachInstr(E, func(in ssa.Instruction) {
				if call, ok := in.(*ssa.Call); ok && call.Common().StaticCallee() == R {
					last := call.Call.Args[len(call.Call.Args)-1]
					if inner, ok := last.(*ssa.Call); ok && inner.Call.Value == p {
						okFlow = true
					}
				}
			})
			if okFlow {
				r.OK("C10.lazy-result:"+fname(E), "the generator's result is the recorded field list")
			} else {
				r.Fail("C10.lazy-result:"+fname(E), c.pos(E.Pos()), "the recorded fields are not the generator's result")
			}
		}
	}
	r.Count("effect_sites", nEffects)
	// values stored into the event
	c.checkEventPopulation(r, R)
	// "their results appear in the record": the populated event must still hold them when it is formatted —
	// an event released to the pool while queued or in use is reset (shared with C03.event)
	r.include("C10.record/", "event-typestate", func(sub *Report) { c.checkEventTypestate(sub, ro) })
	// who-may-read: the hook variables are consulted only by the recorder; any other reader is an additional
	// invocation site (a second call per event, possibly with another context or on another goroutine)
	nReads, badReads := 0, 0
	hooksRead := map[string]bool{}
	for _, f := range c.Funcs {
		eachInstr(f, func(in ssa.Instruction) {
			if ld, ok := in.(*ssa.UnOp); ok && ld.Op == token.MUL {
				if g, ok := ld.X.(*ssa.Global); ok && hooks[g] != "" {
					nReads++
					hooksRead[hooks[g]] = true
					if !recScope[f] {
						badReads++
						r.Fail("C10.hook-sites:"+fname(f)+"→"+hooks[g], c.instrPos(in), "hook %s is read outside the recorder: every such site is a further invocation per event or per write, outside the level gate and not with the caller's context", hooks[g])
					}
				}
			}
		})
	}
	if badReads == 0 {
		r.OK("C10.hook-sites:"+fname(R), "%d reads of the three hook variables, all inside the recorder", nReads)
	}
	r.Floor("hook variables read", len(hooksRead), 3)
	// worker does not reach hooks
	if ro.Worker != nil {
		bad := 0
		for f := range c.reach(ro.Worker) {
			eachInstr(f, func(in ssa.Instruction) {
				if ld, ok := in.(*ssa.UnOp); ok && ld.Op == token.MUL {
					if g, ok := ld.X.(*ssa.Global); ok && hooks[g] != "" {
						bad++
						r.Fail("C10.caller-goroutine:"+fname(f), c.instrPos(in), "hook %s is read on the asynchronous worker's path (would run on the wrong goroutine/context)", hooks[g])
					}
				}
			})
		}
		if bad == 0 {
			r.OK("C10.caller-goroutine:"+fname(ro.Worker), "no hook variable is read in the %d functions reachable from the worker", len(c.reach(ro.Worker)))
		}
	}
	// order in the layouts
	for _, lt := range ro.Layouts {
		m := c.declaredMethod(lt, "ToBytes")
		if m == nil {
			continue
		}
		seqs, _ := c.layoutEvents(m, r)
		e := "param:" + m.Params[1].Name()
		ok := len(seqs) > 0
		for _, evs := range seqs {
			ci, fi := -1, -1
			for i, ev := range evs {
				if ev == "fields:"+e+".CtxFields" {
					ci = i
				}
				if ev == "fields:"+e+".Fields" {
					fi = i
				}
			}
			if ci < 0 || fi < 0 || ci > fi {
				ok = false
			}
		}
		if ok {
			r.OK("C10.order:"+fname(m), "context fields are encoded before the call's fields on all %d paths", len(seqs))
		} else {
			r.Fail("C10.order:"+fname(m), c.pos(m.Pos()), "context fields are not encoded ahead of the call's own fields")
		}
	}
}

func (c *Ctx) checkEventPopulation(r *Report, R *ssa.Function) {
	fr := &Frame{Fn: R}
	ctxP := "param:" + paramOfType(R, isContext)
	lvlP := "param:" + paramOfType(R, isLevelType)
	tagP := "param:" + paramOfType(R, isStringType)
	fldP := "param:" + paramOfType(R, func(t types.Type) bool {
		sl, ok := t.Underlying().(*types.Slice)
		if !ok {
			return false
		}
		n, ok := sl.Elem().(*types.Named)
		return ok && n.Obj().Name() == "Field"
	})
	// the value stored into a field, as the set of alternatives it can come from (φs and inlined helper returns
	// flattened): "hook result | default"
	var leaves func(n *PNode, d int) []string
	leaves = func(n *PNode, d int) []string {
		n = n.eff()
		if n.Kind == "phi" && d < 6 {
			var out []string
			for _, a := range n.Args {
				out = append(out, leaves(a, d+1)...)
			}
			return out
		}
		return []string{n.String()}
	}
	hookOr := func(hook string, defaults ...string) func(ls []string) bool {
		return func(ls []string) bool {
			sawHook := false
			for _, l := range ls {
				if l == "dynamic(global:"+hook+", "+ctxP+")" {
					sawHook = true
					continue
				}
				okD := false
				for _, dflt := range defaults {
					if l == dflt {
						okD = true
					}
				}
				if !okD {
					return false
				}
			}
			return sawHook && len(ls) >= 2
		}
	}
	exactly := func(p string) func(ls []string) bool {
		return func(ls []string) bool { return len(ls) == 1 && ls[0] == p }
	}
	want := map[string]func(ls []string) bool{
		"Time":      hookOr("TimeNow", "time.Now()"),
		"CtxString": hookOr("StringFromContext", `""`, `const:""`),
		"CtxFields": hookOr("FieldsFromContext", "nil", "const:nil"),
		"Level":     exactly(lvlP),
		"Tag":       exactly(tagP),
		"Fields":    exactly(fldP),
	}
	got := map[string][]string{}
	eachInstr(R, func(in ssa.Instruction) {
		st, ok := in.(*ssa.Store)
		if !ok {
			return
		}
		fa, ok := st.Addr.(*ssa.FieldAddr)
		if !ok || !isEventPtr(fa.X.Type()) {
			return
		}
		got[fieldName(fa)] = leaves(c.prov(st.Val, fr), 0)
	})
	var names []string
	for k := range want {
		names = append(names, k)
	}
	sort.Strings(names)
	for _, f := range names {
		key := "C10.record:" + fname(R) + "#Event." + f
		p, ok := got[f]
		if !ok {
			r.Fail(key, c.pos(R.Pos()), "the recorder never populates Event.%s", f)
			continue
		}
		if want[f](p) {
			r.OK(key, "Event.%s ← %s", f, strings.Join(p, " | "))
		} else {
			r.Fail(key, c.pos(R.Pos()), "Event.%s is populated from %s", f, strings.Join(p, " | "))
		}
	}
	// the populated event is the one handed to Append
	okA := false
	eachInstr(R, func(in ssa.Instruction) {
		if ci, ok := in.(ssa.CallInstruction); ok && ci.Common().IsInvoke() && ci.Common().Method.Name() == "Append" {
			p := c.prov(ci.Common().Args[0], fr).String()
			if strings.Contains(p, "GetEvent") || strings.Contains(p, "eventPool") {
				okA = true
			}
		}
	})
	if okA {
		r.OK("C10.record:"+fname(R)+"#publish", "the populated pooled event is handed to Logger.Append")
	} else {
		r.Fail("C10.record:"+fname(R)+"#publish", c.pos(R.Pos()), "the event handed to Logger.Append is not the populated one")
	}
}
