package main

// flow.go: P5 — forward value-flow (alias) closure on SSA def-use chains.

import (
	"go/token"
	"go/types"

	"golang.org/x/tools/go/ssa"
)

type FlowSink struct {
	Kind  string // "send", "heap-store", "closure", "go", "defer", "return", "external-call", "global-store"
	Instr ssa.Instruction
	Via   ssa.Value
	Note  string
}

type Flow struct {
	C *Ctx
	// Interproc: follow into in-module callees (parameter binding) and back through returns.
	Interproc bool
	// aliasResult reports whether an external call's result aliases the given
	// argument (receiver = arg 0 for methods).
	AliasResult func(callee *ssa.Function, argIdx int) bool
	// CopyMaker reports that the call's result is a fresh copy (flow ends).
	CopyMaker func(call *ssa.Call) bool

	Set   map[ssa.Value]bool
	Sinks []FlowSink
}

func newFlow(c *Ctx) *Flow {
	return &Flow{C: c, Interproc: true, Set: map[ssa.Value]bool{},
		AliasResult: defaultAliasResult, CopyMaker: defaultCopyMaker}
}

// defaultAliasResult: stdlib accessors whose result shares storage with the receiver/argument.
func defaultAliasResult(f *ssa.Function, argIdx int) bool {
	if f == nil || f.Object() == nil || f.Object().Pkg() == nil {
		return false
	}
	pkg := f.Object().Pkg().Path()
	name := f.Object().Name()
	switch pkg {
	case "bytes":
		if sig, ok := f.Object().Type().(*types.Signature); ok && sig.Recv() != nil {
			switch name {
			case "Bytes", "Next", "AvailableBuffer":
				return argIdx == 0
			}
			return false
		}
		switch name {
		case "TrimSpace", "Trim", "TrimRight", "TrimLeft", "TrimPrefix", "TrimSuffix", "TrimFunc", "Fields", "Split", "SplitN":
			return argIdx == 0
		}
	case "unsafe":
		return true
	case "slices":
		switch name {
		case "Clip", "Grow", "Compact", "Delete", "Insert":
			return argIdx == 0
		}
	}
	return false
}

func defaultCopyMaker(call *ssa.Call) bool {
	if f := call.Common().StaticCallee(); f != nil && f.Object() != nil && f.Object().Pkg() != nil {
		o := f
		if f.Origin() != nil {
			o = f.Origin()
		}
		pkg, name := o.Object().Pkg().Path(), o.Object().Name()
		if (pkg == "bytes" || pkg == "slices" || pkg == "strings") && name == "Clone" {
			return true
		}
	}
	if b, ok := call.Common().Value.(*ssa.Builtin); ok && b.Name() == "append" {
		// append(fresh, x...) copies x's elements: result aliases arg0 only
		return false
	}
	return false
}

// Add seeds the closure.
func (fl *Flow) Add(v ssa.Value) {
	if v == nil || fl.Set[v] {
		return
	}
	fl.Set[v] = true
	fl.follow(v)
}

func isByteSliceOrString(t types.Type) bool {
	switch u := t.Underlying().(type) {
	case *types.Slice:
		return true
	case *types.Basic:
		return u.Info()&types.IsString != 0
	}
	return false
}

func (fl *Flow) follow(v ssa.Value) {
	refs := v.Referrers()
	if refs == nil {
		return
	}
	for _, r := range *refs {
		switch x := r.(type) {
		case *ssa.Phi:
			fl.Add(x)
		case *ssa.Slice:
			if x.X == v {
				fl.Add(x)
			}
		case *ssa.ChangeType:
			fl.Add(x)
		case *ssa.ChangeInterface:
			fl.Add(x)
		case *ssa.MakeInterface:
			fl.Add(x)
		case *ssa.TypeAssert:
			fl.Add(x)
		case *ssa.Convert:
			// []byte <-> string conversions copy; other conversions (named slice types) alias
			from, to := x.X.Type().Underlying(), x.Type().Underlying()
			_, fs := from.(*types.Slice)
			_, ts := to.(*types.Slice)
			if fs && ts {
				fl.Add(x)
			}
			if _, fp := from.(*types.Pointer); fp {
				fl.Add(x)
			}
		case *ssa.SliceToArrayPointer:
			fl.Add(x)
		case *ssa.Extract:
			fl.Add(x)
		case *ssa.FieldAddr:
			if x.X == v {
				fl.Add(x)
			}
		case *ssa.IndexAddr:
			if x.X == v {
				fl.Add(x)
			}
		case *ssa.Field:
			if isRefLike(x.Type()) {
				fl.Add(x)
			}
		case *ssa.UnOp:
			// loading through a pointer in the closure yields a value that aliases only if it is reference-like
			if x.Op == token.MUL && isRefLike(x.Type()) {
				// v is an address in the closure (e.g. &local) — handled by Store case below for locals
			}
		case *ssa.Store:
			if x.Val == v {
				fl.store(x)
			}
		case *ssa.MapUpdate:
			if x.Value == v || x.Key == v {
				fl.Sinks = append(fl.Sinks, FlowSink{Kind: "heap-store", Instr: x, Via: v, Note: "map update"})
			}
		case *ssa.Send:
			if x.X == v {
				fl.Sinks = append(fl.Sinks, FlowSink{Kind: "send", Instr: x, Via: v})
			}
		case *ssa.Select:
			for _, st := range x.States {
				if st.Send == v {
					fl.Sinks = append(fl.Sinks, FlowSink{Kind: "send", Instr: x, Via: v, Note: "select send"})
				}
			}
		case *ssa.MakeClosure:
			fn := x.Fn.(*ssa.Function)
			for i, b := range x.Bindings {
				if b == v {
					fl.Sinks = append(fl.Sinks, FlowSink{Kind: "closure", Instr: x, Via: v, Note: fname(fn)})
					if fl.Interproc {
						fl.Add(fn.FreeVars[i])
					}
				}
			}
		case *ssa.Return:
			fl.Sinks = append(fl.Sinks, FlowSink{Kind: "return", Instr: x, Via: v})
			if fl.Interproc {
				for _, cs := range fl.C.callSitesOf(x.Parent()) {
					if cv, ok := cs.(ssa.Value); ok {
						if len(x.Results) == 1 {
							fl.Add(cv)
						} else {
							// tuple: add matching extracts
							for idx, rv := range x.Results {
								if rv != v {
									continue
								}
								if rr := cv.Referrers(); rr != nil {
									for _, e := range *rr {
										if ex, ok := e.(*ssa.Extract); ok && ex.Index == idx {
											fl.Add(ex)
										}
									}
								}
							}
						}
					}
				}
			}
		case *ssa.Go:
			fl.call(x, v, "go")
		case *ssa.Defer:
			fl.call(x, v, "defer")
		case *ssa.Call:
			fl.call(x, v, "")
		}
	}
}

func isRefLike(t types.Type) bool {
	switch t.Underlying().(type) {
	case *types.Pointer, *types.Slice, *types.Map, *types.Chan, *types.Interface, *types.Signature:
		return true
	}
	return false
}

func (fl *Flow) store(st *ssa.Store) {
	// store of a tracked value into memory
	root := st.Addr
	for {
		switch a := root.(type) {
		case *ssa.FieldAddr:
			root = a.X
			continue
		case *ssa.IndexAddr:
			root = a.X
			continue
		}
		break
	}
	switch a := root.(type) {
	case *ssa.Alloc:
		if st.Addr == a {
			// local variable: loads of it alias the value
			if refs := a.Referrers(); refs != nil {
				for _, r := range *refs {
					if ld, ok := r.(*ssa.UnOp); ok && ld.Op == token.MUL {
						fl.Add(ld)
					}
					if mc, ok := r.(*ssa.MakeClosure); ok {
						// the variable holding the value is captured: the closure can use it after the function returns
						kind := "closure"
						if mr := mc.Referrers(); mr != nil {
							for _, u := range *mr {
								switch u.(type) {
								case *ssa.Go:
									kind = "go"
								case *ssa.Defer:
									kind = "defer"
								}
							}
						}
						fl.Sinks = append(fl.Sinks, FlowSink{Kind: kind, Instr: mc, Via: st.Val, Note: "captured variable " + a.Comment})
					}
					if mc, ok := r.(*ssa.MakeClosure); ok && fl.Interproc {
						// captured by reference: loads through the free variable
						fn := mc.Fn.(*ssa.Function)
						for i, b := range mc.Bindings {
							if b == a {
								if rr := fn.FreeVars[i].Referrers(); rr != nil {
									for _, q := range *rr {
										if ld, ok := q.(*ssa.UnOp); ok && ld.Op == token.MUL {
											fl.Add(ld)
										}
									}
								}
							}
						}
					}
				}
			}
			if a.Heap {
				// escaping local (captured or address taken) – still a local as far as retention goes
			}
			return
		}
		// field/element of a locally allocated composite: the composite now holds the value
		fl.Add(a)
		return
	case *ssa.Global:
		fl.Sinks = append(fl.Sinks, FlowSink{Kind: "global-store", Instr: st, Via: st.Val, Note: a.Name()})
		return
	}
	fl.Sinks = append(fl.Sinks, FlowSink{Kind: "heap-store", Instr: st, Via: st.Val, Note: fl.C.accessPath(st.Addr, nil)})
}

func (fl *Flow) call(ci ssa.CallInstruction, v ssa.Value, mode string) {
	com := ci.Common()
	argIdx := -1
	off := 0
	if com.IsInvoke() {
		off = 1
		if com.Value == v {
			argIdx = 0
		}
	}
	for i, a := range com.Args {
		if a == v {
			argIdx = i + off
		}
	}
	if argIdx < 0 {
		if com.Value == v {
			// calling the tracked function value: not a data flow
		}
		return
	}
	if mode != "" {
		fl.Sinks = append(fl.Sinks, FlowSink{Kind: mode, Instr: ci, Via: v})
	}
	if b, ok := com.Value.(*ssa.Builtin); ok {
		switch b.Name() {
		case "append":
			// result aliases arg 0; elements of later args are copied
			if argIdx == 0 {
				if cv, ok := ci.(ssa.Value); ok {
					fl.Add(cv)
				}
			} else if !isByteLike(v.Type()) {
				// appending a reference-like element stores it into the result
				if cv, ok := ci.(ssa.Value); ok && isRefLikeElem(v.Type()) {
					fl.Add(cv)
				}
			}
		}
		return
	}
	call, isCall := ci.(*ssa.Call)
	if isCall && fl.CopyMaker != nil && fl.CopyMaker(call) {
		return
	}
	info := fl.C.resolveCall(ci)
	handled := false
	for _, f := range info.Fns {
		if fl.C.inModule(f) && len(f.Blocks) > 0 {
			handled = true
			if fl.Interproc && argIdx < len(f.Params) {
				fl.Add(f.Params[argIdx])
			}
			continue
		}
		// external static callee
		handled = true
		if fl.AliasResult != nil && fl.AliasResult(f, argIdx) {
			if isCall {
				fl.Add(call)
			}
		} else {
			fl.Sinks = append(fl.Sinks, FlowSink{Kind: "external-call", Instr: ci, Via: v, Note: fname(f)})
		}
	}
	if !handled {
		fl.Sinks = append(fl.Sinks, FlowSink{Kind: "external-call", Instr: ci, Via: v, Note: "dynamic:" + info.What})
	}
}

func isByteLike(t types.Type) bool {
	if s, ok := t.Underlying().(*types.Slice); ok {
		if b, ok := s.Elem().Underlying().(*types.Basic); ok {
			return b.Kind() == types.Byte || b.Kind() == types.Uint8
		}
	}
	if b, ok := t.Underlying().(*types.Basic); ok {
		return b.Info()&types.IsString != 0
	}
	return false
}

func isRefLikeElem(t types.Type) bool {
	if s, ok := t.Underlying().(*types.Slice); ok {
		return isRefLike(s.Elem())
	}
	return isRefLike(t)
}
