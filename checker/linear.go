package main

// linear.go: P9 — linear bounds over SSA integers, decided by Fourier–Motzkin
// elimination (rational relaxation with integer tightening of strict
// inequalities). Used to prove slice/index bounds for all values of a
// configuration integer.

import (
	"fmt"
	"go/token"
	"go/types"
	"sort"
	"strings"

	"golang.org/x/tools/go/ssa"
)

// Lin is sum(coef[v]*v) + K.
type Lin struct {
	Coef map[string]int64
	K    int64
}

func (l Lin) clone() Lin {
	n := Lin{Coef: map[string]int64{}, K: l.K}
	for k, v := range l.Coef {
		n.Coef[k] = v
	}
	return n
}

func (l Lin) add(o Lin, sign int64) Lin {
	n := l.clone()
	for k, v := range o.Coef {
		n.Coef[k] += sign * v
		if n.Coef[k] == 0 {
			delete(n.Coef, k)
		}
	}
	n.K += sign * o.K
	return n
}

func (l Lin) scale(f int64) Lin {
	n := Lin{Coef: map[string]int64{}, K: l.K * f}
	for k, v := range l.Coef {
		if v*f != 0 {
			n.Coef[k] = v * f
		}
	}
	return n
}

func (l Lin) String() string {
	var ks []string
	for k := range l.Coef {
		ks = append(ks, k)
	}
	sort.Strings(ks)
	var parts []string
	for _, k := range ks {
		c := l.Coef[k]
		switch c {
		case 1:
			parts = append(parts, "+"+k)
		case -1:
			parts = append(parts, "-"+k)
		default:
			parts = append(parts, fmt.Sprintf("%+d·%s", c, k))
		}
	}
	if l.K != 0 || len(parts) == 0 {
		parts = append(parts, fmt.Sprintf("%+d", l.K))
	}
	return strings.TrimPrefix(strings.Join(parts, ""), "+")
}

func linConst(k int64) Lin { return Lin{Coef: map[string]int64{}, K: k} }
func linVar(v string) Lin  { return Lin{Coef: map[string]int64{v: 1}} }

// Ineq means L >= 0.
type Ineq struct{ L Lin }

func (q Ineq) String() string { return q.L.String() + " ≥ 0" }

// linAlt is one case of a case-split linearisation: the value equals L under the extra facts.
type linAlt struct {
	L     Lin
	Facts []Ineq
	Note  string
}

type linCtx struct {
	c    *Ctx
	fn   *ssa.Function
	vars map[string]ssa.Value // variable name -> representative value
	busy map[ssa.Value]bool
}

func (lc *linCtx) varName(v ssa.Value) string {
	var name string
	switch x := v.(type) {
	case *ssa.Call:
		if b, ok := x.Call.Value.(*ssa.Builtin); ok && b.Name() == "len" {
			name = "len(" + lc.c.accessPath(x.Call.Args[0], nil) + ")"
			if strings.Contains(name, "?") || strings.Contains(name, "phi:") || strings.Contains(name, "alloc:") {
				name = fmt.Sprintf("len(%s)", x.Call.Args[0].Name())
			}
		}
	case *ssa.UnOp:
		if x.Op == token.MUL {
			name = lc.c.accessPath(x, nil)
		}
	case *ssa.Parameter:
		name = "param:" + x.Name()
	}
	if name == "" || strings.HasPrefix(name, "alloc:") {
		name = v.Name()
	}
	lc.vars[name] = v
	return name
}

// lin linearises v into case alternatives.
func (lc *linCtx) lin(v ssa.Value, d int) []linAlt {
	if d > 12 {
		return []linAlt{{L: linVar(lc.varName(v))}}
	}
	if k, ok := constInt(v); ok {
		return []linAlt{{L: linConst(k)}}
	}
	switch x := v.(type) {
	case *ssa.Convert:
		if _, _, ok := intBits(x.X.Type()); ok {
			return lc.lin(x.X, d+1)
		}
	case *ssa.ChangeType:
		return lc.lin(x.X, d+1)
	case *ssa.UnOp:
		if x.Op == token.SUB {
			var out []linAlt
			for _, a := range lc.lin(x.X, d+1) {
				out = append(out, linAlt{L: a.L.scale(-1), Facts: a.Facts, Note: a.Note})
			}
			return out
		}
		if x.Op == token.MUL {
			if al, ok := x.X.(*ssa.Alloc); ok {
				sts := storesTo(al)
				if len(sts) == 1 {
					return lc.lin(sts[0].Val, d+1)
				}
			}
		}
	case *ssa.BinOp:
		switch x.Op {
		case token.ADD, token.SUB:
			sign := int64(1)
			if x.Op == token.SUB {
				sign = -1
			}
			var out []linAlt
			for _, a := range lc.lin(x.X, d+1) {
				for _, b := range lc.lin(x.Y, d+1) {
					out = append(out, linAlt{L: a.L.add(b.L, sign), Facts: append(append([]Ineq{}, a.Facts...), b.Facts...), Note: a.Note + b.Note})
				}
			}
			return out
		case token.MUL:
			if k, ok := constInt(x.Y); ok {
				var out []linAlt
				for _, a := range lc.lin(x.X, d+1) {
					out = append(out, linAlt{L: a.L.scale(k), Facts: a.Facts, Note: a.Note})
				}
				return out
			}
			if k, ok := constInt(x.X); ok {
				var out []linAlt
				for _, a := range lc.lin(x.Y, d+1) {
					out = append(out, linAlt{L: a.L.scale(k), Facts: a.Facts, Note: a.Note})
				}
				return out
			}
		}
	case *ssa.Call:
		if b, ok := x.Call.Value.(*ssa.Builtin); ok && (b.Name() == "max" || b.Name() == "min") && len(x.Call.Args) == 2 {
			var out []linAlt
			as, bs := lc.lin(x.Call.Args[0], d+1), lc.lin(x.Call.Args[1], d+1)
			for _, a := range as {
				for _, bb := range bs {
					diff := a.L.add(bb.L, -1) // a - b
					base := append(append([]Ineq{}, a.Facts...), bb.Facts...)
					if b.Name() == "max" {
						// result a when a-b >= 0 ; result b when b-a >= 0
						out = append(out, linAlt{L: a.L, Facts: append(append([]Ineq{}, base...), Ineq{diff}), Note: a.Note + bb.Note + "[max=left]"})
						out = append(out, linAlt{L: bb.L, Facts: append(append([]Ineq{}, base...), Ineq{diff.scale(-1)}), Note: a.Note + bb.Note + "[max=right]"})
					} else {
						out = append(out, linAlt{L: a.L, Facts: append(append([]Ineq{}, base...), Ineq{diff.scale(-1)}), Note: a.Note + bb.Note + "[min=left]"})
						out = append(out, linAlt{L: bb.L, Facts: append(append([]Ineq{}, base...), Ineq{diff}), Note: a.Note + bb.Note + "[min=right]"})
					}
				}
			}
			return out
		}
	case *ssa.Phi:
		// case split on incoming edges, each with the facts of its edge (join phis only: loop phis stay opaque)
		isLoop := false
		for _, p := range x.Block().Preds {
			if x.Block() == p || x.Block().Dominates(p) {
				isLoop = true
			}
		}
		if isLoop || lc.busy[x] {
			break
		}
		if lc.busy == nil {
			lc.busy = map[ssa.Value]bool{}
		}
		lc.busy[x] = true
		defer delete(lc.busy, x)
		var out []linAlt
		for i, e := range x.Edges {
			pred := x.Block().Preds[i]
			facts := lc.edgeFacts(pred, x.Block())
			for _, a := range lc.lin(e, d+1) {
				out = append(out, linAlt{L: a.L, Facts: append(append([]Ineq{}, a.Facts...), facts...), Note: a.Note + fmt.Sprintf("[phi edge %d]", i)})
			}
		}
		if len(out) > 0 && len(out) <= 8 {
			return out
		}
	}
	return []linAlt{{L: linVar(lc.varName(v))}}
}

// condFacts converts a comparison taken with polarity into inequalities (conjunction); ok=false if not linear.
func (lc *linCtx) condFacts(cond ssa.Value, pol bool) ([]Ineq, bool) {
	for {
		u, ok := cond.(*ssa.UnOp)
		if !ok || u.Op != token.NOT {
			break
		}
		cond = u.X
		pol = !pol
	}
	b, ok := cond.(*ssa.BinOp)
	if !ok {
		return nil, false
	}
	if _, _, isInt := intBits(b.X.Type()); !isInt {
		return nil, false
	}
	op := b.Op
	if !pol {
		switch op {
		case token.LSS:
			op = token.GEQ
		case token.LEQ:
			op = token.GTR
		case token.GTR:
			op = token.LEQ
		case token.GEQ:
			op = token.LSS
		case token.EQL:
			op = token.NEQ
		case token.NEQ:
			op = token.EQL
		}
	}
	xs, ys := lc.lin(b.X, 0), lc.lin(b.Y, 0)
	if len(xs) != 1 || len(ys) != 1 {
		return nil, false
	}
	x, y := xs[0].L, ys[0].L
	switch op {
	case token.GTR: // x - y - 1 >= 0
		return []Ineq{{x.add(y, -1).add(linConst(1), -1)}}, true
	case token.GEQ:
		return []Ineq{{x.add(y, -1)}}, true
	case token.LSS:
		return []Ineq{{y.add(x, -1).add(linConst(1), -1)}}, true
	case token.LEQ:
		return []Ineq{{y.add(x, -1)}}, true
	case token.EQL:
		return []Ineq{{x.add(y, -1)}, {y.add(x, -1)}}, true
	}
	return nil, false
}

// edgeFacts: facts that hold when control flows pred -> succ (dominating guards of pred plus the edge condition).
func (lc *linCtx) edgeFacts(pred, succ *ssa.BasicBlock) []Ineq {
	var out []Ineq
	for _, g := range guardsOf(pred) {
		if fs, ok := lc.condFacts(g.Cond, g.Polarity); ok {
			out = append(out, fs...)
		}
	}
	if iff, ok := pred.Instrs[len(pred.Instrs)-1].(*ssa.If); ok && pred.Succs[0] != pred.Succs[1] {
		pol := pred.Succs[0] == succ
		if fs, ok := lc.condFacts(iff.Cond, pol); ok {
			out = append(out, fs...)
		}
	}
	return out
}

// fmUnsat reports whether the conjunction of inequalities is unsatisfiable (over the rationals).
func fmUnsat(cs []Ineq) bool {
	cur := make([]Lin, 0, len(cs))
	for _, q := range cs {
		cur = append(cur, q.L.clone())
	}
	for iter := 0; iter < 20; iter++ {
		// constant constraints
		var next []Lin
		var v string
		for _, l := range cur {
			if len(l.Coef) == 0 {
				if l.K < 0 {
					return true
				}
				continue
			}
			next = append(next, l)
			if v == "" {
				for k := range l.Coef {
					if v == "" || k < v {
						v = k
					}
				}
			}
		}
		cur = next
		if len(cur) == 0 {
			return false
		}
		var pos, neg, rest []Lin
		for _, l := range cur {
			switch c := l.Coef[v]; {
			case c > 0:
				pos = append(pos, l)
			case c < 0:
				neg = append(neg, l)
			default:
				rest = append(rest, l)
			}
		}
		for _, p := range pos {
			for _, n := range neg {
				a, b := p.Coef[v], -n.Coef[v]
				comb := p.scale(b).add(n.scale(a), 1)
				delete(comb.Coef, v)
				rest = append(rest, comb)
			}
		}
		cur = rest
		if len(cur) > 4000 {
			return false
		}
	}
	return false
}

// implies: facts ⇒ goal (goal: L >= 0). Returns a small integer counterexample when not implied.
func implies(facts []Ineq, goal Ineq) (bool, string) {
	// facts ∧ (L <= -1) unsat
	neg := Ineq{goal.L.scale(-1).add(linConst(1), -1)}
	if fmUnsat(append(append([]Ineq{}, facts...), neg)) {
		return true, ""
	}
	// search a witness
	vars := map[string]bool{}
	for _, f := range append(append([]Ineq{}, facts...), goal) {
		for k := range f.L.Coef {
			vars[k] = true
		}
	}
	var vs []string
	for k := range vars {
		vs = append(vs, k)
	}
	sort.Strings(vs)
	if len(vs) > 3 {
		return false, "(no witness search beyond 3 variables)"
	}
	asg := map[string]int64{}
	eval := func(l Lin) int64 {
		s := l.K
		for k, c := range l.Coef {
			s += c * asg[k]
		}
		return s
	}
	var rec func(i int) bool
	rec = func(i int) bool {
		if i == len(vs) {
			for _, f := range facts {
				if eval(f.L) < 0 {
					return false
				}
			}
			return eval(goal.L) < 0
		}
		for x := int64(-6); x <= 60; x++ {
			asg[vs[i]] = x
			if rec(i + 1) {
				return true
			}
		}
		return false
	}
	if rec(0) {
		var ss []string
		for _, k := range vs {
			ss = append(ss, fmt.Sprintf("%s=%d", k, asg[k]))
		}
		return false, strings.Join(ss, ", ")
	}
	return false, "(not proved; no small witness)"
}

// configIntFields: struct fields with an integer type and a PluginAttribute tag.
func (c *Ctx) configIntFields() map[*types.Var]string {
	out := map[*types.Var]string{}
	for _, nt := range c.namedTypes(c.Log) {
		st, ok := nt.Underlying().(*types.Struct)
		if !ok {
			continue
		}
		for i := 0; i < st.NumFields(); i++ {
			f := st.Field(i)
			if !strings.Contains(st.Tag(i), "PluginAttribute") {
				continue
			}
			if _, _, ok := intBits(f.Type()); ok {
				out[f] = nt.Obj().Name() + "." + f.Name()
			}
		}
	}
	return out
}

// dependsOnConfigInt: v's operand closure contains a load of a config integer field.
func (c *Ctx) dependsOnConfigInt(v ssa.Value, cfg map[*types.Var]string) (string, bool) {
	seen := map[ssa.Value]bool{}
	var found string
	var rec func(v ssa.Value) bool
	rec = func(v ssa.Value) bool {
		if v == nil || seen[v] {
			return false
		}
		seen[v] = true
		if ld, ok := v.(*ssa.UnOp); ok && ld.Op == token.MUL {
			if fa, ok := ld.X.(*ssa.FieldAddr); ok {
				if n, ok := cfg[fieldOfAddr(fa)]; ok {
					found = n
					return true
				}
			}
		}
		in, ok := v.(ssa.Instruction)
		if !ok {
			return false
		}
		for _, op := range in.Operands(nil) {
			if *op != nil && rec(*op) {
				return true
			}
		}
		return false
	}
	ok := rec(v)
	return found, ok
}

// checkConfigBounds proves every slice/index on the hot path whose bounds depend on a
// configuration integer, for all values of that integer.
func (c *Ctx) checkConfigBounds(r *Report, ro *Roles, rule string) {
	cfg := c.configIntFields()
	r.Count("config_int_fields", len(cfg))
	n := 0
	for _, fn := range sortedFuncs(ro.HotPath) {
		eachInstr(fn, func(in ssa.Instruction) {
			sl, ok := in.(*ssa.Slice)
			if !ok {
				return
			}
			var which string
			dep := false
			for _, b := range []ssa.Value{sl.Low, sl.High, sl.Max} {
				if b == nil {
					continue
				}
				if nme, ok := c.dependsOnConfigInt(b, cfg); ok {
					dep, which = true, nme
				}
			}
			if !dep {
				return
			}
			n++
			r.SawFunc(fn)
			key := fmt.Sprintf("%s:%s#slice(%s)", rule, fname(fn), which)
			lc := &linCtx{c: c, fn: fn, vars: map[string]ssa.Value{}}
			// length of the sliced operand
			lenVar := "len(" + c.accessPath(sl.X, nil) + ")"
			if strings.Contains(lenVar, "?") || strings.Contains(lenVar, "phi:") || strings.Contains(lenVar, "alloc:") {
				lenVar = "len(" + sl.X.Name() + ")"
			}
			// unify with an existing len() call on the same value
			eachInstr(fn, func(j ssa.Instruction) {
				if call, ok := j.(*ssa.Call); ok {
					if b, ok := call.Call.Value.(*ssa.Builtin); ok && b.Name() == "len" && call.Call.Args[0] == sl.X {
						lenVar = lc.varName(call)
					}
				}
			})
			var facts []Ineq
			facts = append(facts, Ineq{linVar(lenVar)}) // len >= 0
			for _, g := range guardsOfInstr(sl) {
				if fs, ok := lc.condFacts(g.Cond, g.Polarity); ok {
					facts = append(facts, fs...)
				}
			}
			lows := []linAlt{{L: linConst(0)}}
			if sl.Low != nil {
				lows = lc.lin(sl.Low, 0)
			}
			highs := []linAlt{{L: linVar(lenVar)}}
			if sl.High != nil {
				highs = lc.lin(sl.High, 0)
			}
			r.Count("bound_cases", len(lows)*len(highs))
			var fails []string
			for _, lo := range lows {
				for _, hi := range highs {
					fs := append(append(append([]Ineq{}, facts...), lo.Facts...), hi.Facts...)
					// all len() variables are non-negative
					for vname := range lc.vars {
						if strings.HasPrefix(vname, "len(") {
							fs = append(fs, Ineq{linVar(vname)})
						}
					}
					goals := []struct {
						q    Ineq
						text string
					}{
						{Ineq{lo.L}, "0 ≤ low"},
						{Ineq{hi.L.add(lo.L, -1)}, "low ≤ high"},
						{Ineq{linVar(lenVar).add(hi.L, -1)}, "high ≤ len"},
					}
					for _, g := range goals {
						ok, wit := implies(fs, g.q)
						if !ok {
							fails = append(fails, fmt.Sprintf("%s not implied (low=%s, high=%s%s%s); counterexample: %s", g.text, lo.L, hi.L, lo.Note, hi.Note, wit))
						}
					}
				}
			}
			var fstr []string
			for _, f := range facts {
				fstr = append(fstr, f.String())
			}
			if len(fails) > 0 {
				r.Fail(key, c.instrPos(sl), "slice bounds depending on configuration integer %s are not in range for every configured value: %s; facts: %s", which, strings.Join(firstN(fails, 3), " | "), strings.Join(fstr, ", "))
			} else {
				r.OK(key, "0 ≤ low ≤ high ≤ len proved for all values of %s (%d case(s); facts: %s)", which, len(lows)*len(highs), strings.Join(fstr, ", "))
			}
		})
	}
	r.Floor("config-dependent slice sites on the hot path", n, 1)
}

// configIntLoad: the first load of a configuration integer field in v's operand closure.
func (c *Ctx) configIntLoad(v ssa.Value, cfg map[*types.Var]string) ssa.Value {
	seen := map[ssa.Value]bool{}
	var found ssa.Value
	var rec func(v ssa.Value) bool
	rec = func(v ssa.Value) bool {
		if v == nil || seen[v] {
			return false
		}
		seen[v] = true
		if ld, ok := v.(*ssa.UnOp); ok && ld.Op == token.MUL {
			if fa, ok := ld.X.(*ssa.FieldAddr); ok {
				if _, ok := cfg[fieldOfAddr(fa)]; ok {
					found = v
					return true
				}
			}
		}
		in, ok := v.(ssa.Instruction)
		if !ok {
			return false
		}
		for _, op := range in.Operands(nil) {
			if *op != nil && rec(*op) {
				return true
			}
		}
		return false
	}
	rec(v)
	return found
}

// checkTruncation decides the width rule of the file:line column as arithmetic, for all lengths n and widths W:
// the tail slice s[low:] whose low bound depends on the configured width is taken only when n > W, every other
// path keeps the string whole only when n <= W, and the kept tail n-low equals max(W-reserve, 0).
func (c *Ctx) checkTruncation(r *Report, ro *Roles, rule string, reserve int64) {
	cfg := c.configIntFields()
	n := 0
	for _, fn := range sortedFuncs(ro.HotPath) {
		eachInstr(fn, func(in ssa.Instruction) {
			sl, ok := in.(*ssa.Slice)
			if !ok || sl.Low == nil || sl.High != nil || !isStringType(sl.X.Type()) {
				return
			}
			which, dep := c.dependsOnConfigInt(sl.Low, cfg)
			if !dep {
				return
			}
			n++
			r.SawFunc(fn)
			key := fmt.Sprintf("%s:%s#tail(%s)", rule, fname(fn), which)
			lc := &linCtx{c: c, fn: fn, vars: map[string]ssa.Value{}}
			lenVar := "len(" + sl.X.Name() + ")"
			eachInstr(fn, func(j ssa.Instruction) {
				if call, ok := j.(*ssa.Call); ok {
					if b, ok := call.Call.Value.(*ssa.Builtin); ok && b.Name() == "len" && call.Call.Args[0] == sl.X {
						lenVar = lc.varName(call)
					}
				}
			})
			nL := linVar(lenVar)
			ws := lc.lin(c.configIntLoad(sl.Low, cfg), 0)
			if len(ws) != 1 {
				r.Undecided(key, c.instrPos(sl), "the configured width is not a single linear term")
				return
			}
			W := ws[0].L
			base := []Ineq{{nL}}
			var bad []string
			// (1) truncated only when longer than the width; (2) each deciding guard, when it fails, means n <= W
			facts := append([]Ineq{}, base...)
			for _, g := range guardsOfInstr(sl) {
				fs, ok := lc.condFacts(g.Cond, g.Polarity)
				if !ok {
					continue
				}
				facts = append(facts, fs...)
				mentions := false
				for _, f := range fs {
					if f.L.Coef[lenVar] != 0 {
						mentions = true
					}
				}
				if !mentions {
					continue
				}
				if nfs, ok := lc.condFacts(g.Cond, !g.Polarity); ok {
					if ok2, wit := implies(append(append([]Ineq{}, base...), nfs...), Ineq{W.add(nL, -1)}); !ok2 {
						bad = append(bad, fmt.Sprintf("a string longer than the width is left whole (the guard at %s can fail with n > W, e.g. %s)", c.instrPos(g.If), wit))
					}
				}
			}
			if ok2, wit := implies(facts, Ineq{nL.add(W, -1).add(linConst(1), -1)}); !ok2 {
				bad = append(bad, fmt.Sprintf("a string that is not longer than the width is cut (n > W is not implied where the tail is taken, e.g. %s)", wit))
			}
			// (3) kept tail = max(W-reserve, 0)
			for _, lo := range lc.lin(sl.Low, 0) {
				fs := append(append([]Ineq{}, facts...), lo.Facts...)
				keep := nL.add(lo.L, -1)
				tgt := W.add(linConst(reserve), -1)
				ge1, _ := implies(fs, Ineq{keep.add(tgt, -1)})
				ge0, _ := implies(fs, Ineq{keep})
				le1, _ := implies(fs, Ineq{tgt.add(keep, -1)})
				le0, _ := implies(fs, Ineq{keep.scale(-1)})
				if !(ge1 && ge0 && (le1 || le0)) {
					bad = append(bad, fmt.Sprintf("the kept tail has length %s%s, which is not max(W-%d, 0) for every n and W", keep, lo.Note, reserve))
				}
			}
			if len(bad) > 0 {
				r.Fail(key, c.instrPos(sl), "%s", strings.Join(uniq(bad), "; "))
			} else {
				r.OK(key, "tail taken iff n > W; kept length = max(W-%d, 0), proved for all n, W", reserve)
			}
		})
	}
	r.Floor("width-dependent tail slices", n, 1)
}

// canonLoad: two loads of a variable that only this function writes (a captured variable of a closure, a local that was
// spilled to a cell) yield the same value when no store to it lies between them. The later load is replaced by the
// earliest dominating load it is provably equal to, so that facts about one (a strings.LastIndex post-condition
// on len(tag)) apply to the other (the slice tag[:i] a few instructions on).
func (c *Ctx) canonLoad(v ssa.Value) ssa.Value {
	ld, ok := v.(*ssa.UnOp)
	if !ok || ld.Op != token.MUL || ld.Block() == nil {
		return v
	}
	f := ld.Parent()
	addr := ld.X
	if !c.privateCell(addr, f) {
		return v
	}
	var loads []*ssa.UnOp
	eachInstr(f, func(in ssa.Instruction) {
		if u, ok := in.(*ssa.UnOp); ok && u.Op == token.MUL && u.X == addr && u != ld {
			loads = append(loads, u)
		}
	})
	isStore := func(in ssa.Instruction) bool {
		st, ok := in.(*ssa.Store)
		return ok && st.Addr == addr
	}
	best := ssa.Value(v)
	for _, l1 := range loads {
		if !(l1.Block() == ld.Block() || l1.Block().Dominates(ld.Block())) {
			continue
		}
		// every path from l1 to ld that does not re-execute l1 is free of stores to the cell
		clean, reached := true, false
		seen := map[*ssa.BasicBlock]bool{}
		var walk func(b *ssa.BasicBlock, from int)
		walk = func(b *ssa.BasicBlock, from int) {
			for i := from; i < len(b.Instrs) && clean; i++ {
				in := b.Instrs[i]
				if in == ssa.Instruction(ld) {
					reached = true
					return
				}
				if in == ssa.Instruction(l1) {
					return
				}
				if isStore(in) {
					clean = false
					return
				}
			}
			for _, s := range b.Succs {
				if !seen[s] {
					seen[s] = true
					walk(s, 0)
				}
			}
		}
		start := -1
		for i, in := range l1.Block().Instrs {
			if in == ssa.Instruction(l1) {
				start = i + 1
			}
		}
		if start < 0 {
			continue
		}
		if l1.Block() == ld.Block() {
			// same block: l1 must come first
			before := false
			for _, in := range l1.Block().Instrs {
				if in == ssa.Instruction(l1) {
					before = true
					break
				}
				if in == ssa.Instruction(ld) {
					break
				}
			}
			if !before {
				continue
			}
		}
		walk(l1.Block(), start)
		if clean && reached {
			// prefer the earliest such load (it dominates the others)
			if b, ok := best.(*ssa.UnOp); !ok || b == ld || l1.Block().Dominates(b.Block()) {
				best = l1
			}
		}
	}
	return best
}

// privateCell: the address names a variable that only f reads and writes while f runs: a free variable of f whose cell
// the enclosing function hands to this closure alone and does not touch after creating it, or a local cell of f that
// never leaves f.
func (c *Ctx) privateCell(addr ssa.Value, f *ssa.Function) bool {
	onlyLoadsStores := func(v ssa.Value, allowClosure *ssa.Function) bool {
		refs := v.Referrers()
		if refs == nil {
			return false
		}
		closures := 0
		for _, r := range *refs {
			switch x := r.(type) {
			case *ssa.UnOp:
				if x.Op != token.MUL {
					return false
				}
			case *ssa.Store:
				if x.Addr != v {
					return false // the address itself is stored somewhere
				}
			case *ssa.DebugRef:
			case *ssa.MakeClosure:
				if allowClosure == nil || x.Fn != ssa.Value(allowClosure) {
					return false
				}
				closures++
			default:
				return false
			}
		}
		return closures <= 1
	}
	switch a := addr.(type) {
	case *ssa.Alloc:
		return a.Parent() == f && onlyLoadsStores(a, nil)
	case *ssa.FreeVar:
		if !onlyLoadsStores(a, nil) || f.Parent() == nil {
			return false
		}
		// the binding in the enclosing function
		idx := -1
		for i, fv := range f.FreeVars {
			if fv == a {
				idx = i
			}
		}
		ok := false
		eachInstr(f.Parent(), func(in ssa.Instruction) {
			if mc, isMC := in.(*ssa.MakeClosure); isMC && mc.Fn == ssa.Value(f) && idx >= 0 && idx < len(mc.Bindings) {
				if al, isAlloc := mc.Bindings[idx].(*ssa.Alloc); isAlloc && onlyLoadsStores(al, f) {
					// stores of the enclosing function happen before the closure exists (they dominate its creation)
					good := true
					for _, r := range *al.Referrers() {
						if st, isSt := r.(*ssa.Store); isSt {
							if !(st.Block() == mc.Block() || st.Block().Dominates(mc.Block())) {
								good = false
							}
						}
						if u, isU := r.(*ssa.UnOp); isU && !(u.Block() == mc.Block() || u.Block().Dominates(mc.Block())) {
							good = false
						}
					}
					ok = good
				}
			}
		})
		return ok
	}
	return false
}
