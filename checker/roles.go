package main

// roles.go: role resolution — constructs are found by what they are
// (interface membership, call-graph position, types), not by helper names.

import (
	"go/token"
	"go/types"
	"sort"
	"strings"

	"golang.org/x/tools/go/ssa"
	"golang.org/x/tools/go/ssa/ssautil"
)

type Roles struct {
	c *Ctx

	Loggers       []*types.Named // *T implements Logger
	LeafAppenders []*types.Named // *T implements Appender, not Logger, not the reference wrapper
	AppenderRef   *types.Named   // struct embedding Appender with a LevelRange field
	Layouts       []*types.Named
	Encoders      []*types.Named
	Lifecycles    []*types.Named

	EntryPoints    []*ssa.Function // exported funcs(ctx, ...) that reach the recorder
	Recorder       *ssa.Function   // the function that obtains a pooled event and calls Logger.Append
	Enable         *ssa.Function   // LevelRange.Enable
	Worker         *ssa.Function   // async worker closure
	WorkerOwner    *types.Named    // the async logger type
	BufField       *types.Var      // channel field the worker receives from
	WorkerDoneByWG bool            // the worker is started with (*sync.WaitGroup).Go: returning is its completion signal
	Retention      *ssa.Function   // function containing os.Remove*
	Rotation       *ssa.Function   // rotation step of the rolling appender
	HotPath        map[*ssa.Function]bool
}

func (c *Ctx) roles(r *Report) *Roles {
	ro := &Roles{c: c}
	loggerI := c.logIface("Logger")
	appI := c.logIface("Appender")
	layI := c.logIface("Layout")
	encI := c.logIface("Encoder")
	lifeI := c.logIface("Lifecycle")
	ro.Loggers = c.implementers(loggerI)
	ro.Layouts = c.implementers(layI)
	ro.Encoders = c.implementers(encI)
	ro.Lifecycles = c.implementers(lifeI)
	lr := c.logType("LevelRange")
	for _, nt := range c.implementers(appI) {
		if loggerI != nil && types.Implements(types.NewPointer(nt), loggerI) {
			continue
		}
		st, ok := nt.Underlying().(*types.Struct)
		if !ok {
			continue
		}
		isRef := false
		hasEmb, hasRange := false, false
		for i := 0; i < st.NumFields(); i++ {
			f := st.Field(i)
			if f.Embedded() && c.moduleIface(f.Type()) && types.Identical(f.Type().Underlying(), appI) {
				hasEmb = true
			}
			if lr != nil && types.Identical(f.Type(), lr) {
				hasRange = true
			}
		}
		isRef = hasEmb && hasRange
		if isRef {
			ro.AppenderRef = nt
			continue
		}
		ro.LeafAppenders = append(ro.LeafAppenders, nt)
	}
	if lr != nil {
		ro.Enable = c.method(lr, "Enable")
	}

	// recorder: calls eventPool.Get (directly or through GetEvent) and invokes Logger.Append
	getEvent := c.logFunc("GetEvent")
	for _, f := range c.Funcs {
		if f.Pkg != c.LogS || f.Parent() != nil {
			continue
		}
		gets, appends := false, false
		eachInstr(f, func(in ssa.Instruction) {
			ci, ok := in.(ssa.CallInstruction)
			if !ok {
				return
			}
			if callee := ci.Common().StaticCallee(); getEvent != nil && callee != nil {
				// directly, or through a helper of the package that hands the pooled event back (newEvent → GetEvent)
				if callee == getEvent || (callee.Pkg == c.LogS && callee != f && types.Identical(resultType(callee), resultType(getEvent)) && c.reachesWithin(callee, getEvent, 1)) {
					gets = true
				}
			}
			if ci.Common().IsInvoke() && ci.Common().Method.Name() == "Append" && c.moduleIface(ci.Common().Value.Type()) {
				appends = true
			}
		})
		if gets && appends {
			ro.Recorder = f
		}
	}
	// entry points: exported package-level funcs with ctx first that reach the recorder within depth 2
	if ro.Recorder != nil {
		for _, f := range c.Funcs {
			if f.Pkg != c.LogS || f.Parent() != nil || f.Signature.Recv() != nil || f.Object() == nil || !f.Object().Exported() {
				continue
			}
			if len(f.Params) == 0 || !isContext(f.Params[0].Type()) {
				continue
			}
			if c.reachesWithin(f, ro.Recorder, 2) {
				ro.EntryPoints = append(ro.EntryPoints, f)
			}
		}
	}
	// async worker: closure started by `go` inside a Start method that receives from a channel field of the receiver
	for _, nt := range ro.Lifecycles {
		start := c.declaredMethod(nt, "Start")
		if start == nil {
			continue
		}
		eachInstr(start, func(in ssa.Instruction) {
			fn, ok := goStart(in)
			if !ok {
				return
			}
			if fn != nil && (!c.inModule(fn) || len(fn.Blocks) == 0) {
				fn = nil
			}
			if fn == nil {
				return
			}
			if fv := recvChanField(fn); fv != nil {
				ro.Worker = fn
				ro.WorkerOwner = nt
				ro.BufField = fv
				_, viaCall := in.(*ssa.Call)
				ro.WorkerDoneByWG = viaCall
			}
		})
	}
	// retention: function that calls os.Remove/RemoveAll; if several do, the one the rotation step launches
	var removers []*ssa.Function
	for _, f := range c.Funcs {
		hit := false
		eachInstr(f, func(in ssa.Instruction) {
			if ci, ok := in.(ssa.CallInstruction); ok {
				if calleeIs(ci, "os", "", "Remove") || calleeIs(ci, "os", "", "RemoveAll") {
					hit = true
				}
			}
		})
		if hit {
			removers = append(removers, f)
		}
	}
	if len(removers) > 0 {
		ro.Retention = removers[0]
	}
	retentionCandidates := removers
	// rotation step: a method of a leaf appender, other than Start/Stop, that
	// stores into a file-holding field (atomic.Pointer[os.File].Store/Swap or *os.File field store)
	for _, nt := range ro.LeafAppenders {
		for i := 0; i < nt.NumMethods(); i++ {
			m := nt.Method(i)
			if m.Name() == "Start" || m.Name() == "Stop" {
				continue
			}
			f := c.Prog.FuncValue(m)
			if f == nil {
				continue
			}
			if len(c.fileFieldWrites(f)) > 0 {
				ro.Rotation = f
			}
		}
	}
	if ro.Rotation != nil {
		for _, cand := range retentionCandidates {
			for _, cs := range c.callSitesOf(cand) {
				if cs.Parent() == ro.Rotation {
					ro.Retention = cand
				}
			}
		}
	}
	// hot path
	var roots []*ssa.Function
	roots = append(roots, ro.EntryPoints...)
	for _, nt := range append(append([]*types.Named{}, ro.Loggers...), ro.LeafAppenders...) {
		roots = append(roots, c.method(nt, "Append"), c.method(nt, "Write"))
	}
	if ro.AppenderRef != nil {
		roots = append(roots, c.method(ro.AppenderRef, "Append"), c.method(ro.AppenderRef, "Write"))
	}
	for _, nt := range ro.Layouts {
		roots = append(roots, c.method(nt, "ToBytes"))
	}
	if lw := c.logType("LoggerWrapper"); lw != nil {
		roots = append(roots, c.method(lw, "Write"))
	}
	if ro.Worker != nil {
		roots = append(roots, ro.Worker)
	}
	ro.HotPath = c.reach(roots...)
	// Any()/Field constructors are user-called on the hot path too
	_ = sort.Strings
	return ro
}

func isContext(t types.Type) bool {
	n, ok := t.(*types.Named)
	return ok && n.Obj().Pkg() != nil && n.Obj().Pkg().Path() == "context" && n.Obj().Name() == "Context"
}

func (c *Ctx) reachesWithin(from, to *ssa.Function, depth int) bool {
	if from == to {
		return true
	}
	if depth == 0 {
		return false
	}
	for _, g := range c.moduleCallees(from) {
		if c.reachesWithin(g, to, depth-1) {
			return true
		}
	}
	return false
}

// recvChanField returns the channel-typed struct field the closure receives from (range or <-), if any.
func recvChanField(fn *ssa.Function) *types.Var {
	var out *types.Var
	seen := map[*ssa.Function]bool{}
	var visit func(f *ssa.Function, d int)
	visit = func(f *ssa.Function, d int) {
		if f == nil || seen[f] || d > 3 || len(f.Blocks) == 0 {
			return
		}
		seen[f] = true
		eachInstr(f, func(in ssa.Instruction) {
			switch x := in.(type) {
			case *ssa.UnOp:
				if x.Op == token.ARROW {
					if fv := chanFieldOf(x.X); fv != nil {
						out = fv
					}
				}
			case *ssa.Select:
				for _, st := range x.States {
					if st.Dir == types.RecvOnly {
						if fv := chanFieldOf(st.Chan); fv != nil {
							out = fv
						}
					}
				}
			case ssa.CallInstruction:
				// the receive may sit in an unexported helper of the worker (`go c.run()` → c.drain())
				if cal := x.Common().StaticCallee(); cal != nil && cal.Object() != nil && !cal.Object().Exported() && (cal.Pkg == f.Pkg || (cal.Origin() != nil && cal.Origin().Pkg != nil && (cal.Origin().Pkg == f.Pkg || (f.Origin() != nil && cal.Origin().Pkg == f.Origin().Pkg)))) {
					if !isGoStart(in) {
						visit(cal, d+1)
						// an iterator (`for v := range q.all()`): the receive sits in the function literal it returns
						for _, an := range cal.AnonFuncs {
							visit(an, d+1)
						}
					}
				}
			}
		})
	}
	visit(fn, 0)
	return out
}

// chanFieldOf: v is (a copy of) a struct field of channel type -> that field. Copies through locals, captured
// variables and parameters of unexported functions are followed.
func chanFieldOf(v ssa.Value) *types.Var { return chanFieldOfD(v, 0) }

func chanFieldOfD(v ssa.Value, d int) *types.Var {
	if d > 6 {
		return nil
	}
	switch x := v.(type) {
	case *ssa.UnOp:
		if x.Op != token.MUL {
			return nil
		}
		switch a := x.X.(type) {
		case *ssa.FieldAddr:
			st := a.X.Type().Underlying().(*types.Pointer).Elem().Underlying().(*types.Struct)
			f := st.Field(a.Field)
			if _, ok := f.Type().Underlying().(*types.Chan); ok && f.Pkg() != nil && strings.HasPrefix(f.Pkg().Path(), logPath) {
				return f // a channel field of one of the module's own types (not, e.g., time.Ticker.C)
			}
		case *ssa.Alloc:
			var out *types.Var
			for _, st := range storesTo(a) {
				fv := chanFieldOfD(st.Val, d+1)
				if fv == nil || (out != nil && out != fv) {
					return nil
				}
				out = fv
			}
			return out
		case *ssa.FreeVar:
			fn := a.Parent()
			idx := -1
			for i, fv := range fn.FreeVars {
				if fv == a {
					idx = i
				}
			}
			if idx < 0 || fn.Parent() == nil {
				return nil
			}
			var out *types.Var
			eachInstr(fn.Parent(), func(in ssa.Instruction) {
				if mc, ok := in.(*ssa.MakeClosure); ok && mc.Fn == fn && idx < len(mc.Bindings) {
					if al, ok := mc.Bindings[idx].(*ssa.Alloc); ok {
						for _, st := range storesTo(al) {
							if fv := chanFieldOfD(st.Val, d+1); fv != nil {
								out = fv
							}
						}
					}
				}
			})
			return out
		}
	case *ssa.Phi:
		var out *types.Var
		for _, e := range x.Edges {
			fv := chanFieldOfD(e, d+1)
			if fv == nil || (out != nil && out != fv) {
				return nil
			}
			out = fv
		}
		return out
	case *ssa.ChangeType:
		return chanFieldOfD(x.X, d+1)
	case *ssa.MakeChan:
		// a channel made into a local and then published in a field (`buf := make(chan …); c.buf = buf`)
		return fieldReceiving(x, 0)
	case *ssa.Parameter:
		// a channel handed to the function as an argument (`go func(buf <-chan T) { … }(buf)`)
		fn := x.Parent()
		idx := -1
		for i, p := range fn.Params {
			if p == x {
				idx = i
			}
		}
		if idx < 0 {
			return nil
		}
		var out *types.Var
		sites := 0
		visit := func(in ssa.Instruction) {
			ci, ok := in.(ssa.CallInstruction)
			if !ok {
				return
			}
			com := ci.Common()
			var callee *ssa.Function
			switch v := com.Value.(type) {
			case *ssa.Function:
				callee = v
			case *ssa.MakeClosure:
				callee, _ = v.Fn.(*ssa.Function)
			}
			if callee != fn || idx >= len(com.Args) {
				return
			}
			sites++
			if fv := chanFieldOfD(com.Args[idx], d+1); fv != nil {
				out = fv
			}
		}
		if fn.Parent() != nil {
			eachInstr(fn.Parent(), visit)
		}
		if sites == 0 && fn.Pkg != nil {
			for _, m := range fn.Pkg.Members {
				if g, ok := m.(*ssa.Function); ok {
					eachInstr(g, visit)
				}
			}
		}
		if sites == 0 && fn.Pkg != nil {
			// a method started with go from another method (`go c.run(c.buf, …)`)
			for _, g := range pkgFuncs(fn.Pkg) {
				eachInstr(g, visit)
			}
		}
		return out
	}
	return nil
}

// fieldOfAddr returns the struct field a FieldAddr denotes.
func fieldOfAddr(fa *ssa.FieldAddr) *types.Var {
	st := fa.X.Type().Underlying().(*types.Pointer).Elem().Underlying().(*types.Struct)
	return st.Field(fa.Field)
}

// isFileHolder reports whether t can hold an *os.File: *os.File or atomic.Pointer[os.File].
func isFileHolder(t types.Type) bool {
	if p, ok := t.(*types.Pointer); ok {
		return isOSFile(p.Elem())
	}
	if n, ok := t.(*types.Named); ok && n.Obj().Pkg() != nil && n.Obj().Pkg().Path() == "sync/atomic" && n.Obj().Name() == "Pointer" {
		if ta := n.TypeArgs(); ta != nil && ta.Len() == 1 {
			return isOSFile(ta.At(0))
		}
	}
	return false
}

func isOSFile(t types.Type) bool {
	n, ok := t.(*types.Named)
	return ok && n.Obj().Pkg() != nil && n.Obj().Pkg().Path() == "os" && n.Obj().Name() == "File"
}

// fileHolderFields lists the fields of nt (not embedded ones) that can hold a file.
func fileHolderFields(nt *types.Named) []*types.Var {
	var out []*types.Var
	st, ok := nt.Underlying().(*types.Struct)
	if !ok {
		return nil
	}
	for i := 0; i < st.NumFields(); i++ {
		if isFileHolder(st.Field(i).Type()) {
			out = append(out, st.Field(i))
		}
	}
	return out
}

type fileWrite struct {
	Instr ssa.Instruction
	Field *types.Var
	Val   ssa.Value // stored value (nil const for Swap(nil))
	Op    string    // "store" | "Store" | "Swap" | "CompareAndSwap"
}

// fileFieldWrites finds writes to file-holding fields of the receiver in fn.
func (c *Ctx) fileFieldWrites(fn *ssa.Function) []fileWrite {
	var out []fileWrite
	eachInstr(fn, func(in ssa.Instruction) {
		switch x := in.(type) {
		case *ssa.Store:
			if fa, ok := x.Addr.(*ssa.FieldAddr); ok && isFileHolder(fieldOfAddr(fa).Type()) {
				// a store into a struct this function has just allocated (an immutable snapshot built before it is
				// published) is not a write to shared state; its publication (below) is
				if _, fresh := fa.X.(*ssa.Alloc); fresh {
					return
				}
				out = append(out, fileWrite{Instr: x, Field: fieldOfAddr(fa), Val: x.Val, Op: "store"})
			}
		case ssa.CallInstruction:
			f := x.Common().StaticCallee()
			if f == nil || len(x.Common().Args) == 0 {
				return
			}
			fa, ok := x.Common().Args[0].(*ssa.FieldAddr)
			if !ok || !(isFileHolder(fieldOfAddr(fa).Type()) || reachesFile(fieldOfAddr(fa).Type(), 0)) {
				return
			}
			name := f.Name()
			switch name {
			case "Store", "Swap", "CompareAndSwap":
				var v ssa.Value
				if len(x.Common().Args) > 1 {
					v = x.Common().Args[len(x.Common().Args)-1]
				}
				out = append(out, fileWrite{Instr: x, Field: fieldOfAddr(fa), Val: v, Op: name})
			}
		}
	})
	return out
}

func typeNames(ts []*types.Named) string {
	var ss []string
	for _, t := range ts {
		ss = append(ss, t.Obj().Name())
	}
	return strings.Join(ss, ",")
}

// paramOfType returns the name of the first parameter of fn whose type satisfies pred ("" if none).
func paramOfType(fn *ssa.Function, pred func(types.Type) bool) string {
	for _, p := range fn.Params {
		if pred(p.Type()) {
			return p.Name()
		}
	}
	return ""
}

func isTagPtr(t types.Type) bool {
	p, ok := t.(*types.Pointer)
	if !ok {
		return false
	}
	n, ok := p.Elem().(*types.Named)
	return ok && n.Obj().Name() == "Tag" && n.Obj().Pkg() != nil && n.Obj().Pkg().Path() == logPath
}

func isLevelType(t types.Type) bool {
	n, ok := t.(*types.Named)
	return ok && n.Obj().Name() == "Level" && n.Obj().Pkg() != nil && n.Obj().Pkg().Path() == logPath
}

// fieldReceiving: the module's channel field that value v is stored into, directly or through a local variable.
func fieldReceiving(v ssa.Value, d int) *types.Var {
	if d > 4 {
		return nil
	}
	refs := v.Referrers()
	if refs == nil {
		return nil
	}
	for _, rr := range *refs {
		switch x := rr.(type) {
		case *ssa.Store:
			if x.Val != v {
				continue
			}
			switch a := x.Addr.(type) {
			case *ssa.FieldAddr:
				f := fieldOfAddr(a)
				if _, isChan := f.Type().Underlying().(*types.Chan); isChan && f.Pkg() != nil && strings.HasPrefix(f.Pkg().Path(), logPath) {
					return f
				}
			case *ssa.Alloc:
				if ar := a.Referrers(); ar != nil {
					for _, u := range *ar {
						if ld, ok := u.(*ssa.UnOp); ok && ld.Op == token.MUL {
							if f := fieldReceiving(ld, d+1); f != nil {
								return f
							}
						}
					}
				}
			}
		case *ssa.ChangeType:
			if f := fieldReceiving(x, d+1); f != nil {
				return f
			}
		}
	}
	return nil
}

var pkgFuncsMemo = map[*ssa.Package][]*ssa.Function{}

// pkgFuncs: every function and method (and their literals) of a package.
func pkgFuncs(p *ssa.Package) []*ssa.Function {
	if fs, ok := pkgFuncsMemo[p]; ok {
		return fs
	}
	var out []*ssa.Function
	for f := range ssautil.AllFunctions(p.Prog) {
		top := f
		for top.Parent() != nil {
			top = top.Parent()
		}
		if top.Pkg == p && len(f.Blocks) > 0 {
			out = append(out, f)
		}
	}
	sort.Slice(out, func(i, j int) bool { return out[i].String() < out[j].String() })
	pkgFuncsMemo[p] = out
	return out
}

// resultType: the single result type of a function (nil otherwise).
func resultType(f *ssa.Function) types.Type {
	if f == nil || f.Signature.Results().Len() != 1 {
		return types.Typ[types.Invalid]
	}
	return f.Signature.Results().At(0).Type()
}
