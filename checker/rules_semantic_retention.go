package main

// Retention evaluation (P13): the rolling appender is started and written to across an interval boundary under a
// scripted clock and file system; the function its rotation launches with `go` is captured (closure and bindings) and
// then evaluated over scripted directory populations. The set of os.Remove calls must equal the reference set computed
// from the statement: regular files named '<name>.' + a 14-digit timestamp whose modification time is older than the
// maximum age — never directories, younger files, the current file or prefix-sharing foreign files.

import (
	"fmt"
	"go/types"
	"path/filepath"
	"sort"
	"strings"
	"time"

	"golang.org/x/tools/go/ssa"
)

type retEntry struct {
	name  string
	dir   bool
	mtime time.Time
}

func (c *Ctx) checkRetentionSemantics(r *Report, ro *Roles, rule string) bool {
	if c.retMemo != nil {
		return *c.retMemo
	}
	okAll := false
	defer func() { c.retMemo = &okAll }()
	layI := c.logType("Layout")
	var T *types.Named
	for _, cand := range ro.LeafAppenders {
		st, ok := cand.Underlying().(*types.Struct)
		if !ok {
			continue
		}
		for i := 0; i < st.NumFields(); i++ {
			if isNamed(st.Field(i).Type(), "time", "Duration") || st.Field(i).Name() == "MaxAge" {
				T = cand
			}
		}
	}
	key := rule + ":retention"
	if T == nil {
		r.Inconclusive(key, "no rotating file appender found")
		return false
	}
	key = rule + ":" + T.Obj().Name()
	var bad []string
	nBad, nRuns, nEntries := 0, 0, 0
	fail := func(format string, args ...any) {
		nBad++
		if len(bad) < 5 {
			bad = append(bad, fmt.Sprintf(format, args...))
		}
	}
	for _, maxAge := range []int64{1, 24, 168, 720, 999999, 2562047, 2562048, 3000000, 2147483647} {
		for _, fileName := range []string{"app.log", "a", "app[12].log"} {
			w, _, why := c.newFsWorld(ro)
			if w == nil {
				r.Inconclusive(key, "%s", why)
				return false
			}
			ip := w.ip
			av := ip.zeroOf(T).(*StructV)
			fillStruct(ip, av, T, func(parent *types.Struct, f *types.Var) (AV, bool) {
				switch {
				case layI != nil && types.Identical(f.Type(), layI):
					return &IfaceV{T: types.NewPointer(T), V: &Sym{Name: "layout"}}, true
				case f.Name() == "FileDir":
					return kStr("/logs"), true
				case f.Name() == "FileName":
					return kStr(fileName), true
				case f.Name() == "Name":
					return kStr("theappender"), true
				case isNamed(f.Type(), "time", "Duration"):
					return kInt(int64(10 * time.Minute)), true
				case f.Name() == "MaxAge":
					return kInt(maxAge), true
				}
				return nil, false
			})
			recv := &Ptr{O: ip.newObj(av)}
			type launched struct {
				fv   AV
				args []AV
			}
			var gos []launched
			ip.OnGoValue = func(ip *Interp, fv AV, args []AV) { gos = append(gos, launched{fv, args}) }
			call := func(m string, args ...AV) error {
				fn, path := c.methodWithPath(T, m)
				if fn == nil {
					return oodError{"method " + m + " not found"}
				}
				w.reads = 0
				_, err := ip.Run(fn, append([]AV{&Ptr{O: recv.O, Path: path}}, args...), nil)
				return err
			}
			t0 := time.Date(2025, 3, 29, 14, 7, 33, 0, time.UTC) // a day of month above 12: a month/day mix-up in a layout shows
			b1 := t0.Truncate(10 * time.Minute).Add(10 * time.Minute)
			w.now = t0
			if err := call("Start"); err != nil {
				r.Inconclusive(key, "Start: %v", err)
				return false
			}
			w.now = b1.Add(2 * time.Second)
			if err := call("Write", ip.bytesAV([]byte("x\n"))); err != nil {
				r.Inconclusive(key, "Write across a boundary: %v", err)
				return false
			}
			if len(gos) == 0 {
				r.Inconclusive(key, "the write across an interval boundary launches nothing with go (retention is decided by C14.async)")
				return false
			}
			// the names this appender has produced so far: the file of the starting interval (rotated away now) and the
			// file being written
			var produced []string
			for h, p := range w.paths {
				if filepath.Dir(p) == "/logs" {
					_ = h
					produced = append(produced, filepath.Base(p))
				}
			}
			sort.Strings(produced)
			current := fileName + "." + w.now.Format("20060102150405")
			// the file being written is the one opened last
			last := -1
			for h, p := range w.paths {
				var n int
				if _, err := fmt.Sscanf(h, "fd%d", &n); err == nil && w.open[h] && filepath.Dir(p) == "/logs" && n > last {
					last, current = n, filepath.Base(p)
				}
			}
			// the directory: own rotated files on both sides of the cut-off, the current file, directories with own names,
			// prefix-sharing foreign files, suffix shapes next to the 14-digit timestamp, unrelated files
			now := w.now
			// above 2562047 h the age does not fit a time.Duration: nothing can be that old, nothing may be removed
			// (the population is then laid out around a cut-off of 1000 h)
			unbounded := maxAge > 2562047
			cut := now.Add(-time.Duration(maxAge) * time.Hour)
			if unbounded {
				cut = now.Add(-1000 * time.Hour)
			}
			old, young := cut.Add(-90*time.Minute), cut.Add(90*time.Minute)
			ts := func(t time.Time) string { return t.Format("20060102150405") }
			var entries []retEntry
			add := func(name string, dir bool, mt time.Time) { entries = append(entries, retEntry{name, dir, mt}) }
			add(fileName+"."+ts(old), false, old)                                           // own, expired
			add(fileName+"."+ts(old.Add(-1000*time.Hour)), false, old.Add(-1000*time.Hour)) // own, long expired
			add(fileName+"."+ts(cut.Add(-2*time.Minute)), false, cut.Add(-2*time.Minute))   // own, just expired
			add(fileName+"."+ts(cut.Add(2*time.Minute)), false, cut.Add(2*time.Minute))     // own, just young enough
			add(fileName+"."+ts(young), false, young)                                       // own, young
			add(fileName+"."+ts(old.Add(-3*time.Hour)), false, young)                       // own, old name but recently modified: kept (age is by modification time)
			add(fileName+"."+ts(now.Add(-time.Minute)), false, old)                         // own, recent name but old modification time: expired
			add(current, false, now)                                                        // the file being written
			ownProduced := map[string]bool{}
			for _, n := range produced {
				if n != current {
					ownProduced[n] = true
					add(n, false, old) // a file this very appender produced earlier in the evaluation, expired by now
				}
			}
			add(fileName+"."+ts(old.Add(-time.Hour)), true, old) // a directory with an own name
			add(fileName, false, old)                            // the bare name
			add(fileName+".", false, old)                        // the bare prefix
			for _, foreign := range []string{"wf." + ts(old), "audit." + ts(old), "bak", "1.gz", ts(old) + ".gz", ts(old) + ".5", ts(old) + ",123", ts(old) + ".999999999", ts(old)[:13], ts(old) + "0", ts(old)[:8], "2025030914073x", "20251332146199", " " + ts(old)[1:], "+" + ts(old)[1:], ts(old) + "Z"} {
				add(fileName+"."+foreign, false, old)
			}
			for _, sep := range []string{"-", "_", "@", ":", " ", "..", ""} {
				add(fileName+sep+ts(old), false, old) // another separator in front of a well-formed timestamp
			}
			if strings.ContainsAny(fileName, "[]?*") {
				// names a pattern reading of the file name would match
				for _, n := range []string{"app1.log", "app2.log", "app.log"} {
					add(n+"."+ts(old), false, old)
				}
			}
			add("x"+fileName+"."+ts(old), false, old)
			add(strings.ToUpper(fileName)+"."+ts(old), false, old)
			add(fileName+"x."+ts(old), false, old)
			add("other.log."+ts(old), false, old)
			add("unrelated.txt", false, old)
			add("subdir", true, old)
			add(ts(old), false, old)
			// sorted as os.ReadDir does; a second population is the reverse (an unsorted listing)
			sort.Slice(entries, func(i, j int) bool { return entries[i].name < entries[j].name })
			want := map[string]bool{}
			for _, e := range entries {
				if unbounded {
					break
				}
				if ownProduced[e.name] && e.mtime.Before(cut) {
					want[e.name] = true // whatever its shape: the appender made it
					continue
				}
				suffix, ok := strings.CutPrefix(e.name, fileName+".")
				if !ok || e.dir || len(suffix) != 14 || e.name == current {
					continue
				}
				digits := true
				for i := 0; i < len(suffix); i++ {
					digits = digits && suffix[i] >= '0' && suffix[i] <= '9'
				}
				if !digits {
					continue
				}
				if _, err := time.Parse("20060102150405", suffix); err != nil {
					continue
				}
				if e.mtime.Before(cut) {
					want[e.name] = true
				}
			}
			for pass, reversed := range []bool{false, true, false} {
				list := append([]retEntry{}, entries...)
				if pass == 2 {
					// later, in the same appender: the files that survived have all been modified half a maximum age ago (a straggling
					// writer, a restore, touch); nothing may be removed although their earlier modification times are old now
					if maxAge > 100000 {
						continue // the clock cannot be advanced by more than a century in this model
					}
					w.now = w.now.Add(time.Duration(maxAge)*time.Hour + 3*time.Hour)
					now = w.now
					cut = now.Add(-time.Duration(maxAge) * time.Hour)
					list = nil
					for _, e := range entries {
						if !want[e.name] {
							e.mtime = now.Add(-time.Duration(maxAge) * time.Hour / 2)
							list = append(list, e)
						}
					}
					want = map[string]bool{}
				}
				if reversed {
					for i, j := 0, len(list)-1; i < j; i, j = i+1, j-1 {
						list[i], list[j] = list[j], list[i]
					}
				}
				byName := map[string]retEntry{}
				for _, e := range list {
					byName[e.name] = e
				}
				var removed []string
				var oddities []string
				w.events = nil
				prevOS, prevInvoke := ip.OnOS, ip.OnInvoke
				info := func(e retEntry) AV {
					return &IfaceV{T: types.Universe.Lookup("error").Type(), V: &Sym{Name: "finfo:" + e.name}}
				}
				dirEntries := func(dir string) AV {
					if filepath.Clean(dir) != "/logs" {
						oddities = append(oddities, "lists "+dir+" instead of the configured directory /logs")
					}
					var es []AV
					for _, e := range list {
						es = append(es, &IfaceV{T: types.Universe.Lookup("error").Type(), V: &Sym{Name: "dirent:" + e.name}})
					}
					return ip.mkSlice(es)
				}
				entryOf := func(p string) (retEntry, bool) {
					p = filepath.Clean(p)
					if filepath.Dir(p) != "/logs" {
						return retEntry{}, false
					}
					e, ok := byName[filepath.Base(p)]
					return e, ok
				}
				dirPos := 0
				ip.OnOS = func(ip *Interp, name string, args []AV) (AV, bool) {
					switch name {
					case "os.ReadDir":
						return TupleV{dirEntries(avStr(args[0])), NilV{}}, true
					case "os.Open":
						if filepath.Clean(avStr(args[0])) == "/logs" {
							dirPos = 0
							return TupleV{&Sym{Name: "dirhandle"}, NilV{}}, true
						}
					case "(*os.File).ReadDir", "(*os.File).Readdirnames":
						// the handle remembers how far it has read: n ≤ 0 returns the rest, n > 0 at most n entries and
						// io.EOF once nothing is left
						if s, ok := args[0].(*Sym); ok && s.Name == "dirhandle" {
							n := int(avInt(args[1]))
							rest := list[min(dirPos, len(list)):]
							if n > 0 && len(rest) == 0 {
								return TupleV{NilV{}, ip.errValKind("*errors.errorString", "EOF")}, true
							}
							if n > 0 && len(rest) > n {
								rest = rest[:n]
							}
							dirPos += len(rest)
							if name == "(*os.File).Readdirnames" {
								var ns []string
								for _, e := range rest {
									ns = append(ns, e.name)
								}
								return TupleV{strSlice(ip, ns), NilV{}}, true
							}
							var es []AV
							for _, e := range rest {
								es = append(es, &IfaceV{T: types.Universe.Lookup("error").Type(), V: &Sym{Name: "dirent:" + e.name}})
							}
							if len(es) == 0 {
								return TupleV{NilV{}, NilV{}}, true
							}
							return TupleV{ip.mkSlice(es), NilV{}}, true
						}
					case "(*os.File).Close":
						if s, ok := args[0].(*Sym); ok && s.Name == "dirhandle" {
							return NilV{}, true
						}
					case "os.Stat", "os.Lstat":
						if e, ok := entryOf(avStr(args[0])); ok {
							return TupleV{info(e), NilV{}}, true
						}
						return TupleV{NilV{}, ip.errVal("no such file or directory")}, true
					case "path/filepath.Glob":
						var ns []string
						for _, e := range list {
							if ok, _ := filepath.Match(avStr(args[0]), "/logs/"+e.name); ok {
								ns = append(ns, "/logs/"+e.name)
							}
						}
						return TupleV{strSlice(ip, ns), NilV{}}, true
					case "os.Remove", "os.RemoveAll":
						p := avStr(args[0])
						if e, ok := entryOf(p); ok {
							removed = append(removed, e.name)
						} else {
							oddities = append(oddities, "removes "+p+", which is no entry of the configured directory")
						}
						return NilV{}, true
					}
					return prevOS(ip, name, args)
				}
				ip.OnInvoke = func(ip *Interp, recv *Sym, method string, args []AV) (AV, bool) {
					kind, name, _ := strings.Cut(recv.Name, ":")
					if kind == "dirent" || kind == "finfo" {
						e := byName[name]
						mode := int64(0o644)
						if e.dir {
							mode |= 1 << 31
						}
						switch method {
						case "Name":
							return kStr(e.name), true
						case "IsDir":
							return kBool(e.dir), true
						case "Type":
							return kInt(mode &^ 0o777), true
						case "Mode":
							return kInt(mode), true
						case "Info":
							return TupleV{info(e), NilV{}}, true
						case "ModTime":
							return &TimeV{T: e.mtime}, true
						case "Size":
							return kInt(10), true
						}
					}
					return prevInvoke(ip, recv, method, args)
				}
				var runErr error
				for _, g := range gos {
					w.reads = 0
					func() {
						defer func() {
							if x := recover(); x != nil {
								switch e := x.(type) {
								case oodError:
									runErr = e
								case panicError:
									runErr = e
								default:
									panic(x)
								}
							}
						}()
						ip.Steps = 0
						ip.apply(nil, g.fv, g.args)
					}()
				}
				ip.OnOS, ip.OnInvoke = prevOS, prevInvoke
				nRuns++
				nEntries += len(list)
				if runErr != nil {
					if _, isOOD := runErr.(oodError); isOOD {
						r.Inconclusive(key, "%v", runErr)
						return false
					}
					fail("the cleanup %v (max age %d h)", runErr, maxAge)
					continue
				}
				got := map[string]int{}
				for _, n := range removed {
					got[n]++
				}
				order := "sorted"
				if reversed {
					order = "reverse-sorted"
				}
				if pass == 2 {
					order = "second cleanup after the surviving files were modified, sorted"
				}
				for _, e := range list {
					switch {
					case want[e.name] && got[e.name] == 0:
						fail("max age %d h, name %q, %s listing: the expired own file %q (modified %s before the cut-off) is not removed", maxAge, fileName, order, e.name, cut.Sub(e.mtime).Round(time.Minute))
					case !want[e.name] && got[e.name] > 0:
						what := "a file this appender could not have produced"
						suffix, _ := strings.CutPrefix(e.name, fileName+".")
						switch {
						case e.dir:
							what = "a directory"
						case e.name == current:
							what = "the file being written"
						case len(suffix) == 14 && !e.mtime.Before(cut):
							what = fmt.Sprintf("an own file modified %s after the cut-off", e.mtime.Sub(cut).Round(time.Minute))
						}
						fail("max age %d h, name %q, %s listing: %q is removed — %s", maxAge, fileName, order, e.name, what)
					}
				}
				for _, o := range oddities {
					fail("max age %d h: the cleanup %s", maxAge, o)
				}
			}
		}
	}
	r.Count("retention_evaluations", nRuns)
	if len(bad) > 0 {
		r.Fail(key, c.pos(T.Obj().Pos()), "%d deviations in %d evaluated directory populations, e.g. %s", nBad, nRuns, strings.Join(bad, "; "))
		return false
	}
	okAll = true
	r.OK(key, "the function launched by a rotation evaluated over %d directory populations (%d entries; max ages 1, 24, 168, 720, 999999, 2562047 h and three ages whose duration overflows; three file names, one containing pattern characters; sorted and unsorted listings): removed are exactly the regular files '<name>.<14-digit timestamp>' modified before the cut-off — not younger files (age by modification time, not by name), the file being written, directories, the bare name, name.wf.<ts>, name.audit.<ts>, name.bak, name.1.gz, timestamps with 13/15 digits, fractional seconds, signs, spaces or impossible dates, other prefixes or cases; removal paths are entries of the configured directory", nRuns, nEntries)
	return true
}

var _ = (*ssa.Function)(nil)
