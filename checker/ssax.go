package main

// ssax.go: analysis primitives over go/ssa shared by the rules.
//   - call resolution inside the closed module (P2/P6 substrate)
//   - reachability
//   - edge-sensitive dominating guards, post-dominance (P1)
//   - access paths relative to a call-string frame (P2)
//   - a constant evaluator over partial environments (P7/P8/P11 substrate)

import (
	"fmt"
	"go/constant"
	"go/token"
	"go/types"
	"sort"
	"strings"

	"golang.org/x/tools/go/ssa"
)

// ---------------------------------------------------------------------------
// call resolution

// moduleIface reports whether t is an interface type declared in the module.
func (c *Ctx) moduleIface(t types.Type) bool {
	n, ok := t.(*types.Named)
	if !ok {
		if a, ok2 := t.(*types.Alias); ok2 {
			return c.moduleIface(types.Unalias(a))
		}
		return false
	}
	if _, ok := n.Underlying().(*types.Interface); !ok {
		return false
	}
	p := n.Obj().Pkg()
	return p != nil && (p.Path() == logPath || p.Path() == exprPath)
}

// calleeInfo is the resolution of one call site.
type calleeInfo struct {
	Fns      []*ssa.Function // resolved targets (in-module for dynamic calls; any for static calls)
	Dynamic  bool            // call through interface or function value
	External bool            // dynamic call that leaves the module (io.Writer, hooks, error, ...)
	What     string          // description of the dynamic target when external/unresolved
}

func (c *Ctx) resolveCall(call ssa.CallInstruction) calleeInfo {
	com := call.Common()
	if f := com.StaticCallee(); f != nil {
		return calleeInfo{Fns: []*ssa.Function{f}}
	}
	if com.IsInvoke() {
		recvT := com.Value.Type()
		if c.moduleIface(recvT) {
			iface := recvT.Underlying().(*types.Interface)
			var fns []*ssa.Function
			loggerI := c.logIface("Logger")
			isLogger := loggerI != nil && types.Implements(recvT, loggerI)
			for _, nt := range c.implementers(iface) {
				// closed world of the configuration: a slot typed Appender holds a registered appender
				// plugin, never a logger (loggers also satisfy Appender structurally)
				if !isLogger && loggerI != nil && iface.NumMethods() < loggerI.NumMethods() && types.Implements(types.NewPointer(nt), loggerI) && types.Identical(iface, c.logIface("Appender")) {
					continue
				}
				if m := c.method(nt, com.Method.Name()); m != nil {
					fns = append(fns, m)
				}
			}
			return calleeInfo{Fns: fns, Dynamic: true}
		}
		return calleeInfo{Dynamic: true, External: true, What: fmt.Sprintf("%s.%s", types.TypeString(recvT, shortQual), com.Method.Name())}
	}
	if _, ok := com.Value.(*ssa.Builtin); ok {
		return calleeInfo{}
	}
	// function value
	fns, ext := c.resolveFuncValue(com.Value, 0)
	return calleeInfo{Fns: fns, Dynamic: true, External: ext != "", What: ext}
}

func shortQual(p *types.Package) string {
	if p.Path() == logPath {
		return ""
	}
	return p.Name()
}

// resolveFuncValue finds the functions a function-typed value may denote,
// following closures, parameters (bound at in-module call sites) and
// captured cells. ext is non-empty when some source is outside what can be
// resolved (package-level hook variables, struct fields, interface results).
func (c *Ctx) resolveFuncValue(v ssa.Value, depth int) (fns []*ssa.Function, ext string) {
	if depth > 6 {
		return nil, "depth"
	}
	switch x := v.(type) {
	case *ssa.Function:
		return []*ssa.Function{x}, ""
	case *ssa.MakeClosure:
		return []*ssa.Function{x.Fn.(*ssa.Function)}, ""
	case *ssa.ChangeType:
		return c.resolveFuncValue(x.X, depth+1)
	case *ssa.Phi:
		for _, e := range x.Edges {
			f, e2 := c.resolveFuncValue(e, depth+1)
			fns = append(fns, f...)
			if e2 != "" {
				ext = e2
			}
		}
		return
	case *ssa.Parameter:
		fn := x.Parent()
		idx := -1
		for i, p := range fn.Params {
			if p == x {
				idx = i
			}
		}
		sites := c.callSitesOf(fn)
		if len(sites) == 0 {
			return nil, "param:" + x.Name()
		}
		for _, s := range sites {
			args := s.Common().Args
			if idx < len(args) {
				f, e2 := c.resolveFuncValue(args[idx], depth+1)
				fns = append(fns, f...)
				if e2 != "" {
					ext = e2
				}
			}
		}
		return
	case *ssa.UnOp:
		if x.Op == token.MUL {
			switch a := x.X.(type) {
			case *ssa.Global:
				return nil, "global:" + a.Name()
			case *ssa.FreeVar:
				// captured cell: find the stores into the cell in the enclosing function
				return c.resolveCell(a, depth+1)
			case *ssa.Alloc:
				return c.resolveAlloc(a, depth+1)
			case *ssa.FieldAddr:
				return nil, "field:" + fieldName(a)
			}
		}
	case *ssa.FreeVar:
		return c.resolveCell(x, depth+1)
	}
	return nil, fmt.Sprintf("%T", v)
}

func (c *Ctx) resolveCell(fv *ssa.FreeVar, depth int) ([]*ssa.Function, string) {
	fn := fv.Parent()
	idx := -1
	for i, f := range fn.FreeVars {
		if f == fv {
			idx = i
		}
	}
	parent := fn.Parent()
	if parent == nil || idx < 0 {
		return nil, "freevar"
	}
	var fns []*ssa.Function
	ext := ""
	found := false
	for _, b := range parent.Blocks {
		for _, in := range b.Instrs {
			mc, ok := in.(*ssa.MakeClosure)
			if !ok || mc.Fn != fn {
				continue
			}
			found = true
			bind := mc.Bindings[idx]
			if a, ok := bind.(*ssa.Alloc); ok {
				f, e := c.resolveAlloc(a, depth+1)
				fns = append(fns, f...)
				if e != "" {
					ext = e
				}
			} else if pfv, ok := bind.(*ssa.FreeVar); ok {
				f, e := c.resolveCell(pfv, depth+1)
				fns = append(fns, f...)
				if e != "" {
					ext = e
				}
			} else {
				f, e := c.resolveFuncValue(bind, depth+1)
				fns = append(fns, f...)
				if e != "" {
					ext = e
				}
			}
		}
	}
	if !found {
		return nil, "freevar-unbound"
	}
	return fns, ext
}

func (c *Ctx) resolveAlloc(a *ssa.Alloc, depth int) ([]*ssa.Function, string) {
	var fns []*ssa.Function
	ext := ""
	for _, st := range storesTo(a) {
		if isZeroConst(st.Val) {
			continue
		}
		f, e := c.resolveFuncValue(st.Val, depth+1)
		fns = append(fns, f...)
		if e != "" {
			ext = e
		}
	}
	return fns, ext
}

func isZeroConst(v ssa.Value) bool {
	k, ok := v.(*ssa.Const)
	return ok && k.Value == nil
}

// storesTo returns all stores whose address is exactly a (in a's function and its closures).
func storesTo(a ssa.Value) []*ssa.Store {
	var out []*ssa.Store
	refs := a.Referrers()
	if refs == nil {
		return nil
	}
	for _, r := range *refs {
		if st, ok := r.(*ssa.Store); ok && st.Addr == a {
			out = append(out, st)
		}
		// the cell may be captured by closures which store through their FreeVar
		if mc, ok := r.(*ssa.MakeClosure); ok {
			fn := mc.Fn.(*ssa.Function)
			for i, b := range mc.Bindings {
				if b == a {
					out = append(out, storesTo(fn.FreeVars[i])...)
				}
			}
		}
	}
	return out
}

// callSitesOf returns all in-module static call sites (incl. go/defer) of fn.
func (c *Ctx) callSitesOf(fn *ssa.Function) []ssa.CallInstruction {
	var out []ssa.CallInstruction
	for _, f := range c.Funcs {
		for _, b := range f.Blocks {
			for _, in := range b.Instrs {
				if ci, ok := in.(ssa.CallInstruction); ok {
					if ci.Common().StaticCallee() == fn {
						out = append(out, ci)
					}
				}
			}
		}
	}
	return out
}

// moduleCallees returns the in-module functions fn may call (static, closure
// creation counts as a potential call, resolved dynamic calls).
func (c *Ctx) moduleCallees(fn *ssa.Function) []*ssa.Function {
	if r, ok := c.cgCache[fn]; ok {
		return r
	}
	seen := map[*ssa.Function]bool{}
	var out []*ssa.Function
	add := func(f *ssa.Function) {
		if f != nil && !seen[f] && c.inModule(f) {
			seen[f] = true
			out = append(out, f)
		}
	}
	for _, b := range fn.Blocks {
		for _, in := range b.Instrs {
			switch x := in.(type) {
			case ssa.CallInstruction:
				for _, f := range c.resolveCall(x).Fns {
					add(f)
				}
				// function values passed as arguments (sort.Slice(less), SplitSeq yield, ...)
				for _, a := range x.Common().Args {
					if mc, ok := a.(*ssa.MakeClosure); ok {
						add(mc.Fn.(*ssa.Function))
					}
					if f, ok := a.(*ssa.Function); ok {
						add(f)
					}
				}
			case *ssa.MakeClosure:
				add(x.Fn.(*ssa.Function))
			}
		}
	}
	c.cgCache[fn] = out
	return out
}

// reach computes the in-module functions reachable from roots.
func (c *Ctx) reach(roots ...*ssa.Function) map[*ssa.Function]bool {
	seen := map[*ssa.Function]bool{}
	var work []*ssa.Function
	for _, r := range roots {
		if r != nil && !seen[r] {
			seen[r] = true
			work = append(work, r)
		}
	}
	for len(work) > 0 {
		f := work[len(work)-1]
		work = work[:len(work)-1]
		for _, g := range c.moduleCallees(f) {
			if !seen[g] {
				seen[g] = true
				work = append(work, g)
			}
		}
	}
	return seen
}

func sortedFuncs(m map[*ssa.Function]bool) []*ssa.Function {
	var out []*ssa.Function
	for f := range m {
		out = append(out, f)
	}
	sort.Slice(out, func(i, j int) bool { return fname(out[i]) < fname(out[j]) })
	return out
}

// eachInstr visits every instruction of fn.
func eachInstr(fn *ssa.Function, f func(ssa.Instruction)) {
	for _, b := range fn.Blocks {
		for _, in := range b.Instrs {
			f(in)
		}
	}
}

// calleeIs reports whether the call statically targets pkgPath.name (function)
// or a method "(*T).name"/"T.name" when recv is given.
func calleeIs(call ssa.CallInstruction, pkgPath, recv, name string) bool {
	f := call.Common().StaticCallee()
	if f == nil {
		return false
	}
	return funcIs(f, pkgPath, recv, name)
}

func funcIs(f *ssa.Function, pkgPath, recv, name string) bool {
	if f == nil {
		return false
	}
	if o := f.Origin(); o != nil {
		f = o
	}
	obj, ok := f.Object().(*types.Func)
	if !ok || obj.Name() != name {
		return false
	}
	if obj.Pkg() == nil || obj.Pkg().Path() != pkgPath {
		return false
	}
	sig := obj.Type().(*types.Signature)
	if recv == "" {
		return sig.Recv() == nil
	}
	if sig.Recv() == nil {
		return false
	}
	t := sig.Recv().Type()
	if p, ok := t.(*types.Pointer); ok {
		t = p.Elem()
	}
	if n, ok := t.(*types.Named); ok {
		return n.Obj().Name() == recv
	}
	return false
}

func fieldName(fa *ssa.FieldAddr) string {
	t := fa.X.Type().Underlying().(*types.Pointer).Elem().Underlying().(*types.Struct)
	return t.Field(fa.Field).Name()
}

func fieldNameV(f *ssa.Field) string {
	t := f.X.Type().Underlying().(*types.Struct)
	return t.Field(f.Field).Name()
}

// ---------------------------------------------------------------------------
// guards (edge-sensitive dominance)

type Guard struct {
	Cond     ssa.Value
	Polarity bool
	If       *ssa.If
	Fr       *Frame // set when the guard was taken out of a predicate helper (expandGuards): evaluate Cond in this frame
}

// expandGuards replaces a guard of the form `helper(args…)` (an in-module function with a single bool result, taken on
// its true edge) by the guards under which that helper returns true, bound to the call site: a predicate extracted
// into a function guards exactly like its body did. Helpers with several non-false returns are left as they are.
func (c *Ctx) expandGuards(gs []Guard, fr *Frame, depth int) []Guard {
	var out []Guard
	for _, g := range gs {
		call, ok := g.Cond.(*ssa.Call)
		ri := 0 // which result of the helper is the predicate
		if !ok {
			// `v, ok := helper(args…)`: the predicate is one component of the result tuple
			if ex, isEx := g.Cond.(*ssa.Extract); isEx {
				if cl, isCall := ex.Tuple.(*ssa.Call); isCall {
					call, ok, ri = cl, true, ex.Index
				}
			}
		}
		if !ok || !g.Polarity || depth > 2 {
			out = append(out, g)
			continue
		}
		h := call.Common().StaticCallee()
		if h == nil || call.Common().IsInvoke() || !c.inModule(h) || len(h.Blocks) == 0 || h.Signature.Results().Len() <= ri {
			out = append(out, g)
			continue
		}
		if _, isEx := g.Cond.(*ssa.Extract); !isEx && h.Signature.Results().Len() != 1 {
			out = append(out, g)
			continue
		}
		if b, isB := h.Signature.Results().At(ri).Type().Underlying().(*types.Basic); !isB || b.Kind() != types.Bool {
			out = append(out, g)
			continue
		}
		var yes []*ssa.Return
		eachInstr(h, func(in ssa.Instruction) {
			if ret, ok := in.(*ssa.Return); ok && len(ret.Results) > ri {
				if k, isK := ret.Results[ri].(*ssa.Const); isK && k.Value != nil && !constant.BoolVal(k.Value) {
					return
				}
				yes = append(yes, ret)
			}
		})
		if len(yes) != 1 {
			out = append(out, g)
			continue
		}
		base := fr
		if g.Fr != nil {
			base = g.Fr
		}
		d := 1
		if base != nil {
			d = base.Depth + 1
		}
		hfr := &Frame{Fn: h, Site: call, Parent: base, Depth: d}
		inner := guardsOfInstr(yes[0])
		if phi, isPhi := yes[0].Results[ri].(*ssa.Phi); isPhi {
			// `return a && b`: the result is a φ of false and b; the only way to true is the edge that carries b
			var edge ssa.Value
			var from *ssa.BasicBlock
			n := 0
			for i, e := range phi.Edges {
				if k, isK := e.(*ssa.Const); isK && k.Value != nil && !constant.BoolVal(k.Value) {
					continue
				}
				n++
				edge, from = e, phi.Block().Preds[i]
			}
			if n == 1 {
				inner = append(inner, guardsOf(from)...)
				if _, isK := edge.(*ssa.Const); !isK {
					inner = append(inner, Guard{Cond: edge, Polarity: true})
				}
			} else {
				inner = append(inner, Guard{Cond: yes[0].Results[ri], Polarity: true})
			}
		} else if _, isK := yes[0].Results[ri].(*ssa.Const); !isK {
			inner = append(inner, Guard{Cond: yes[0].Results[ri], Polarity: true})
		}
		for i := range inner {
			inner[i].Fr = hfr
		}
		out = append(out, g) // the call itself stays visible
		out = append(out, c.expandGuards(inner, hfr, depth+1)...)
	}
	return out
}

// edgeDominates reports whether taking edge from->to is necessary to reach b.
func edgeDominates(from, to, b *ssa.BasicBlock) bool {
	if !(to == b || to.Dominates(b)) {
		return false
	}
	// every other predecessor of `to` must itself be dominated by `to` (back edges)
	for _, p := range to.Preds {
		if p == from {
			continue
		}
		if !(to == p || to.Dominates(p)) {
			return false
		}
	}
	// from must not reach `to` through both successors
	if len(from.Succs) == 2 && from.Succs[0] == from.Succs[1] {
		return false
	}
	return true
}

// guardsOf returns the branch conditions that must hold (with polarity) for
// block b to execute, outermost first. `!x` is normalised into polarity.
func guardsOf(b *ssa.BasicBlock) []Guard {
	var out []Guard
	for d := b.Idom(); d != nil; d = d.Idom() {
		iff, ok := d.Instrs[len(d.Instrs)-1].(*ssa.If)
		if !ok {
			continue
		}
		for k := 0; k < 2; k++ {
			if edgeDominates(d, d.Succs[k], b) {
				g := Guard{Cond: iff.Cond, Polarity: k == 0, If: iff}
				for {
					u, ok := g.Cond.(*ssa.UnOp)
					if !ok || u.Op != token.NOT {
						break
					}
					g.Cond = u.X
					g.Polarity = !g.Polarity
				}
				out = append(out, g)
			}
		}
	}
	// reverse: outermost first
	for i, j := 0, len(out)-1; i < j; i, j = i+1, j-1 {
		out[i], out[j] = out[j], out[i]
	}
	return out
}

// guardsOfInstr is guardsOf for the instruction's block.
func guardsOfInstr(in ssa.Instruction) []Guard { return guardsOf(in.Block()) }

// postDominators computes, for every block, the set of blocks that post-dominate it.
// Blocks ending in Return or Panic are exits.
func postDominators(fn *ssa.Function) map[*ssa.BasicBlock]map[*ssa.BasicBlock]bool {
	n := len(fn.Blocks)
	all := map[*ssa.BasicBlock]bool{}
	for _, b := range fn.Blocks {
		all[b] = true
	}
	pd := map[*ssa.BasicBlock]map[*ssa.BasicBlock]bool{}
	for _, b := range fn.Blocks {
		if len(b.Succs) == 0 {
			pd[b] = map[*ssa.BasicBlock]bool{b: true}
		} else {
			m := map[*ssa.BasicBlock]bool{}
			for k := range all {
				m[k] = true
			}
			pd[b] = m
		}
	}
	changed := true
	for iter := 0; changed && iter < n*n+10; iter++ {
		changed = false
		for i := n - 1; i >= 0; i-- {
			b := fn.Blocks[i]
			if len(b.Succs) == 0 {
				continue
			}
			var inter map[*ssa.BasicBlock]bool
			for _, s := range b.Succs {
				if inter == nil {
					inter = map[*ssa.BasicBlock]bool{}
					for k := range pd[s] {
						inter[k] = true
					}
				} else {
					for k := range inter {
						if !pd[s][k] {
							delete(inter, k)
						}
					}
				}
			}
			inter[b] = true
			if len(inter) != len(pd[b]) {
				pd[b] = inter
				changed = true
			}
		}
	}
	return pd
}

// instrIndex returns the index of in within its block.
func instrIndex(in ssa.Instruction) int {
	for i, x := range in.Block().Instrs {
		if x == in {
			return i
		}
	}
	return -1
}

// instrDominates: a executes before b on every path reaching b.
func instrDominates(a, b ssa.Instruction) bool {
	if a.Block() == b.Block() {
		return instrIndex(a) < instrIndex(b)
	}
	return a.Block().Dominates(b.Block())
}

// ---------------------------------------------------------------------------
// access paths

// Frame is one element of a call string during inlining.
type Frame struct {
	Fn     *ssa.Function
	Site   ssa.CallInstruction // call site in Parent.Fn that entered Fn (nil for the root)
	Parent *Frame
	Depth  int
}

func (f *Frame) chain() string {
	if f == nil {
		return ""
	}
	if f.Parent == nil {
		return fname(f.Fn)
	}
	return f.Parent.chain() + "→" + fname(f.Fn)
}

// chainKey identifies the call string including the call sites (for memoisation).
func (f *Frame) chainKey() string {
	if f == nil {
		return ""
	}
	if f.Parent == nil {
		return fname(f.Fn)
	}
	return fmt.Sprintf("%s@%p→%s", f.Parent.chainKey(), f.Site, fname(f.Fn))
}

// actualArg maps parameter index i of fr.Fn to the argument value at the call site.
func (fr *Frame) actualArg(p *ssa.Parameter) (ssa.Value, bool) {
	if fr == nil || fr.Site == nil || fr.Parent == nil {
		return nil, false
	}
	idx := -1
	for i, q := range fr.Fn.Params {
		if q == p {
			idx = i
		}
	}
	if idx < 0 {
		return nil, false
	}
	com := fr.Site.Common()
	if com.IsInvoke() {
		if idx == 0 {
			return com.Value, true
		}
		idx--
	}
	if idx < len(com.Args) {
		return com.Args[idx], true
	}
	return nil, false
}

// accessPath renders v as a path rooted at the root frame's parameters,
// globals or allocation sites. Dereferences are elided.
func (c *Ctx) accessPath(v ssa.Value, fr *Frame) string {
	return c.accessPathD(v, fr, 0)
}

func (c *Ctx) accessPathD(v ssa.Value, fr *Frame, d int) string {
	if d > 24 {
		return "?deep"
	}
	switch x := v.(type) {
	case *ssa.Parameter:
		if a, ok := fr.actualArg(x); ok {
			return c.accessPathD(a, fr.Parent, d+1)
		}
		return "param:" + x.Name()
	case *ssa.FreeVar:
		return "free:" + x.Name()
	case *ssa.Global:
		return "global:" + x.Name()
	case *ssa.FieldAddr:
		return c.accessPathD(x.X, fr, d+1) + "." + fieldName(x)
	case *ssa.Field:
		return c.accessPathD(x.X, fr, d+1) + "." + fieldNameV(x)
	case *ssa.IndexAddr:
		if k, ok := constInt(x.Index); ok {
			return c.accessPathD(x.X, fr, d+1) + fmt.Sprintf("[%d]", k)
		}
		return c.accessPathD(x.X, fr, d+1) + "[]"
	case *ssa.Index:
		if k, ok := constInt(x.Index); ok {
			return c.accessPathD(x.X, fr, d+1) + fmt.Sprintf("[%d]", k)
		}
		return c.accessPathD(x.X, fr, d+1) + "[]"
	case *ssa.Lookup:
		return c.accessPathD(x.X, fr, d+1) + "[" + c.accessPathD(x.Index, fr, d+1) + "]"
	case *ssa.UnOp:
		if x.Op == token.MUL {
			// load from a local spill with a single store: forward
			if a, ok := x.X.(*ssa.Alloc); ok {
				sts := storesTo(a)
				if len(sts) == 1 {
					return c.accessPathD(sts[0].Val, fr, d+1)
				}
				// a composite literal of a small struct: name it by its field values
				if st, ok := a.Type().Underlying().(*types.Pointer).Elem().Underlying().(*types.Struct); ok && len(sts) == 0 && st.NumFields() <= 4 && a.Referrers() != nil {
					vals := map[int]string{}
					lit := true
					for _, rr := range *a.Referrers() {
						switch u := rr.(type) {
						case *ssa.FieldAddr:
							fs := storesTo(u)
							if len(fs) != 1 {
								lit = false
							} else {
								vals[u.Field] = c.accessPathD(fs[0].Val, fr, d+1)
							}
						case *ssa.UnOp, *ssa.DebugRef:
						default:
							lit = false
						}
					}
					if lit && len(vals) > 0 {
						var ss []string
						for i := 0; i < st.NumFields(); i++ {
							if v, ok := vals[i]; ok {
								ss = append(ss, st.Field(i).Name()+"="+v)
							}
						}
						return "lit{" + strings.Join(ss, ",") + "}"
					}
				}
				return "alloc:" + a.Comment
			}
			return c.accessPathD(x.X, fr, d+1)
		}
		return "?" + x.Op.String() + c.accessPathD(x.X, fr, d+1)
	case *ssa.Alloc:
		sts := storesTo(x)
		if len(sts) == 1 {
			if _, isComposite := sts[0].Val.(*ssa.Alloc); !isComposite {
				return "&" + c.accessPathD(sts[0].Val, fr, d+1)
			}
		}
		return "alloc:" + x.Comment
	case *ssa.ChangeType:
		return c.accessPathD(x.X, fr, d+1)
	case *ssa.ChangeInterface:
		return c.accessPathD(x.X, fr, d+1)
	case *ssa.MakeInterface:
		return c.accessPathD(x.X, fr, d+1)
	case *ssa.TypeAssert:
		return c.accessPathD(x.X, fr, d+1)
	case *ssa.Extract:
		if sel, ok := x.Tuple.(*ssa.Select); ok {
			// (index, recvOk, received values of the receive cases in order)
			switch x.Index {
			case 0:
				return "select#index"
			case 1:
				return "select#ok"
			}
			n := 2
			for _, st := range sel.States {
				if st.Dir == types.RecvOnly {
					if n == x.Index {
						return "?<-" + c.accessPathD(st.Chan, fr, d+1)
					}
					n++
				}
			}
		}
		return c.accessPathD(x.Tuple, fr, d+1) + fmt.Sprintf("#%d", x.Index)
	case *ssa.Const:
		if x.Value == nil {
			return "nil"
		}
		return "const:" + x.Value.ExactString()
	case *ssa.Call:
		com := x.Common()
		if com.IsInvoke() {
			return c.accessPathD(com.Value, fr, d+1) + "." + com.Method.Name() + "()"
		}
		if f := com.StaticCallee(); f != nil {
			var as []string
			for _, a := range com.Args {
				as = append(as, c.accessPathD(a, fr, d+1))
			}
			return fname(f) + "(" + strings.Join(as, ",") + ")"
		}
		if b, ok := com.Value.(*ssa.Builtin); ok {
			var as []string
			for _, a := range com.Args {
				as = append(as, c.accessPathD(a, fr, d+1))
			}
			return "builtin:" + b.Name() + "(" + strings.Join(as, ",") + ")"
		}
		return "call?"
	case *ssa.Phi:
		// a phi whose edges all have the same path is that path
		var p string
		for i, e := range x.Edges {
			q := c.accessPathD(e, fr, d+1)
			if i == 0 {
				p = q
			} else if q != p {
				return "phi:" + x.Comment
			}
		}
		return p
	}
	return fmt.Sprintf("?%T", v)
}

// ---------------------------------------------------------------------------
// constant evaluator over partial environments

type envKey struct {
	v    ssa.Value
	idx  int    // -1 for the value itself, else tuple index
	cell string // non-empty: a tracked memory cell named by its access path
}

type Env map[envKey]constant.Value

func (e Env) clone() Env {
	n := make(Env, len(e)+2)
	for k, v := range e {
		n[k] = v
	}
	return n
}

func (e Env) String() string {
	var ss []string
	for k, v := range e {
		if k.cell != "" {
			ss = append(ss, fmt.Sprintf("[%s]=%s", k.cell, v.ExactString()))
			continue
		}
		ss = append(ss, fmt.Sprintf("%p/%d=%s", k.v, k.idx, v.ExactString()))
	}
	sort.Strings(ss)
	return strings.Join(ss, ";")
}

// closedWorldNoImpl is set by the loader: no named type of the module implements the interface.
var closedWorldNoImpl func(it *types.Interface) bool

type Evaluator struct {
	// Assume gives values to leaves (parameters, loads) the rule wants to fix.
	Assume func(v ssa.Value, fr *Frame) (constant.Value, bool)
	// Cell names the tracked memory cell an address denotes (loads read the
	// environment, stores performed by the typestate engine update it).
	Cell func(addr ssa.Value, fr *Frame) (string, bool)
}

func (ev *Evaluator) eval(v ssa.Value, env Env, fr *Frame) (constant.Value, bool) {
	return ev.evalD(v, env, fr, 0)
}

func (ev *Evaluator) evalD(v ssa.Value, env Env, fr *Frame, d int) (constant.Value, bool) {
	if d > 40 {
		return nil, false
	}
	if env != nil {
		if k, ok := env[envKey{v, -1, ""}]; ok {
			return k, true
		}
	}
	if ev != nil && ev.Assume != nil {
		if k, ok := ev.Assume(v, fr); ok {
			return k, true
		}
	}
	switch x := v.(type) {
	case *ssa.Const:
		if x.Value == nil {
			// nil of a pointer/interface/slice/map/chan/func type: the sentinel nilK; zero structs stay unknown
			switch x.Type().Underlying().(type) {
			case *types.Pointer, *types.Interface, *types.Slice, *types.Map, *types.Chan, *types.Signature:
				return nilK, true
			}
			return nil, false
		}
		return x.Value, true
	case *ssa.Parameter:
		if fr != nil {
			if a, ok := fr.actualArg(x); ok {
				return ev.evalD(a, env, fr.Parent, d+1)
			}
		}
		return nil, false
	case *ssa.Extract:
		if env != nil {
			if k, ok := env[envKey{x.Tuple, x.Index, ""}]; ok {
				return k, true
			}
		}
		// `v, ok := x.(I)` for an unexported interface I of the module that no type of the module implements: ok is
		// false (closed world: values of foreign types cannot have the unexported methods' package either)
		if ta, isTA := x.Tuple.(*ssa.TypeAssert); isTA && ta.CommaOk && x.Index == 1 && closedWorldNoImpl != nil {
			if nt, isN := types.Unalias(ta.AssertedType).(*types.Named); isN && !nt.Obj().Exported() {
				if it, isI := nt.Underlying().(*types.Interface); isI && it.NumMethods() > 0 && closedWorldNoImpl(it) {
					return constant.MakeBool(false), true
				}
			}
		}
		return nil, false
	case *ssa.ChangeType:
		return ev.evalD(x.X, env, fr, d+1)
	case *ssa.Convert:
		k, ok := ev.evalD(x.X, env, fr, d+1)
		if !ok {
			return nil, false
		}
		return convertConst(k, x.Type())
	case *ssa.UnOp:
		switch x.Op {
		case token.NOT:
			k, ok := ev.evalD(x.X, env, fr, d+1)
			if !ok || k.Kind() != constant.Bool {
				return nil, false
			}
			return constant.MakeBool(!constant.BoolVal(k)), true
		case token.SUB:
			k, ok := ev.evalD(x.X, env, fr, d+1)
			if !ok || k.Kind() != constant.Int {
				return nil, false
			}
			return convertConst(constant.UnaryOp(token.SUB, k, 0), x.Type())
		case token.MUL:
			if ev != nil && ev.Cell != nil && env != nil {
				if name, ok := ev.Cell(x.X, fr); ok {
					if k, ok := env[envKey{nil, 0, name}]; ok {
						return k, true
					}
					return nil, false
				}
			}
			// load of a local spill with one store
			if a, ok := x.X.(*ssa.Alloc); ok {
				sts := storesTo(a)
				if len(sts) == 1 && instrDominates(sts[0], x) {
					return ev.evalD(sts[0].Val, env, fr, d+1)
				}
			}
		}
		return nil, false
	case *ssa.BinOp:
		a, ok1 := ev.evalD(x.X, env, fr, d+1)
		b, ok2 := ev.evalD(x.Y, env, fr, d+1)
		if !ok1 || !ok2 {
			return nil, false
		}
		return evalBinOp(x.Op, a, b, x.X.Type(), x.Type())
	case *ssa.Lookup:
		s, ok1 := ev.evalD(x.X, env, fr, d+1)
		i, ok2 := ev.evalD(x.Index, env, fr, d+1)
		if !ok1 || !ok2 || s.Kind() != constant.String || i.Kind() != constant.Int {
			return nil, false
		}
		str := constant.StringVal(s)
		idx, exact := constant.Int64Val(i)
		if !exact || idx < 0 || int(idx) >= len(str) {
			return nil, false
		}
		return constant.MakeInt64(int64(str[idx])), true
	case *ssa.Index:
		s, ok1 := ev.evalD(x.X, env, fr, d+1)
		i, ok2 := ev.evalD(x.Index, env, fr, d+1)
		if !ok1 || !ok2 || s.Kind() != constant.String || i.Kind() != constant.Int {
			return nil, false
		}
		str := constant.StringVal(s)
		idx, exact := constant.Int64Val(i)
		if !exact || idx < 0 || int(idx) >= len(str) {
			return nil, false
		}
		return constant.MakeInt64(int64(str[idx])), true
	case *ssa.Call:
		if b, ok := x.Call.Value.(*ssa.Builtin); ok && b.Name() == "len" && len(x.Call.Args) == 1 {
			if s, ok := ev.evalD(x.Call.Args[0], env, fr, d+1); ok && s.Kind() == constant.String {
				return constant.MakeInt64(int64(len(constant.StringVal(s)))), true
			}
		}
		// a helper of the module applied to constants: evaluate its body (value only; anything read from memory
		// makes the evaluation fail, so only pure predicates/arithmetics are decided this way)
		if callee := x.Call.StaticCallee(); callee != nil && !x.Call.IsInvoke() && len(callee.Blocks) > 0 && callee.Pkg != nil &&
			strings.HasPrefix(callee.Pkg.Pkg.Path(), logPath) && len(callee.FreeVars) == 0 && d < 30 {
			args := make([]constant.Value, len(x.Call.Args))
			for i, a := range x.Call.Args {
				k, ok := ev.evalD(a, env, fr, d+1)
				if !ok {
					return nil, false
				}
				args[i] = k
			}
			if rs, ok := ev.evalPure(callee, args, d+1); ok && len(rs) == 1 {
				return rs[0], true
			}
		}
	}
	return nil, false
}

// evalPure walks callee with constant arguments: conditions, φs and results must be computable from the arguments
// and constants alone.
func (ev *Evaluator) evalPure(callee *ssa.Function, args []constant.Value, d int) ([]constant.Value, bool) {
	if len(args) != len(callee.Params) {
		return nil, false
	}
	env := Env{}
	for i, p := range callee.Params {
		env[envKey{p, -1, ""}] = args[i]
	}
	inner := &Evaluator{} // the caller's assumptions are about the caller's values
	var prev *ssa.BasicBlock
	b := callee.Blocks[0]
	for steps := 0; steps < 400; steps++ {
		for _, in := range b.Instrs {
			phi, ok := in.(*ssa.Phi)
			if !ok {
				break
			}
			if prev == nil {
				return nil, false
			}
			for i, pb := range b.Preds {
				if pb == prev {
					k, ok := inner.evalD(phi.Edges[i], env, nil, d+1)
					if !ok {
						return nil, false
					}
					env[envKey{phi, -1, ""}] = k
				}
			}
		}
		switch t := b.Instrs[len(b.Instrs)-1].(type) {
		case *ssa.Return:
			var out []constant.Value
			for _, r := range t.Results {
				k, ok := inner.evalD(r, env, nil, d+1)
				if !ok {
					return nil, false
				}
				out = append(out, k)
			}
			return out, true
		case *ssa.Jump:
			prev, b = b, b.Succs[0]
		case *ssa.If:
			k, ok := inner.evalD(t.Cond, env, nil, d+1)
			if !ok || k.Kind() != constant.Bool {
				return nil, false
			}
			if constant.BoolVal(k) {
				prev, b = b, b.Succs[0]
			} else {
				prev, b = b, b.Succs[1]
			}
		default:
			return nil, false
		}
	}
	return nil, false
}

func intBits(t types.Type) (bits int, signed bool, ok bool) {
	b, isB := t.Underlying().(*types.Basic)
	if !isB {
		return 0, false, false
	}
	switch b.Kind() {
	case types.Int8:
		return 8, true, true
	case types.Int16:
		return 16, true, true
	case types.Int32:
		return 32, true, true
	case types.Int64, types.Int:
		return 64, true, true
	case types.Uint8:
		return 8, false, true
	case types.Uint16:
		return 16, false, true
	case types.Uint32:
		return 32, false, true
	case types.Uint64, types.Uint, types.Uintptr:
		return 64, false, true
	case types.UntypedInt, types.UntypedRune:
		return 0, true, true
	}
	return 0, false, false
}

// convertConst wraps an integer constant into the value range of t.
func convertConst(k constant.Value, t types.Type) (constant.Value, bool) {
	if isNilK(k) {
		return k, true
	}
	if k.Kind() != constant.Int {
		return k, true
	}
	bits, signed, ok := intBits(t)
	if !ok || bits == 0 {
		return k, true
	}
	mod := constant.Shift(constant.MakeInt64(1), token.SHL, uint(bits))
	// r = k mod 2^bits (non-negative)
	r := constant.BinaryOp(k, token.REM, mod)
	if constant.Sign(r) < 0 {
		r = constant.BinaryOp(r, token.ADD, mod)
	}
	if signed {
		half := constant.Shift(constant.MakeInt64(1), token.SHL, uint(bits-1))
		if constant.Compare(r, token.GEQ, half) {
			r = constant.BinaryOp(r, token.SUB, mod)
		}
	}
	return r, true
}

// nilK is the sentinel constant for a nil reference value.
var nilK = constant.MakeUnknown()

func isNilK(k constant.Value) bool { return k != nil && k.Kind() == constant.Unknown }

func evalBinOp(op token.Token, a, b constant.Value, opndT, resT types.Type) (constant.Value, bool) {
	if isNilK(a) || isNilK(b) {
		if isNilK(a) && isNilK(b) && (op == token.EQL || op == token.NEQ) {
			return constant.MakeBool(op == token.EQL), true
		}
		return nil, false
	}
	switch op {
	case token.EQL, token.NEQ, token.LSS, token.LEQ, token.GTR, token.GEQ:
		if a.Kind() != b.Kind() {
			return nil, false
		}
		if a.Kind() == constant.Bool && op != token.EQL && op != token.NEQ {
			return nil, false
		}
		return constant.MakeBool(constant.Compare(a, op, b)), true
	case token.ADD, token.SUB, token.MUL, token.AND, token.OR, token.XOR, token.AND_NOT:
		if a.Kind() == constant.String && op == token.ADD && b.Kind() == constant.String {
			return constant.BinaryOp(a, op, b), true
		}
		if a.Kind() != constant.Int || b.Kind() != constant.Int {
			return nil, false
		}
		return convertConst(constant.BinaryOp(a, op, b), resT)
	case token.QUO, token.REM:
		if a.Kind() != constant.Int || b.Kind() != constant.Int || constant.Sign(b) == 0 {
			return nil, false
		}
		if op == token.QUO {
			return convertConst(constant.BinaryOp(a, token.QUO_ASSIGN, b), resT)
		}
		return convertConst(constant.BinaryOp(a, op, b), resT)
	case token.SHL, token.SHR:
		if a.Kind() != constant.Int || b.Kind() != constant.Int {
			return nil, false
		}
		s, ok := constant.Uint64Val(b)
		if !ok || s > 64 {
			return nil, false
		}
		return convertConst(constant.Shift(a, op, uint(s)), resT)
	}
	return nil, false
}

// constOf folds a value to a constant without environment.
func constOf(v ssa.Value) (constant.Value, bool) {
	return (*Evaluator)(nil).eval(v, nil, nil)
}

func constInt(v ssa.Value) (int64, bool) {
	k, ok := constOf(v)
	if !ok || k.Kind() != constant.Int {
		return 0, false
	}
	return constant.Int64Val(k)
}

func constString(v ssa.Value) (string, bool) {
	k, ok := constOf(v)
	if !ok || k.Kind() != constant.String {
		return "", false
	}
	return constant.StringVal(k), true
}

// constantInt extracts an int64 from a go/constant value of kind Int.
func constantInt(k constant.Value) (int64, bool) {
	if k == nil || k.Kind() != constant.Int {
		return 0, false
	}
	return constant.Int64Val(k)
}

// goStart: the instruction starts a goroutine — a go statement, or (*sync.WaitGroup).Go(f), which runs f in a new
// goroutine and counts it done when f returns. target is the function started when it is statically known.
func goStart(in ssa.Instruction) (target *ssa.Function, ok bool) {
	fnOf := func(v ssa.Value) *ssa.Function {
		switch x := v.(type) {
		case *ssa.MakeClosure:
			f, _ := x.Fn.(*ssa.Function)
			return f
		case *ssa.Function:
			return x
		}
		return nil
	}
	switch x := in.(type) {
	case *ssa.Go:
		if f := fnOf(x.Call.Value); f != nil {
			return f, true
		}
		return x.Call.StaticCallee(), true
	case *ssa.Call:
		if s := x.Call.StaticCallee(); s != nil && funcIs(s, "sync", "WaitGroup", "Go") && len(x.Call.Args) == 2 {
			return fnOf(x.Call.Args[1]), true
		}
	}
	return nil, false
}

func isGoStart(in ssa.Instruction) bool {
	_, ok := goStart(in)
	return ok
}

// calleePkgName: package path and name of a statically called function; generic instantiations report their origin.
func calleePkgName(call ssa.CallInstruction) (pkg, name string) {
	f := call.Common().StaticCallee()
	if f == nil {
		return "", ""
	}
	if o := f.Origin(); o != nil {
		f = o
	}
	if obj := f.Object(); obj != nil && obj.Pkg() != nil {
		return obj.Pkg().Path(), obj.Name()
	}
	if f.Pkg != nil {
		return f.Pkg.Pkg.Path(), f.Name()
	}
	return "", f.Name()
}
