package main

// prov.go: backward provenance trees of values (P5 backward / P10 substrate).
// A tree describes how a value is computed from constants, fields, parameters
// and calls; in-module callees with a single return statement are expanded in
// their calling context so helper extraction does not change the tree's leaves.

import (
	"fmt"
	"go/constant"
	"go/token"
	"go/types"
	"strings"

	"golang.org/x/tools/go/ssa"
)

type PNode struct {
	Kind  string // const | path | concat | call | binop | unop | phi | slice | convert | unknown
	Const constant.Value
	Name  string // callee name, operator, or access path
	Args  []*PNode
	Inl   *PNode // expansion of an in-module callee's single return value
	V     ssa.Value
	Fr    *Frame
}

func (p *PNode) String() string {
	if p == nil {
		return "<nil>"
	}
	switch p.Kind {
	case "const":
		if p.Const == nil {
			return "nil"
		}
		return p.Const.ExactString()
	case "path":
		return p.Name
	default:
		var as []string
		for _, a := range p.Args {
			as = append(as, a.String())
		}
		s := p.Name + "(" + strings.Join(as, ", ") + ")"
		if p.Kind != "call" {
			s = p.Kind + ":" + s
		}
		return s
	}
}

// eff returns the node to look at for semantics: the inlined body if present.
func (p *PNode) eff() *PNode {
	for p != nil && p.Inl != nil {
		p = p.Inl
	}
	return p
}

func (c *Ctx) prov(v ssa.Value, fr *Frame) *PNode {
	c.provBusy = map[provKey]bool{}
	return c.provD(v, fr, 0)
}

type provKey struct {
	v  ssa.Value
	fr *Frame
}

func (c *Ctx) provD(v ssa.Value, fr *Frame, d int) *PNode {
	if d > 40 {
		return &PNode{Kind: "unknown", Name: "deep", V: v, Fr: fr}
	}
	if _, isPhi := v.(*ssa.Phi); isPhi {
		k := provKey{v, fr}
		if c.provBusy[k] {
			return &PNode{Kind: "unknown", Name: "cycle", V: v, Fr: fr}
		}
		c.provBusy[k] = true
		defer delete(c.provBusy, k)
	}
	if k, ok := v.(*ssa.Const); ok {
		return &PNode{Kind: "const", Const: k.Value, V: v, Fr: fr}
	}
	switch x := v.(type) {
	case *ssa.Parameter:
		if a, ok := fr.actualArg(x); ok {
			return c.provD(a, fr.Parent, d+1)
		}
		return &PNode{Kind: "path", Name: "param:" + x.Name(), V: v, Fr: fr}
	case *ssa.BinOp:
		if x.Op == token.ADD && isStringType(x.Type()) {
			n := &PNode{Kind: "concat", Name: "concat", V: v, Fr: fr}
			for _, o := range []ssa.Value{x.X, x.Y} {
				p := c.provD(o, fr, d+1)
				if p.Kind == "concat" {
					n.Args = append(n.Args, p.Args...)
				} else {
					n.Args = append(n.Args, p)
				}
			}
			return n
		}
		return &PNode{Kind: "binop", Name: x.Op.String(), Args: []*PNode{c.provD(x.X, fr, d+1), c.provD(x.Y, fr, d+1)}, V: v, Fr: fr}
	case *ssa.UnOp:
		if x.Op == token.MUL {
			if a, ok := x.X.(*ssa.Alloc); ok {
				sts := storesTo(a)
				if len(sts) == 1 {
					return c.provD(sts[0].Val, fr, d+1)
				}
			}
			// field of a local composite with exactly one store to that field: forward the stored value
			if fa, ok := x.X.(*ssa.FieldAddr); ok {
				if al, ok := fa.X.(*ssa.Alloc); ok {
					if fv := localFieldValue(al, fa.Field, 0); fv != nil {
						return c.provD(fv, fr, d+1)
					}
				}
			}
			return &PNode{Kind: "path", Name: c.accessPath(v, fr), V: v, Fr: fr}
		}
		return &PNode{Kind: "unop", Name: x.Op.String(), Args: []*PNode{c.provD(x.X, fr, d+1)}, V: v, Fr: fr}
	case *ssa.Field, *ssa.FieldAddr, *ssa.Global, *ssa.FreeVar, *ssa.Index, *ssa.IndexAddr:
		return &PNode{Kind: "path", Name: c.accessPath(v, fr), V: v, Fr: fr}
	case *ssa.Convert:
		return &PNode{Kind: "convert", Name: x.Type().String(), Args: []*PNode{c.provD(x.X, fr, d+1)}, V: v, Fr: fr}
	case *ssa.ChangeType:
		return c.provD(x.X, fr, d+1)
	case *ssa.MakeInterface:
		return c.provD(x.X, fr, d+1)
	case *ssa.ChangeInterface:
		return c.provD(x.X, fr, d+1)
	case *ssa.TypeAssert:
		return c.provD(x.X, fr, d+1)
	case *ssa.Slice:
		n := &PNode{Kind: "slice", Name: "slice", V: v, Fr: fr}
		n.Args = append(n.Args, c.provD(x.X, fr, d+1))
		for _, o := range []ssa.Value{x.Low, x.High} {
			if o != nil {
				n.Args = append(n.Args, c.provD(o, fr, d+1))
			} else {
				n.Args = append(n.Args, &PNode{Kind: "const"})
			}
		}
		return n
	case *ssa.Extract:
		p := c.provD(x.Tuple, fr, d+1)
		n := &PNode{Kind: "extract", Name: fmt.Sprintf("#%d", x.Index), Args: []*PNode{p}, V: v, Fr: fr}
		if call, ok := x.Tuple.(*ssa.Call); ok {
			n.Inl = c.inlineResult(call, x.Index, fr, d)
		}
		return n
	case *ssa.Lookup:
		return &PNode{Kind: "lookup", Name: "lookup", Args: []*PNode{c.provD(x.X, fr, d+1), c.provD(x.Index, fr, d+1)}, V: v, Fr: fr}
	case *ssa.Phi:
		n := &PNode{Kind: "phi", Name: "phi", V: v, Fr: fr}
		for _, e := range x.Edges {
			if e == v {
				continue
			}
			n.Args = append(n.Args, c.provD(e, fr, d+1))
		}
		return n
	case *ssa.Call:
		com := x.Common()
		n := &PNode{Kind: "call", V: v, Fr: fr}
		if com.IsInvoke() {
			n.Name = "invoke:" + com.Method.Name()
			n.Args = append(n.Args, c.provD(com.Value, fr, d+1))
		} else if b, ok := com.Value.(*ssa.Builtin); ok {
			n.Name = "builtin:" + b.Name()
		} else if f := com.StaticCallee(); f != nil {
			n.Name = qualName(f)
			if f.Signature.Results().Len() == 1 {
				n.Inl = c.inlineResult(x, 0, fr, d)
			}
		} else {
			n.Name = "dynamic"
			n.Args = append(n.Args, c.provD(com.Value, fr, d+1))
		}
		for _, a := range com.Args {
			n.Args = append(n.Args, c.provD(a, fr, d+1))
		}
		return n
	}
	return &PNode{Kind: "unknown", Name: fmt.Sprintf("%T", v), V: v, Fr: fr}
}

func isStringType(t types.Type) bool {
	b, ok := t.Underlying().(*types.Basic)
	return ok && b.Info()&types.IsString != 0
}

// qualName: "pkg.Func" or "pkg.(T).Method" with the short package name.
func qualName(f *ssa.Function) string {
	if o := f.Origin(); o != nil {
		f = o
	}
	s := f.String()
	s = strings.ReplaceAll(s, logPath+"/expr.", "expr.")
	s = strings.ReplaceAll(s, logPath+".", "log.")
	s = strings.ReplaceAll(s, "path/filepath.", "filepath.")
	s = strings.ReplaceAll(s, "sync/atomic.", "atomic.")
	s = strings.ReplaceAll(s, "unicode/utf8.", "utf8.")
	s = strings.ReplaceAll(s, "encoding/json.", "json.")
	return s
}

// inlineResult expands result #idx of an in-module call in its calling
// context: the single return operand, or a phi over all return statements.
func (c *Ctx) inlineResult(x *ssa.Call, idx int, fr *Frame, d int) *PNode {
	f := x.Common().StaticCallee()
	if f == nil || !c.inModule(f) || len(f.Blocks) == 0 || (fr != nil && fr.Depth >= 5) {
		return nil
	}
	for p := fr; p != nil; p = p.Parent {
		if p.Fn == f {
			return nil
		}
	}
	dd := 0
	if fr != nil {
		dd = fr.Depth
	}
	nfr := &Frame{Fn: f, Site: x, Parent: fr, Depth: dd + 1}
	if fr == nil {
		nfr.Parent = &Frame{Fn: x.Parent()}
	}
	var rets []*PNode
	eachInstr(f, func(in ssa.Instruction) {
		if r, ok := in.(*ssa.Return); ok && idx < len(r.Results) {
			rets = append(rets, c.provD(r.Results[idx], nfr, d+1))
		}
	})
	switch len(rets) {
	case 0:
		return nil
	case 1:
		return rets[0]
	}
	return &PNode{Kind: "phi", Name: "returns", Args: rets, Fr: nfr}
}

// singleReturn returns the only Return instruction of f, or nil.
func singleReturn(f *ssa.Function) *ssa.Return {
	var ret *ssa.Return
	n := 0
	eachInstr(f, func(in ssa.Instruction) {
		if r, ok := in.(*ssa.Return); ok {
			ret = r
			n++
		}
	})
	if n == 1 {
		return ret
	}
	return nil
}

// walk visits p and all descendants (including inlined bodies).
func (p *PNode) walk(f func(*PNode)) {
	if p == nil {
		return
	}
	f(p)
	for _, a := range p.Args {
		a.walk(f)
	}
	if p.Inl != nil {
		p.Inl.walk(f)
	}
}

// find returns the first node satisfying pred.
func (p *PNode) find(pred func(*PNode) bool) *PNode {
	var out *PNode
	p.walk(func(n *PNode) {
		if out == nil && pred(n) {
			out = n
		}
	})
	return out
}

func (p *PNode) isCall(name string) bool {
	return p != nil && p.Kind == "call" && p.Name == name
}

func (p *PNode) constString() (string, bool) {
	if p != nil && p.Kind == "const" && p.Const != nil && p.Const.Kind() == constant.String {
		return constant.StringVal(p.Const), true
	}
	return "", false
}

// localFieldValue: the unique value stored into field #idx of a local struct variable,
// following whole-struct copies from another local (complit temporaries).
func localFieldValue(al *ssa.Alloc, idx int, d int) ssa.Value {
	if d > 4 {
		return nil
	}
	var vals []ssa.Value
	if refs := al.Referrers(); refs != nil {
		for _, rr := range *refs {
			if fa2, ok := rr.(*ssa.FieldAddr); ok && fa2.Field == idx {
				for _, st := range storesTo(fa2) {
					vals = append(vals, st.Val)
				}
			}
		}
	}
	whole := storesTo(al)
	switch {
	case len(vals) == 1 && len(whole) == 0:
		return vals[0]
	case len(vals) == 0 && len(whole) == 1:
		if ld, ok := whole[0].Val.(*ssa.UnOp); ok {
			if src, ok := ld.X.(*ssa.Alloc); ok {
				return localFieldValue(src, idx, d+1)
			}
		}
	}
	return nil
}
