package main

// A model of the part of package reflect that the configuration code uses, over the evaluator's own values and
// go/types types: reflect.Type is a types.Type, reflect.Value is a typed (possibly addressable) abstract value.
// The rules reflect enforces at run time are enforced here as modelled panics: setting through an unexported field,
// Set with an unassignable value, SetInt on a non-integer kind, Elem of a non-pointer, Call with a wrong arity.

import (
	"go/constant"
	"go/types"
	"reflect"
	"strconv"
	"strings"

	"golang.org/x/tools/go/ssa"
)

type RTypeV struct{ T types.Type }

type RValV struct {
	T    types.Type
	Addr *Ptr // addressable: the cell that holds the value
	V    AV   // otherwise the value itself
	RO   bool // obtained through an unexported non-embedded field: cannot be set (sticky)
	// EmbedRO: this value is itself an unexported embedded field: it cannot be set or returned by Interface, but its
	// exported fields can
	EmbedRO bool
}

func (rv *RValV) get() AV {
	if rv.Addr != nil {
		return rv.Addr.load()
	}
	return rv.V
}

func (ip *Interp) rtypeIface(t types.Type) AV {
	return &IfaceV{T: types.NewPointer(types.NewStruct(nil, nil)), V: &RTypeV{T: t}}
}

func rtypeOf(v AV) *RTypeV {
	if iv, ok := v.(*IfaceV); ok {
		if rt, ok := iv.V.(*RTypeV); ok {
			return rt
		}
	}
	if rt, ok := v.(*RTypeV); ok {
		return rt
	}
	ood("reflect.Type expected, got %s", avString(v))
	return nil
}

func rvalOf(v AV) *RValV {
	if rv, ok := v.(*RValV); ok {
		return rv
	}
	if rv, ok := v.(*ReflectV); ok {
		if iv, ok := rv.V.(*IfaceV); ok {
			if types.IsInterface(iv.T) {
				return &RValV{T: iv.T, V: iv}
			}
			return &RValV{T: iv.T, V: iv.V}
		}
		return &RValV{}
	}
	if sv, ok := v.(*StructV); ok && len(sv.F) <= 3 {
		return &RValV{} // the zero reflect.Value
	}
	ood("reflect.Value expected, got %s", avString(v))
	return nil
}

func kindOf(t types.Type) reflect.Kind {
	if t == nil {
		return reflect.Invalid
	}
	switch u := t.Underlying().(type) {
	case *types.Basic:
		switch u.Kind() {
		case types.Bool, types.UntypedBool:
			return reflect.Bool
		case types.Int, types.UntypedInt:
			return reflect.Int
		case types.Int8:
			return reflect.Int8
		case types.Int16:
			return reflect.Int16
		case types.Int32, types.UntypedRune:
			return reflect.Int32
		case types.Int64:
			return reflect.Int64
		case types.Uint:
			return reflect.Uint
		case types.Uint8:
			return reflect.Uint8
		case types.Uint16:
			return reflect.Uint16
		case types.Uint32:
			return reflect.Uint32
		case types.Uint64:
			return reflect.Uint64
		case types.Uintptr:
			return reflect.Uintptr
		case types.Float32:
			return reflect.Float32
		case types.Float64, types.UntypedFloat:
			return reflect.Float64
		case types.Complex64:
			return reflect.Complex64
		case types.Complex128:
			return reflect.Complex128
		case types.String, types.UntypedString:
			return reflect.String
		case types.UnsafePointer:
			return reflect.UnsafePointer
		}
	case *types.Array:
		return reflect.Array
	case *types.Chan:
		return reflect.Chan
	case *types.Signature:
		return reflect.Func
	case *types.Interface:
		return reflect.Interface
	case *types.Map:
		return reflect.Map
	case *types.Pointer:
		return reflect.Pointer
	case *types.Slice:
		return reflect.Slice
	case *types.Struct:
		return reflect.Struct
	}
	return reflect.Invalid
}

func rtypeString(t types.Type) string {
	return types.TypeString(t, func(p *types.Package) string { return p.Name() })
}

// rtypeMethod: a method of the reflect.Type interface.
func (ip *Interp) rtypeMethod(rt *RTypeV, cc *ssa.CallCommon, args []AV) AV {
	t := rt.T
	switch cc.Method.Name() {
	case "Kind":
		return kInt(int64(kindOf(t)))
	case "String":
		return kStr(rtypeString(t))
	case "Name":
		if n, ok := types.Unalias(t).(*types.Named); ok {
			return kStr(n.Obj().Name())
		}
		if b, ok := t.(*types.Basic); ok {
			return kStr(b.Name())
		}
		return kStr("")
	case "PkgPath":
		if n, ok := types.Unalias(t).(*types.Named); ok && n.Obj().Pkg() != nil {
			return kStr(n.Obj().Pkg().Path())
		}
		return kStr("")
	case "Elem":
		switch u := t.Underlying().(type) {
		case *types.Pointer:
			return ip.rtypeIface(u.Elem())
		case *types.Slice:
			return ip.rtypeIface(u.Elem())
		case *types.Array:
			return ip.rtypeIface(u.Elem())
		case *types.Map:
			return ip.rtypeIface(u.Elem())
		case *types.Chan:
			return ip.rtypeIface(u.Elem())
		}
		rtPanic("reflect: Elem of invalid type %s", rtypeString(t))
	case "NumField":
		st, ok := t.Underlying().(*types.Struct)
		if !ok {
			rtPanic("reflect: NumField of non-struct type %s", rtypeString(t))
		}
		return kInt(int64(st.NumFields()))
	case "Field":
		st, ok := t.Underlying().(*types.Struct)
		if !ok {
			rtPanic("reflect: Field of non-struct type %s", rtypeString(t))
		}
		i := int(avInt(args[0]))
		if i < 0 || i >= st.NumFields() {
			rtPanic("reflect: Field index out of bounds")
		}
		return ip.structField(cc.Method.Type().(*types.Signature).Results().At(0).Type(), st, i)
	case "Implements":
		u := rtypeOf(args[0])
		it, ok := u.T.Underlying().(*types.Interface)
		if !ok {
			rtPanic("reflect: non-interface type passed to Type.Implements")
		}
		return kBool(types.Implements(t, it))
	case "AssignableTo":
		return kBool(types.AssignableTo(t, rtypeOf(args[0]).T))
	case "ConvertibleTo":
		return kBool(types.ConvertibleTo(t, rtypeOf(args[0]).T))
	case "Comparable":
		return kBool(types.Comparable(t))
	case "NumMethod":
		return kInt(int64(types.NewMethodSet(t).Len()))
	}
	ood("reflect.Type.%s", cc.Method.Name())
	return nil
}

func (ip *Interp) structField(sfT types.Type, st *types.Struct, i int) AV {
	f := st.Field(i)
	sf := ip.zeroOf(sfT).(*StructV)
	ss := sfT.Underlying().(*types.Struct)
	for j := 0; j < ss.NumFields(); j++ {
		switch ss.Field(j).Name() {
		case "Name":
			sf.F[j] = kStr(f.Name())
		case "PkgPath":
			if !f.Exported() && f.Pkg() != nil {
				sf.F[j] = kStr(f.Pkg().Path())
			}
		case "Type":
			sf.F[j] = ip.rtypeIface(f.Type())
		case "Tag":
			sf.F[j] = kStr(st.Tag(i))
		case "Anonymous":
			sf.F[j] = kBool(f.Embedded())
		case "Index":
			sf.F[j] = ip.mkSlice([]AV{kInt(int64(i))})
		}
	}
	return sf
}

// rvalField: Value.Field(i) with reflect's read-only flags: an unexported field is read-only and so is everything
// below it, except that exported fields promoted through an unexported embedded struct stay settable (flagEmbedRO
// is not sticky).
func rvalField(rv *RValV, i int) *RValV {
	st := rv.T.Underlying().(*types.Struct)
	if i < 0 || i >= st.NumFields() {
		rtPanic("reflect: Field index out of range")
	}
	f := st.Field(i)
	out := &RValV{T: f.Type(), RO: rv.RO || (!f.Exported() && !f.Embedded()), EmbedRO: !f.Exported() && f.Embedded()}
	if rv.Addr != nil {
		out.Addr = &Ptr{O: rv.Addr.O, Path: append(append([]int{}, rv.Addr.Path...), i)}
	} else if sv, ok := rv.V.(*StructV); ok {
		out.V = copyVal(sv.F[i])
	}
	return out
}

// visibleFields follows reflect.VisibleFields: every field of t and of its anonymous struct fields (through
// pointers too) that a selector can reach — the shallowest occurrence of a name wins, two at the same depth hide
// each other — in breadth-… no: in the order reflect yields them (declaration order, depth first), each with its
// index path.
func visibleFields(t types.Type) (fields []*types.Var, tags []string, paths [][]int) {
	type cand struct {
		f     *types.Var
		tag   string
		path  []int
		depth int
	}
	var all []cand
	var walk func(st *types.Struct, path []int, depth int, seen map[types.Type]bool)
	walk = func(st *types.Struct, path []int, depth int, seen map[types.Type]bool) {
		for i := 0; i < st.NumFields(); i++ {
			f := st.Field(i)
			p := append(append([]int{}, path...), i)
			all = append(all, cand{f, st.Tag(i), p, depth})
			if f.Embedded() {
				ft := f.Type()
				if pt, ok := ft.Underlying().(*types.Pointer); ok {
					ft = pt.Elem()
				}
				if sub, ok := ft.Underlying().(*types.Struct); ok && !seen[ft] {
					seen[ft] = true
					walk(sub, p, depth+1, seen)
					delete(seen, ft)
				}
			}
		}
	}
	st, ok := t.Underlying().(*types.Struct)
	if !ok {
		rtPanic("reflect.VisibleFields of non-struct type")
	}
	walk(st, nil, 0, map[types.Type]bool{t: true})
	for i, c := range all {
		visible := true
		for j, d := range all {
			if i == j || d.f.Name() != c.f.Name() {
				continue
			}
			if d.depth < c.depth || d.depth == c.depth {
				visible = false
			}
		}
		if visible {
			fields, tags, paths = append(fields, c.f), append(tags, c.tag), append(paths, c.path)
		}
	}
	return
}

func isNilAV(v AV) bool {
	_, ok := v.(NilV)
	return ok
}

// modelReflect: package-level reflect functions and reflect.Value methods.
func (ip *Interp) modelReflect(fn *ssa.Function, name string, args []AV) (AV, bool) {
	if !strings.HasPrefix(name, "reflect.") && !strings.HasPrefix(name, "(reflect.") {
		return nil, false
	}
	switch name {
	case "reflect.TypeFor":
		if ta := fn.TypeArgs(); len(ta) == 1 {
			return ip.rtypeIface(ta[0]), true
		}
		ood("reflect.TypeFor without a type argument")
	case "reflect.TypeOf":
		switch x := args[0].(type) {
		case *IfaceV:
			return ip.rtypeIface(x.T), true
		case NilV:
			return NilV{}, true
		}
		ood("reflect.TypeOf(%s)", avString(args[0]))
	case "reflect.ValueOf":
		switch x := args[0].(type) {
		case *IfaceV:
			return &RValV{T: x.T, V: x.V}, true
		case NilV:
			return &RValV{}, true
		}
		ood("reflect.ValueOf(%s)", avString(args[0]))
	case "reflect.New":
		t := rtypeOf(args[0]).T
		return &RValV{T: types.NewPointer(t), V: &Ptr{O: ip.newObj(ip.zeroOf(t))}}, true
	case "reflect.Zero":
		t := rtypeOf(args[0]).T
		return &RValV{T: t, V: ip.zeroOf(t)}, true
	case "reflect.MakeSlice":
		t := rtypeOf(args[0]).T
		n := int(avInt(args[1]))
		es := make([]AV, n)
		for i := range es {
			es[i] = ip.zeroOf(t.Underlying().(*types.Slice).Elem())
		}
		if n == 0 {
			return &RValV{T: t, V: &SliceV{B: &backing{}, Lo: 0, Hi: 0, Cap: 0}}, true
		}
		return &RValV{T: t, V: ip.mkSlice(es)}, true
	case "reflect.Append":
		s := rvalOf(args[0])
		sl, ok := s.T.Underlying().(*types.Slice)
		if !ok {
			rtPanic("reflect.Append: not a slice")
		}
		var cur []AV
		if sv, ok := s.get().(*SliceV); ok {
			cur = sv.elems()
		}
		var xs []AV
		if sv, ok := args[1].(*SliceV); ok {
			xs = sv.elems()
		}
		for _, x := range xs {
			xv := rvalOf(x)
			if !types.AssignableTo(xv.T, sl.Elem()) {
				rtPanic("reflect.Append: value of type %s is not assignable to type %s", rtypeString(xv.T), rtypeString(sl.Elem()))
			}
			cur = append(cur, ip.asType(xv, sl.Elem()))
		}
		return &RValV{T: s.T, V: ip.mkSlice(cur)}, true
	case "reflect.VisibleFields":
		t := rtypeOf(args[0]).T
		fs, tags, paths := visibleFields(t)
		sfT := fn.Signature.Results().At(0).Type().Underlying().(*types.Slice).Elem()
		var out []AV
		for i, f := range fs {
			sf := ip.zeroOf(sfT).(*StructV)
			ss := sfT.Underlying().(*types.Struct)
			for j := 0; j < ss.NumFields(); j++ {
				switch ss.Field(j).Name() {
				case "Name":
					sf.F[j] = kStr(f.Name())
				case "PkgPath":
					if !f.Exported() && f.Pkg() != nil {
						sf.F[j] = kStr(f.Pkg().Path())
					}
				case "Type":
					sf.F[j] = ip.rtypeIface(f.Type())
				case "Tag":
					sf.F[j] = kStr(tags[i])
				case "Anonymous":
					sf.F[j] = kBool(f.Embedded())
				case "Index":
					var ix []AV
					for _, k := range paths[i] {
						ix = append(ix, kInt(int64(k)))
					}
					sf.F[j] = ip.mkSlice(ix)
				}
			}
			out = append(out, sf)
		}
		return ip.mkSlice(out), true
	case "reflect.Indirect":
		rv := rvalOf(args[0])
		if _, ok := rv.T.Underlying().(*types.Pointer); ok {
			return ip.rvalElem(rv), true
		}
		return rv, true
	case "(reflect.StructTag).Lookup":
		v, ok := reflect.StructTag(avStr(args[0])).Lookup(avStr(args[1]))
		return TupleV{kStr(v), kBool(ok)}, true
	case "(reflect.StructField).IsExported":
		sv, ok := args[0].(*StructV)
		ss, ok2 := fn.Signature.Recv().Type().Underlying().(*types.Struct)
		if ok && ok2 {
			for j := 0; j < ss.NumFields(); j++ {
				if ss.Field(j).Name() == "PkgPath" {
					return kBool(avStr(sv.F[j]) == ""), true
				}
			}
		}
		ood("reflect.StructField.IsExported on %s", avString(args[0]))
	case "(reflect.StructTag).Get":
		return kStr(reflect.StructTag(avStr(args[0])).Get(avStr(args[1]))), true
	case "(reflect.Kind).String":
		return kStr(reflect.Kind(avInt(args[0])).String()), true
	}
	if !strings.HasPrefix(name, "(reflect.Value).") {
		ood("%s", name)
	}
	rv := rvalOf(args[0])
	m := strings.TrimPrefix(name, "(reflect.Value).")
	mustKind := func(ks ...reflect.Kind) {
		k := kindOf(rv.T)
		for _, w := range ks {
			if k == w {
				return
			}
		}
		rtPanic("reflect: call of reflect.Value.%s on %s Value", m, k)
	}
	settable := func() {
		if rv.Addr == nil {
			rtPanic("reflect: reflect.Value.%s using unaddressable value", m)
		}
		if rv.RO || rv.EmbedRO {
			rtPanic("reflect: reflect.Value.%s using value obtained using unexported field", m)
		}
	}
	switch m {
	case "IsValid":
		return kBool(rv.T != nil), true
	case "Kind":
		return kInt(int64(kindOf(rv.T))), true
	case "Type":
		if rv.T == nil {
			rtPanic("reflect: call of reflect.Value.Type on zero Value")
		}
		return ip.rtypeIface(rv.T), true
	case "CanSet":
		return kBool(rv.Addr != nil && !rv.RO && !rv.EmbedRO), true
	case "CanAddr":
		return kBool(rv.Addr != nil), true
	case "CanInterface":
		return kBool(!rv.RO && !rv.EmbedRO), true
	case "Interface":
		if rv.T == nil {
			rtPanic("reflect: call of reflect.Value.Interface on zero Value")
		}
		if rv.RO || rv.EmbedRO {
			rtPanic("reflect.Value.Interface: cannot return value obtained from unexported field or method")
		}
		v := rv.get()
		if types.IsInterface(rv.T) {
			return v, true
		}
		return &IfaceV{T: rv.T, V: v}, true
	case "IsNil":
		mustKind(reflect.Chan, reflect.Func, reflect.Interface, reflect.Map, reflect.Pointer, reflect.Slice, reflect.UnsafePointer)
		return kBool(isNilAV(rv.get())), true
	case "IsZero":
		return kBool(isZeroAV(rv.get())), true
	case "Elem":
		mustKind(reflect.Pointer, reflect.Interface)
		return ip.rvalElem(rv), true
	case "NumField":
		mustKind(reflect.Struct)
		return kInt(int64(rv.T.Underlying().(*types.Struct).NumFields())), true
	case "Field":
		mustKind(reflect.Struct)
		return rvalField(rv, int(avInt(args[1]))), true
	case "FieldByIndex":
		cur := rv
		idx, _ := args[1].(*SliceV)
		if idx == nil {
			ood("reflect.Value.FieldByIndex index")
		}
		for k, e := range idx.elems() {
			if k > 0 {
				// reflect: an embedded *pointer* is followed (nil panics); an embedded struct is entered directly
				if _, isPtr := cur.T.Underlying().(*types.Pointer); isPtr {
					if isNilAV(cur.get()) {
						rtPanic("reflect: indirection through nil pointer to embedded struct")
					}
					cur = ip.rvalElem(cur)
				}
			}
			if kindOf(cur.T) != reflect.Struct {
				rtPanic("reflect: call of reflect.Value.FieldByIndex on %s Value", kindOf(cur.T))
			}
			cur = rvalField(cur, int(avInt(e)))
		}
		return cur, true
	case "Len":
		switch x := rv.get().(type) {
		case *SliceV:
			return kInt(int64(x.Hi - x.Lo)), true
		case NilV:
			return kInt(0), true
		case constant.Value:
			return kInt(int64(len(avStr(x)))), true
		case *MapV:
			return kInt(int64(len(x.M))), true
		}
		ood("reflect.Value.Len of %s", avString(rv.get()))
	case "Index":
		sv, ok := rv.get().(*SliceV)
		i := int(avInt(args[1]))
		if !ok || i < 0 || i >= sv.Hi-sv.Lo {
			rtPanic("reflect: slice index out of range")
		}
		return &RValV{T: rv.T.Underlying().(*types.Slice).Elem(), Addr: &Ptr{O: sv.B.cells[sv.Lo+i]}}, true
	case "Set":
		settable()
		x := rvalOf(args[1])
		if x.T == nil {
			rtPanic("reflect: call of reflect.Value.Set on zero Value")
		}
		if !types.AssignableTo(x.T, rv.T) {
			rtPanic("reflect.Set: value of type %s is not assignable to type %s", rtypeString(x.T), rtypeString(rv.T))
		}
		rv.Addr.store(ip.asType(x, rv.T))
		return TupleV{}, true
	case "SetString":
		settable()
		mustKind(reflect.String)
		rv.Addr.store(args[1])
		return TupleV{}, true
	case "SetBool":
		settable()
		mustKind(reflect.Bool)
		rv.Addr.store(args[1])
		return TupleV{}, true
	case "SetInt":
		settable()
		mustKind(reflect.Int, reflect.Int8, reflect.Int16, reflect.Int32, reflect.Int64)
		k, _ := convertConst(args[1].(constant.Value), rv.T)
		rv.Addr.store(k)
		return TupleV{}, true
	case "SetUint":
		settable()
		mustKind(reflect.Uint, reflect.Uint8, reflect.Uint16, reflect.Uint32, reflect.Uint64, reflect.Uintptr)
		k, _ := convertConst(args[1].(constant.Value), rv.T)
		rv.Addr.store(k)
		return TupleV{}, true
	case "SetFloat":
		settable()
		mustKind(reflect.Float32, reflect.Float64)
		f := avFloat(args[1])
		if kindOf(rv.T) == reflect.Float32 {
			f = float64(float32(f))
		}
		rv.Addr.store(&FloatV{F: f})
		return TupleV{}, true
	case "String":
		if kindOf(rv.T) == reflect.String {
			return rv.get(), true
		}
		return kStr("<" + rtypeString(rv.T) + " Value>"), true
	case "Int":
		mustKind(reflect.Int, reflect.Int8, reflect.Int16, reflect.Int32, reflect.Int64)
		return rv.get(), true
	case "Uint":
		mustKind(reflect.Uint, reflect.Uint8, reflect.Uint16, reflect.Uint32, reflect.Uint64, reflect.Uintptr)
		return rv.get(), true
	case "Bool":
		mustKind(reflect.Bool)
		return rv.get(), true
	case "Float":
		mustKind(reflect.Float32, reflect.Float64)
		return rv.get(), true
	case "Addr":
		if rv.Addr == nil {
			rtPanic("reflect.Value.Addr of unaddressable value")
		}
		return &RValV{T: types.NewPointer(rv.T), V: rv.Addr}, true
	case "Call":
		mustKind(reflect.Func)
		sig := rv.T.Underlying().(*types.Signature)
		var in []AV
		if sv, ok := args[1].(*SliceV); ok {
			for _, e := range sv.elems() {
				x := rvalOf(e)
				in = append(in, ip.asType(x, nil))
			}
		}
		if len(in) != sig.Params().Len() {
			rtPanic("reflect: Call with too few/many input arguments")
		}
		for i := range in {
			if pt := sig.Params().At(i).Type(); types.IsInterface(pt) {
				if x := rvalOf(args[1].(*SliceV).elems()[i]); !types.IsInterface(x.T) {
					in[i] = &IfaceV{T: x.T, V: in[i]}
				}
			}
		}
		f := rv.get()
		var res AV
		switch cl := f.(type) {
		case *Closure:
			res = ip.callFn(cl.Fn, in, cl.Free)
		case *ExtFn:
			res = ip.OnExt(ip, cl.Name, in)
		default:
			rtPanic("reflect: call of nil function")
		}
		var outs []AV
		switch sig.Results().Len() {
		case 0:
		case 1:
			outs = []AV{&RValV{T: sig.Results().At(0).Type(), V: res}}
		default:
			tv, _ := res.(TupleV)
			for i := 0; i < sig.Results().Len() && i < len(tv); i++ {
				outs = append(outs, &RValV{T: sig.Results().At(i).Type(), V: tv[i]})
			}
		}
		if len(outs) == 0 {
			return NilV{}, true
		}
		return ip.mkSlice(outs), true
	}
	ood("reflect.Value.%s", m)
	return nil, false
}

func (ip *Interp) rvalElem(rv *RValV) *RValV {
	v := rv.get()
	switch u := rv.T.Underlying().(type) {
	case *types.Pointer:
		p, ok := v.(*Ptr)
		if !ok {
			return &RValV{} // Elem of a nil pointer is the zero Value
		}
		return &RValV{T: u.Elem(), Addr: p, RO: rv.RO}
	case *types.Interface:
		iv, ok := v.(*IfaceV)
		if !ok {
			return &RValV{}
		}
		return &RValV{T: iv.T, V: iv.V, RO: rv.RO}
	}
	rtPanic("reflect: call of reflect.Value.Elem on %s Value", kindOf(rv.T))
	return nil
}

// asType: the value of x as it is stored in a location of type to (interface locations hold an interface value).
func (ip *Interp) asType(x *RValV, to types.Type) AV {
	v := x.get()
	if to != nil && types.IsInterface(to) && !types.IsInterface(x.T) {
		if _, isNil := v.(NilV); isNil {
			// a typed nil pointer in an interface is a non-nil interface; keep the distinction
			return &IfaceV{T: x.T, V: v}
		}
		return &IfaceV{T: x.T, V: v}
	}
	return v
}

// ---- strconv parsers used by the injector

func (ip *Interp) modelParse(name string, args []AV) (AV, bool) {
	switch name {
	case "strconv.ParseInt":
		v, err := strconv.ParseInt(avStr(args[0]), int(avInt(args[1])), int(avInt(args[2])))
		if err != nil {
			return TupleV{kInt(v), ip.errVal(err.Error())}, true
		}
		return TupleV{kInt(v), NilV{}}, true
	case "strconv.ParseUint":
		v, err := strconv.ParseUint(avStr(args[0]), int(avInt(args[1])), int(avInt(args[2])))
		if err != nil {
			return TupleV{kUint(v), ip.errVal(err.Error())}, true
		}
		return TupleV{kUint(v), NilV{}}, true
	case "strconv.ParseFloat":
		v, err := strconv.ParseFloat(avStr(args[0]), int(avInt(args[1])))
		if err != nil {
			return TupleV{&FloatV{F: v}, ip.errVal(err.Error())}, true
		}
		return TupleV{&FloatV{F: v}, NilV{}}, true
	case "strconv.ParseBool":
		v, err := strconv.ParseBool(avStr(args[0]))
		if err != nil {
			return TupleV{kBool(v), ip.errVal(err.Error())}, true
		}
		return TupleV{kBool(v), NilV{}}, true
	}
	return nil, false
}
