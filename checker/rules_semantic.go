package main

// Rules that decide value-level clauses by partial evaluation (P13, absint.go) over a finite quotient domain.
//
// Policy: a conclusive result (every member of the domain evaluated inside the modelled fragment) is a verdict —
// discharged, or violated with the failing member as the witness. When the code leaves the modelled fragment the
// rule is *inconclusive*: it is recorded as such (trivial obligation, counter "inconclusive") and does not fail the
// check — the shape rules of the same clause still apply. This is deliberate: these rules exist to decide more, not
// to turn every unfamiliar library call into an alarm.

import (
	"fmt"
	"go/constant"
	"go/types"
	"sort"
	"strings"

	"golang.org/x/tools/go/ssa"
)

func (r *Report) Inconclusive(key, detail string, args ...any) *Obligation {
	r.Count("inconclusive", 1)
	return r.add(&Obligation{Key: key, Status: Discharged, Trivial: true, Detail: "inconclusive (not counted as evidence): " + fmt.Sprintf(detail, args...)})
}

// ---------------------------------------------------------------------------
// C02.prefix-order: which keys the matcher tries, and in which order

type tagShape struct {
	tag        string
	candidates []string // literal first, then P_* for the proper underscore-delimited prefixes, longest first
	decoys     []string // keys that must never serve this tag
}

// tagShapes enumerates one representative per class of valid tag names: 1–4 segments of length 1..maxSeg, with and
// without the single leading underscore, total length 3–36 (the language of C18). The string functions the matcher may
// use (constant separators made of '_' and '*', slicing at the indices they return) cannot distinguish two tags
// of the same shape, and integer comparisons against constants ≤ maxSeg-1 cannot distinguish longer segments from
// segments of length maxSeg.
func tagShapes(maxSeg int) []tagShape {
	var out []tagShape
	var rec func(segs []string)
	emit := func(segs []string, lead bool) {
		pre := ""
		if lead {
			pre = "_"
		}
		tag := pre + strings.Join(segs, "_")
		if len(tag) < 3 || len(tag) > 36 {
			return
		}
		sh := tagShape{tag: tag, candidates: []string{tag}}
		for k := len(segs) - 1; k >= 1; k-- {
			p := pre + strings.Join(segs[:k], "_")
			sh.candidates = append(sh.candidates, p+"_*")
			sh.decoys = append(sh.decoys, p) // a literal entry for a prefix serves only the tag of that name
		}
		sh.decoys = append(sh.decoys, tag+"_*") // not a proper prefix
		if len(segs[0]) >= 2 {
			sh.decoys = append(sh.decoys, pre+segs[0][:len(segs[0])-1]+"_*") // prefix of a segment, not of the tag's segment list
		}
		if len(segs) >= 2 {
			sh.decoys = append(sh.decoys, pre+segs[0]+"_"+segs[1]+"x_*") // a sibling
			if lead {
				sh.decoys = append(sh.decoys, strings.Join(segs[:1], "_")+"_*") // same prefix without the leading underscore
			}
		}
		out = append(out, sh)
	}
	rec = func(segs []string) {
		if len(segs) >= 1 {
			emit(segs, false)
			emit(segs, true)
		}
		if len(segs) == 4 {
			return
		}
		ch := string(rune('a' + len(segs)))
		for l := 1; l <= maxSeg; l++ {
			rec(append(append([]string{}, segs...), strings.Repeat(ch, l)))
		}
	}
	rec(nil)
	return out
}

func (c *Ctx) checkMatcherSemantics(r *Report, matcher *ssa.Function, rf *ssa.Function) {
	key := "C02.prefix-order:" + fname(matcher)
	loggerI := c.logType("Logger")
	if loggerI == nil {
		r.Inconclusive(key, "Logger interface not found")
		return
	}
	errT := types.Universe.Lookup("error").Type()
	_ = errT
	symOf := func(name string) AV { return &IfaceV{T: types.NewPointer(loggerI), V: &Sym{Name: name}} }
	isLoggerMap := func(t types.Type) bool {
		m, ok := t.Underlying().(*types.Map)
		return ok && isStringType(m.Key()) && types.Identical(m.Elem(), loggerI)
	}
	// the largest integer constant the matcher compares anything with decides how long segments must get
	maxK := int64(1)
	scan := func(f *ssa.Function) {
		eachInstr(f, func(in ssa.Instruction) {
			if b, ok := in.(*ssa.BinOp); ok {
				for _, o := range []ssa.Value{b.X, b.Y} {
					if k, ok := constInt(o); ok && k > maxK && k < 8 {
						maxK = k
					}
				}
			}
		})
	}
	scan(matcher)
	for _, cal := range c.moduleCallees(matcher) {
		scan(cal)
	}
	// the evaluation below gives the matcher one table; a matcher that consults several (a literal table and a prefix
	// index filled in lock-step, …) can only be evaluated together with the code that fills them (lifecycle evaluation)
	nTables := 0
	for _, fv := range matcher.FreeVars {
		t := fv.Type()
		if p, ok := t.(*types.Pointer); ok {
			t = p.Elem()
		}
		if isLoggerMap(t) {
			nTables++
		}
	}
	for _, p := range matcher.Params {
		if isLoggerMap(p.Type()) {
			nTables++
		}
	}
	if nTables > 1 {
		r.Inconclusive(key, "the matcher consults %d tables; decided only together with the code that fills them", nTables)
		return
	}
	shapes := tagShapes(int(maxK) + 2)
	runs, mapIter := 0, false
	var firstBad string
	var oodWhy string
	for _, sh := range shapes {
		nc := len(sh.candidates)
		for mask := 0; mask < 1<<nc; mask++ {
			ip := newInterp(c)
			table := &MapV{M: map[string]AV{}}
			for _, d := range sh.decoys {
				table.M[constant.MakeString(d).ExactString()] = symOf("decoy:" + d)
				table.Keys = append(table.Keys, constant.MakeString(d).ExactString())
			}
			want := "root"
			for i := nc - 1; i >= 0; i-- {
				if mask&(1<<i) != 0 {
					k := constant.MakeString(sh.candidates[i]).ExactString()
					table.M[k] = symOf("hit:" + sh.candidates[i])
					table.Keys = append(table.Keys, k)
					want = "hit:" + sh.candidates[i]
				}
			}
			root := symOf("root")
			bind := func(t types.Type, self *Closure) (AV, bool) {
				if p, ok := t.(*types.Pointer); ok {
					switch {
					case isLoggerMap(p.Elem()):
						return &Ptr{O: ip.newObj(table)}, true
					case types.Identical(p.Elem(), loggerI):
						return &Ptr{O: ip.newObj(root)}, true
					}
					if sig, ok := p.Elem().Underlying().(*types.Signature); ok && self != nil && types.Identical(sig, matcher.Signature) {
						return &Ptr{O: ip.newObj(self)}, true
					}
					return nil, false
				}
				switch {
				case isLoggerMap(t):
					return table, true
				case types.Identical(t, loggerI):
					return root, true
				}
				return nil, false
			}
			self := &Closure{Fn: matcher}
			for _, fv := range matcher.FreeVars {
				v, ok := bind(fv.Type(), self)
				if !ok {
					v = nil // a use raises oodError
				}
				self.Free = append(self.Free, v)
			}
			var args []AV
			tagBound := false
			for _, p := range matcher.Params {
				if isStringType(p.Type()) && !tagBound {
					args = append(args, kStr(sh.tag))
					tagBound = true
					continue
				}
				v, ok := bind(p.Type(), nil)
				if !ok {
					v = nil
				}
				args = append(args, v)
			}
			if !tagBound {
				r.Inconclusive(key, "the matcher has no string parameter")
				return
			}
			res, err := ip.Run(matcher, args, self.Free)
			runs++
			mapIter = mapIter || ip.MapOrderUsed
			if err != nil {
				if _, isOOD := err.(oodError); isOOD {
					oodWhy = err.Error()
					break
				}
				if harnessPanic(err) {
					oodWhy = "the evaluation could not build the matcher's environment (" + err.Error() + ")"
					break
				}
				if firstBad == "" {
					firstBad = fmt.Sprintf("tag %q with configured keys %v: %v", sh.tag, configured(sh, mask), err)
				}
				continue
			}
			got := "?"
			if iv, ok := res.(*IfaceV); ok {
				if s, ok := iv.V.(*Sym); ok {
					got = s.Name
				}
			} else if _, ok := res.(NilV); ok {
				got = "nil"
			}
			if got != want && firstBad == "" {
				firstBad = fmt.Sprintf("tag %q with configured keys %v (plus non-matching entries %v) is served by %s, want %s", sh.tag, configured(sh, mask), sh.decoys, describeHit(got), describeHit(want))
			}
		}
		if oodWhy != "" {
			break
		}
	}
	r.Count("matcher_evaluations", runs)
	switch {
	case oodWhy != "":
		r.Inconclusive(key, "%s", oodWhy)
	case firstBad != "":
		r.Fail(key, c.pos(matcher.Pos()), "the matcher does not pick the most specific configured logger: %s", firstBad)
	default:
		note := ""
		if mapIter {
			note = "; the matcher iterates over the table (evaluated in sorted key order)"
		}
		r.OK(key, "%d tag shapes (1–4 segments of length 1–%d, with/without leading underscore) × every subset of their candidate keys, %d evaluations: literal entry, else the longest proper underscore-delimited prefix wildcard, else root; literal prefixes, the tag's own wildcard, partial-segment and sibling wildcards never match%s", len(shapes), maxK+2, runs, note)
	}
}

func configured(sh tagShape, mask int) []string {
	var out []string
	for i, k := range sh.candidates {
		if mask&(1<<i) != 0 {
			out = append(out, k)
		}
	}
	return out
}

func describeHit(s string) string {
	switch {
	case s == "root":
		return "the root logger"
	case strings.HasPrefix(s, "hit:"):
		return "the logger listing " + strings.TrimPrefix(s, "hit:")
	case strings.HasPrefix(s, "decoy:"):
		return "the logger listing " + strings.TrimPrefix(s, "decoy:") + " (which does not match this tag)"
	}
	return s
}

// ---------------------------------------------------------------------------
// C01.chain-values: what sort-and-chain does to every reference set of size 1–4

type levelInfo struct {
	code int64
	name string
}

// levelGlobals reads `X = RegisterLevel(<const>, <const>)` initialisers of package-level Level variables.
func (c *Ctx) levelGlobals() map[*ssa.Global]levelInfo {
	out := map[*ssa.Global]levelInfo{}
	initF := c.LogS.Func("init")
	if initF == nil {
		return out
	}
	eachInstr(initF, func(in ssa.Instruction) {
		st, ok := in.(*ssa.Store)
		if !ok {
			return
		}
		g, ok := st.Addr.(*ssa.Global)
		if !ok {
			return
		}
		call, ok := st.Val.(*ssa.Call)
		if !ok || len(call.Call.Args) != 2 {
			return
		}
		if cal := call.Call.StaticCallee(); cal == nil || cal.Name() != "RegisterLevel" {
			return
		}
		code, ok1 := constInt(call.Call.Args[0])
		name, ok2 := constString(call.Call.Args[1])
		if ok1 && ok2 {
			out[g] = levelInfo{code, strings.ToUpper(name)}
		}
	})
	return out
}

type levelLayout struct {
	levelT     *types.Named
	codeIdx    int
	nameIdx    int
	nFields    int
	rangeT     *types.Named
	minIdx     int
	maxIdx     int
	refT       *types.Named
	refLevelIx int
	refAppIx   int
	refNameIx  int
}

func (c *Ctx) levelLayout(ro *Roles) (*levelLayout, string) {
	ll := &levelLayout{codeIdx: -1, nameIdx: -1, minIdx: -1, maxIdx: -1, refLevelIx: -1, refAppIx: -1, refNameIx: -1}
	ll.levelT, ll.rangeT, ll.refT = c.logType("Level"), c.logType("LevelRange"), ro.AppenderRef
	if ll.levelT == nil || ll.rangeT == nil || ll.refT == nil {
		return nil, "Level / LevelRange / appender reference type not found"
	}
	ls, ok := ll.levelT.Underlying().(*types.Struct)
	if !ok {
		return nil, "Level is not a struct"
	}
	ll.nFields = ls.NumFields()
	for i := 0; i < ls.NumFields(); i++ {
		b, ok := ls.Field(i).Type().Underlying().(*types.Basic)
		if !ok {
			continue
		}
		if b.Info()&types.IsInteger != 0 && ll.codeIdx < 0 {
			ll.codeIdx = i
		}
		if b.Info()&types.IsString != 0 && ll.nameIdx < 0 {
			ll.nameIdx = i
		}
	}
	rs, ok := ll.rangeT.Underlying().(*types.Struct)
	if !ok {
		return nil, "LevelRange is not a struct"
	}
	for i := 0; i < rs.NumFields(); i++ {
		switch rs.Field(i).Name() {
		case "MinLevel":
			ll.minIdx = i
		case "MaxLevel":
			ll.maxIdx = i
		}
	}
	fs, ok := ll.refT.Underlying().(*types.Struct)
	if !ok {
		return nil, "appender reference is not a struct"
	}
	appI := c.logType("Appender")
	for i := 0; i < fs.NumFields(); i++ {
		ft := fs.Field(i).Type()
		switch {
		case types.Identical(ft, ll.rangeT):
			ll.refLevelIx = i
		case appI != nil && types.Identical(ft, appI):
			ll.refAppIx = i
		case isStringType(ft) && ll.refNameIx < 0:
			ll.refNameIx = i
		}
	}
	if ll.codeIdx < 0 || ll.minIdx < 0 || ll.maxIdx < 0 || ll.refLevelIx < 0 {
		return nil, "field layout of Level / LevelRange / appender reference not recognised"
	}
	return ll, ""
}

func (ll *levelLayout) level(ip *Interp, code int64, name string) *StructV {
	s := ip.zeroOf(ll.levelT).(*StructV)
	s.F[ll.codeIdx] = kInt(code)
	if ll.nameIdx >= 0 {
		s.F[ll.nameIdx] = kStr(name)
	}
	return s
}

// chainFunc: the function run on a logger's reference list at configuration time that sorts it (directly or in a
// helper) — resolved by effect, not by name.
func (c *Ctx) chainFunc(ro *Roles) *ssa.Function {
	if ro.AppenderRef == nil {
		return nil
	}
	holdsRefs := func(t types.Type) bool {
		p, ok := t.(*types.Pointer)
		if !ok {
			return false
		}
		st, ok := p.Elem().Underlying().(*types.Struct)
		if !ok {
			return false
		}
		for i := 0; i < st.NumFields(); i++ {
			if sl, ok := st.Field(i).Type().Underlying().(*types.Slice); ok {
				if pp, ok := sl.Elem().(*types.Pointer); ok && types.Identical(pp.Elem(), ro.AppenderRef) {
					return true
				}
			}
		}
		return false
	}
	sortsSomething := func(f *ssa.Function) bool {
		found := false
		for g := range c.reach(f) {
			eachInstr(g, func(in ssa.Instruction) {
				if call, ok := in.(*ssa.Call); ok {
					if s := call.Common().StaticCallee(); s != nil && s.Object() != nil && s.Object().Pkg() != nil {
						pk := s.Object().Pkg().Path()
						if (pk == "sort" || pk == "slices") && strings.HasPrefix(s.Object().Name(), "S") {
							found = true
						}
					}
				}
			})
		}
		return found
	}
	var cands []*ssa.Function
	for _, f := range c.Funcs {
		if f.Signature.Recv() == nil || len(f.Params) != 1 || f.Signature.Results().Len() != 0 || !holdsRefs(f.Params[0].Type()) {
			continue
		}
		if ro.HotPath[f] {
			continue
		}
		if sortsSomething(f) {
			cands = append(cands, f)
		}
	}
	// prefer the outermost: a candidate not called by another candidate
	for _, f := range cands {
		called := false
		for _, g := range cands {
			if g != f && c.reach(g)[f] {
				called = true
			}
		}
		if !called {
			return f
		}
	}
	return nil
}

func (c *Ctx) checkChainSemantics(r *Report, ro *Roles) (conclusive bool, ok bool) {
	fn := c.chainFunc(ro)
	if fn == nil {
		r.Inconclusive("C01.chain-values:anchor", "no configuration-time method of the reference list that sorts it")
		return false, false
	}
	key := "C01.chain-values:" + fname(fn)
	r.SawFunc(fn)
	ll, why := c.levelLayout(ro)
	if ll == nil {
		r.Inconclusive(key, "%s", why)
		return false, false
	}
	lg := c.levelGlobals()
	var maxG *ssa.Global
	for g := range lg {
		if g.Name() == "MaxLevel" {
			maxG = g
		}
	}
	if maxG == nil {
		r.Inconclusive(key, "MaxLevel initialiser not found")
		return false, false
	}
	maxInfo := lg[maxG]
	holder := fn.Params[0].Type().(*types.Pointer).Elem()
	hs := holder.Underlying().(*types.Struct)
	sliceIdx := -1
	for i := 0; i < hs.NumFields(); i++ {
		if sl, ok := hs.Field(i).Type().Underlying().(*types.Slice); ok {
			if pp, ok := sl.Elem().(*types.Pointer); ok && types.Identical(pp.Elem(), ro.AppenderRef) {
				sliceIdx = i
			}
		}
	}
	runs := 0
	var firstBad, oodWhy string
	appT := types.NewPointer(ro.AppenderRef) // any concrete type will do for the embedded appender
	for n := 1; n <= 4 && oodWhy == ""; n++ {
		total := 1
		for i := 0; i < n; i++ {
			total *= n
		}
		for assign := 0; assign < total && oodWhy == ""; assign++ {
			ranks := make([]int, n)
			a := assign
			for i := 0; i < n; i++ {
				ranks[i] = a % n
				a /= n
			}
			for expl := 0; expl < 1<<n && oodWhy == ""; expl++ {
				for _, anti := range []bool{false, true} {
					ip := newInterp(c)
					ip.AntiStable = anti
					for g, li := range lg {
						ip.Globals[g] = ip.newObj(ll.level(ip, li.code, li.name))
					}
					type refIn struct {
						min, max levelInfo
						implicit bool
					}
					ins := make([]refIn, n)
					var cells []AV
					for i := 0; i < n; i++ {
						code := int64(100 * (ranks[i] + 1))
						ins[i].min = levelInfo{code, fmt.Sprintf("L%d", code)}
						if expl&(1<<i) != 0 {
							ins[i].max = levelInfo{code + 50, fmt.Sprintf("L%d", code+50)}
						} else {
							ins[i].max, ins[i].implicit = maxInfo, true
						}
						ref := ip.zeroOf(ro.AppenderRef).(*StructV)
						rng := ref.F[ll.refLevelIx].(*StructV)
						rng.F[ll.minIdx] = ll.level(ip, ins[i].min.code, ins[i].min.name)
						rng.F[ll.maxIdx] = ll.level(ip, ins[i].max.code, ins[i].max.name)
						if ll.refAppIx >= 0 {
							ref.F[ll.refAppIx] = &IfaceV{T: appT, V: &Sym{Name: fmt.Sprintf("appender%d", i)}}
						}
						if ll.refNameIx >= 0 {
							ref.F[ll.refNameIx] = kStr(fmt.Sprintf("ref%d", i))
						}
						cells = append(cells, &Ptr{O: ip.newObj(ref)})
					}
					hv := ip.zeroOf(holder).(*StructV)
					sl := ip.mkSlice(cells)
					hv.F[sliceIdx] = sl
					recv := &Ptr{O: ip.newObj(hv)}
					_, err := ip.Run(fn, []AV{recv}, nil)
					runs++
					describe := func() string {
						var ss []string
						for i := range ins {
							mx := "(open)"
							if !ins[i].implicit {
								mx = fmt.Sprint(ins[i].max.code)
							}
							ss = append(ss, fmt.Sprintf("ref%d=[%d,%s", i, ins[i].min.code, mx))
						}
						return strings.Join(ss, " ")
					}
					if err != nil {
						if _, isOOD := err.(oodError); isOOD {
							oodWhy = err.Error()
							break
						}
						if firstBad == "" {
							firstBad = fmt.Sprintf("%s: %v", describe(), err)
						}
						continue
					}
					// read back
					after, okS := recv.load().(*StructV).F[sliceIdx].(*SliceV)
					if !okS || after.Hi-after.Lo != n {
						if firstBad == "" {
							firstBad = fmt.Sprintf("%s: the reference list has %d entries afterwards", describe(), sliceLen(recv.load().(*StructV).F[sliceIdx]))
						}
						continue
					}
					seen := map[int]bool{}
					for _, e := range after.elems() {
						p, okP := e.(*Ptr)
						if !okP {
							if firstBad == "" {
								firstBad = describe() + ": a nil reference afterwards"
							}
							continue
						}
						idx := -1
						for i, cptr := range cells {
							if cptr.(*Ptr).O == p.O {
								idx = i
							}
						}
						if idx < 0 || seen[idx] {
							if firstBad == "" {
								firstBad = describe() + ": the list no longer holds each reference exactly once"
							}
							continue
						}
						seen[idx] = true
						ref := p.load().(*StructV)
						rng := ref.F[ll.refLevelIx].(*StructV)
						gotMin := rng.F[ll.minIdx].(*StructV)
						gotMax := rng.F[ll.maxIdx].(*StructV)
						wantMax := ins[idx].max
						if ins[idx].implicit {
							best := int64(-1)
							for j := range ins {
								if ins[j].min.code > ins[idx].min.code && (best < 0 || ins[j].min.code < best) {
									best = ins[j].min.code
								}
							}
							if best >= 0 {
								wantMax = levelInfo{best, fmt.Sprintf("L%d", best)}
							}
						}
						if avInt(gotMin.F[ll.codeIdx]) != ins[idx].min.code && firstBad == "" {
							firstBad = fmt.Sprintf("%s: lower bound of ref%d becomes %d", describe(), idx, avInt(gotMin.F[ll.codeIdx]))
						}
						if !avEqual(gotMax, ll.level(ip, wantMax.code, wantMax.name)) && firstBad == "" {
							firstBad = fmt.Sprintf("%s (sort places equal keys %s): ref%d ends at %d, want %d", describe(), map[bool]string{false: "in input order", true: "in reverse input order"}[anti], idx, avInt(gotMax.F[ll.codeIdx]), wantMax.code)
						}
					}
				}
			}
		}
	}
	r.Count("chain_evaluations", runs)
	switch {
	case oodWhy != "":
		r.Inconclusive(key, "%s", oodWhy)
		return false, false
	case firstBad != "":
		r.Fail(key, c.pos(fn.Pos()), "sort-and-chain computes a wrong range: %s", firstBad)
		return true, false
	}
	r.OK(key, "%d evaluations: every assignment of lower bounds to 1–4 references (all weak orderings × declaration orders) × every open/explicit pattern × both placements of equal keys by the sort: an open reference ends at the next strictly higher lower bound of the same list (MAX if none), explicit upper bounds and all lower bounds are unchanged, equal lower bounds share one range, no reference is lost or duplicated", runs)
	return true, true
}

func sortedKeys(m map[string]AV) []string {
	var ks []string
	for k := range m {
		ks = append(ks, k)
	}
	sort.Strings(ks)
	return ks
}

// harnessPanic: a modelled panic that more likely comes from an incomplete environment built by the evaluation than
// from the code under analysis (a nil field the evaluation did not know how to fill).
func harnessPanic(err error) bool {
	pe, ok := err.(panicError)
	if !ok {
		return false
	}
	return strings.Contains(pe.why, "nil pointer dereference") || strings.Contains(pe.why, "method call on nil interface") || strings.Contains(pe.why, "interface conversion") || strings.Contains(pe.why, "call of nil function")
}
