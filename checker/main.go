package main

import (
	"encoding/json"
	"flag"
	"fmt"
	"os"
	"os/exec"
	"path/filepath"
	"runtime"
	"runtime/debug"
	"sort"
	"strconv"
	"strings"
	"sync"
	"time"
)

type ruleFn func(c *Ctx, r *Report)

var rules = map[string]ruleFn{}

func register(id string, f ruleFn) { rules[id] = f }

var matrixTargets = [][2]string{{"linux", "386"}, {"windows", "amd64"}, {"darwin", "arm64"}}

func main() {
	prop := flag.String("prop", "", "property id (C01..C20)")
	tier := flag.String("tier", "quick", "quick|thorough")
	repo := flag.String("repo", "/repo", "repository root")
	verif := flag.String("verif", "/verif", "verif root (known findings, evidence, variants)")
	noWrite := flag.Bool("nowrite", false, "do not write evidence/replay files")
	oblsJSON := flag.Bool("obls-json", false, "print obligations as JSON (for the variant self-test)")
	goos := flag.String("goos", "", "GOOS override")
	goarch := flag.String("goarch", "", "GOARCH override")
	replay := flag.String("replay", "", "replay file: re-evaluate and print only the obligations listed there")
	flag.Parse()
	start := time.Now()
	// go/packages resolves "go" through this process's PATH: pin the toolchain
	os.Setenv("PATH", "/opt/veriftools/go1.26.8/bin:"+os.Getenv("PATH"))
	os.Setenv("GOTOOLCHAIN", "local")
	os.Unsetenv("GOWORK")
	seed, _ := strconv.Atoi(os.Getenv("VERIF_SEED"))

	// watchdog: an analysis that does not finish is an undecided result, never a silent pass
	limit := 240 * time.Second
	if *tier == "thorough" {
		limit = 40 * time.Minute
	}
	time.AfterFunc(limit, func() {
		fmt.Printf("UNDECIDED  %s.internal:timeout  analysis did not finish within %s\n", *prop, limit)
		fmt.Printf("VIOLATION property=%s replay=%s\n", *prop, filepath.Join(*verif, "replays", *prop+"-timeout.json"))
		os.Exit(1)
	})
	// several properties can share one load (-prop C01,C02,...): used by the tools, not by the registered commands
	props := strings.Split(*prop, ",")
	if len(props) > 1 {
		c, err := loadRepo(LoadOpts{Repo: *repo, GOOS: *goos, GOARCH: *goarch})
		exit := 0
		for _, p := range props {
			rf, ok := rules[p]
			if !ok {
				fmt.Printf("unknown property %q\n", p)
				os.Exit(2)
			}
			r := newReport(p, *tier)
			if err != nil {
				r.Undecided(p+".internal:load", "", "cannot load %s: %v", *repo, err)
			} else {
				runRule(rf, c, r)
			}
			if e := r.finish(finishOpts{verifDir: *verif, start: start, seed: seed, noWrite: *noWrite}); e > exit {
				exit = e
			}
		}
		os.Exit(exit)
	}
	rf, ok := rules[*prop]
	if !ok {
		fmt.Printf("unknown property %q\n", *prop)
		os.Exit(2)
	}
	r := newReport(*prop, *tier)
	c, err := loadRepo(LoadOpts{Repo: *repo, GOOS: *goos, GOARCH: *goarch})
	if err != nil {
		r.Undecided(*prop+".internal:load", "", "cannot load %s: %v", *repo, err)
	} else {
		runRule(rf, c, r)
		if !*oblsJSON && *goos == "" {
			runCanaries(rf, r, *repo)
		}
	}
	if *oblsJSON {
		r.applyDecisions() // what the parent's self-test must see is the verdict, not the raw shape-rule results
		b, _ := json.Marshal(r.Obls)
		fmt.Printf("OBLS-JSON %s\n", b)
	}
	if *replay != "" {
		replayFilter(r, *replay)
	}
	if *tier == "thorough" && err == nil {
		thorough(rf, r, *repo, *verif)
	}
	os.Exit(r.finish(finishOpts{verifDir: *verif, start: start, seed: seed, noWrite: *noWrite}))
}

// runRule evaluates a rule; a panic inside the analysis is an undecided obligation, never a pass.
func runRule(rf ruleFn, c *Ctx, r *Report) {
	defer func() {
		if e := recover(); e != nil {
			if os.Getenv("VCHECK_DEBUG") != "" {
				fmt.Fprintf(os.Stderr, "PANIC %v\n%s\n", e, debug.Stack())
			}
			r.Undecided(r.Prop+".internal:panic", "", "analysis panicked: %v", e)
			if os.Getenv("VCHECK_DEBUG") != "" {
				panic(e)
			}
		}
	}()
	rf(c, r)
}

func replayFilter(r *Report, path string) {
	b, err := os.ReadFile(path)
	if err != nil {
		fmt.Printf("cannot read replay file: %v\n", err)
		return
	}
	var rp struct {
		Failing []Obligation `json:"failing"`
	}
	_ = json.Unmarshal(b, &rp)
	want := map[string]bool{}
	for _, f := range rp.Failing {
		want[f.Key] = true
	}
	for _, ob := range r.Obls {
		if want[ob.Key] {
			fmt.Printf("REPLAY %s: now %s — %s %s\n", ob.Key, ob.Status, ob.Pos, ob.Detail)
			delete(want, ob.Key)
		}
	}
	for k := range want {
		fmt.Printf("REPLAY %s: obligation no longer produced on this tree\n", k)
	}
}

// thorough adds the build matrix and the seeded-variant self-test.
func thorough(rf ruleFn, r *Report, repo, verif string) {
	// obligations of the primary configuration (before matrix/self-test additions), canaries excluded
	for _, ob := range r.Obls {
		if !strings.Contains(ob.Key, ".canary:") && !strings.Contains(ob.Key, "whole-program") {
			r.baseObls++
		}
	}
	// 1. build matrix
	for _, t := range matrixTargets {
		cell := t[0] + "/" + t[1]
		c, err := loadRepo(LoadOpts{Repo: repo, GOOS: t[0], GOARCH: t[1]})
		if err != nil {
			r.Undecided(r.Prop+".matrix:"+cell, "", "cannot load under %s: %v", cell, err)
			continue
		}
		sub := newReport(r.Prop, r.Tier)
		runRule(rf, c, sub)
		counts := map[string]int{}
		for _, ob := range sub.Obls {
			counts[string(ob.Status)]++
			if ob.Status == Violated || ob.Status == Undecided {
				// same key as on the primary configuration => already reported; otherwise add
				dup := false
				for _, m := range r.Obls {
					if m.Key == ob.Key && m.Status == ob.Status {
						dup = true
					}
				}
				if !dup {
					o2 := *ob
					o2.Key = ob.Key + "@" + cell
					r.add(&o2)
				}
			}
		}
		counts["obligations"] = len(sub.Obls)
		r.Matrix[cell] = counts
	}
	// 2. seeded variants
	selfTest(r, repo, verif)
}

type variantMeta struct {
	Kind   string   // break | keep
	File   string   // patch path
	Expect []string // obligation key prefixes that must be violated (break)
}

func selfTest(r *Report, repo, verif string) {
	var vs []variantMeta
	for _, kind := range []string{"break", "keep"} {
		files, _ := filepath.Glob(filepath.Join(verif, "variants", kind, r.Prop+"-*.patch"))
		if kind == "keep" {
			// behaviour-preserving variants that apply to every property (renames of unexported identifiers)
			all, _ := filepath.Glob(filepath.Join(verif, "variants", kind, "ALL-*.patch"))
			files = append(files, all...)
			// behaviour-preserving refactorings written by independent maintainers-for-a-day (not generated by mkvariants.py)
			// every one of them must leave every property's check silent, whichever property its author had in mind
			// — those written for this property, and those that touch a file the property is anchored in (a change to
			// other files cannot alter what this property's rules and evaluators look at beyond what the ALL-renames
			// variants and the regression tool tools/regress.sh — every patch against every property — already cover)
			ext, _ := filepath.Glob(filepath.Join(verif, "variants", "keep-ext", "*.patch"))
			anch := anchorFiles(verif, r.Prop)
			for _, f := range ext {
				if strings.HasPrefix(filepath.Base(f), r.Prop+"-") || touchesAny(f, anch) {
					files = append(files, f)
				}
			}
		}
		sort.Strings(files)
		for _, f := range files {
			m := variantMeta{Kind: kind, File: f}
			b, _ := os.ReadFile(f)
			for _, ln := range strings.Split(string(b), "\n") {
				if strings.HasPrefix(ln, "# expect:") {
					m.Expect = append(m.Expect, strings.TrimSpace(strings.TrimPrefix(ln, "# expect:")))
				}
			}
			vs = append(vs, m)
		}
	}
	r.SelfTest = []map[string]any{}
	if len(vs) == 0 {
		return
	}
	self, _ := os.Executable()
	baseObls := r.baseObls
	results := make([]map[string]any, len(vs))
	var wg sync.WaitGroup
	par := runtime.NumCPU() - 4
	if par < 4 {
		par = 4
	}
	if par > 12 {
		par = 12
	}
	sem := make(chan struct{}, par)
	for i, v := range vs {
		wg.Add(1)
		go func(i int, v variantMeta) {
			defer wg.Done()
			sem <- struct{}{}
			defer func() { <-sem }()
			results[i] = runVariant(self, r.Prop, repo, verif, v, baseObls)
		}(i, v)
	}
	wg.Wait()
	for i, res := range results {
		r.SelfTest = append(r.SelfTest, res)
		name := filepath.Base(vs[i].File)
		switch res["outcome"] {
		case "ok":
			r.OK(r.Prop+".selftest:"+vs[i].Kind+"/"+name, "%v", res["detail"])
		case "skipped":
			r.Notes = append(r.Notes, fmt.Sprintf("variant %s skipped: %v", name, res["detail"]))
		default:
			r.Undecided(r.Prop+".selftest:"+vs[i].Kind+"/"+name, "", "rule self-test failed: %v", res["detail"])
		}
	}
}

// anchorFiles: the files property prop is anchored in (properties.jsonl).
func anchorFiles(verif, prop string) map[string]bool {
	out := map[string]bool{}
	b, err := os.ReadFile(filepath.Join(verif, "properties.jsonl"))
	if err != nil {
		return out
	}
	for _, ln := range strings.Split(string(b), "\n") {
		var p struct {
			ID      string `json:"id"`
			Anchors struct {
				Files []string `json:"files"`
			} `json:"anchors"`
		}
		if json.Unmarshal([]byte(ln), &p) == nil && p.ID == prop {
			for _, f := range p.Anchors.Files {
				out[f] = true
			}
		}
	}
	return out
}

// touchesAny: the patch changes one of the files (an empty set means: unknown, take the patch).
func touchesAny(patch string, files map[string]bool) bool {
	if len(files) == 0 {
		return true
	}
	b, err := os.ReadFile(patch)
	if err != nil {
		return true
	}
	for _, ln := range strings.Split(string(b), "\n") {
		if rest, ok := strings.CutPrefix(ln, "+++ b/"); ok {
			if f, _, _ := strings.Cut(rest, "\t"); files[strings.TrimSpace(f)] {
				return true
			}
		}
	}
	return false
}

func runVariant(self, prop, repo, verif string, v variantMeta, baseObls int) map[string]any {
	res := map[string]any{"variant": filepath.Base(v.File), "kind": v.Kind}
	base := os.Getenv("TMPDIR")
	if base == "" {
		base = "/var/tmp"
	}
	dir, err := os.MkdirTemp(base, "vcheck-variant-")
	if err != nil {
		res["outcome"], res["detail"] = "skipped", err.Error()
		return res
	}
	defer os.RemoveAll(dir)
	cp := exec.Command("rsync", "-a", "--exclude", ".git", "--exclude", "logs", "--exclude", "benchmarks", repo+"/", dir+"/")
	if out, err := cp.CombinedOutput(); err != nil {
		res["outcome"], res["detail"] = "skipped", fmt.Sprintf("copy failed: %v %s", err, out)
		return res
	}
	ap := exec.Command("patch", "-p1", "--no-backup-if-mismatch", "-s", "-f", "-i", v.File)
	ap.Dir = dir
	if out, err := ap.CombinedOutput(); err != nil {
		res["outcome"], res["detail"] = "skipped", fmt.Sprintf("patch does not apply to the current tree: %s", strings.TrimSpace(string(out)))
		return res
	}
	cmd := exec.Command(self, "-prop", prop, "-tier", "quick", "-repo", dir, "-verif", verif, "-nowrite", "-obls-json")
	out, _ := cmd.CombinedOutput()
	var obls []Obligation
	for _, ln := range strings.Split(string(out), "\n") {
		if strings.HasPrefix(ln, "OBLS-JSON ") {
			_ = json.Unmarshal([]byte(strings.TrimPrefix(ln, "OBLS-JSON ")), &obls)
		}
	}
	if obls == nil {
		res["outcome"], res["detail"] = "fail", "no obligations returned: "+lastLines(string(out), 3)
		return res
	}
	known, _ := loadKnown(filepath.Join(verif, "known_findings.json"))
	isKnown := func(k string) bool {
		for _, f := range known.Findings {
			if f.Property == prop && f.Key == k {
				return true
			}
		}
		return false
	}
	var bad []string
	for _, ob := range obls {
		if (ob.Status == Violated && !isKnown(ob.Key)) || ob.Status == Undecided {
			bad = append(bad, ob.Key)
		}
	}
	if v.Kind == "keep" {
		if strings.HasPrefix(filepath.Base(v.File), "ALL-") && baseObls > 0 && len(obls) != baseObls {
			res["outcome"], res["detail"] = "fail", fmt.Sprintf("a behaviour-preserving rename changes the number of obligations from %d to %d: some rule lost (or gained) an anchor", baseObls, len(obls))
			return res
		}
		if len(bad) > 0 {
			res["outcome"], res["detail"] = "fail", fmt.Sprintf("behaviour-preserving variant raised %v", bad)
		} else {
			res["outcome"], res["detail"] = "ok", fmt.Sprintf("silent on behaviour-preserving variant (%d obligations)", len(obls))
		}
		return res
	}
	// break
	if len(bad) == 0 {
		res["outcome"], res["detail"] = "fail", "breaking variant was not reported"
		return res
	}
	for _, e := range v.Expect {
		if !strings.HasPrefix(e, prop) {
			continue // expectations about other properties are checked by those properties' own runs
		}
		hit := false
		for _, b := range bad {
			if strings.HasPrefix(b, e) {
				hit = true
			}
		}
		if !hit {
			res["outcome"], res["detail"] = "fail", fmt.Sprintf("expected a report with key prefix %q, got %v", e, bad)
			return res
		}
	}
	res["outcome"], res["detail"] = "ok", fmt.Sprintf("reported as %v", bad)
	return res
}

func lastLines(s string, n int) string {
	ls := strings.Split(strings.TrimSpace(s), "\n")
	if len(ls) > n {
		ls = ls[len(ls)-n:]
	}
	return strings.Join(ls, " | ")
}
