package main

// rules_tags.go: C18 (tag language and registry).

import (
	"fmt"
	"go/constant"
	"go/token"
	"go/types"
	"sort"
	"strings"

	"golang.org/x/tools/go/ssa"
)

func init() { register("C18", checkC18) }

// tagValidator finds the predicate func(string) bool whose true edge guards the
// store into the tag registry inside RegisterTag.
func (c *Ctx) tagValidator() (*ssa.Function, *ssa.Function) {
	reg := c.logFunc("RegisterTag")
	if reg == nil {
		return nil, nil
	}
	var val *ssa.Function
	eachInstr(reg, func(in ssa.Instruction) {
		call, ok := in.(*ssa.Call)
		if !ok {
			return
		}
		f := call.Common().StaticCallee()
		if f == nil || !c.inModule(f) {
			return
		}
		sig := f.Signature
		if sig.Params().Len() == 1 && isStringType(sig.Params().At(0).Type()) && sig.Results().Len() == 1 {
			if b, ok := sig.Results().At(0).Type().Underlying().(*types.Basic); ok && b.Kind() == types.Bool {
				// used as a branch condition
				if refs := call.Referrers(); refs != nil {
					for _, r := range *refs {
						switch r.(type) {
						case *ssa.If, *ssa.UnOp:
							val = f
						}
					}
				}
			}
		}
	})
	return reg, val
}

// byteOutcome simulates fn from block `from` under the assumption cv == v and
// reports where control goes: "false"/"true" (constant bool return), "continue"
// (back to a block dominating cv's block, i.e. next loop iteration), "exit"
// (left the loop without returning) or "unknown" (a branch not decided by cv).
func byteOutcome(c *Ctx, fn *ssa.Function, cv ssa.Value, v int64, r *Report) string {
	ev := &Evaluator{Assume: func(x ssa.Value, fr *Frame) (constant.Value, bool) {
		if x == cv {
			return constant.MakeInt64(v), true
		}
		return nil, false
	}}
	home := cv.(ssa.Instruction).Block()
	b := home
	steps := 0
	for {
		steps++
		if steps > 200 {
			return "unknown"
		}
		last := b.Instrs[len(b.Instrs)-1]
		switch x := last.(type) {
		case *ssa.Return:
			if len(x.Results) == 1 {
				if k, ok := ev.eval(x.Results[0], nil, nil); ok && k.Kind() == constant.Bool {
					if constant.BoolVal(k) {
						return "true"
					}
					return "false"
				}
			}
			return "return?"
		case *ssa.Jump:
			nb := b.Succs[0]
			if nb == home || nb.Dominates(home) {
				return "continue"
			}
			b = nb
		case *ssa.If:
			k, ok := ev.eval(x.Cond, nil, nil)
			if !ok || k.Kind() != constant.Bool {
				// a condition that does not depend on the byte at all ends the per-byte region
				// (loop latch, next check); one that mixes the byte with other data is undecided
				if !dependsOn(x.Cond, cv, 0) {
					return "exit"
				}
				return "unknown"
			}
			nb := b.Succs[1]
			if constant.BoolVal(k) {
				nb = b.Succs[0]
			}
			if nb == home || nb.Dominates(home) {
				return "continue"
			}
			b = nb
		default:
			return "unknown"
		}
	}
}

// dependsOn reports whether v is computed from src (operand closure, phis included).
func dependsOn(v, src ssa.Value, _ int) bool {
	seen := map[ssa.Value]bool{}
	var rec func(v ssa.Value) bool
	rec = func(v ssa.Value) bool {
		if v == src {
			return true
		}
		if seen[v] {
			return false
		}
		seen[v] = true
		in, ok := v.(ssa.Instruction)
		if !ok {
			return false
		}
		for _, op := range in.Operands(nil) {
			if *op != nil && rec(*op) {
				return true
			}
		}
		return false
	}
	return rec(v)
}

func setDesc(vals []int) string {
	sort.Ints(vals)
	var parts []string
	for i := 0; i < len(vals); {
		j := i
		for j+1 < len(vals) && vals[j+1] == vals[j]+1 {
			j++
		}
		f := func(b int) string {
			if b >= 0x21 && b < 0x7f {
				return fmt.Sprintf("%q", rune(b))
			}
			return fmt.Sprintf("0x%02x", b)
		}
		if i == j {
			parts = append(parts, f(vals[i]))
		} else {
			parts = append(parts, f(vals[i])+"-"+f(vals[j]))
		}
		i = j + 1
	}
	return "{" + strings.Join(parts, ",") + "}"
}

func checkC18(c *Ctx, r *Report) {
	if c.checkTagSemantics(r, c.roles(r), "C18.name-values") {
		r.Decide([]string{"C18.alphabet:", "C18.length:", "C18.coverage:", "C18.segments:", "C18.register:", "C18.anchor:"}, nil, "tag names evaluated through RegisterTag over the listed domain")
	}
	r.Explanation = "decided: the per-byte test of the tag validator accepts exactly [a-z0-9_] (value-set analysis over all 256 byte values); the length guard accepts exactly 3..36 (all order types of len against the compared constants); the segment test is Split(TrimPrefix(tag,\"_\"),\"_\") with 1..4 segments and no empty segment (recognised family; anything else is undecided); RegisterTag stores into the registry only after the not-initialised guard and the validator's true edge, only on the miss branch, and is the only writer; GetAllTags returns the registry's keys; BuildTag concatenates with \"_\" and the three helpers pass app/biz/rpc. Not decided: equivalence of segment tests outside the recognised family."
	r.Undecidedcl = []string{"segment rule written outside the recognised Split/TrimPrefix family"}
	r.Assumptions = []string{"strings.Split/TrimPrefix and slices.Contains contracts"}
	reg, val := c.tagValidator()
	if reg == nil || val == nil {
		r.Undecided("C18.anchor:validator", "", "RegisterTag or its string predicate not found")
		return
	}
	r.SawFunc(reg)
	r.SawFunc(val)
	tagP := val.Params[0]

	// --- alphabet
	var byteVals []ssa.Value
	eachInstr(val, func(in ssa.Instruction) {
		switch x := in.(type) {
		case *ssa.Lookup:
			if x.X == tagP {
				byteVals = append(byteVals, x)
			}
		case *ssa.Index:
			byteVals = append(byteVals, x)
		}
	})
	if len(byteVals) == 0 {
		// range over string yields runes: next/extract
		r.Undecided("C18.alphabet:"+fname(val), c.pos(val.Pos()), "no per-byte read of the tag found (validator not in the byte-loop idiom)")
	}
	for _, bv := range byteVals {
		key := "C18.alphabet:" + fname(val)
		var acc, unk []int
		for v := 0; v < 256; v++ {
			switch byteOutcome(c, val, bv, int64(v), r) {
			case "continue", "exit":
				acc = append(acc, v)
			case "false":
			default:
				unk = append(unk, v)
			}
		}
		r.Count("byte_values_evaluated", 256)
		want := []int{}
		for v := 0; v < 256; v++ {
			if v >= 'a' && v <= 'z' || v >= '0' && v <= '9' || v == '_' {
				want = append(want, v)
			}
		}
		if len(unk) > 0 {
			r.Undecided(key, c.instrPos(bv.(ssa.Instruction)), "per-byte test not decided by the byte alone for %s", setDesc(unk))
		} else if setDesc(acc) != setDesc(want) {
			r.Fail(key, c.instrPos(bv.(ssa.Instruction)), "accepted byte set is %s, specification is %s", setDesc(acc), setDesc(want))
		} else {
			r.OK(key, "accepted byte set %s = [a-z0-9_], every other byte returns false (256 values)", setDesc(acc))
		}
	}

	// --- coverage: the byte loop visits every index 0..len(tag)-1
	for _, bv := range byteVals {
		key := "C18.coverage:" + fname(val)
		var idxV ssa.Value
		switch lk := bv.(type) {
		case *ssa.Lookup:
			idxV = lk.Index
		case *ssa.Index:
			if lk.X == tagP {
				idxV = lk.Index
			}
		}
		if idxV == nil {
			r.Undecided(key, c.instrPos(bv.(ssa.Instruction)), "byte read is not tag[i]")
			continue
		}
		phi, ok := idxV.(*ssa.Phi)
		good := false
		why := "index is not a loop counter"
		if ok && len(phi.Edges) == 2 {
			var start, step ssa.Value
			for _, e := range phi.Edges {
				if k, isK := constInt(e); isK && start == nil {
					_ = k
					start = e
				} else {
					step = e
				}
			}
			if start != nil && step != nil {
				k0, _ := constInt(start)
				bo, isB := step.(*ssa.BinOp)
				if k0 != 0 {
					why = fmt.Sprintf("loop starts at index %d, not 0", k0)
				} else if !isB || bo.Op != token.ADD || bo.X != phi {
					why = "loop step is not i+1"
				} else if k1, ok1 := constInt(bo.Y); !ok1 || k1 != 1 {
					why = "loop step is not i+1"
				} else {
					// the back edge is taken while next < len(tag)
					why = "loop bound is not len(tag)"
					if refs := bo.Referrers(); refs != nil {
						for _, rr := range *refs {
							if cmp, isC := rr.(*ssa.BinOp); isC && cmp.Op == token.LSS && cmp.X == bo {
								if call, isL := cmp.Y.(*ssa.Call); isL {
									if b, isBu := call.Call.Value.(*ssa.Builtin); isBu && b.Name() == "len" && call.Call.Args[0] == tagP {
										good = true
									}
								}
							}
						}
					}
				}
			}
		}
		if good {
			r.OK(key, "byte loop runs i = 0,1,…,len(tag)-1 (counter starts at 0, step 1, bound len(tag))")
		} else {
			r.Fail(key, c.instrPos(bv.(ssa.Instruction)), "the alphabet test does not cover every byte of the tag: %s", why)
		}
	}

	// --- length interval: evaluate the whole predicate with len(tag) fixed; a length is
	// rejected iff every exit returns false.
	var lenCalls []ssa.Value
	consts := map[int64]bool{0: true}
	eachInstr(val, func(in ssa.Instruction) {
		if call, ok := in.(*ssa.Call); ok {
			if b, ok := call.Call.Value.(*ssa.Builtin); ok && b.Name() == "len" && call.Call.Args[0] == tagP {
				lenCalls = append(lenCalls, call)
			}
		}
	})
	isLen := func(v ssa.Value) bool {
		for _, l := range lenCalls {
			if l == v {
				return true
			}
		}
		return false
	}
	eachInstr(val, func(in ssa.Instruction) {
		if b, ok := in.(*ssa.BinOp); ok {
			if isLen(b.X) {
				if k, ok := constInt(b.Y); ok {
					consts[k] = true
				}
			}
			if isLen(b.Y) {
				if k, ok := constInt(b.X); ok {
					consts[k] = true
				}
			}
		}
	})
	key := "C18.length:" + fname(val)
	if len(lenCalls) == 0 {
		r.Fail(key, c.pos(val.Pos()), "validator never inspects len(tag)")
	} else {
		pts := map[int64]bool{}
		for k := range consts {
			for _, d := range []int64{-1, 0, 1} {
				if k+d >= 0 {
					pts[k+d] = true
				}
			}
		}
		pts[3], pts[2], pts[36], pts[37], pts[20] = true, true, true, true, true
		var accepted []int
		for n := range pts {
			ts := &TS{C: c, Ev: &Evaluator{Assume: func(x ssa.Value, fr *Frame) (constant.Value, bool) {
				if isLen(x) {
					return constant.MakeInt64(n), true
				}
				return nil, false
			}}}
			outs := ts.Run(val, "", nil)
			r.Count("typestate_states", ts.States)
			allFalse := true
			for _, o := range outs {
				if !(o.Kind == "return" && len(o.Ret) == 1 && o.Ret[0] != nil && o.Ret[0].Kind() == constant.Bool && !constant.BoolVal(o.Ret[0])) {
					allFalse = false
				}
			}
			if !allFalse {
				accepted = append(accepted, int(n))
			}
		}
		sort.Ints(accepted)
		bad := ""
		for n := range pts {
			in := n >= 3 && n <= 36
			got := false
			for _, a := range accepted {
				if int64(a) == n {
					got = true
				}
			}
			if in != got {
				bad += fmt.Sprintf(" len=%d accepted=%v;", n, got)
			}
		}
		if bad != "" {
			r.Fail(key, c.pos(val.Pos()), "length guard differs from [3,36]:%s", bad)
		} else {
			r.OK(key, "length accepted exactly on [3,36] at all %d order-type representatives %v", len(pts), accepted)
		}
	}

	// --- segments
	c.checkSegments(r, val, tagP)

	// --- registry
	c.checkTagRegistry(r, reg, val)
}

func (c *Ctx) checkSegments(r *Report, val *ssa.Function, tagP *ssa.Parameter) {
	key := "C18.segments:" + fname(val)
	var split *ssa.Call
	eachInstr(val, func(in ssa.Instruction) {
		if call, ok := in.(*ssa.Call); ok && calleeIs(call, "strings", "", "Split") {
			split = call
		}
	})
	if split == nil {
		r.Undecided(key, c.pos(val.Pos()), "segment test is not in the recognised strings.Split family")
		return
	}
	fr := &Frame{Fn: val}
	sep, _ := constString(split.Call.Args[1])
	src := c.prov(split.Call.Args[0], fr).eff()
	lead := ""
	switch {
	case src.Kind == "path" && src.Name == "param:"+tagP.Name():
		lead = "none"
	case src.isCall("strings.TrimPrefix") && src.Args[0].eff().Name == "param:"+tagP.Name():
		if s, ok := src.Args[1].constString(); ok && s == "_" {
			lead = "one"
		}
	case src.isCall("strings.TrimLeft") || src.isCall("strings.Trim"):
		lead = "many"
	}
	if sep != "_" {
		r.Fail(key, c.instrPos(split), "segments are split on %q, specification is \"_\"", sep)
		return
	}
	switch lead {
	case "one":
	case "none":
		r.Fail(key, c.instrPos(split), "the optional single leading underscore is not stripped before splitting: names with a leading underscore are rejected")
		return
	case "many":
		r.Fail(key, c.instrPos(split), "all leading underscores are stripped: names with two or more leading underscores are accepted")
		return
	default:
		r.Undecided(key, c.instrPos(split), "split operand outside the recognised family: %s", src)
		return
	}
	// count interval via len(ss)
	var lenSS []ssa.Value
	var contains []ssa.Value
	eachInstr(val, func(in ssa.Instruction) {
		call, ok := in.(*ssa.Call)
		if !ok {
			return
		}
		if b, ok := call.Call.Value.(*ssa.Builtin); ok && b.Name() == "len" && call.Call.Args[0] == split {
			lenSS = append(lenSS, call)
		}
		if f := call.Common().StaticCallee(); f != nil && f.Origin() != nil && funcIs(f, "slices", "", "Contains") && call.Call.Args[0] == split {
			if s, ok := constString(call.Call.Args[1]); ok && s == "" {
				contains = append(contains, call)
			}
		}
	})
	if len(contains) == 0 {
		r.Undecided(key, c.instrPos(split), "empty-segment rejection not in the recognised form slices.Contains(ss, \"\")")
		return
	}
	in := func(vs []ssa.Value, x ssa.Value) bool {
		for _, v := range vs {
			if v == x {
				return true
			}
		}
		return false
	}
	// evaluate outcomes from the split onwards: assume the prefix guards passed by only looking at exits
	// reachable when len(ss)=n and Contains=b; a combination is accepted iff some exit returns true.
	bad := ""
	for n := int64(0); n <= 6; n++ {
		for _, hasEmpty := range []bool{false, true} {
			ts := &TS{C: c, Ev: &Evaluator{Assume: func(x ssa.Value, fr *Frame) (constant.Value, bool) {
				if in(lenSS, x) {
					return constant.MakeInt64(n), true
				}
				if in(contains, x) {
					return constant.MakeBool(hasEmpty), true
				}
				return nil, false
			}}}
			outs := ts.Run(val, "", nil)
			r.Count("typestate_states", ts.States)
			acc := false
			for _, o := range outs {
				if o.Kind == "return" && len(o.Ret) == 1 && o.Ret[0] != nil && o.Ret[0].Kind() == constant.Bool && constant.BoolVal(o.Ret[0]) {
					acc = true
				}
				if o.Kind == "return" && len(o.Ret) == 1 && o.Ret[0] == nil {
					acc = true // non-constant return: may accept
				}
			}
			want := n >= 1 && n <= 4 && !hasEmpty
			if n == 0 {
				continue // Split never returns 0 segments for a non-empty separator
			}
			if acc != want {
				bad += fmt.Sprintf(" segments=%d empty=%v accepted=%v;", n, hasEmpty, acc)
			}
		}
	}
	if bad != "" {
		r.Fail(key, c.instrPos(split), "segment rule differs from 1..4 non-empty segments:%s", bad)
		return
	}
	r.OK(key, "Split(TrimPrefix(tag,\"_\"),\"_\"): accepted iff 1..4 segments and none empty (12 combinations)")
}

func (c *Ctx) checkTagRegistry(r *Report, reg, val *ssa.Function) {
	g := c.names().TagRegistry
	if g == nil {
		// find by type: package-level map[string]*Tag
		for _, m := range c.LogS.Members {
			if gg, ok := m.(*ssa.Global); ok {
				if mp, ok := gg.Type().(*types.Pointer).Elem().Underlying().(*types.Map); ok {
					if p, ok := mp.Elem().(*types.Pointer); ok {
						if n, ok := p.Elem().(*types.Named); ok && n.Obj().Name() == "Tag" {
							g = gg
						}
					}
				}
			}
		}
	}
	if g == nil {
		r.Undecided("C18.register:registry", "", "tag registry (package-level map[string]*Tag) not found")
		return
	}
	// writers
	type upd struct {
		in *ssa.MapUpdate
		fn *ssa.Function
	}
	var upds []upd
	for _, f := range c.Funcs {
		eachInstr(f, func(in ssa.Instruction) {
			if mu, ok := in.(*ssa.MapUpdate); ok {
				if ld, ok := mu.Map.(*ssa.UnOp); ok && ld.X == g {
					upds = append(upds, upd{mu, f})
				}
			}
		})
	}
	// also deletes / reassignments of the map
	for _, f := range c.Funcs {
		eachInstr(f, func(in ssa.Instruction) {
			if st, ok := in.(*ssa.Store); ok && st.Addr == g {
				r.Fail("C18.register:writers→"+fname(f), c.instrPos(in), "tag registry reassigned outside its initialiser")
			}
			if call, ok := in.(*ssa.Call); ok {
				if b, ok := call.Call.Value.(*ssa.Builtin); ok && (b.Name() == "delete" || b.Name() == "clear") && len(call.Call.Args) > 0 {
					if ld, ok := call.Call.Args[0].(*ssa.UnOp); ok && ld.X == g {
						r.Fail("C18.register:writers→"+fname(f), c.instrPos(in), "tag registry entries removed")
					}
				}
			}
		})
	}
	key := "C18.register:" + fname(reg)
	if len(upds) != 1 || upds[0].fn != reg {
		var where []string
		for _, u := range upds {
			where = append(where, fname(u.fn))
		}
		r.Fail(key, c.pos(reg.Pos()), "expected exactly one store into the tag registry, in RegisterTag; found %v", where)
		return
	}
	mu := upds[0].in
	gs := guardsOfInstr(mu)
	var haveInit, haveValid, haveMiss bool
	for _, gd := range gs {
		if call, ok := gd.Cond.(*ssa.Call); ok && call.Common().StaticCallee() == val {
			if gd.Polarity {
				haveValid = true
			}
			continue
		}
		p := c.prov(gd.Cond, &Frame{Fn: reg}).eff()
		switch {
		case p.Kind == "path" && p.Name == c.names().InitFlag && !gd.Polarity:
			haveInit = true
		case p.Kind == "call" && gd.Cond.(ssa.Value) != nil:
			if call, ok := gd.Cond.(*ssa.Call); ok && call.Common().StaticCallee() == val && gd.Polarity {
				haveValid = true
			}
		case p.Kind == "extract" && p.Name == "#1" && !gd.Polarity:
			// comma-ok of the registry lookup
			if lk, ok := p.Args[0].V.(*ssa.Lookup); ok && lk.CommaOk {
				if ld, ok := lk.X.(*ssa.UnOp); ok && ld.X == g {
					haveMiss = true
				}
			}
		}
	}
	// key stored is the validated parameter, value is a fresh Tag with tag field = the same string
	sameKey := mu.Key == reg.Params[0]
	var miss []string
	if !haveInit {
		miss = append(miss, "not dominated by the !initialised guard")
	}
	if !haveValid {
		miss = append(miss, "not dominated by the validator's true edge")
	}
	if !haveMiss {
		miss = append(miss, "not restricted to the registry-miss branch (re-registration would replace the tag)")
	}
	if !sameKey {
		miss = append(miss, "stored under a key other than the validated name")
	}
	if len(miss) > 0 {
		r.Fail(key, c.instrPos(mu), "registry store: %s", strings.Join(miss, "; "))
	} else {
		r.OK(key, "single registry store, dominated by !init, validator true edge and lookup miss; key is the validated parameter")
	}
	// the failing edges of both guards panic
	for _, b := range reg.Blocks {
		_ = b
	}
	nPanic := 0
	eachInstr(reg, func(in ssa.Instruction) {
		if _, ok := in.(*ssa.Panic); ok {
			nPanic++
		}
	})
	if nPanic >= 2 {
		r.OK("C18.register:panics", "%d panic exits (initialised, invalid name)", nPanic)
	} else {
		r.Fail("C18.register:panics", c.pos(reg.Pos()), "expected panics for 'already initialised' and 'invalid name', found %d", nPanic)
	}
	// returned tag: the looked-up value or the stored one
	// GetAllTags returns keys of the registry
	if ga := c.logFunc("GetAllTags"); ga != nil {
		r.SawFunc(ga)
		ok := false
		eachInstr(ga, func(in ssa.Instruction) {
			if ret, isR := in.(*ssa.Return); isR && len(ret.Results) == 1 {
				p := c.prov(ret.Results[0], &Frame{Fn: ga}).eff()
				if p.Kind == "call" && strings.Contains(p.Name, "MapKeys") && len(p.Args) == 1 && p.Args[0].eff().Name == "global:"+g.Name() {
					ok = true
				}
				if p.Kind == "call" && strings.Contains(p.Name, "maps.Keys") {
					ok = true
				}
			}
		})
		if ok {
			r.OK("C18.register:GetAllTags", "returns the keys of the registry")
		} else {
			r.Undecided("C18.register:GetAllTags", c.pos(ga.Pos()), "result is not recognisably the registry's key set")
		}
	}
	// BuildTag shape and helpers
	if bt := c.logFunc("BuildTag"); bt != nil {
		r.SawFunc(bt)
		okAll := true
		n := 0
		eachInstr(bt, func(in ssa.Instruction) {
			ret, isR := in.(*ssa.Return)
			if !isR {
				return
			}
			n++
			p := c.prov(ret.Results[0], &Frame{Fn: bt}).eff()
			var shape []string
			if p.Kind == "concat" {
				for _, a := range p.Args {
					if s, ok := a.constString(); ok {
						shape = append(shape, fmt.Sprintf("%q", s))
					} else {
						shape = append(shape, a.String())
					}
				}
			}
			s := strings.Join(shape, " ")
			for i, pn := range []string{"mainType", "subType", "action"} {
				if i < len(bt.Params) {
					s = strings.ReplaceAll(s, "param:"+bt.Params[i].Name(), "param:"+pn)
				}
			}
			if s != `"_" param:mainType "_" param:subType` && s != `"_" param:mainType "_" param:subType "_" param:action` {
				okAll = false
				r.Fail("C18.register:BuildTag", c.instrPos(ret), "built tag shape is [%s]", s)
			}
			// the action is left out only when it is empty: dropping a non-empty action makes two different
			// documented names collapse into one tag
			if s == `"_" param:mainType "_" param:subType` && len(bt.Params) == 3 {
				established := false
				for _, g := range guardsOfInstr(ret) {
					if stringEmptyOnEdge(g.Cond, g.Polarity, bt.Params[2]) {
						established = true
					}
				}
				if !established {
					okAll = false
					r.Fail("C18.register:BuildTag#omits", c.instrPos(ret), "the two-part name is returned on a path that does not establish that the action is empty: a non-empty action is dropped from the tag name")
				}
			}
		})
		// the builder refuses only an empty subType: any further refusal rejects names the validator accepts
		nPanic, nOK := 0, 0
		eachInstr(bt, func(in ssa.Instruction) {
			if _, isP := in.(*ssa.Panic); !isP {
				return
			}
			nPanic++
			gs := guardsOfInstr(in)
			if len(gs) == 1 {
				if b, isB := gs[0].Cond.(*ssa.BinOp); isB && b.Op == token.EQL && gs[0].Polarity && b.X == ssa.Value(bt.Params[1]) {
					if k, isK := constString(b.Y); isK && k == "" {
						nOK++
					}
				}
			}
		})
		if nPanic != nOK {
			okAll = false
			r.Fail("C18.register:BuildTag#refusals", c.pos(bt.Pos()), "BuildTag panics under a condition other than an empty subType (%d of %d panic sites): names that the validator accepts are refused by the app/biz/rpc helpers", nPanic-nOK, nPanic)
		}
		if okAll && n == 2 {
			r.OK("C18.register:BuildTag", "two shapes: _main_sub and _main_sub_action")
		} else if okAll {
			r.Fail("C18.register:BuildTag", c.pos(bt.Pos()), "expected 2 return shapes, found %d", n)
		}
		want := map[string]string{"RegisterAppTag": "app", "RegisterBizTag": "biz", "RegisterRPCTag": "rpc"}
		for name, main := range want {
			f := c.logFunc(name)
			if f == nil {
				r.Undecided("C18.register:"+name, "", "helper not found")
				continue
			}
			r.SawFunc(f)
			ok := false
			eachInstr(f, func(in ssa.Instruction) {
				if call, isC := in.(*ssa.Call); isC && call.Common().StaticCallee() == bt {
					if s, isS := constString(call.Call.Args[0]); isS && s == main && call.Call.Args[1] == f.Params[0] && call.Call.Args[2] == f.Params[1] {
						// result goes to RegisterTag and is returned
						ok = true
					}
				}
			})
			if ok {
				r.OK("C18.register:"+name, "BuildTag(%q, subType, action) → RegisterTag", main)
			} else {
				r.Fail("C18.register:"+name, c.pos(f.Pos()), "helper does not build its tag as BuildTag(%q, subType, action)", main)
			}
		}
	}
	_ = token.ADD
}

// stringEmptyOnEdge: taking cond with the given polarity establishes p == "" (comparisons with the empty constant or
// tests of len(p) against 0/1).
func stringEmptyOnEdge(cond ssa.Value, pol bool, p ssa.Value) bool {
	for {
		u, ok := cond.(*ssa.UnOp)
		if !ok || u.Op != token.NOT {
			break
		}
		cond, pol = u.X, !pol
	}
	b, ok := cond.(*ssa.BinOp)
	if !ok {
		return false
	}
	op := b.Op
	x, y := b.X, b.Y
	flip := map[token.Token]token.Token{token.LSS: token.GTR, token.GTR: token.LSS, token.LEQ: token.GEQ, token.GEQ: token.LEQ, token.EQL: token.EQL, token.NEQ: token.NEQ}
	negate := map[token.Token]token.Token{token.LSS: token.GEQ, token.GEQ: token.LSS, token.GTR: token.LEQ, token.LEQ: token.GTR, token.EQL: token.NEQ, token.NEQ: token.EQL}
	if _, ok := flip[op]; !ok {
		return false
	}
	// normalise to: subject OP constant
	isSubj := func(v ssa.Value) (kind string) {
		if v == p {
			return "str"
		}
		if call, ok := v.(*ssa.Call); ok {
			if bi, ok := call.Call.Value.(*ssa.Builtin); ok && bi.Name() == "len" && call.Call.Args[0] == p {
				return "len"
			}
		}
		return ""
	}
	kind := isSubj(x)
	if kind == "" {
		if kind = isSubj(y); kind == "" {
			return false
		}
		x, y = y, x
		op = flip[op]
	}
	_ = x
	if !pol {
		op = negate[op]
	}
	switch kind {
	case "str":
		k, ok := constString(y)
		if !ok || k != "" {
			return false
		}
		return op == token.EQL || op == token.LEQ // s == "" ; s <= ""
	case "len":
		k, ok := constInt(y)
		if !ok {
			return false
		}
		return (op == token.EQL && k == 0) || (op == token.LEQ && k == 0) || (op == token.LSS && k == 1)
	}
	return false
}
