package main

// More models of pure library functions for the partial evaluator (strconv, math, unicode/utf8, bytes, time,
// sync/atomic typed values, encoding/json through a hook). Each model calls the real library function on the
// concrete arguments: the library is the trusted base, the module's code is what is being evaluated.

import (
	"encoding/json"
	"go/constant"
	"go/token"
	"go/types"
	"io/fs"
	"math"
	"math/bits"
	"path/filepath"
	"sort"
	"strconv"
	"strings"
	"time"
	"unicode/utf8"

	"github.com/go-spring/stdlib/flatten"
	"golang.org/x/tools/go/ssa"
)

func avBytes(v AV) []byte {
	switch x := v.(type) {
	case NilV:
		return nil
	case *SliceV:
		out := make([]byte, 0, x.Hi-x.Lo)
		for i := x.Lo; i < x.Hi; i++ {
			out = append(out, byte(avInt(x.B.cells[i].V)))
		}
		return out
	case constant.Value:
		return []byte(avStr(x))
	}
	ood("[]byte expected, got %s", avString(v))
	return nil
}

func (ip *Interp) bytesAV(b []byte) AV {
	es := make([]AV, len(b))
	for i, c := range b {
		es[i] = kInt(int64(c))
	}
	if len(es) == 0 {
		return &SliceV{B: &backing{}, Lo: 0, Hi: 0, Cap: 0}
	}
	return ip.mkSlice(es)
}

func avFloat(v AV) float64 {
	switch x := v.(type) {
	case *FloatV:
		return x.F
	case constant.Value:
		f, _ := constant.Float64Val(constant.ToFloat(x))
		return f
	}
	ood("float expected, got %s", avString(v))
	return 0
}

func avUint(v AV) uint64 {
	k, ok := v.(constant.Value)
	if !ok || k.Kind() != constant.Int {
		ood("integer expected, got %s", avString(v))
	}
	if u, exact := constant.Uint64Val(k); exact {
		return u
	}
	i, _ := constant.Int64Val(k)
	return uint64(i)
}

func kUint(u uint64) AV { return constant.MakeUint64(u) }

func atomKey(p *Ptr) string {
	s := strconv.Itoa(p.O.id)
	for _, i := range p.Path {
		s += "." + strconv.Itoa(i)
	}
	return s
}

func (ip *Interp) model2(fn *ssa.Function, name string, args []AV) (AV, bool) {
	if r, ok := ip.modelStorage(fn, name, args); ok {
		return r, true
	}
	if r, ok := ip.modelReflect(fn, name, args); ok {
		return r, true
	}
	if r, ok := ip.modelParse(name, args); ok {
		return r, true
	}
	s := func(i int) string { return avStr(args[i]) }
	n := func(i int) int { return int(avInt(args[i])) }
	switch name {
	// ---- strconv
	case "strconv.FormatInt":
		return kStr(strconv.FormatInt(avInt(args[0]), n(1))), true
	case "strconv.FormatUint":
		return kStr(strconv.FormatUint(avUint(args[0]), n(1))), true
	case "strconv.FormatBool":
		return kStr(strconv.FormatBool(avBool(args[0]))), true
	case "strconv.FormatFloat":
		return kStr(strconv.FormatFloat(avFloat(args[0]), byte(n(1)), n(2), n(3))), true
	case "strconv.AppendInt":
		return ip.bytesAV(strconv.AppendInt(avBytes(args[0]), avInt(args[1]), n(2))), true
	case "strconv.AppendUint":
		return ip.bytesAV(strconv.AppendUint(avBytes(args[0]), avUint(args[1]), n(2))), true
	case "strconv.AppendBool":
		return ip.bytesAV(strconv.AppendBool(avBytes(args[0]), avBool(args[1]))), true
	case "strconv.AppendFloat":
		return ip.bytesAV(strconv.AppendFloat(avBytes(args[0]), avFloat(args[1]), byte(n(2)), n(3), n(4))), true
	case "strconv.AppendQuote":
		return ip.bytesAV(strconv.AppendQuote(avBytes(args[0]), s(1))), true
	case "strconv.Atoi":
		v, err := strconv.Atoi(s(0))
		if err != nil {
			return TupleV{kInt(0), ip.errVal(err.Error())}, true
		}
		return TupleV{kInt(int64(v)), NilV{}}, true
	// ---- io/fs.FileMode
	case "(io/fs.FileMode).IsDir":
		return kBool(avUint(args[0])&(1<<31) != 0), true
	case "(io/fs.FileMode).IsRegular":
		return kBool(fs.FileMode(avUint(args[0])).IsRegular()), true
	case "(io/fs.FileMode).Type":
		return kUint(uint64(fs.FileMode(avUint(args[0])).Type())), true
	case "(io/fs.FileMode).Perm":
		return kUint(uint64(fs.FileMode(avUint(args[0])).Perm())), true
	// ---- math/bits
	case "math/bits.OnesCount64":
		return kInt(int64(bits.OnesCount64(avUint(args[0])))), true
	case "math/bits.OnesCount32":
		return kInt(int64(bits.OnesCount32(uint32(avUint(args[0]))))), true
	case "math/bits.OnesCount":
		return kInt(int64(bits.OnesCount(uint(avUint(args[0]))))), true
	case "math/bits.TrailingZeros64":
		return kInt(int64(bits.TrailingZeros64(avUint(args[0])))), true
	case "math/bits.TrailingZeros32":
		return kInt(int64(bits.TrailingZeros32(uint32(avUint(args[0]))))), true
	case "math/bits.TrailingZeros":
		return kInt(int64(bits.TrailingZeros(uint(avUint(args[0]))))), true
	case "math/bits.LeadingZeros64":
		return kInt(int64(bits.LeadingZeros64(avUint(args[0])))), true
	case "math/bits.LeadingZeros32":
		return kInt(int64(bits.LeadingZeros32(uint32(avUint(args[0]))))), true
	case "math/bits.Len64":
		return kInt(int64(bits.Len64(avUint(args[0])))), true
	case "math/bits.Len32":
		return kInt(int64(bits.Len32(uint32(avUint(args[0]))))), true
	case "math/bits.Len":
		return kInt(int64(bits.Len(uint(avUint(args[0]))))), true
	case "math/bits.RotateLeft32":
		return kUint(uint64(bits.RotateLeft32(uint32(avUint(args[0])), n(1)))), true
	case "math/bits.RotateLeft64":
		return kUint(bits.RotateLeft64(avUint(args[0]), n(1))), true
	// ---- math
	case "math.IsNaN":
		return kBool(math.IsNaN(avFloat(args[0]))), true
	case "math.IsInf":
		return kBool(math.IsInf(avFloat(args[0]), n(1))), true
	case "math.Float64bits":
		return kUint(math.Float64bits(avFloat(args[0]))), true
	case "math.Float64frombits":
		return &FloatV{F: math.Float64frombits(avUint(args[0]))}, true
	case "math.Float32bits":
		return kUint(uint64(math.Float32bits(float32(avFloat(args[0]))))), true
	case "math.Float32frombits":
		return &FloatV{F: float64(math.Float32frombits(uint32(avUint(args[0]))))}, true
	case "math.Abs":
		return &FloatV{F: math.Abs(avFloat(args[0]))}, true
	case "math.Inf":
		return &FloatV{F: math.Inf(n(0))}, true
	case "math.NaN":
		return &FloatV{F: math.NaN()}, true
	case "math.Signbit":
		return kBool(math.Signbit(avFloat(args[0]))), true
	// ---- unicode/utf8
	case "unicode/utf8.AppendRune":
		return ip.bytesAV(utf8.AppendRune(avBytes(args[0]), rune(n(1)))), true
	case "unicode/utf8.RuneLen":
		return kInt(int64(utf8.RuneLen(rune(n(0))))), true
	case "unicode/utf8.DecodeRune":
		r, sz := utf8.DecodeRune(avBytes(args[0]))
		return TupleV{kInt(int64(r)), kInt(int64(sz))}, true
	case "unicode/utf8.ValidRune":
		return kBool(utf8.ValidRune(rune(n(0)))), true
	case "unicode/utf8.FullRuneInString":
		return kBool(utf8.FullRuneInString(s(0))), true
	case "unicode/utf8.RuneStart":
		return kBool(utf8.RuneStart(byte(n(0)))), true
	case "unicode/utf8.Valid":
		return kBool(utf8.Valid(avBytes(args[0]))), true
	// ---- bytes / slices / strings helpers
	case "bytes.Clone", "slices.Clone":
		if _, isNil := args[0].(NilV); isNil {
			return NilV{}, true
		}
		if sv, ok := args[0].(*SliceV); ok {
			return ip.mkSlice(sv.elems()), true
		}
		ood("%s of %s", name, avString(args[0]))
	case "bytes.NewBuffer":
		return &Ptr{O: ip.newObj(&BufV{S: append([]byte{}, avBytes(args[0])...)})}, true
	case "bytes.NewBufferString":
		return &Ptr{O: ip.newObj(&BufV{S: []byte(s(0))})}, true
	case "strings.ToValidUTF8":
		return kStr(strings.ToValidUTF8(s(0), s(1))), true
	case "strings.IndexFunc", "strings.Map":
		ood("%s", name)
	case "github.com/go-spring/stdlib/ordered.MapKeys", "maps.Keys", "slices.Sorted":
		if name == "github.com/go-spring/stdlib/ordered.MapKeys" {
			m, ok := args[0].(*MapV)
			if !ok {
				if _, isNil := args[0].(NilV); isNil {
					return NilV{}, true
				}
				ood("MapKeys of %s", avString(args[0]))
			}
			var ks []string
			for _, k := range m.Keys {
				u, err := strconv.Unquote(k)
				if err != nil {
					ood("map key")
				}
				ks = append(ks, u)
			}
			sort.Strings(ks)
			return strSlice(ip, ks), true
		}
		if name == "maps.Keys" {
			m, ok := args[0].(*MapV)
			if !ok {
				return &SeqV{}, true
			}
			ip.MapOrderUsed = true
			var items []AV
			ks := append([]string{}, m.Keys...)
			sort.Sort(sort.Reverse(sort.StringSlice(ks))) // an arbitrary (here: descending) order
			for _, k := range ks {
				u, err := strconv.Unquote(k)
				if err != nil {
					ood("map key")
				}
				items = append(items, kStr(u))
			}
			return &SeqV{Items: items}, true
		}
		if sq, ok := args[0].(*SeqV); ok { // slices.Sorted over strings
			var ss []string
			for _, it := range sq.Items {
				ss = append(ss, avStr(it))
			}
			sort.Strings(ss)
			return strSlice(ip, ss), true
		}
		ood("%s", name)
	case "maps.Values":
		m, ok := args[0].(*MapV)
		if !ok {
			return &SeqV{}, true
		}
		ip.MapOrderUsed = true
		ks := append([]string{}, m.Keys...)
		sort.Strings(ks)
		if ip.MapDesc {
			for i, j := 0, len(ks)-1; i < j; i, j = i+1, j-1 {
				ks[i], ks[j] = ks[j], ks[i]
			}
		}
		var items []AV
		for _, k := range ks {
			items = append(items, copyVal(m.M[k]))
		}
		return &SeqV{Items: items}, true
	case "slices.Values":
		if sv, ok := args[0].(*SliceV); ok {
			return &SeqV{Items: sv.elems()}, true
		}
		return &SeqV{}, true
	case "slices.AppendSeq", "slices.Collect":
		var cur []AV
		seqArg := args[len(args)-1]
		if name == "slices.AppendSeq" {
			if sv, ok := args[0].(*SliceV); ok {
				cur = sv.elems()
			}
		}
		sq, ok := seqArg.(*SeqV)
		if !ok {
			// an iterator written in the module (func(yield func(T) bool)): the generic library body is evaluated instead
			// (package slices is interpreted like module code)
			return nil, false
		}
		cur = append(cur, sq.Items...)
		if len(cur) == 0 {
			return args[0], true
		}
		return ip.mkSlice(cur), true
	case "maps.Clone", "maps.clone":
		if mv, ok := args[0].(*MapV); ok {
			nm := &MapV{M: map[string]AV{}, Keys: append([]string{}, mv.Keys...), Zero: mv.Zero, KeyV: map[string]AV{}}
			for k, v := range mv.M {
				nm.M[k] = copyVal(v)
			}
			for k, v := range mv.KeyV {
				nm.KeyV[k] = v
			}
			return nm, true
		}
		return args[0], true
	case "slices.Grow", "slices.Clip":
		return args[0], true
	case "sort.Strings", "slices.Sort":
		if sv, ok := args[0].(*SliceV); ok {
			ss := avStrings(sv)
			sort.Strings(ss)
			for i, v := range ss {
				sv.B.cells[sv.Lo+i].V = kStr(v)
			}
		}
		return TupleV{}, true
	// ---- encoding/json through the rule's hook
	case "encoding/json.Marshal":
		if ip.OnMarshal == nil {
			ood("json.Marshal")
		}
		b, err := ip.OnMarshal(ip, args[0])
		ip.Trace = append(ip.Trace, "json.Marshal")
		if err != nil {
			return TupleV{NilV{}, ip.errVal(err.Error())}, true
		}
		return TupleV{ip.bytesAV(b), NilV{}}, true
	case "encoding/json.Valid":
		return kBool(json.Valid(avBytes(args[0]))), true
	// ---- time
	case "(time.Time).Format":
		return kStr(ip.timeOf(args[0]).T.Format(s(1))), true
	case "(time.Time).AppendFormat":
		return ip.bytesAV(ip.timeOf(args[0]).T.AppendFormat(avBytes(args[1]), s(2))), true
	case "(time.Time).Nanosecond":
		return kInt(int64(ip.timeOf(args[0]).T.Nanosecond())), true
	case "(time.Time).Unix":
		return kInt(ip.timeOf(args[0]).T.Unix()), true
	case "(time.Time).UnixNano":
		return kInt(ip.timeOf(args[0]).T.UnixNano()), true
	case "(time.Time).UnixMilli":
		return kInt(ip.timeOf(args[0]).T.UnixMilli()), true
	case "(time.Time).Truncate":
		return &TimeV{T: ip.timeOf(args[0]).T.Truncate(time.Duration(avInt(args[1])))}, true
	case "(time.Time).Add":
		return &TimeV{T: ip.timeOf(args[0]).T.Add(time.Duration(avInt(args[1])))}, true
	case "(time.Time).Sub":
		return kInt(int64(ip.timeOf(args[0]).T.Sub(ip.timeOf(args[1]).T))), true
	case "(time.Time).Before":
		return kBool(ip.timeOf(args[0]).T.Before(ip.timeOf(args[1]).T)), true
	case "(time.Time).After":
		return kBool(ip.timeOf(args[0]).T.After(ip.timeOf(args[1]).T)), true
	case "(time.Time).Equal":
		return kBool(ip.timeOf(args[0]).T.Equal(ip.timeOf(args[1]).T)), true
	case "(time.Time).Compare":
		return kInt(int64(ip.timeOf(args[0]).T.Compare(ip.timeOf(args[1]).T))), true
	case "time.Parse":
		t, err := time.Parse(s(0), s(1))
		if err != nil {
			return TupleV{&TimeV{}, ip.errVal(err.Error())}, true
		}
		return TupleV{&TimeV{T: t}, NilV{}}, true
	case "time.ParseInLocation":
		// the scripted world lives in UTC: time.Local and time.UTC are the same zone here
		t, err := time.ParseInLocation(s(0), s(1), time.UTC)
		if err != nil {
			return TupleV{&TimeV{}, ip.errVal(err.Error())}, true
		}
		return TupleV{&TimeV{T: t}, NilV{}}, true
	case "time.Since":
		if ip.Clock != nil {
			return kInt(int64(ip.Clock().Sub(ip.timeOf(args[0]).T))), true
		}
		ood("time.Since without a clock")
	case "path/filepath.Join":
		return kStr(filepath.Join(avStrings(args[0])...)), true
	case "path/filepath.Base":
		return kStr(filepath.Base(s(0))), true
	case "path/filepath.Dir":
		return kStr(filepath.Dir(s(0))), true
	case "(time.Time).IsZero":
		return kBool(ip.timeOf(args[0]).T.IsZero()), true
	case "(time.Time).Date":
		y, m, d := ip.timeOf(args[0]).T.Date()
		return TupleV{kInt(int64(y)), kInt(int64(m)), kInt(int64(d))}, true
	case "(time.Time).Clock":
		h, m, sec := ip.timeOf(args[0]).T.Clock()
		return TupleV{kInt(int64(h)), kInt(int64(m)), kInt(int64(sec))}, true
	case "(time.Time).Year":
		return kInt(int64(ip.timeOf(args[0]).T.Year())), true
	case "(time.Time).Month":
		return kInt(int64(ip.timeOf(args[0]).T.Month())), true
	case "(time.Time).Day":
		return kInt(int64(ip.timeOf(args[0]).T.Day())), true
	case "(time.Time).Hour":
		return kInt(int64(ip.timeOf(args[0]).T.Hour())), true
	case "(time.Time).Minute":
		return kInt(int64(ip.timeOf(args[0]).T.Minute())), true
	case "(time.Time).Second":
		return kInt(int64(ip.timeOf(args[0]).T.Second())), true
	}
	// ---- sync.Mutex / RWMutex with a single thread of control: a second Lock is a self-deadlock
	if strings.HasPrefix(name, "(*sync.Mutex).") || strings.HasPrefix(name, "(*sync.RWMutex).") {
		p, ok := args[0].(*Ptr)
		if !ok {
			ood("mutex receiver")
		}
		if ip.Atomics == nil {
			ip.Atomics = map[string]AV{}
		}
		k := "mutex:" + atomKey(p)
		held := 0
		if v, ok := ip.Atomics[k]; ok {
			held = int(avInt(v))
		}
		if ip.Sched != nil && ip.Sched.cur != nil && (fn.Name() == "Lock" || fn.Name() == "RLock") {
			// another task may hold it: wait for it (a task waiting for itself never gets on and shows as parked for good)
			owner := "mutexowner:" + atomKey(p)
			me := kInt(int64(ip.Sched.cur.ID))
			for {
				held = 0
				if v, ok := ip.Atomics[k]; ok {
					held = int(avInt(v))
				}
				if held == 0 || (fn.Name() == "RLock" && held > 0) {
					break
				}
				if o, ok := ip.Atomics[owner]; ok && avEqual(o, me) {
					rtPanic("self-deadlock: %s on a mutex this goroutine already holds (the call blocks forever)", fn.Name())
				}
				ip.Sched.park("mutex held by another goroutine")
			}
			if fn.Name() == "Lock" {
				ip.Atomics[owner] = me
			}
		}
		switch fn.Name() {
		case "Lock":
			if held != 0 {
				rtPanic("self-deadlock: Lock on a mutex this call path already holds (the call blocks forever)")
			}
			ip.Atomics[k] = kInt(-1)
			return TupleV{}, true
		case "RLock":
			if held < 0 {
				rtPanic("self-deadlock: RLock on a mutex this call path holds for writing")
			}
			ip.Atomics[k] = kInt(int64(held + 1))
			return TupleV{}, true
		case "Unlock":
			if held >= 0 {
				rtPanic("unlock of unlocked mutex")
			}
			ip.Atomics[k] = kInt(0)
			return TupleV{}, true
		case "RUnlock":
			if held <= 0 {
				rtPanic("RUnlock of unlocked RWMutex")
			}
			ip.Atomics[k] = kInt(int64(held - 1))
			return TupleV{}, true
		case "TryLock":
			if held != 0 {
				return kBool(false), true
			}
			ip.Atomics[k] = kInt(-1)
			return kBool(true), true
		}
	}
	// ---- function-style atomics on an addressable integer cell (single thread of control at a time)
	if strings.HasPrefix(name, "sync/atomic.") && len(args) > 0 {
		if p, ok := args[0].(*Ptr); ok {
			op := strings.TrimPrefix(name, "sync/atomic.")
			for _, sfx := range []string{"Int64", "Int32", "Uint64", "Uint32", "Uintptr"} {
				if !strings.HasSuffix(op, sfx) {
					continue
				}
				t := fn.Signature.Params().At(0).Type().(*types.Pointer).Elem()
				cur, _ := p.load().(constant.Value)
				if cur == nil {
					cur = constant.MakeInt64(0)
				}
				fit := func(k constant.Value) AV {
					v, ok := convertConst(k, t)
					if !ok {
						ood("atomic arithmetic")
					}
					return v
				}
				switch strings.TrimSuffix(op, sfx) {
				case "Load":
					return cur, true
				case "Store":
					p.store(args[1])
					return TupleV{}, true
				case "Add":
					nv := fit(constant.BinaryOp(cur, token.ADD, args[1].(constant.Value)))
					p.store(nv)
					return nv, true
				case "Swap":
					p.store(args[1])
					return cur, true
				case "CompareAndSwap":
					if constant.Compare(cur, token.EQL, args[1].(constant.Value)) {
						p.store(args[2])
						return kBool(true), true
					}
					return kBool(false), true
				}
			}
		}
	}
	if strings.HasPrefix(name, "(*sync.WaitGroup).") {
		p, ok := args[0].(*Ptr)
		if !ok {
			ood("WaitGroup receiver")
		}
		if ip.Atomics == nil {
			ip.Atomics = map[string]AV{}
		}
		k := "wg:" + atomKey(p)
		cnt := int64(0)
		if v, ok := ip.Atomics[k]; ok {
			cnt = avInt(v)
		}
		switch fn.Name() {
		case "Add":
			cnt += avInt(args[1])
			if cnt < 0 {
				rtPanic("sync: negative WaitGroup counter")
			}
			ip.Atomics[k] = kInt(cnt)
			return TupleV{}, true
		case "Done":
			if cnt-1 < 0 {
				rtPanic("sync: negative WaitGroup counter")
			}
			ip.Atomics[k] = kInt(cnt - 1)
			return TupleV{}, true
		case "Go":
			if ip.Sched == nil {
				ood("(*sync.WaitGroup).Go without a scheduler")
			}
			ip.Atomics[k] = kInt(cnt + 1)
			fv := args[1]
			ip.Sched.Spawn("wg.Go", func() {
				defer func() {
					c2 := avInt(ip.Atomics[k])
					ip.Atomics[k] = kInt(c2 - 1)
				}()
				ip.apply(nil, fv, nil)
			})
			return TupleV{}, true
		case "Wait":
			if ip.Sched == nil {
				if cnt == 0 {
					return TupleV{}, true
				}
				ood("(*sync.WaitGroup).Wait without a scheduler")
			}
			for avInt(ip.Atomics[k]) != 0 {
				ip.Sched.park("WaitGroup.Wait")
			}
			return TupleV{}, true
		}
	}
	if name == "(*sync.Once).Do" {
		p, ok := args[0].(*Ptr)
		if !ok {
			ood("once receiver")
		}
		if ip.Atomics == nil {
			ip.Atomics = map[string]AV{}
		}
		k := "once:" + atomKey(p)
		if _, done := ip.Atomics[k]; !done {
			ip.Atomics[k] = kInt(1)
			ip.apply(nil, args[1], nil)
		}
		return TupleV{}, true
	}
	// ---- sync/atomic typed values: (*atomic.Int64).Load etc. on an addressable cell
	if recv := fn.Signature.Recv(); recv != nil && strings.HasPrefix(name, "(*sync/atomic.") && len(args) > 0 {
		p, ok := args[0].(*Ptr)
		if !ok {
			ood("atomic receiver")
		}
		if ip.Atomics == nil {
			ip.Atomics = map[string]AV{}
		}
		k := atomKey(p)
		cur, has := ip.Atomics[k]
		if !has {
			switch {
			case strings.Contains(recv.Type().String(), "Bool"):
				cur = kBool(false)
			case strings.Contains(recv.Type().String(), "Pointer"), strings.Contains(recv.Type().String(), "Value"):
				cur = NilV{}
			default:
				cur = kInt(0)
			}
		}
		if strings.HasSuffix(recv.Type().String(), "atomic.Value") {
			// Store, Swap and CompareAndSwap panic on nil and on a value whose dynamic type differs from the first one stored
			dyn := func(v AV) string {
				iv, ok := v.(*IfaceV)
				if !ok {
					ood("atomic.Value holding %s", avString(v))
				}
				if sym, isSym := iv.V.(*Sym); isSym && types.Identical(iv.T, types.Universe.Lookup("error").Type()) {
					if sym.Kind == "" {
						ood("atomic.Value holding an error whose dynamic type the model does not know")
					}
					return sym.Kind
				}
				return types.TypeString(iv.T, nil)
			}
			var nv AV
			switch fn.Name() {
			case "Store", "Swap":
				nv = args[1]
			case "CompareAndSwap":
				nv = args[2]
			}
			if nv != nil {
				if isNilAV(nv) {
					rtPanic("sync/atomic: %s of nil value into Value", strings.ToLower(fn.Name()))
				}
				if !isNilAV(cur) && dyn(cur) != dyn(nv) {
					rtPanic("sync/atomic: %s of inconsistently typed value into Value (%s after %s)", strings.ToLower(fn.Name()), dyn(nv), dyn(cur))
				}
			}
		}
		switch fn.Name() {
		case "Load":
			return cur, true
		case "Store":
			ip.Atomics[k] = args[1]
			return TupleV{}, true
		case "Add":
			nv := kInt(avInt(cur) + avInt(args[1]))
			ip.Atomics[k] = nv
			return nv, true
		case "Swap":
			ip.Atomics[k] = args[1]
			return cur, true
		case "CompareAndSwap":
			if avEqual(cur, args[1]) {
				ip.Atomics[k] = args[2]
				return kBool(true), true
			}
			return kBool(false), true
		}
	}
	// ---- more bytes.Buffer methods
	if fn.Signature.Recv() != nil && len(args) > 0 {
		if p, isP := args[0].(*Ptr); isP {
			if b, isB := peekBuf(p); isB {
				switch fn.Name() {
				case "Cap":
					return kInt(int64(max(64, len(b.S)+b.Spare))), true
				case "Available":
					return kInt(int64(b.Spare)), true
				case "AvailableBuffer":
					return &SliceV{B: &backing{aliasBuf: b, aliasBase: len(b.S), aliasCap: b.Spare}, Lo: 0, Hi: 0, Cap: b.Spare}, true
				}
			}
		}
	}
	return nil, false
}

func (ip *Interp) timeOf(v AV) *TimeV {
	if t, ok := v.(*TimeV); ok {
		return t
	}
	ood("time.Time value expected, got %s", avString(v))
	return nil
}

// errVal makes a non-nil error whose Error() is msg (resolved by the interpreter itself).
func (ip *Interp) errValKind(kind, msg string) AV {
	return &IfaceV{T: types.Universe.Lookup("error").Type(), V: &Sym{Name: "error:" + msg, Kind: kind}}
}

func (ip *Interp) errVal(msg string) AV {
	return &IfaceV{T: types.Universe.Lookup("error").Type(), V: &Sym{Name: "error:" + msg}}
}

// StorageV wraps the real flatten.Storage of go-spring/stdlib (a dependency of the analysed module; trusted library).
type StorageV struct{ S *flatten.Storage }

// ReflectV models a reflect.Value holding an abstract value (plugin instances created by a stubbed factory).
type ReflectV struct{ V AV }

func (ip *Interp) modelStorage(fn *ssa.Function, name string, args []AV) (AV, bool) {
	switch name {
	case "github.com/go-spring/stdlib/flatten.NewStorage":
		return &StorageV{S: flatten.NewStorage()}, true
	}
	if !strings.HasPrefix(name, "(*github.com/go-spring/stdlib/flatten.Storage).") {
		return nil, false
	}
	st, ok := args[0].(*StorageV)
	if !ok {
		rtPanic("nil *flatten.Storage")
	}
	switch fn.Name() {
	case "Set":
		if err := st.S.Set(avStr(args[1]), avStr(args[2]), int8(avInt(args[3]))); err != nil {
			return ip.errVal(err.Error()), true
		}
		return NilV{}, true
	case "Has":
		return kBool(st.S.Has(avStr(args[1]))), true
	case "Get":
		return kStr(st.S.Get(avStr(args[1]), avStrings(args[2])...)), true
	case "SubKeys":
		ks, err := st.S.SubKeys(avStr(args[1]))
		if err != nil {
			return TupleV{NilV{}, ip.errVal(err.Error())}, true
		}
		if len(ks) == 0 {
			return TupleV{NilV{}, NilV{}}, true
		}
		return TupleV{strSlice(ip, ks), NilV{}}, true
	case "Keys":
		return strSlice(ip, st.S.Keys()), true
	case "RawData":
		// map[string]ValueInfo: a snapshot of the storage's leaves
		mt := fn.Signature.Results().At(0).Type().Underlying().(*types.Map)
		m := &MapV{M: map[string]AV{}}
		for k, vi := range st.S.RawData() {
			e := ip.zeroOf(mt.Elem()).(*StructV)
			es := mt.Elem().Underlying().(*types.Struct)
			for i := 0; i < es.NumFields(); i++ {
				switch es.Field(i).Name() {
				case "Value":
					e.F[i] = kStr(vi.Value)
				case "File":
					e.F[i] = kInt(int64(vi.File))
				}
			}
			qk := constant.MakeString(k).ExactString()
			m.M[qk] = e
			m.Keys = append(m.Keys, qk)
		}
		sort.Strings(m.Keys)
		return m, true
	case "Data":
		m := &MapV{M: map[string]AV{}}
		for k, v := range st.S.Data() {
			qk := constant.MakeString(k).ExactString()
			m.M[qk] = kStr(v)
			m.Keys = append(m.Keys, qk)
		}
		sort.Strings(m.Keys)
		return m, true
	}
	ood("flatten.Storage.%s", fn.Name())
	return nil, false
}

// runtimeErr is the value recover() yields for a modelled run-time panic.
func (ip *Interp) runtimeErr(msg string) AV {
	return &IfaceV{T: types.Universe.Lookup("error").Type(), V: &Sym{Name: "error:runtime error: " + msg}}
}
