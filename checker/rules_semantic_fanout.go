package main

// Fan-out evaluation (P13): what the synchronous part of the delivery path does with an event of level L or with raw
// bytes, for every class of configuration — reference sets of size 0–3 in every order type and open/explicit pattern
// (after the configuration-time sort-and-chain), the logger's own range, layout on the logger or not, and event
// levels on, just below and just above every bound. Appenders, layouts, the console stream and files are opaque
// sinks that record what reaches them.
//
// Decided clauses: C01.gate-logger / C01.gate-ref / C01.once for the loggers that deliver on the caller's goroutine
// and for the fan-out helpers the asynchronous worker shares with them; C12.ungated / C12.every-ref / C12.verbatim for
// their raw Write; C01.parse (ParseLevelRange over representative spellings).

import (
	"fmt"
	"go/constant"
	"go/types"
	"sort"
	"strings"

	"golang.org/x/tools/go/ssa"
)

type sinkCall struct {
	sink   string
	method string
	arg    string
}

type fanWorld struct {
	c      *Ctx
	ro     *Roles
	ll     *levelLayout
	lg     map[*ssa.Global]levelInfo
	max    levelInfo
	eventT *types.Named
	layI   *types.Named
	chain  *ssa.Function
	pools  map[*ssa.Global]*ssa.Function
}

func (c *Ctx) newFanWorld(ro *Roles) (*fanWorld, string) {
	ew, why := c.newEntryWorld(ro)
	if ew == nil {
		return nil, why
	}
	w := &fanWorld{c: c, ro: ro, ll: ew.ll, lg: ew.lg, eventT: ew.eventT, pools: ew.poolGlobs}
	w.layI = c.logType("Layout")
	for g, li := range w.lg {
		if g.Name() == "MaxLevel" {
			w.max = li
		}
	}
	if w.max.name == "" {
		return nil, "MaxLevel initialiser not found"
	}
	w.chain = c.chainFunc(ro)
	return w, ""
}

func (w *fanWorld) newInterp(calls *[]sinkCall) *Interp {
	c := w.c
	ip := newInterp(c)
	for g, li := range w.lg {
		ip.Globals[g] = ip.newObj(w.ll.level(ip, li.code, li.name))
	}
	for g, nf := range w.pools {
		o := ip.newObj(&StructV{})
		ip.Globals[g] = o
		ip.PoolNew[o] = nf
	}
	// package-level io.Writer variables (the console stream) are sinks
	for _, m := range c.LogS.Members {
		if g, ok := m.(*ssa.Global); ok {
			if isNamed(g.Type().(*types.Pointer).Elem(), "io", "Writer") {
				ip.Globals[g] = ip.newObj(&IfaceV{T: types.NewPointer(w.eventT), V: &Sym{Name: "stream:" + g.Name()}})
			}
		}
	}
	ip.OnInvoke = func(ip *Interp, recv *Sym, method string, args []AV) (AV, bool) {
		switch method {
		case "Append":
			arg := "?"
			if p, ok := args[0].(*Ptr); ok {
				arg = fmt.Sprintf("event@%d", p.O.id)
			}
			*calls = append(*calls, sinkCall{recv.Name, "Append", arg})
			return TupleV{}, true
		case "Write":
			*calls = append(*calls, sinkCall{recv.Name, "Write", bytesDesc(args[0])})
			if strings.HasPrefix(recv.Name, "stream:") {
				return TupleV{kInt(int64(sliceLen(args[0]))), NilV{}}, true
			}
			return TupleV{}, true
		case "ToBytes":
			*calls = append(*calls, sinkCall{recv.Name, "ToBytes", ""})
			return ip.mkSlice([]AV{kInt('L'), kInt(int64(len(*calls)))}), true
		case "GetName":
			return kStr(recv.Name), true
		}
		return nil, false
	}
	ip.Ext = func(ip *Interp, callee *ssa.Function, args []AV) (AV, bool) {
		if funcIs(callee, "os", "File", "Write") {
			*calls = append(*calls, sinkCall{"file", "Write", bytesDesc(args[1])})
			return TupleV{kInt(int64(sliceLen(args[1]))), NilV{}}, true
		}
		return nil, false
	}
	return ip
}

func bytesDesc(v AV) string {
	sv, ok := v.(*SliceV)
	if !ok {
		return avString(v)
	}
	var bs []byte
	for _, e := range sv.elems() {
		k, ok := e.(constant.Value)
		if !ok {
			return "?"
		}
		i, _ := constant.Int64Val(k)
		bs = append(bs, byte(i))
	}
	return fmt.Sprintf("%q", string(bs))
}

type refSpec struct {
	min, max levelInfo
	implicit bool
	effMax   int64
}

var fanCodes = []int64{110, 250, 390}

// refSets enumerates reference sets of size 0..3: every assignment of the three lower-bound codes (all weak orderings
// × declaration orders) × every open/explicit pattern, with the effective upper bounds the specification gives.
func (w *fanWorld) refSets() [][]refSpec {
	var out [][]refSpec
	for n := 0; n <= 3; n++ {
		total := 1
		for i := 0; i < n; i++ {
			total *= n
		}
		for assign := 0; assign < total; assign++ {
			a := assign
			ranks := make([]int, n)
			for i := 0; i < n; i++ {
				ranks[i] = a % n
				a /= n
			}
			for expl := 0; expl < 1<<n; expl++ {
				rs := make([]refSpec, n)
				for i := 0; i < n; i++ {
					code := fanCodes[ranks[i]]
					rs[i].min = levelInfo{code, fmt.Sprintf("L%d", code)}
					if expl&(1<<i) != 0 {
						rs[i].max = levelInfo{code + 30, fmt.Sprintf("L%d", code+30)}
					} else {
						rs[i].max, rs[i].implicit = w.max, true
					}
				}
				for i := range rs {
					rs[i].effMax = rs[i].max.code
					if rs[i].implicit {
						best := int64(-1)
						for j := range rs {
							if rs[j].min.code > rs[i].min.code && (best < 0 || rs[j].min.code < best) {
								best = rs[j].min.code
							}
						}
						if best >= 0 {
							rs[i].effMax = best
						}
					}
				}
				out = append(out, rs)
			}
		}
	}
	return out
}

// fill sets, anywhere inside the (nested, embedded) struct value v of type t, the fields for which pick returns a value.
func fillStruct(ip *Interp, v *StructV, t types.Type, pick func(parent *types.Struct, f *types.Var) (AV, bool)) {
	st, ok := t.Underlying().(*types.Struct)
	if !ok {
		return
	}
	for i := 0; i < st.NumFields(); i++ {
		f := st.Field(i)
		if nv, ok := pick(st, f); ok {
			v.F[i] = nv
			continue
		}
		if sub, ok := v.F[i].(*StructV); ok {
			fillStruct(ip, sub, f.Type(), pick)
		}
	}
}

func (w *fanWorld) levelRange(ip *Interp, lo, hi levelInfo) *StructV {
	rg := ip.zeroOf(w.ll.rangeT).(*StructV)
	rg.F[w.ll.minIdx] = w.ll.level(ip, lo.code, lo.name)
	rg.F[w.ll.maxIdx] = w.ll.level(ip, hi.code, hi.name)
	return rg
}

// buildLogger makes a value of logger type T with the given range, layout and references, and runs the
// configuration-time chain function on its reference holder.
func (w *fanWorld) buildLogger(ip *Interp, T *types.Named, lo, hi levelInfo, withLayout bool, refs []refSpec) (*Ptr, error) {
	lv := ip.zeroOf(T).(*StructV)
	refT := w.ro.AppenderRef
	appT := types.NewPointer(refT)
	var cells []AV
	for i, rs := range refs {
		ref := ip.zeroOf(refT).(*StructV)
		ref.F[w.ll.refLevelIx] = w.levelRange(ip, rs.min, rs.max)
		if w.ll.refAppIx >= 0 {
			ref.F[w.ll.refAppIx] = &IfaceV{T: appT, V: &Sym{Name: fmt.Sprintf("appender%d", i)}}
		}
		if w.ll.refNameIx >= 0 {
			ref.F[w.ll.refNameIx] = kStr(fmt.Sprintf("ref%d", i))
		}
		cells = append(cells, &Ptr{O: ip.newObj(ref)})
	}
	var holderPath []int
	var findHolder func(t types.Type, path []int) bool
	findHolder = func(t types.Type, path []int) bool {
		st, ok := t.Underlying().(*types.Struct)
		if !ok {
			return false
		}
		for i := 0; i < st.NumFields(); i++ {
			ft := st.Field(i).Type()
			if sl, ok := ft.Underlying().(*types.Slice); ok {
				if pp, ok := sl.Elem().(*types.Pointer); ok && types.Identical(pp.Elem(), refT) {
					holderPath = append([]int{}, path...)
					return true
				}
			}
			if _, ok := ft.Underlying().(*types.Struct); ok {
				if findHolder(ft, append(append([]int{}, path...), i)) {
					return true
				}
			}
		}
		return false
	}
	hasRefs := findHolder(T, nil)
	fillStruct(ip, lv, T, func(parent *types.Struct, f *types.Var) (AV, bool) {
		ft := f.Type()
		switch {
		case types.Identical(ft, w.ll.rangeT) && f.Name() == "Level":
			return w.levelRange(ip, lo, hi), true
		case w.layI != nil && types.Identical(ft, w.layI):
			// the optional logger-level layout sits beside the logger's own range; an appender's layout is mandatory
			loggerLevel := false
			for i := 0; i < parent.NumFields(); i++ {
				if types.Identical(parent.Field(i).Type(), w.ll.rangeT) {
					loggerLevel = true
				}
			}
			if withLayout || !loggerLevel {
				return &IfaceV{T: appT, V: &Sym{Name: "layout:" + f.Name()}}, true
			}
			return NilV{}, true
		case isStringType(ft) && f.Name() == "Name":
			return kStr("thelogger"), true
		}
		if sl, ok := ft.Underlying().(*types.Slice); ok {
			if pp, ok := sl.Elem().(*types.Pointer); ok && types.Identical(pp.Elem(), refT) {
				if len(cells) == 0 {
					return NilV{}, true
				}
				return ip.mkSlice(cells), true
			}
		}
		return nil, false
	})
	lp := &Ptr{O: ip.newObj(lv)}
	if hasRefs && w.chain != nil && len(refs) > 0 {
		hp := &Ptr{O: lp.O, Path: holderPath}
		if _, err := ip.Run(w.chain, []AV{hp}, nil); err != nil {
			return nil, err
		}
	}
	return lp, nil
}

func (c *Ctx) checkFanoutSemantics(r *Report, ro *Roles, rule string) {
	w, why := c.newFanWorld(ro)
	if w == nil {
		r.Inconclusive(rule+":world", "%s", why)
		return
	}
	none := levelInfo{0, "NONE"}
	for g, li := range w.lg {
		if g.Name() == "NoneLevel" {
			none = li
		}
	}
	refSets := w.refSets()
	var levels []int64
	for _, cde := range fanCodes {
		levels = append(levels, cde-1, cde, cde+1, cde+29, cde+30, cde+31)
	}
	levels = append(levels, 0, 50, w.max.code-1, w.max.code)
	sort.Slice(levels, func(i, j int) bool { return levels[i] < levels[j] })
	var a *asyncInfo
	if ro.WorkerOwner != nil {
		a = &asyncInfo{T: ro.WorkerOwner}
	}
	for _, T := range ro.Loggers {
		if a != nil && T == a.T {
			continue // delivers through its queue: typestate rules
		}
		app, appPath := c.methodWithPath(T, "Append")
		wr, wrPath := c.methodWithPath(T, "Write")
		if app == nil || wr == nil {
			continue
		}
		// loggers that own Lifecycle children (the rolling-file logger) build their delivery path in Start: not evaluated
		ownsChildren := false
		st := T.Underlying().(*types.Struct)
		loggerI := c.logIface("Logger")
		for i := 0; i < st.NumFields(); i++ {
			if loggerI != nil && types.Identical(st.Field(i).Type().Underlying(), loggerI) {
				ownsChildren = true
			}
			// … or concrete children (an inner logger, an appender) it creates itself
			if lifeI := c.logIface("Lifecycle"); lifeI != nil && !st.Field(i).Exported() && !st.Field(i).Embedded() {
				ft := st.Field(i).Type()
				if sl, ok := ft.Underlying().(*types.Slice); ok {
					ft = sl.Elem()
				}
				if types.Implements(ft, lifeI) || types.Implements(types.NewPointer(ft), lifeI) {
					ownsChildren = true
				}
			}
		}
		if ownsChildren {
			continue
		}
		key := rule + ":" + T.Obj().Name()
		hasRefs := false
		{
			ip := w.newInterp(&[]sinkCall{})
			if _, err := w.buildLogger(ip, T, none, w.max, false, nil); err != nil {
				r.Inconclusive(key, "%v", err)
				continue
			}
			var probe func(t types.Type) bool
			probe = func(t types.Type) bool {
				s, ok := t.Underlying().(*types.Struct)
				if !ok {
					return false
				}
				for i := 0; i < s.NumFields(); i++ {
					ft := s.Field(i).Type()
					if sl, ok := ft.Underlying().(*types.Slice); ok {
						if pp, ok := sl.Elem().(*types.Pointer); ok && types.Identical(pp.Elem(), ro.AppenderRef) {
							return true
						}
					}
					if probe(ft) {
						return true
					}
				}
				return false
			}
			hasRefs = probe(T)
		}
		sets := refSets
		if !hasRefs {
			sets = [][]refSpec{nil}
		}
		runs := 0
		var bad []string
		var oodWhy string
		fail := func(format string, args ...any) {
			if len(bad) < 3 {
				bad = append(bad, fmt.Sprintf(format, args...))
			}
		}
		type lrange struct{ lo, hi levelInfo }
		lranges := []lrange{{none, w.max}, {levelInfo{250, "L250"}, levelInfo{391, "L391"}}}
	outer:
		for _, refs := range sets {
			for _, lr := range lranges {
				for _, withLayout := range []bool{false, true} {
					describe := func() string {
						var ss []string
						for i, rs := range refs {
							mx := "(open)"
							if !rs.implicit {
								mx = fmt.Sprint(rs.max.code)
							}
							ss = append(ss, fmt.Sprintf("ref%d=[%d,%s→%d", i, rs.min.code, mx, rs.effMax))
						}
						return fmt.Sprintf("logger range [%d,%d), logger layout %v, %s", lr.lo.code, lr.hi.code, withLayout, strings.Join(ss, " "))
					}
					// events
					for _, L := range levels {
						var calls []sinkCall
						ip := w.newInterp(&calls)
						lp, err := w.buildLogger(ip, T, lr.lo, lr.hi, withLayout, refs)
						if err == nil {
							ev := ip.zeroOf(w.eventT).(*StructV)
							es := w.eventT.Underlying().(*types.Struct)
							for i := 0; i < es.NumFields(); i++ {
								if types.Identical(es.Field(i).Type(), w.ll.levelT) {
									ev.F[i] = w.ll.level(ip, L, fmt.Sprintf("L%d", L))
								}
							}
							calls = nil
							_, err = ip.Run(app, []AV{&Ptr{O: lp.O, Path: appPath}, &Ptr{O: ip.newObj(ev)}}, nil)
						}
						runs++
						if err != nil {
							if _, isOOD := err.(oodError); isOOD {
								oodWhy = err.Error()
								break outer
							}
							fail("%s, event level %d: %v", describe(), L, err)
							continue
						}
						loggerOn := lr.lo.code <= L && L < lr.hi.code
						if hasRefs {
							got := map[string]int{}
							for _, cl := range calls {
								if strings.HasPrefix(cl.sink, "appender") {
									got[cl.sink+"."+cl.method]++
								}
							}
							for i, rs := range refs {
								want := 0
								if loggerOn && rs.min.code <= L && L < rs.effMax {
									want = 1
								}
								name := fmt.Sprintf("appender%d", i)
								n := got[name+".Append"] + got[name+".Write"]
								if n != want {
									fail("%s: an event of level %d reaches %s %d time(s), want %d", describe(), L, name, n, want)
								}
							}
						} else {
							n := 0
							for _, cl := range calls {
								if cl.method == "Write" && (cl.sink == "file" || strings.HasPrefix(cl.sink, "stream:")) {
									n++
								}
							}
							want := 0
							if loggerOn {
								want = 1
							}
							// a logger without a sink of its own (Discard) delivers nothing either way
							if n != want && !(n == 0 && isDiscardLike(T)) {
								fail("%s: an event of level %d is written %d time(s), want %d", describe(), L, n, want)
							}
						}
					}
					// raw bytes
					{
						var calls []sinkCall
						ip := w.newInterp(&calls)
						lp, err := w.buildLogger(ip, T, lr.lo, lr.hi, withLayout, refs)
						if err == nil {
							calls = nil
							payload := ip.mkSlice([]AV{kInt('r'), kInt('a'), kInt('w'), kInt('\n')})
							_, err = ip.Run(wr, []AV{&Ptr{O: lp.O, Path: wrPath}, payload}, nil)
						}
						runs++
						if err != nil {
							if _, isOOD := err.(oodError); isOOD {
								oodWhy = err.Error()
								break outer
							}
							fail("%s, raw write: %v", describe(), err)
							continue
						}
						if hasRefs {
							got := map[string]int{}
							for _, cl := range calls {
								if cl.method == "Write" && strings.HasPrefix(cl.sink, "appender") {
									got[cl.sink]++
									if cl.arg != `"raw\n"` {
										fail("%s: raw bytes reach %s as %s", describe(), cl.sink, cl.arg)
									}
								}
							}
							for i := range refs {
								if n := got[fmt.Sprintf("appender%d", i)]; n != 1 {
									fail("%s: raw bytes reach appender%d %d time(s), want exactly once whatever the ranges are", describe(), i, n)
								}
							}
						} else if !isDiscardLike(T) {
							n := 0
							for _, cl := range calls {
								if cl.method == "Write" && (cl.sink == "file" || strings.HasPrefix(cl.sink, "stream:")) {
									n++
									if cl.arg != `"raw\n"` {
										fail("%s: raw bytes are written as %s", describe(), cl.arg)
									}
								}
							}
							if n != 1 {
								fail("%s: raw bytes are written %d time(s), want once", describe(), n)
							}
						}
					}
				}
			}
		}
		r.Count("fanout_evaluations", runs)
		tn := T.Obj().Name()
		switch {
		case oodWhy != "":
			r.Inconclusive(key, "%s", oodWhy)
		case len(bad) > 0:
			r.Fail(key, c.pos(T.Obj().Pos()), "%s", strings.Join(bad, "; "))
		default:
			r.OK(key, "%d evaluations of Append and Write: an event reaches exactly the sinks whose effective range contains its level, once each, and none when the logger's own range excludes it; raw bytes reach every sink exactly once, unchanged, whatever the ranges", runs)
			match := func(k string) bool {
				return strings.Contains(k, ":(*"+tn+").") || strings.Contains(k, ":"+tn+".")
			}
			switch r.Prop {
			case "C01":
				r.Decide([]string{"C01.gate-logger:", "C01.gate-ref:", "C01.once:"}, match, tn+" evaluated over all reference sets, ranges and levels")
				if hasRefs {
					// counts of recognised fan-out functions / delivery chains are vacuity guards of the shape rules
					r.Decide([]string{"C01.anchor:"}, func(k string) bool {
						return strings.Contains(k, "fan-out functions") || strings.Contains(k, "delivery chains")
					}, "fan-out evaluated through "+tn)
					// the fan-out helpers of the reference holder are the ones evaluated here
					r.Decide([]string{"C01.once:"}, func(k string) bool {
						return w.chain != nil && w.chain.Signature.Recv() != nil && strings.Contains(k, ":("+types.TypeString(w.chain.Signature.Recv().Type(), shortQual)+").")
					}, "fan-out helpers evaluated through "+tn)
				}
			case "C12":
				r.Decide([]string{"C12.ungated:", "C12.every-ref:", "C12.verbatim:"}, match, tn+".Write evaluated over all reference sets and ranges")
			}
		}
	}
}

func isDiscardLike(T *types.Named) bool {
	return strings.Contains(T.Obj().Name(), "Discard")
}

// ---------------------------------------------------------------------------
// C01.parse-values

func (c *Ctx) checkParseSemantics(r *Report, ro *Roles) {
	fn := c.logFunc("ParseLevelRange")
	key := "C01.parse-values:ParseLevelRange"
	if fn == nil {
		return
	}
	w, why := c.newFanWorld(ro)
	if w == nil {
		r.Inconclusive(key, "%s", why)
		return
	}
	reg := c.names().LevelRegistry
	if reg == nil {
		r.Inconclusive(key, "level registry not found")
		return
	}
	byName := map[string]levelInfo{}
	for _, li := range w.lg {
		byName[li.name] = li
	}
	byName["CUSTOM"] = levelInfo{350, "CUSTOM"}
	none, okN := byName["NONE"]
	if !okN {
		r.Inconclusive(key, "NONE level not found")
		return
	}
	type tc struct {
		in       string
		lo, hi   string
		wantsErr bool
	}
	cases := []tc{
		{"", "NONE", "MAX", false}, {"   ", "NONE", "MAX", false},
		{"info", "INFO", "MAX", false}, {"INFO", "INFO", "MAX", false}, {"InFo", "INFO", "MAX", false}, {" warn ", "WARN", "MAX", false},
		{"debug~error", "DEBUG", "ERROR", false}, {"DEBUG~ERROR", "DEBUG", "ERROR", false}, {"Debug~eRRor", "DEBUG", "ERROR", false},
		{"trace~max", "TRACE", "MAX", false}, {"none", "NONE", "MAX", false}, {"custom", "CUSTOM", "MAX", false}, {"info~custom", "INFO", "CUSTOM", false},
		{"bogus", "", "", true}, {"info~bogus", "", "", true}, {"bogus~info", "", "", true},
	}
	_ = none
	var bad []string
	for _, t := range cases {
		ip := w.newInterp(&[]sinkCall{})
		m := &MapV{M: map[string]AV{}}
		for n, li := range byName {
			k := constant.MakeString(n).ExactString()
			m.M[k] = w.ll.level(ip, li.code, li.name)
			m.Keys = append(m.Keys, k)
		}
		ip.Globals[reg] = ip.newObj(m)
		res, err := ip.Run(fn, []AV{kStr(t.in)}, nil)
		if err != nil {
			if _, isOOD := err.(oodError); isOOD {
				r.Inconclusive(key, "%v", err)
				return
			}
			bad = append(bad, fmt.Sprintf("%q: %v", t.in, err))
			continue
		}
		tv, ok := res.(TupleV)
		if !ok || len(tv) != 2 {
			r.Inconclusive(key, "unexpected result shape")
			return
		}
		_, isNilErr := tv[1].(NilV)
		if t.wantsErr {
			if isNilErr {
				bad = append(bad, fmt.Sprintf("%q is accepted (want an error)", t.in))
			}
			continue
		}
		if !isNilErr {
			bad = append(bad, fmt.Sprintf("%q is rejected", t.in))
			continue
		}
		rg, ok := tv[0].(*StructV)
		if !ok {
			continue
		}
		lo, hi := rg.F[w.ll.minIdx].(*StructV), rg.F[w.ll.maxIdx].(*StructV)
		if avInt(lo.F[w.ll.codeIdx]) != byName[t.lo].code || avInt(hi.F[w.ll.codeIdx]) != byName[t.hi].code {
			bad = append(bad, fmt.Sprintf("%q parses to [%d,%d), want [%s,%s) = [%d,%d)", t.in, avInt(lo.F[w.ll.codeIdx]), avInt(hi.F[w.ll.codeIdx]), t.lo, t.hi, byName[t.lo].code, byName[t.hi].code))
		}
	}
	if len(bad) > 0 {
		r.Fail(key, c.pos(fn.Pos()), "%s", strings.Join(firstN(bad, 3), "; "))
		return
	}
	r.OK(key, "%d spellings evaluated: empty → [NONE,MAX); MIN → [MIN,MAX); MIN~MAX → [MIN,MAX) — case-insensitively, over built-in and registered levels; unknown names are errors", len(cases))
	r.Decide([]string{"C01.parse:"}, nil, "ParseLevelRange evaluated over representative spellings")
}

// methodWithPath resolves method name of *T to its declaring function and the path of embedded fields leading from
// a T value to the declared receiver.
func (c *Ctx) methodWithPath(T *types.Named, name string) (*ssa.Function, []int) {
	obj, index, _ := types.LookupFieldOrMethod(types.NewPointer(T), true, T.Obj().Pkg(), name)
	fn, ok := obj.(*types.Func)
	if !ok || len(index) == 0 {
		return nil, nil
	}
	f := c.Prog.FuncValue(fn)
	if f == nil || len(f.Blocks) == 0 {
		return nil, nil
	}
	return f, index[:len(index)-1]
}
