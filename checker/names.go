package main

// names.go: package-level state and helpers of the library are resolved by role (type, position
// in exported functions, effect), never by their unexported names.

import (
	"go/token"
	"go/types"
	"strings"

	"golang.org/x/tools/go/ssa"
)

type Names struct {
	InitFlag      string      // access path of the "configuration is live" flag (tested first by Destroy)
	LoggerList    string      // access path of the list of loggers Destroy stops
	AppenderList  string      // access path of the list of appenders Destroy stops
	TagRegistry   *ssa.Global // map[string]*Tag
	HandleMap     *ssa.Global // map[string]*LoggerWrapper
	LevelRegistry *ssa.Global // map[string]Level
	DefaultLogger *ssa.Global // the package-level fallback logger (only package variable of type Logger)
	EnableCaller  *ssa.Global // bool guarding the caller look-up in the recorder
	AttrInjector  *ssa.Function
	ElemInjector  *ssa.Function
	CamelFn       *ssa.Function
}

func (c *Ctx) names() *Names {
	if c.nm != nil {
		return c.nm
	}
	n := &Names{}
	c.nm = n
	globalOfType := func(pred func(t types.Type) bool) *ssa.Global {
		var out *ssa.Global
		for _, m := range c.LogS.Members {
			if g, ok := m.(*ssa.Global); ok {
				if pred(g.Type().(*types.Pointer).Elem()) {
					if out == nil || g.Name() < out.Name() {
						out = g
					}
				}
			}
		}
		return out
	}
	mapTo := func(elemName string, ptr bool) func(types.Type) bool {
		return func(t types.Type) bool {
			mp, ok := t.Underlying().(*types.Map)
			if !ok || !isStringType(mp.Key()) {
				return false
			}
			e := mp.Elem()
			if ptr {
				p, ok := e.(*types.Pointer)
				if !ok {
					return false
				}
				e = p.Elem()
			}
			nt, ok := e.(*types.Named)
			return ok && nt.Obj().Name() == elemName && nt.Obj().Pkg() != nil && nt.Obj().Pkg().Path() == logPath
		}
	}
	n.TagRegistry = globalOfType(mapTo("Tag", true))
	n.HandleMap = globalOfType(mapTo("LoggerWrapper", true))
	n.LevelRegistry = globalOfType(mapTo("Level", false))
	loggerI := c.logType("Logger")
	n.DefaultLogger = globalOfType(func(t types.Type) bool { return loggerI != nil && types.Identical(t, loggerI) })
	// Destroy: first branch = the live flag; ranged lists whose elements are stopped
	if d := c.logFunc("Destroy"); d != nil && len(d.Blocks) > 0 {
		fr := &Frame{Fn: d}
		if iff, ok := d.Blocks[0].Instrs[len(d.Blocks[0].Instrs)-1].(*ssa.If); ok {
			cond := iff.Cond
			if u, ok := cond.(*ssa.UnOp); ok && u.Op == token.NOT {
				cond = u.X
			}
			n.InitFlag = c.accessPath(cond, fr)
		}
		eachInstr(d, func(in ssa.Instruction) {
			ci, ok := in.(ssa.CallInstruction)
			if !ok || !ci.Common().IsInvoke() || ci.Common().Method.Name() != "Stop" {
				return
			}
			src := rangeSource(c, ci.Common().Value, fr)
			src = strings.TrimSuffix(src, "[]")
			if loggerI != nil && types.Identical(ci.Common().Value.Type(), loggerI) {
				n.LoggerList = src
			} else {
				n.AppenderList = src
			}
		})
	}
	// recorder: bool global guarding runtime.Caller
	for _, f := range c.Funcs {
		if f.Pkg != c.LogS {
			continue
		}
		eachInstr(f, func(in ssa.Instruction) {
			call, ok := in.(*ssa.Call)
			if !ok || !calleeIs(call, "runtime", "", "Caller") {
				return
			}
			for _, g := range guardsOfInstr(in) {
				if ld, ok := g.Cond.(*ssa.UnOp); ok && ld.Op == token.MUL {
					if gl, ok := ld.X.(*ssa.Global); ok && gl.Pkg == c.LogS {
						if n.EnableCaller == nil {
							n.EnableCaller = gl // outermost guard
						}
					}
				}
			}
		})
	}
	// injectors: the functions that call typed reflect setters / reflect.Append
	for _, f := range c.Funcs {
		if f.Pkg != c.LogS || f.Parent() != nil {
			continue
		}
		setters, appends := 0, 0
		eachInstr(f, func(in ssa.Instruction) {
			if call, ok := in.(*ssa.Call); ok {
				if s := call.Common().StaticCallee(); s != nil {
					if funcIs(s, "reflect", "Value", "SetInt") || funcIs(s, "reflect", "Value", "SetUint") || funcIs(s, "reflect", "Value", "SetBool") {
						setters++
					}
					if funcIs(s, "reflect", "", "Append") || funcIs(s, "reflect", "", "MakeSlice") {
						appends++
					}
				}
			}
		})
		if setters >= 2 {
			n.AttrInjector = f
		}
		if appends >= 1 {
			n.ElemInjector = f
		}
	}
	// key normaliser: the in-module func(string) string applied to the keys of the map that fills the storage
	for _, f := range c.Funcs {
		if f.Pkg != c.LogS {
			continue
		}
		makes := false
		eachInstr(f, func(in ssa.Instruction) {
			if call, ok := in.(*ssa.Call); ok {
				if s := call.Common().StaticCallee(); s != nil && s.Name() == "NewStorage" {
					makes = true
				}
			}
		})
		if !makes {
			continue
		}
		eachInstr(f, func(in ssa.Instruction) {
			call, ok := in.(*ssa.Call)
			if !ok {
				return
			}
			s := call.Common().StaticCallee()
			if s == nil || !c.inModule(s) || s.Signature.Params().Len() != 1 || s.Signature.Results().Len() != 1 {
				return
			}
			if isStringType(s.Signature.Params().At(0).Type()) && isStringType(s.Signature.Results().At(0).Type()) {
				n.CamelFn = s
			}
		})
	}
	return n
}

func globalPath(g *ssa.Global) string {
	if g == nil {
		return "global:<unresolved>"
	}
	return "global:" + g.Name()
}
