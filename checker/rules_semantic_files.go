package main

// File-appender evaluation (P13): the rolling file appender (and the plain file appender) are evaluated as a
// single writer over a scripted clock and a scripted file system — Start, writes inside an interval, across one, two
// and three boundaries, a boundary at which the next file cannot be created, the boundary after it, Stop, Stop again.
// os.OpenFile, *os.File methods and the go statement that launches retention are models that record what happens.
//
// Decided clauses (single writer): C13.name / C13.flags / C13.rotate-first / C13.boundary / publish, C19.keep-file /
// C19.swallow / C19.nil-file for these paths, C05.close-all / C05.fd-bound, C03.single-write and C20.direct for the
// file appenders, C14.async / C19.retention-async. Not decided here: anything about concurrent writers (C13.cas).

import (
	"fmt"
	"go/constant"
	"go/types"
	"os"
	"path/filepath"
	"sort"
	"strings"
	"time"

	"golang.org/x/tools/go/ssa"
)

type fsEvent struct {
	op   string // open, openfail, write, sync, close, go, readdir, remove
	file string // handle name
	path string
	data string
	flag int
}

type fsWorld struct {
	ip      *Interp
	now     time.Time
	failing bool
	syncErr bool // Sync reports an error
	writeErr bool // every Write is rejected (full disk)
	reads   int  // clock readings in the current operation
	events  []fsEvent
	nOpen   int
	open    map[string]bool // handle → still open
	paths   map[string]string
	inGo    bool
	// dir: what the log directory holds besides the files created during the evaluation (empty: ReadDir sees nothing)
	dir []retEntry
	// listAll: ReadDir lists the files created during the evaluation (with the time of their last write) even when dir
	// is empty
	listAll bool
	mtime   map[string]time.Time
}

// entries: the directory listing (scripted entries plus the files created so far, modified "now"), sorted by name.
func (w *fsWorld) entries() []retEntry {
	if len(w.dir) == 0 && !w.listAll {
		return nil
	}
	seen := map[string]bool{}
	var out []retEntry
	for _, e := range w.dir {
		seen[e.name] = true
		out = append(out, e)
	}
	for _, p := range w.paths {
		if n := filepath.Base(p); !seen[n] {
			seen[n] = true
			mt := w.now
			if t, ok := w.mtime[p]; ok {
				mt = t
			}
			out = append(out, retEntry{name: n, mtime: mt})
		}
	}
	sort.Slice(out, func(i, j int) bool { return out[i].name < out[j].name })
	return out
}

func (w *fsWorld) entry(name string) (retEntry, bool) {
	for _, e := range w.entries() {
		if e.name == name {
			return e, true
		}
	}
	return retEntry{}, false
}

func (c *Ctx) newFsWorld(ro *Roles) (*fsWorld, *entryWorld, string) {
	ew, why := c.newEntryWorld(ro)
	if ew == nil {
		return nil, nil, why
	}
	w := &fsWorld{open: map[string]bool{}, paths: map[string]string{}, mtime: map[string]time.Time{}}
	ip := newInterp(c)
	ip.MaxSteps = 2000000
	w.ip = ip
	for g, li := range ew.lg {
		ip.Globals[g] = ip.newObj(ew.ll.level(ip, li.code, li.name))
	}
	for g, nf := range ew.poolGlobs {
		o := ip.newObj(&StructV{})
		ip.Globals[g] = o
		ip.PoolNew[o] = nf
	}
	// every reading of the clock inside one operation is one second later than the previous one: code that dates a file
	// by a second reading shows up
	ip.Clock = func() time.Time {
		t := w.now.Add(time.Duration(w.reads) * time.Second)
		w.reads++
		return t
	}
	ip.OnGo = func(ip *Interp, fn *ssa.Function, args []AV) {
		n := "?"
		if fn != nil {
			n = fname(fn)
		}
		w.events = append(w.events, fsEvent{op: "go", file: n})
	}
	fileT := types.NewPointer(ew.eventT) // any pointer type: handles are opaque
	_ = fileT
	ip.OnOS = func(ip *Interp, name string, args []AV) (AV, bool) {
		handle := func(v AV) (string, bool) {
			switch x := v.(type) {
			case *Sym:
				return x.Name, true
			case NilV:
				return "", true
			}
			return "", false
		}
		switch name {
		case "os.OpenFile":
			path, flag := avStr(args[0]), int(avInt(args[1]))
			if w.failing {
				w.events = append(w.events, fsEvent{op: "openfail", path: path, flag: flag})
				return TupleV{NilV{}, ip.errValKind("*io/fs.PathError", "open " + path + ": no such file or directory")}, true
			}
			w.nOpen++
			h := fmt.Sprintf("fd%d", w.nOpen)
			w.open[h] = true
			w.paths[h] = path
			if _, had := w.mtime[path]; !had {
				w.mtime[path] = w.now
			}
			w.events = append(w.events, fsEvent{op: "open", file: h, path: path, flag: flag})
			return TupleV{&Sym{Name: h}, NilV{}}, true
		case "os.MkdirAll", "os.Mkdir":
			return NilV{}, true
		case "os.ReadDir":
			w.events = append(w.events, fsEvent{op: "readdir", path: avStr(args[0])})
			if es := w.entries(); len(es) > 0 {
				var vs []AV
				for _, e := range es {
					vs = append(vs, &IfaceV{T: types.Universe.Lookup("error").Type(), V: &Sym{Name: "dirent:" + e.name}})
				}
				return TupleV{ip.mkSlice(vs), NilV{}}, true
			}
			return TupleV{NilV{}, NilV{}}, true
		case "os.Stat", "os.Lstat":
			if e, ok := w.entry(filepath.Base(avStr(args[0]))); ok {
				return TupleV{&IfaceV{T: types.Universe.Lookup("error").Type(), V: &Sym{Name: "finfo:" + e.name}}, NilV{}}, true
			}
			return TupleV{NilV{}, ip.errValKind("*io/fs.PathError", "no such file or directory")}, true
		case "os.Remove":
			w.events = append(w.events, fsEvent{op: "remove", path: avStr(args[0])})
			return NilV{}, true
		case "fmt.Fprintln", "fmt.Fprintf", "fmt.Fprint":
			return TupleV{kInt(0), NilV{}}, true
		}
		if strings.HasPrefix(name, "(*os.File).") {
			h, ok := handle(args[0])
			if !ok {
				return nil, false
			}
			m := strings.TrimPrefix(name, "(*os.File).")
			if h == "" {
				// nil *os.File: the methods that validate their receiver return ErrInvalid, the others dereference it
				switch m {
				case "Write", "WriteString", "Sync", "Close", "Read", "Seek", "Stat", "Truncate", "Chmod":
					w.events = append(w.events, fsEvent{op: m + "-on-nil"})
					if m == "Write" || m == "WriteString" {
						return TupleV{kInt(0), ip.errValKind("*io/fs.PathError", "invalid argument")}, true
					}
					if m == "Stat" {
						return TupleV{NilV{}, ip.errValKind("*io/fs.PathError", "invalid argument")}, true
					}
					return ip.errValKind("*io/fs.PathError", "invalid argument"), true
				}
				rtPanic("nil pointer dereference in (*os.File).%s", m)
			}
			switch m {
			case "Write":
				w.events = append(w.events, fsEvent{op: "write", file: h, path: w.paths[h], data: string(avBytes(args[1]))})
				w.mtime[w.paths[h]] = w.now
				if !w.open[h] {
					return TupleV{kInt(0), ip.errValKind("*io/fs.PathError", "file already closed")}, true
				}
				if w.writeErr {
					return TupleV{kInt(0), ip.errValKind("*io/fs.PathError", "write "+w.paths[h]+": no space left on device")}, true
				}
				return TupleV{kInt(int64(sliceLen(args[1]))), NilV{}}, true
			case "WriteString":
				w.events = append(w.events, fsEvent{op: "write", file: h, path: w.paths[h], data: avStr(args[1])})
				return TupleV{kInt(int64(len(avStr(args[1])))), NilV{}}, true
			case "Sync":
				w.events = append(w.events, fsEvent{op: "sync", file: h})
				if w.syncErr {
					return ip.errValKind("*io/fs.PathError", "sync: input/output error"), true
				}
				return NilV{}, true
			case "Close":
				w.events = append(w.events, fsEvent{op: "close", file: h})
				if !w.open[h] {
					return ip.errValKind("*io/fs.PathError", "file already closed"), true
				}
				delete(w.open, h)
				return NilV{}, true
			case "Name":
				return kStr(w.paths[h]), true
			}
		}
		return nil, false
	}
	// os.Stderr / os.Stdout as opaque handles; time.Local / time.UTC as one opaque zone
	for _, p := range c.Prog.AllPackages() {
		if p.Pkg.Path() == "time" {
			for _, n := range []string{"Local", "UTC"} {
				if g, ok := p.Members[n].(*ssa.Global); ok {
					ip.Globals[g] = ip.newObj(&Sym{Name: "zone:UTC"})
				}
			}
		}
		if p.Pkg.Path() == "os" {
			for _, n := range []string{"Stderr", "Stdout"} {
				if g, ok := p.Members[n].(*ssa.Global); ok {
					ip.Globals[g] = ip.newObj(&Sym{Name: "std:" + n})
				}
			}
		}
	}
	ip.OnInvoke = func(ip *Interp, recv *Sym, method string, args []AV) (AV, bool) {
		if kind, name, ok := strings.Cut(recv.Name, ":"); ok && (kind == "dirent" || kind == "finfo") {
			e, _ := w.entry(name)
			mode := int64(0o644)
			if e.dir {
				mode |= 1 << 31
			}
			switch method {
			case "Name":
				return kStr(name), true
			case "IsDir":
				return kBool(e.dir), true
			case "Type":
				return kInt(mode &^ 0o777), true
			case "Mode":
				return kInt(mode), true
			case "Info":
				return TupleV{&IfaceV{T: types.Universe.Lookup("error").Type(), V: &Sym{Name: "finfo:" + name}}, NilV{}}, true
			case "ModTime":
				return &TimeV{T: e.mtime}, true
			case "Size":
				return kInt(10), true
			}
		}
		switch method {
		case "ToBytes":
			return ip.mkSlice([]AV{kInt('e'), kInt('v'), kInt('\n')}), true
		case "Write", "Sync", "Close", "WriteString", "Name":
			// a file handle behind an interface (io.Writer, io.Closer, a helper taking interfaces)
			if strings.HasPrefix(recv.Name, "fd") {
				return ip.OnOS(ip, "(*os.File)."+method, append([]AV{recv}, args...))
			}
			if method == "Write" { // some other stream (os.Stderr as an io.Writer)
				return TupleV{kInt(int64(sliceLen(args[0]))), NilV{}}, true
			}
		}
		return nil, false
	}
	return w, ew, ""
}

// reachesFile: values of type t can hold an *os.File, directly or through module structs, slices, arrays and
// sync/atomic pointers (an immutable snapshot {curr, prev *os.File} behind an atomic.Pointer, a two-slot ring …).
func reachesFile(t types.Type, depth int) bool {
	if depth > 4 {
		return false
	}
	if isFileHolder(t) {
		return true
	}
	switch u := t.(type) {
	case *types.Pointer:
		return reachesFile(u.Elem(), depth+1)
	case *types.Slice:
		return reachesFile(u.Elem(), depth+1)
	case *types.Array:
		return reachesFile(u.Elem(), depth+1)
	case *types.Named:
		if u.Obj().Pkg() != nil && u.Obj().Pkg().Path() == "sync/atomic" && u.Obj().Name() == "Pointer" && u.TypeArgs() != nil && u.TypeArgs().Len() == 1 {
			return reachesFile(u.TypeArgs().At(0), depth+1)
		}
		if u.Obj().Pkg() == nil || !strings.HasPrefix(u.Obj().Pkg().Path(), logPath) {
			return false
		}
		if st, ok := u.Underlying().(*types.Struct); ok {
			for i := 0; i < st.NumFields(); i++ {
				if reachesFile(st.Field(i).Type(), depth+1) {
					return true
				}
			}
		}
		return reachesFile(u.Underlying(), depth+1)
	case *types.Struct:
		for i := 0; i < u.NumFields(); i++ {
			if reachesFile(u.Field(i).Type(), depth+1) {
				return true
			}
		}
	}
	return false
}

func (c *Ctx) checkFileAppenderSemantics(r *Report, ro *Roles, rule string) map[string]bool {
	if c.fsMemo != nil {
		return c.fsMemo
	}
	res := map[string]bool{}
	defer func() { c.fsMemo = res }()
	layI := c.logType("Layout")
	for _, T := range ro.LeafAppenders {
		st, ok := T.Underlying().(*types.Struct)
		if !ok {
			continue
		}
		holders, rotating := 0, false
		var intervalPath []int
		var findFields func(t *types.Struct, path []int)
		findFields = func(t *types.Struct, path []int) {
			for i := 0; i < t.NumFields(); i++ {
				ft := t.Field(i).Type()
				if isFileHolder(ft) || reachesFile(ft, 0) {
					holders++
				}
				if isNamed(ft, "time", "Duration") {
					rotating = true
					intervalPath = append(append([]int{}, path...), i)
				}
				if sub, ok := ft.Underlying().(*types.Struct); ok && !isFileHolder(ft) && !isNamed(ft, "time", "Time") {
					if nt, ok := types.Unalias(ft).(*types.Named); !ok || (nt.Obj().Pkg() != nil && strings.HasPrefix(nt.Obj().Pkg().Path(), logPath)) {
						findFields(sub, append(append([]int{}, path...), i))
					}
				}
			}
		}
		findFields(st, nil)
		if holders == 0 {
			// a stream appender (console): one write of the whole line to the package-level stream per call
			if strings.Contains(T.Obj().Name(), "Discard") {
				continue
			}
			key := rule + ":" + T.Obj().Name()
			ip := newInterp(c)
			var writes []string
			for _, m := range c.LogS.Members {
				if g, ok := m.(*ssa.Global); ok && isNamed(g.Type().(*types.Pointer).Elem(), "io", "Writer") {
					ip.Globals[g] = ip.newObj(&IfaceV{T: types.NewPointer(T), V: &Sym{Name: "stream:" + g.Name()}})
				}
			}
			ip.OnInvoke = func(ip *Interp, recv *Sym, method string, args []AV) (AV, bool) {
				switch method {
				case "Write":
					writes = append(writes, string(avBytes(args[0])))
					return TupleV{kInt(int64(sliceLen(args[0]))), NilV{}}, true
				case "ToBytes":
					return ip.bytesAV([]byte("ev\n")), true
				}
				return nil, false
			}
			av := ip.zeroOf(T).(*StructV)
			fillStruct(ip, av, T, func(parent *types.Struct, f *types.Var) (AV, bool) {
				if layI != nil && types.Identical(f.Type(), layI) {
					return &IfaceV{T: types.NewPointer(T), V: &Sym{Name: "layout"}}, true
				}
				return nil, false
			})
			fn, path := c.methodWithPath(T, "Write")
			if fn == nil {
				continue
			}
			_, err := ip.Run(fn, []AV{&Ptr{O: ip.newObj(av), Path: path}, ip.bytesAV([]byte("line\n"))}, nil)
			switch {
			case err != nil:
				if _, isOOD := err.(oodError); isOOD || harnessPanic(err) {
					r.Inconclusive(key, "%v", err)
				} else {
					r.Fail(key, c.pos(T.Obj().Pos()), "Write: %v", err)
				}
			case len(writes) != 1 || writes[0] != "line\n":
				r.Fail(key, c.pos(T.Obj().Pos()), "a line is written to the stream as %q (want one write of the whole line)", writes)
			default:
				res[T.Obj().Name()] = true
				r.OK(key, "Write hands the whole line to the stream in one write")
			}
			continue
		}
		key := rule + ":" + T.Obj().Name()
		w, _, why := c.newFsWorld(ro)
		if w == nil {
			r.Inconclusive(key, "%s", why)
			continue
		}
		w.listAll = true // a directory scan sees the files created so far, dated by their last write
		ip := w.ip
		av := ip.zeroOf(T).(*StructV)
		fillStruct(ip, av, T, func(parent *types.Struct, f *types.Var) (AV, bool) {
			switch {
			case layI != nil && types.Identical(f.Type(), layI):
				return &IfaceV{T: types.NewPointer(T), V: &Sym{Name: "layout"}}, true
			case f.Name() == "FileDir":
				return kStr("/logs"), true
			case f.Name() == "FileName":
				return kStr("app.log"), true
			case f.Name() == "Name":
				return kStr("theappender"), true
			case isNamed(f.Type(), "time", "Duration"):
				return kInt(int64(10 * time.Minute)), true
			case f.Name() == "MaxAge":
				return kInt(24), true
			}
			return nil, false
		})
		_ = intervalPath
		recv := &Ptr{O: ip.newObj(av)}
		call := func(m string, args ...AV) (string, error) {
			fn, path := c.methodWithPath(T, m)
			if fn == nil {
				return "", oodError{"method " + m + " not found"}
			}
			_, err := ip.Run(fn, append([]AV{&Ptr{O: recv.O, Path: path}}, args...), nil)
			if err != nil {
				if _, isOOD := err.(oodError); isOOD {
					return "", err
				}
				return err.Error(), nil
			}
			return "ok", nil
		}
		var bad []string
		fail := func(format string, args ...any) {
			if len(bad) < 4 {
				bad = append(bad, fmt.Sprintf(format, args...))
			}
		}
		t0 := time.Date(2025, 3, 9, 14, 7, 33, 0, time.UTC) // mid-interval (10-minute intervals)
		nameOf := func(t time.Time) string { return "/logs/app.log." + t.Format("20060102150405") }
		payload := func(s string) AV { return ip.bytesAV([]byte(s)) }
		type step struct {
			what    string
			at      time.Time
			failing bool
			op      string // start, write, stop
			data    string
			syncErr bool
			// writeErr: the device rejects every write (full disk): the call still returns normally
			writeErr bool
		}
		steps := []step{{what: "Start", at: t0, op: "start"}, {what: "a write in the starting interval", at: t0.Add(1 * time.Second), op: "write", data: "w1\n"}}
		if rotating {
			b1 := t0.Truncate(10 * time.Minute).Add(10 * time.Minute)
			steps = append(steps,
				step{what: "a second write in the starting interval", at: t0.Add(90 * time.Second), failing: false, op: "write", data: "w2\n"},
				step{what: "the first write after an interval boundary", at: b1.Add(2 * time.Second), failing: false, op: "write", data: "w3\n"},
				step{what: "a write later in that interval", at: b1.Add(5 * time.Minute), failing: false, op: "write", data: "w4\n"},
				step{what: "the first write after the next boundary", at: b1.Add(10*time.Minute + 1*time.Second), failing: false, op: "write", data: "w5\n"},
				step{what: "the first write after a boundary skipping an idle interval", at: b1.Add(30*time.Minute + 7*time.Second), failing: false, op: "write", data: "w6\n"},
				step{what: "the first write after a boundary at which the next file cannot be created", at: b1.Add(40*time.Minute + 3*time.Second), failing: true, op: "write", data: "w7\n"},
				step{what: "a later write in the interval of the failed rotation", at: b1.Add(45 * time.Minute), failing: true, op: "write", data: "w8\n"},
				step{what: "the first write after the next boundary, the directory being back", at: b1.Add(50*time.Minute + 4*time.Second), op: "write", data: "w9\n"},
				step{what: "the first write after a boundary with the directory gone again", at: b1.Add(60*time.Minute + 2*time.Second), failing: true, op: "write", data: "w10\n"},
				step{what: "the first write after the second consecutive boundary without a directory", at: b1.Add(70*time.Minute + 2*time.Second), failing: true, op: "write", data: "w11\n"},
				step{what: "a later write in that interval", at: b1.Add(75 * time.Minute), failing: true, op: "write", data: "w12\n"},
				step{what: "the first write after the third consecutive boundary without a directory", at: b1.Add(80*time.Minute + 2*time.Second), failing: true, op: "write", data: "w13\n"},
				step{what: "the first write after the next boundary, the directory being back again", at: b1.Add(90*time.Minute + 2*time.Second), op: "write", data: "w14\n"},
				step{what: "the first write after one more boundary", at: b1.Add(100*time.Minute + 2*time.Second), op: "write", data: "w15\n"},
			)
		}
		steps = append(steps, step{what: "Stop", at: t0.Add(3 * time.Hour), op: "stop"}, step{what: "a second Stop", at: t0.Add(3*time.Hour + time.Second), op: "stop"})
		// the same value is started again, used, and stopped while Sync reports errors
		t1 := t0.Add(4 * time.Hour)
		steps = append(steps, step{what: "Start after Stop on the same appender", at: t1, op: "start"},
			step{what: "a write after the restart", at: t1.Add(3 * time.Second), op: "write", data: "r1\n"})
		if rotating {
			steps = append(steps, step{what: "the first write after a boundary following the restart", at: t1.Truncate(10 * time.Minute).Add(10*time.Minute + time.Second), op: "write", data: "r2\n"})
		}
		steps = append(steps, step{what: "Stop while Sync reports an error", at: t1.Add(time.Hour), op: "stop", syncErr: true})
		if rotating {
			// a long silence (longer than the maximum age of 24 h) and then a boundary at which the next file cannot be
			// created: the file kept open is old by its modification time, yet it is the file being written
			t3 := t0.Add(40 * time.Hour)
			b3 := t3.Truncate(10 * time.Minute).Add(10 * time.Minute)
			steps = append(steps, step{what: "Start (before a long silence)", at: t3, op: "start"},
				step{what: "a write before the silence", at: t3.Add(time.Second), op: "write", data: "q1\n"},
				step{what: "the first write after 30 silent hours, at a boundary where the next file cannot be created", at: b3.Add(30*time.Hour + 2*time.Second), failing: true, op: "write", data: "q2\n"},
				step{what: "a later write in that interval", at: b3.Add(30*time.Hour + 5*time.Minute), failing: true, op: "write", data: "q3\n"},
				step{what: "Stop (after the silence)", at: b3.Add(31 * time.Hour), op: "stop"})
		}
		if rotating {
			// a third life: stopped right after a boundary at which the next file could not be created (the appender
			// still owns the previous file), then stopped again and restarted
			t2 := t0.Add(8 * time.Hour)
			b2 := t2.Truncate(10 * time.Minute).Add(10 * time.Minute)
			steps = append(steps, step{what: "Start (third life)", at: t2, op: "start"},
				step{what: "a write in the starting interval (third life)", at: t2.Add(2 * time.Second), op: "write", data: "s1\n"},
				step{what: "the first write after a boundary at which the next file cannot be created (third life)", at: b2.Add(2 * time.Second), failing: true, op: "write", data: "s2\n"},
				step{what: "Stop right after the failed rotation", at: b2.Add(3 * time.Second), failing: true, op: "stop"},
				step{what: "a second Stop after the failed rotation", at: b2.Add(4 * time.Second), op: "stop"},
				step{what: "Start after that (fourth life)", at: b2.Add(time.Hour), op: "start"},
				step{what: "a write in the fourth life", at: b2.Add(time.Hour + time.Second), op: "write", data: "s3\n"},
				step{what: "Stop (fourth life)", at: b2.Add(2 * time.Hour), op: "stop"})
			// failures of different kinds on one appender, in both orders: a rejected write (full disk), a boundary
			// at which the next file cannot be created, a rejected write again
			t4 := b2.Add(5*time.Hour + 7*time.Second)
			b4 := t4.Truncate(10 * time.Minute).Add(10 * time.Minute)
			steps = append(steps, step{what: "Start (fifth life)", at: t4, op: "start"},
				step{what: "a write the full disk rejects", at: t4.Add(time.Second), op: "write", data: "d1\n", writeErr: true},
				step{what: "a second rejected write", at: t4.Add(2 * time.Second), op: "write", data: "d2\n", writeErr: true},
				step{what: "the first write after a boundary at which the next file cannot be created, after rejected writes", at: b4.Add(time.Second), failing: true, op: "write", data: "d3\n"},
				step{what: "a rejected write in the interval of the failed rotation", at: b4.Add(2 * time.Second), failing: true, op: "write", data: "d4\n", writeErr: true},
				step{what: "the first write after the next boundary, again without a directory and with a full disk", at: b4.Add(10*time.Minute + time.Second), failing: true, op: "write", data: "d5\n", writeErr: true},
				step{what: "the first write after the boundary at which everything works again", at: b4.Add(20*time.Minute + time.Second), op: "write", data: "d6\n"},
				step{what: "Stop (fifth life)", at: b4.Add(time.Hour), op: "stop"})
		}
		var oodWhy string
		{
			// an appender whose Start never ran (or failed): a log call and Stop must not panic
			fresh := &Ptr{O: ip.newObj(copyVal(av))}
			for _, m := range []string{"Write", "Stop"} {
				fn, path := c.methodWithPath(T, m)
				if fn == nil {
					continue
				}
				args := []AV{&Ptr{O: fresh.O, Path: path}}
				if m == "Write" {
					args = append(args, payload("x\n"))
				}
				w.now = t0
				if _, err := ip.Run(fn, args, nil); err != nil {
					if _, isOOD := err.(oodError); isOOD {
						oodWhy = err.Error()
					} else {
						fail("%s on an appender that was never started: %v", m, err)
					}
				}
			}
			w.events = nil
		}
		curPath := "" // path of the file writes are expected to go to
		var wantOpenAt, lastAttempt time.Time
		prevPath := ""
		for _, stp := range steps {
			w.now, w.failing, w.reads, w.syncErr, w.writeErr = stp.at, stp.failing, 0, stp.syncErr, stp.writeErr
			before := len(w.events)
			var out string
			var err error
			switch stp.op {
			case "start":
				out, err = call("Start")
			case "write":
				out, err = call("Write", payload(stp.data))
			case "stop":
				out, err = call("Stop")
			}
			if err != nil {
				oodWhy = err.Error()
				break
			}
			if out != "ok" {
				if harnessPanic(panicError{why: strings.TrimPrefix(out, "run-time panic: ")}) && stp.op == "start" {
					oodWhy = "the evaluation could not build the appender (" + out + ")"
					break
				}
				fail("%s: %s", stp.what, out)
				break
			}
			evs := w.events[before:]
			var opens, fails, writes []fsEvent
			for _, e := range evs {
				switch e.op {
				case "open":
					opens = append(opens, e)
				case "openfail":
					fails = append(fails, e)
				case "write":
					writes = append(writes, e)
				case "remove":
					// a sweep on the caller's goroutine (after a failed open, at start-up) is not forbidden; removing a file
					// that is open for writing is
					for h, p := range w.paths {
						if w.open[h] && filepath.Clean(p) == filepath.Clean(e.path) {
							fail("%s: %s is removed while it is open for writing (the lines written to it from now on are lost)", stp.what, e.path)
						}
					}
				}
			}
			for _, e := range append(append([]fsEvent{}, opens...), fails...) {
				// the flag values of the analysed platform (they differ between linux, darwin and windows), not the checker's
				oc := func(n string, host int) int {
					if v, ok := c.osConst(n); ok {
						return int(v)
					}
					return host
				}
				fApp, fTrunc, fCreate, fW := oc("O_APPEND", os.O_APPEND), oc("O_TRUNC", os.O_TRUNC), oc("O_CREATE", os.O_CREATE), oc("O_WRONLY", os.O_WRONLY)|oc("O_RDWR", os.O_RDWR)
				if e.flag&fApp == 0 || e.flag&fTrunc != 0 || e.flag&fCreate == 0 || e.flag&fW == 0 {
					fail("%s: %s is opened with flags %#x (want O_CREATE|O_WRONLY|O_APPEND, never O_TRUNC)", stp.what, e.path, e.flag)
				}
			}
			switch stp.op {
			case "start":
				want := "/logs/app.log"
				if rotating {
					want = nameOf(stp.at)
				}
				if len(opens) != 1 || opens[0].path != want {
					fail("%s at %s opens %v, want exactly %s", stp.what, stp.at.Format("15:04:05"), pathsOf(opens), want)
				} else {
					curPath, prevPath = opens[0].path, ""
					wantOpenAt, lastAttempt = stp.at, stp.at.Truncate(10*time.Minute)
				}
			case "write":
				if rotating {
					iv := stp.at.Truncate(10 * time.Minute)
					newInterval := iv.After(wantOpenAt.Truncate(10 * time.Minute))
					attemptedHere := !iv.After(lastAttempt)
					if len(opens)+len(fails) > 0 {
						lastAttempt = iv
					}
					switch {
					case newInterval && attemptedHere:
						// the interval of an earlier failed attempt: trying again (or not) before the next boundary is up to the code
						if len(opens) == 1 {
							if opens[0].path != nameOf(stp.at) {
								fail("%s (at %s): opens %v, want %s", stp.what, stp.at.Format("15:04:05"), pathsOf(opens), nameOf(stp.at))
							} else {
								curPath, wantOpenAt = opens[0].path, stp.at
							}
						}
					case newInterval && !stp.failing:
						if len(opens) != 1 || opens[0].path != nameOf(stp.at) {
							fail("%s (at %s): opens %v, want the new file %s", stp.what, stp.at.Format("15:04:05"), pathsOf(opens), nameOf(stp.at))
						} else {
							prevPath = curPath
							curPath, wantOpenAt = opens[0].path, stp.at
						}
					case newInterval && stp.failing:
						if len(opens) != 0 {
							fail("%s: a file is reported open although creation failed", stp.what)
						}
						if len(fails) == 0 {
							fail("%s: no attempt to create the next file", stp.what)
						}
					default:
						if len(opens) != 0 {
							fail("%s (at %s): opens %v inside the interval that already has its file", stp.what, stp.at.Format("15:04:05"), pathsOf(opens))
						}
					}
				}
				if len(writes) != 1 || writes[0].data != stp.data {
					fail("%s: %d write(s) to the sink %v, want exactly one write of the whole line", stp.what, len(writes), dataOf(writes))
				} else if writes[0].path != curPath {
					fail("%s (at %s): the line goes to %s, want %s", stp.what, stp.at.Format("15:04:05"), writes[0].path, curPath)
				} else if !w.open[writes[0].file] {
					fail("%s: the line is written to a descriptor that was already closed (%s)", stp.what, writes[0].path)
				}
			case "stop":
				if len(w.open) != 0 {
					var left []string
					for h := range w.open {
						left = append(left, w.paths[h])
					}
					fail("%s leaves %d descriptor(s) open: %v", stp.what, len(w.open), left)
				}
			}
			if rotating && stp.op == "write" && len(opens) == 1 && prevPath != "" {
				stillOpen := false
				for h := range w.open {
					if w.paths[h] == prevPath {
						stillOpen = true
					}
				}
				if !stillOpen {
					fail("%s: the file that was current until now (%s) is closed at the moment of the rotation; a writer that loaded it just before the switch writes to a closed descriptor (it must stay open until the following rotation)", stp.what, prevPath)
				}
			}
			if len(w.open) > 2 {
				fail("after %s %d descriptors are open (want at most two whenever no write is in progress)", stp.what, len(w.open))
			}
			// a rotation that created a file launches retention, and only with go
			if rotating && stp.op == "write" && len(opens) == 1 {
				launched := false
				for _, e := range evs {
					if e.op == "go" {
						launched = true
					}
				}
				if !launched && ro.Retention != nil {
					fail("%s: a new file was created but the retention routine was not launched", stp.what)
				}
			}
		}
		// every close is of a handle that was open (no double close across the run is tolerated only as an error return)
		r.Count("file_appender_steps", len(steps))
		switch {
		case oodWhy != "":
			r.Inconclusive(key, "%s", oodWhy)
		case len(bad) > 0:
			r.Fail(key, c.pos(T.Obj().Pos()), "%s", strings.Join(bad, "; "))
		default:
			res[T.Obj().Name()] = true
			if rotating {
				res["rotating:"+T.Obj().Name()] = true
				r.OK(key, "%d steps evaluated with one writer over a scripted clock and file system: Start and every first write after a boundary create '<name>.<yyyyMMddHHmmss>' for the time of that write with O_CREATE|O_WRONLY|O_APPEND; each line is one write into the file of its own interval, never into a closed one; when the next file cannot be created the line goes to the current file, the call returns normally and creation is tried again at the next boundary; at most two descriptors are open between calls; retention is launched with go after a rotation; Stop closes everything and can be repeated", len(steps))
			} else {
				r.OK(key, "%d steps evaluated: Start opens the file with O_CREATE|O_WRONLY|O_APPEND, each line is one write, Stop closes the descriptor and can be repeated", len(steps))
			}
		}
	}
	return res
}

func pathsOf(es []fsEvent) []string {
	var out []string
	for _, e := range es {
		out = append(out, e.path)
	}
	return out
}

func dataOf(es []fsEvent) []string {
	var out []string
	for _, e := range es {
		out = append(out, fmt.Sprintf("%q→%s", e.data, e.path))
	}
	return out
}

var _ = constant.MakeInt64

// fileAppenderDecisions registers what the file-appender evaluation decides for the shape obligations.
func fileAppenderDecisions(r *Report, ok map[string]bool) {
	rot := ""
	for tn := range ok {
		if strings.HasPrefix(tn, "rotating:") {
			rot = strings.TrimPrefix(tn, "rotating:")
		}
	}
	for tn := range ok {
		tn := tn
		if strings.HasPrefix(tn, "rotating:") {
			continue
		}
		// clauses about rotation are decided by the rotating appender's evaluation only
		if (r.Prop == "C13" || r.Prop == "C19" || r.Prop == "C14") && tn != rot {
			continue
		}
		match := func(k string) bool {
			return strings.Contains(k, "(*"+tn+")") || strings.Contains(k, ":"+tn+".") || strings.Contains(k, ":"+tn+" ") || strings.HasSuffix(k, ":"+tn)
		}
		switch r.Prop {
		case "C13":
			r.Decide([]string{"C13.name:", "C13.flags:", "C13.rotate-first:", "C13.boundary:", "C05.fd-bound:"}, match, tn+" evaluated step by step over a scripted clock and file system")
			r.Decide([]string{"C13.anchor:"}, nil, tn+" evaluated step by step over a scripted clock and file system")
			r.Decide([]string{"C13.cas:"}, func(k string) bool { return match(k) && strings.HasSuffix(k, ":publish") }, tn+" evaluated: the created file is published")
		case "C19":
			r.Decide([]string{"C19.keep-file:", "C19.nil-file:", "C19.retention-async:", "C19.anchor:", "C05.fd-bound:"}, nil, tn+" evaluated across a boundary at which the next file cannot be created")
		case "C05":
			r.Decide([]string{"C05.close-all:", "C05.fd-bound:"}, match, tn+" evaluated: descriptors open between calls and after Stop")
		case "C03":
			r.Decide([]string{"C03.single-write:", "C03.append-flag:"}, match, tn+" evaluated: one write per line, append mode")
			if rot != "" && ok[rot] {
				r.Decide([]string{"C03.anchor:"}, func(k string) bool { return strings.Contains(k, "OpenFile") }, "file appenders evaluated")
			}
		case "C20":
			r.Decide([]string{"C20.direct:", "C05.fd-bound:"}, match, tn+" evaluated: the line is written before the call returns")
		case "C14":
			// only for the appender's own methods: a synchronous cleanup called from somewhere else (a logger's start-up)
			// is not covered by this evaluation
			r.Decide([]string{"C14.async:"}, match, tn+" evaluated: retention is launched with go")
		}
	}
}
