package main

// Layout evaluation (P13): both layouts are evaluated, through the module's own field constructors, Field.Encode,
// encoders and escaper, on an explicit finite domain of events — every Go type that Any dispatches (value, pointer,
// nil pointer, slice) with boundary numbers, non-finite floats, strings made of every escape class (quote, backslash,
// control bytes, DEL, multi-byte runes, invalid UTF-8, long runs that cross any staging buffer), nil, reflected and
// unmarshallable values, nested objects and arrays (empty and not, directly after scalars), map-sourced fields, with
// and without context string / context fields. The produced line is then decoded with encoding/json and compared
// with the logged data; the text line's tokens are compared with the JSON line's tokens of the same event.
//
// This is exhaustive over the listed domain, not over all inputs: it decides the clauses of C07/C08/C09 for the
// domain and is the arbiter when a shape rule does not recognise a rewritten encoder.

import (
	"bytes"
	"encoding/json"
	"fmt"
	"go/constant"
	"go/types"
	"math"
	"sort"
	"strconv"
	"strings"
	"time"
	"unicode/utf8"

	"golang.org/x/tools/go/ssa"
)

type want struct {
	kind string // bool, int, uint, float, string, null, array, object, anystring, any
	b    bool
	i    int64
	u    uint64
	f    float64
	s    string
	arr  []want
	keys []string
	obj  map[string]want
}

type encCase struct {
	name string
	key  string
	mk   func(ip *Interp) AV // the value as `any`
	w    want
}

func basicT(k types.BasicKind) types.Type { return types.Typ[k] }

func anyOf(t types.Type, v AV) AV { return &IfaceV{T: t, V: v} }

// fixString is what a decoder must return for s: every invalid UTF-8 byte is one U+FFFD.
func fixString(s string) string { return string([]rune(s)) }

func encStrings() []string {
	long := strings.Repeat("a", 300)
	out := []string{"", "plain", "with space", `quote"inside`, `back\slash`, "line\nbreak", "tab\there", "cr\rhere", "\x00\x01\x1f", "\x7f", "é", "日本語", "😀",
		"\xff", "a\xffb", "\xc3", "\xe2\x82", "\xf0\x9f\x98", "\xed\xa0\x80", "\xc0\xaf", "ok\xfe\xffok", "�", "</script>&", "a||b", "k=v",
		long, long + "\x01", long + "\xff", long + `"`}
	// an escape-worthy byte at every offset up to 140: a staging buffer of any plausible size is crossed at every alignment
	for _, off := range []int{7, 8, 15, 16, 31, 32, 58, 59, 60, 61, 62, 63, 64, 65, 127, 128, 129} {
		out = append(out, strings.Repeat("x", off)+"\x01"+"tail", strings.Repeat("x", off)+"\xff"+"tail", strings.Repeat("x", off)+"é")
	}
	return out
}

func (c *Ctx) encCases() []encCase {
	var cs []encCase
	add := func(name string, mk func(ip *Interp) AV, w want) {
		cs = append(cs, encCase{name: name, key: "k", mk: mk, w: w})
	}
	ptrTo := func(ip *Interp, v AV) AV { return &Ptr{O: ip.newObj(v)} }
	// bool
	for _, b := range []bool{true, false} {
		b := b
		add(fmt.Sprintf("bool %v", b), func(ip *Interp) AV { return anyOf(basicT(types.Bool), kBool(b)) }, want{kind: "bool", b: b})
		add(fmt.Sprintf("*bool %v", b), func(ip *Interp) AV { return anyOf(types.NewPointer(basicT(types.Bool)), ptrTo(ip, kBool(b))) }, want{kind: "bool", b: b})
	}
	add("*bool nil", func(ip *Interp) AV { return anyOf(types.NewPointer(basicT(types.Bool)), NilV{}) }, want{kind: "null"})
	add("[]bool", func(ip *Interp) AV {
		return anyOf(types.NewSlice(basicT(types.Bool)), ip.mkSlice([]AV{kBool(true), kBool(false)}))
	}, want{kind: "array", arr: []want{{kind: "bool", b: true}, {kind: "bool", b: false}}})
	// signed integers
	type ik struct {
		k        types.BasicKind
		min, max int64
	}
	for _, t := range []ik{{types.Int, math.MinInt64, math.MaxInt64}, {types.Int8, math.MinInt8, math.MaxInt8}, {types.Int16, math.MinInt16, math.MaxInt16}, {types.Int32, math.MinInt32, math.MaxInt32}, {types.Int64, math.MinInt64, math.MaxInt64}} {
		t := t
		bt := basicT(t.k)
		for _, v := range []int64{t.min, -1, 0, 7, t.max} {
			v := v
			add(fmt.Sprintf("%s %d", bt, v), func(ip *Interp) AV { return anyOf(bt, kInt(v)) }, want{kind: "int", i: v})
		}
		add(fmt.Sprintf("*%s", bt), func(ip *Interp) AV { return anyOf(types.NewPointer(bt), ptrTo(ip, kInt(t.min))) }, want{kind: "int", i: t.min})
		add(fmt.Sprintf("*%s nil", bt), func(ip *Interp) AV { return anyOf(types.NewPointer(bt), NilV{}) }, want{kind: "null"})
		add(fmt.Sprintf("[]%s", bt), func(ip *Interp) AV {
			return anyOf(types.NewSlice(bt), ip.mkSlice([]AV{kInt(t.min), kInt(0), kInt(t.max)}))
		}, want{kind: "array", arr: []want{{kind: "int", i: t.min}, {kind: "int", i: 0}, {kind: "int", i: t.max}}})
	}
	// unsigned integers
	type uk struct {
		k   types.BasicKind
		max uint64
	}
	for _, t := range []uk{{types.Uint, math.MaxUint64}, {types.Uint8, math.MaxUint8}, {types.Uint16, math.MaxUint16}, {types.Uint32, math.MaxUint32}, {types.Uint64, math.MaxUint64}} {
		t := t
		bt := basicT(t.k)
		for _, v := range []uint64{0, 9, t.max, t.max/2 + 1} {
			v := v
			add(fmt.Sprintf("%s %d", bt, v), func(ip *Interp) AV { return anyOf(bt, kUint(v)) }, want{kind: "uint", u: v})
		}
		add(fmt.Sprintf("*%s", bt), func(ip *Interp) AV { return anyOf(types.NewPointer(bt), ptrTo(ip, kUint(t.max))) }, want{kind: "uint", u: t.max})
		add(fmt.Sprintf("*%s nil", bt), func(ip *Interp) AV { return anyOf(types.NewPointer(bt), NilV{}) }, want{kind: "null"})
		add(fmt.Sprintf("[]%s", bt), func(ip *Interp) AV {
			return anyOf(types.NewSlice(bt), ip.mkSlice([]AV{kUint(0), kUint(t.max)}))
		}, want{kind: "array", arr: []want{{kind: "uint", u: 0}, {kind: "uint", u: t.max}}})
	}
	// floats
	for _, bits := range []int{32, 64} {
		bits := bits
		bt := basicT(types.Float64)
		vals := []float64{0, math.Copysign(0, -1), 1.5, -2.25, 0.1, 1e21, 1e-7, 123456789.125, math.MaxFloat64, math.SmallestNonzeroFloat64, 5e-324, 1.7976931348623157e308}
		if bits == 32 {
			bt = basicT(types.Float32)
			vals = []float64{0, 1.5, -2.25, float64(float32(0.1)), math.MaxFloat32, math.SmallestNonzeroFloat32}
		}
		for _, v := range vals {
			v := v
			add(fmt.Sprintf("%s %g", bt, v), func(ip *Interp) AV { return anyOf(bt, &FloatV{F: v}) }, want{kind: "float", f: v})
		}
		for _, v := range []float64{math.NaN(), math.Inf(1), math.Inf(-1)} {
			v := v
			add(fmt.Sprintf("%s %g", bt, v), func(ip *Interp) AV { return anyOf(bt, &FloatV{F: v}) }, want{kind: "anystring"})
		}
		add(fmt.Sprintf("*%s", bt), func(ip *Interp) AV { return anyOf(types.NewPointer(bt), ptrTo(ip, &FloatV{F: 1.5})) }, want{kind: "float", f: 1.5})
		add(fmt.Sprintf("*%s nil", bt), func(ip *Interp) AV { return anyOf(types.NewPointer(bt), NilV{}) }, want{kind: "null"})
		add(fmt.Sprintf("[]%s", bt), func(ip *Interp) AV {
			return anyOf(types.NewSlice(bt), ip.mkSlice([]AV{&FloatV{F: 1.5}, &FloatV{F: math.NaN()}, &FloatV{F: -2.25}}))
		}, want{kind: "array", arr: []want{{kind: "float", f: 1.5}, {kind: "anystring"}, {kind: "float", f: -2.25}}})
	}
	// strings
	st := basicT(types.String)
	for _, sv := range encStrings() {
		sv := sv
		add(fmt.Sprintf("string %.20q", sv), func(ip *Interp) AV { return anyOf(st, kStr(sv)) }, want{kind: "string", s: fixString(sv)})
	}
	add("*string", func(ip *Interp) AV { return anyOf(types.NewPointer(st), ptrTo(ip, kStr("p\"\n"))) }, want{kind: "string", s: "p\"\n"})
	add("*string nil", func(ip *Interp) AV { return anyOf(types.NewPointer(st), NilV{}) }, want{kind: "null"})
	add("[]string", func(ip *Interp) AV {
		return anyOf(types.NewSlice(st), ip.mkSlice([]AV{kStr("a"), kStr("\xff\n\""), kStr("")}))
	}, want{kind: "array", arr: []want{{kind: "string", s: "a"}, {kind: "string", s: "�\n\""}, {kind: "string", s: ""}}})
	add("[]string empty", func(ip *Interp) AV {
		return anyOf(types.NewSlice(st), &SliceV{B: &backing{}, Lo: 0, Hi: 0, Cap: 0})
	}, want{kind: "array", arr: []want{}})
	// nil, reflected, unmarshallable
	add("nil", func(ip *Interp) AV { return NilV{} }, want{kind: "null"})
	rt := types.NewStruct(nil, nil)
	add("reflected struct", func(ip *Interp) AV { return anyOf(rt, &Sym{Name: "reflectable"}) }, want{kind: "object", keys: []string{"r"}, obj: map[string]want{"r": {kind: "array", arr: []want{{kind: "int", i: 1}, {kind: "string", s: "x"}}}}})
	add("unmarshallable", func(ip *Interp) AV { return anyOf(rt, &Sym{Name: "unmarshallable"}) }, want{kind: "anystring"})
	// a value that carries its own JSON text (json.RawMessage): valid JSON spread over several lines, which
	// json.Marshal compacts; null; and text that is not JSON (a marshalling error, reported as a string)
	if raw := c.stdNamed("encoding/json", "RawMessage"); raw != nil {
		pretty := "{\n  \"a\": [1, 2],\n\t\"b\": \"x y\"\n}"
		wantPretty := want{kind: "object", keys: []string{"a", "b"}, obj: map[string]want{"a": {kind: "array", arr: []want{{kind: "int", i: 1}, {kind: "int", i: 2}}}, "b": {kind: "string", s: "x y"}}}
		add("json.RawMessage over several lines", func(ip *Interp) AV { return anyOf(raw, ip.bytesAV([]byte(pretty))) }, wantPretty)
		add("*json.RawMessage over several lines", func(ip *Interp) AV {
			return anyOf(types.NewPointer(raw), ptrTo(ip, ip.bytesAV([]byte(pretty))))
		}, wantPretty)
		add("json.RawMessage nil", func(ip *Interp) AV { return anyOf(raw, NilV{}) }, want{kind: "null"})
		add("json.RawMessage not JSON", func(ip *Interp) AV { return anyOf(raw, ip.bytesAV([]byte("{\"a\":\n"))) }, want{kind: "anystring"})
	}
	return cs
}

// stdNamed finds a named type of an imported package in the loaded program.
func (c *Ctx) stdNamed(path, name string) *types.Named {
	for _, p := range c.Prog.AllPackages() {
		if p.Pkg.Path() == path {
			if tn, ok := p.Pkg.Scope().Lookup(name).(*types.TypeName); ok {
				n, _ := tn.Type().(*types.Named)
				return n
			}
		}
	}
	return nil
}

// customArrayWant is what the user-defined ArrayValue of the evaluation (see encWorld.interp) encodes.
var customArrayWant = want{kind: "array", arr: []want{
	{kind: "int", i: -3}, {kind: "anystring"}, {kind: "object", keys: []string{"r"}, obj: map[string]want{"r": {kind: "array", arr: []want{{kind: "int", i: 1}, {kind: "string", s: "x"}}}}},
	{kind: "anystring"}, {kind: "string", s: "s\"\n"}, {kind: "null"}, {kind: "anystring"}, {kind: "bool", b: true}, {kind: "uint", u: 18446744073709551615}, {kind: "float", f: 0.25},
}}

type encWorld struct {
	c       *Ctx
	ro      *Roles
	ew      *entryWorld
	anyFn   *ssa.Function
	objFn   *ssa.Function
	mapFn   *ssa.Function
	fieldT  *types.Named
	eventT  *types.Named
	layouts []*types.Named
}

func (c *Ctx) newEncWorld(ro *Roles) (*encWorld, string) {
	ew, why := c.newEntryWorld(ro)
	if ew == nil {
		return nil, why
	}
	w := &encWorld{c: c, ro: ro, ew: ew, fieldT: ew.fieldT, eventT: ew.eventT, layouts: ro.Layouts}
	w.anyFn, w.objFn, w.mapFn = c.logFunc("Any"), c.logFunc("Object"), c.logFunc("FieldsFromMap")
	if w.anyFn == nil || w.objFn == nil || w.mapFn == nil {
		return nil, "Any / Object / FieldsFromMap not found"
	}
	return w, ""
}

func (w *encWorld) interp() *Interp {
	c := w.c
	ip := newInterp(c)
	ip.MaxSteps = 3000000
	for g, li := range w.ew.lg {
		ip.Globals[g] = ip.newObj(w.ew.ll.level(ip, li.code, li.name))
	}
	for g, nf := range w.ew.poolGlobs {
		o := ip.newObj(&StructV{})
		ip.Globals[g] = o
		ip.PoolNew[o] = nf
	}
	// package-level atomics and other zero-initialised variables of library types
	for _, m := range c.LogS.Members {
		if g, ok := m.(*ssa.Global); ok {
			if _, set := ip.Globals[g]; set {
				continue
			}
			et := g.Type().(*types.Pointer).Elem()
			if nt, ok := types.Unalias(et).(*types.Named); ok && nt.Obj().Pkg() != nil && nt.Obj().Pkg().Path() == "sync/atomic" {
				ip.Globals[g] = ip.newObj(&StructV{})
			}
			if k, ok := et.Underlying().(*types.Basic); ok && k.Info()&types.IsString != 0 {
				// string variables with constant initialisers (a configurable message key, …)
				if ini := c.LogS.Func("init"); ini != nil {
					eachInstr(ini, func(in ssa.Instruction) {
						if st, ok := in.(*ssa.Store); ok && st.Addr == g {
							if sv, ok := constString(st.Val); ok {
								ip.Globals[g] = ip.newObj(kStr(sv))
							}
						}
					})
				}
			}
		}
	}
	// a user-defined ArrayValue: scalars, reflected and unmarshallable values in every position
	ip.OnInvoke = func(ip *Interp, recv *Sym, method string, args []AV) (AV, bool) {
		if recv.Name == "customarray" && method == "EncodeArray" {
			enc, ok := args[0].(*IfaceV)
			if !ok {
				return nil, false
			}
			rt := types.NewStruct(nil, nil)
			ip.InvokeMethod(enc, "AppendInt64", kInt(-3))
			ip.InvokeMethod(enc, "AppendReflect", anyOf(rt, &Sym{Name: "unmarshallable"}))
			ip.InvokeMethod(enc, "AppendReflect", anyOf(rt, &Sym{Name: "reflectable"}))
			ip.InvokeMethod(enc, "AppendReflect", anyOf(rt, &Sym{Name: "unmarshallable"}))
			ip.InvokeMethod(enc, "AppendString", kStr("s\"\n"))
			ip.InvokeMethod(enc, "AppendReflect", NilV{})
			ip.InvokeMethod(enc, "AppendFloat64", &FloatV{F: math.Inf(-1)})
			ip.InvokeMethod(enc, "AppendBool", kBool(true))
			ip.InvokeMethod(enc, "AppendUint64", kUint(18446744073709551615))
			ip.InvokeMethod(enc, "AppendFloat64", &FloatV{F: 0.25})
			return TupleV{}, true
		}
		return nil, false
	}
	ip.OnMarshal = func(ip *Interp, v AV) ([]byte, error) {
		if iv, ok := v.(*IfaceV); ok {
			if s, ok := iv.V.(*Sym); ok {
				switch s.Name {
				case "reflectable":
					return []byte(`{"r":[1,"x"]}`), nil
				case "unmarshallable":
					return nil, fmt.Errorf("json: unsupported type: chan \"int\"\n")
				}
			}
		}
		if iv, ok := v.(*IfaceV); ok {
			t := iv.T
			inner := iv.V
			if pt, isPtr := types.Unalias(t).(*types.Pointer); isPtr {
				t = pt.Elem()
				if p, ok := inner.(*Ptr); ok {
					inner = p.peek()
				}
			}
			if isNamed(t, "encoding/json", "RawMessage") {
				// the value's own JSON text: json.Marshal validates and compacts it (the library is the reference)
				if _, isNil := inner.(NilV); isNil {
					return json.Marshal(json.RawMessage(nil))
				}
				return json.Marshal(json.RawMessage(avBytes(inner)))
			}
		}
		nv, ok := avNative(v)
		if !ok {
			ood("json.Marshal of %s", avString(v))
		}
		return json.Marshal(nv)
	}
	return ip
}

// avNative converts an abstract value to the Go value json.Marshal would see.
func avNative(v AV) (any, bool) {
	switch x := v.(type) {
	case NilV:
		return nil, true
	case *IfaceV:
		return avNative(x.V)
	case constant.Value:
		switch x.Kind() {
		case constant.Bool:
			return constant.BoolVal(x), true
		case constant.String:
			return constant.StringVal(x), true
		case constant.Int:
			if i, exact := constant.Int64Val(x); exact {
				return i, true
			}
			u, _ := constant.Uint64Val(x)
			return u, true
		}
	case *FloatV:
		return x.F, true
	case *SliceV:
		out := []any{}
		for _, e := range x.elems() {
			n, ok := avNative(e)
			if !ok {
				return nil, false
			}
			out = append(out, n)
		}
		return out, true
	case *Ptr:
		return avNative(x.load())
	}
	return nil, false
}

// decode parses one JSON value into want-comparable form, keeping object key order.
type jval struct {
	kind string // bool number string null array object
	b    bool
	num  string
	s    string
	arr  []jval
	keys []string
	obj  map[string]jval
}

func decodeJSON(dec *json.Decoder) (jval, error) {
	tok, err := dec.Token()
	if err != nil {
		return jval{}, err
	}
	switch t := tok.(type) {
	case json.Delim:
		switch t {
		case '{':
			v := jval{kind: "object", obj: map[string]jval{}}
			for dec.More() {
				kt, err := dec.Token()
				if err != nil {
					return v, err
				}
				k, ok := kt.(string)
				if !ok {
					return v, fmt.Errorf("object key is not a string")
				}
				e, err := decodeJSON(dec)
				if err != nil {
					return v, err
				}
				if _, dup := v.obj[k]; dup {
					return v, fmt.Errorf("duplicate key %q", k)
				}
				v.keys = append(v.keys, k)
				v.obj[k] = e
			}
			_, err := dec.Token()
			return v, err
		case '[':
			v := jval{kind: "array"}
			for dec.More() {
				e, err := decodeJSON(dec)
				if err != nil {
					return v, err
				}
				v.arr = append(v.arr, e)
			}
			_, err := dec.Token()
			return v, err
		}
		return jval{}, fmt.Errorf("unexpected delimiter %v", t)
	case bool:
		return jval{kind: "bool", b: t}, nil
	case json.Number:
		return jval{kind: "number", num: string(t)}, nil
	case string:
		return jval{kind: "string", s: t}, nil
	case nil:
		return jval{kind: "null"}, nil
	}
	return jval{}, fmt.Errorf("unexpected token %v", tok)
}

func matchWant(w want, j jval, path string) string {
	switch w.kind {
	case "any":
		return ""
	case "bool":
		if j.kind != "bool" || j.b != w.b {
			return fmt.Sprintf("%s: got %s, want %v", path, jdesc(j), w.b)
		}
	case "int":
		if j.kind != "number" || j.num != strconv.FormatInt(w.i, 10) {
			return fmt.Sprintf("%s: got %s, want %d", path, jdesc(j), w.i)
		}
	case "uint":
		if j.kind != "number" || j.num != strconv.FormatUint(w.u, 10) {
			return fmt.Sprintf("%s: got %s, want %d", path, jdesc(j), w.u)
		}
	case "float":
		if j.kind != "number" {
			return fmt.Sprintf("%s: got %s, want the number %g", path, jdesc(j), w.f)
		}
		f, err := strconv.ParseFloat(j.num, 64)
		if err != nil || math.Float64bits(f) != math.Float64bits(w.f) && !(f == 0 && w.f == 0) {
			return fmt.Sprintf("%s: got %s, which is not bit-exactly %s", path, j.num, strconv.FormatFloat(w.f, 'g', -1, 64))
		}
	case "string":
		if j.kind != "string" || j.s != w.s {
			return fmt.Sprintf("%s: got %.60s, want the string %.60q", path, jdesc(j), w.s)
		}
	case "anystring":
		if j.kind != "string" {
			return fmt.Sprintf("%s: got %s, want a JSON string describing the value", path, jdesc(j))
		}
	case "null":
		if j.kind != "null" {
			return fmt.Sprintf("%s: got %s, want null", path, jdesc(j))
		}
	case "array":
		if j.kind != "array" || len(j.arr) != len(w.arr) {
			return fmt.Sprintf("%s: got %s, want an array of %d", path, jdesc(j), len(w.arr))
		}
		for i := range w.arr {
			if m := matchWant(w.arr[i], j.arr[i], fmt.Sprintf("%s[%d]", path, i)); m != "" {
				return m
			}
		}
	case "object":
		if j.kind != "object" || strings.Join(j.keys, "\x00") != strings.Join(w.keys, "\x00") {
			return fmt.Sprintf("%s: got %s, want an object with members %q in that order", path, jdesc(j), w.keys)
		}
		for _, k := range w.keys {
			if m := matchWant(w.obj[k], j.obj[k], path+"."+k); m != "" {
				return m
			}
		}
	}
	return ""
}

func jdesc(j jval) string {
	switch j.kind {
	case "bool":
		return fmt.Sprint(j.b)
	case "number":
		return j.num
	case "string":
		return fmt.Sprintf("%q", j.s)
	case "object":
		return fmt.Sprintf("object%q", j.keys)
	case "array":
		return fmt.Sprintf("array(%d)", len(j.arr))
	}
	return j.kind
}

// event builds an *Event and the expectation for its members after the header.
type evSpec struct {
	ctxString string
	ctxFields []fieldSpec
	fields    []fieldSpec
	file      string
	line      int
	width     int
	strVars   string // when set: value given to the package's string variables (a configurable message key …)
	// header variation (zero values: evalTime, INFO, "_app_tag")
	at    time.Time
	level string
	code  int64
	tag   string
}

func (ev evSpec) when() time.Time {
	if ev.at.IsZero() {
		return evalTime
	}
	return ev.at
}

func (ev evSpec) lvl() (int64, string) {
	if ev.level == "" {
		return 300, "INFO"
	}
	return ev.code, ev.level
}

func (ev evSpec) tagName() string {
	if ev.tag == "" {
		return "_app_tag"
	}
	return ev.tag
}

type fieldSpec struct {
	key    string
	kind   string // any, object, frommap
	cs     *encCase
	sub    []fieldSpec         // object members
	m      map[string]*encCase // map-sourced
	shared *MapV               // map-sourced from this very map object (kept across events)
	w      want
}

func (w *encWorld) mkField(ip *Interp, fs fieldSpec) (AV, error) {
	switch fs.kind {
	case "object":
		var subs []AV
		for _, s := range fs.sub {
			f, err := w.mkField(ip, s)
			if err != nil {
				return nil, err
			}
			subs = append(subs, f)
		}
		var sl AV = NilV{}
		if len(subs) > 0 {
			sl = ip.mkSlice(subs)
		}
		return ip.Run(w.objFn, []AV{kStr(fs.key), sl}, nil)
	case "customarray":
		arr := w.c.logFunc("Array")
		if arr == nil {
			return nil, oodError{"Array constructor not found"}
		}
		// the dynamic type only has to implement ArrayValue; the evaluation supplies the behaviour (OnInvoke)
		var at types.Type
		if ai := w.c.logIface("ArrayValue"); ai != nil {
			for _, nt := range w.c.implementers(ai) {
				at = nt
				if types.Implements(nt, ai) {
					break
				}
				at = types.NewPointer(nt)
				break
			}
		}
		if at == nil {
			return nil, oodError{"no ArrayValue implementation found"}
		}
		return ip.Run(arr, []AV{kStr(fs.key), &IfaceV{T: at, V: &Sym{Name: "customarray"}}}, nil)
	case "msg":
		mf := w.c.logFunc("Msg")
		if mf == nil {
			return nil, oodError{"Msg constructor not found"}
		}
		return ip.Run(mf, []AV{kStr("the message\n\"q\"")}, nil)
	case "frommap":
		if fs.shared != nil {
			return ip.Run(w.mapFn, []AV{fs.shared}, nil)
		}
		m := &MapV{M: map[string]AV{}}
		for k, cs := range fs.m {
			qk := constant.MakeString(k).ExactString()
			m.M[qk] = cs.mk(ip)
			m.Keys = append(m.Keys, qk)
		}
		return ip.Run(w.mapFn, []AV{m}, nil)
	}
	return ip.Run(w.anyFn, []AV{kStr(fs.key), fs.cs.mk(ip)}, nil)
}

var evalTime = time.Date(2024, 2, 29, 23, 59, 58, 7_000_000, time.FixedZone("X", 5*3600+1800))

func (w *encWorld) run(layout *types.Named, ev evSpec) ([]byte, *Interp, error) {
	return w.runIn(w.interp(), layout, ev)
}

func (w *encWorld) runIn(ip *Interp, layout *types.Named, ev evSpec) ([]byte, *Interp, error) {
	if ev.strVars != "" {
		// every string variable of the package that has a constant initialiser is configuration: give it an awkward value
		for g, o := range ip.Globals {
			if k, ok := g.Type().(*types.Pointer).Elem().Underlying().(*types.Basic); ok && k.Info()&types.IsString != 0 {
				o.V = kStr(ev.strVars)
			}
		}
	}
	lv := ip.zeroOf(layout).(*StructV)
	fillStruct(ip, lv, layout, func(parent *types.Struct, f *types.Var) (AV, bool) {
		if b, ok := f.Type().Underlying().(*types.Basic); ok && b.Info()&types.IsInteger != 0 {
			return kInt(int64(ev.width)), true // the only integer attribute of a layout is the file:line width
		}
		return nil, false
	})
	e := ip.zeroOf(w.eventT).(*StructV)
	es := w.eventT.Underlying().(*types.Struct)
	var spare []*SliceV
	guardCase := w.guardCase()
	mkFields := func(fss []fieldSpec) (AV, error) {
		var out []AV
		for i, fs := range fss {
			f, err := w.mkField(ip, fs)
			if err != nil {
				return nil, err
			}
			if fs.kind == "msg" {
				// the key is whatever the constructor used (the message key constant or variable)
				if fv, ok := f.(*StructV); ok {
					ft := w.fieldT.Underlying().(*types.Struct)
					for j := 0; j < ft.NumFields(); j++ {
						if isStringType(ft.Field(j).Type()) {
							fss[i].key = avStr(fv.F[j])
							break
						}
					}
				}
			}
			out = append(out, f)
		}
		if len(out) == 0 {
			return NilV{}, nil
		}
		// the caller's slice has spare capacity (a request-scoped slice shared by many events): three cells beyond its
		// length hold values of the caller, which formatting an event must leave alone
		n := len(out)
		for k := 0; k < 3; k++ {
			sf, err := w.mkField(ip, fieldSpec{key: "caller-owned", kind: "any", cs: guardCase, w: guardCase.w})
			if err != nil {
				return nil, err
			}
			out = append(out, sf)
		}
		sl := ip.mkSlice(out)
		sl.Hi = n
		spare = append(spare, sl)
		return sl, nil
	}
	for i := 0; i < es.NumFields(); i++ {
		var err error
		switch es.Field(i).Name() {
		case "Level":
			lc, ln := ev.lvl()
			e.F[i] = w.ew.ll.level(ip, lc, ln)
		case "Time":
			e.F[i] = &TimeV{T: ev.when()}
		case "File":
			e.F[i] = kStr(ev.file)
		case "Line":
			e.F[i] = kInt(int64(ev.line))
		case "Tag":
			e.F[i] = kStr(ev.tagName())
		case "CtxString":
			e.F[i] = kStr(ev.ctxString)
		case "CtxFields":
			e.F[i], err = mkFields(ev.ctxFields)
		case "Fields":
			e.F[i], err = mkFields(ev.fields)
		}
		if err != nil {
			return nil, ip, err
		}
	}
	m, path := w.c.methodWithPath(layout, "ToBytes")
	if m == nil {
		return nil, ip, oodError{"ToBytes not found"}
	}
	lp := &Ptr{O: ip.newObj(lv), Path: path}
	res, err := ip.Run(m, []AV{lp, &Ptr{O: ip.newObj(e)}}, nil)
	if err != nil {
		return nil, ip, err
	}
	for _, sl := range spare {
		for k := sl.Hi; k < sl.Cap; k++ {
			if fv, ok := sl.B.cells[k].V.(*StructV); !ok || !strings.Contains(avString(fv), "caller-owned") {
				return nil, ip, fmt.Errorf("formatting the event overwrites element %d of a field slice of length %d it was given (spare capacity of the caller's slice, shared with the caller's other events)", k, sl.Hi)
			}
		}
	}
	return avBytes(res), ip, nil
}

func fileLineWant(file string, line, width int) string {
	fl := file + ":" + strconv.Itoa(line)
	if n := len(fl); n > width {
		keep := width - 3
		if keep < 0 {
			keep = 0
		}
		fl = "..." + fl[n-keep:]
	}
	return fl
}

// memberWants flattens field specs into the (key, want) sequence the JSON object must show after its header.
func memberWants(fss []fieldSpec) (keys []string, ws map[string]want, dup bool) {
	ws = map[string]want{}
	for _, fs := range fss {
		if fs.kind == "frommap" {
			var ks []string
			for k := range fs.m {
				ks = append(ks, k)
			}
			sort.Strings(ks)
			for _, k := range ks {
				if _, ok := ws[k]; ok {
					dup = true
				}
				keys = append(keys, k)
				ws[k] = fs.m[k].w
			}
			continue
		}
		if _, ok := ws[fs.key]; ok {
			dup = true
		}
		keys = append(keys, fs.key)
		ws[fs.key] = fs.w
	}
	return
}

func (c *Ctx) checkLayoutSemantics(r *Report, ro *Roles, rule string) (jsonOK, textOK bool) {
	if c.layoutMemo != nil {
		return c.layoutMemo[0], c.layoutMemo[1]
	}
	defer func() { c.layoutMemo = &[2]bool{jsonOK, textOK} }()
	w, why := c.newEncWorld(ro)
	if w == nil {
		r.Inconclusive(rule+":world", "%s", why)
		return
	}
	cases := c.encCases()
	byName := map[string]*encCase{}
	for i := range cases {
		byName[cases[i].name] = &cases[i]
	}
	pick := func(name string) *encCase {
		cs, ok := byName[name]
		if !ok {
			panic("no case " + name)
		}
		return cs
	}
	single := func(cs *encCase, key string) fieldSpec { return fieldSpec{key: key, kind: "any", cs: cs, w: cs.w} }
	// events
	var evs []evSpec
	// (1) every value alone, under an awkward key for a few of them
	keys := []string{"k", "", `q"\` + "\n", "é", "\xff", "a b"}
	for i := range cases {
		k := "k"
		if i%9 == 0 {
			k = keys[(i/9)%len(keys)]
		}
		evs = append(evs, evSpec{fields: []fieldSpec{single(&cases[i], k)}, file: "/src/main.go", line: 42, width: 48})
	}
	// (2) every ordered pair of token kinds (separators after each kind of token), with and without context
	emptyObj := fieldSpec{key: "eo", kind: "object", w: want{kind: "object", keys: []string{}, obj: map[string]want{}}}
	obj := func(key string, subs ...fieldSpec) fieldSpec {
		ks, ws, _ := memberWants(subs)
		if ks == nil {
			ks = []string{}
		}
		return fieldSpec{key: key, kind: "object", sub: subs, w: want{kind: "object", keys: ks, obj: ws}}
	}
	nested := obj("o", single(pick("int 7"), "n"), obj("in", single(pick("[]string"), "ss"), emptyObj, obj("d3", single(pick("nil"), "z"), obj("d4", single(pick("bool true"), "t")))), single(pick("string \"plain\""), "s"))
	kinds := []fieldSpec{
		single(pick("bool true"), "b"), single(pick("int64 -1"), "i"), single(pick("float64 1.5"), "f"), single(pick("float64 NaN"), "nan"), single(pick("string \"quote\\\"inside\""), "s"),
		single(pick("nil"), "nil"), single(pick("[]string empty"), "ea"), single(pick("[]int"), "ia"), emptyObj, nested, single(pick("reflected struct"), "r"), single(pick("unmarshallable"), "u"),
		{kind: "frommap", m: map[string]*encCase{"mb": pick("uint64 18446744073709551615"), "ma": pick("string \"line\\nbreak\""), "mc": pick("[]bool")}},
		{key: "ca", kind: "customarray", w: customArrayWant},
	}
	rename := func(fs fieldSpec, suffix string) fieldSpec {
		if fs.kind == "frommap" {
			m := map[string]*encCase{}
			for k, v := range fs.m {
				m[k+suffix] = v
			}
			fs.m = m
			return fs
		}
		fs.key += suffix
		return fs
	}
	for i, a := range kinds {
		for j, b := range kinds {
			ev := evSpec{fields: []fieldSpec{a, rename(b, "2")}, file: "f.go", line: 1, width: 48}
			switch (i + j) % 3 {
			case 1:
				ev.ctxString = "trace=\"abc\" é"
				ev.ctxFields = []fieldSpec{rename(kinds[(i+1)%len(kinds)], "c")}
			case 2:
				ev.ctxFields = []fieldSpec{rename(a, "c"), rename(b, "d")}
			}
			evs = append(evs, ev)
		}
	}
	// (3) file:line widths
	longFile := "/very/long/path/to/some/package/" + strings.Repeat("d/", 30) + "file_name.go"
	for _, wd := range []int{-5, -1, 0, 1, 2, 3, 4, 5, 10, 48, 200} {
		for _, f := range []string{"a.go", longFile, ""} {
			evs = append(evs, evSpec{fields: []fieldSpec{single(pick("int 7"), "n")}, file: f, line: 123456, width: wd})
		}
	}
	// (3b) file:line exactly at, just below and just above the width
	for _, f := range []string{"pkg/file.go", "x.go"} {
		n := len(f) + 1 + len("123456")
		for _, wd := range []int{n - 2, n - 1, n, n + 1, n + 2} {
			evs = append(evs, evSpec{fields: []fieldSpec{single(pick("int 7"), "n")}, file: f, line: 123456, width: wd})
		}
	}
	// (3b') file names with characters a JSON string must escape (a Windows path, a quote), short and cut
	for _, f := range []string{`C:\src\app\main.go`, `dir/a"b".go`, `\`} {
		for _, wd := range []int{8, 48} {
			evs = append(evs, evSpec{fields: []fieldSpec{single(pick("int 7"), "n")}, file: f, line: 9, width: wd})
		}
	}
	// (3c) the message field, with the package's string variables (a configurable message key) left alone and set
	// to a value that needs escaping
	for _, sv := range []string{"", "m\"k\n\xff\\"} {
		evs = append(evs, evSpec{fields: []fieldSpec{{kind: "msg", w: want{kind: "string", s: "the message\n\"q\""}}, single(pick("int 7"), "n")}, file: "a.go", line: 1, width: 48, strVars: sv})
	}
	// (4) no fields at all
	evs = append(evs, evSpec{file: "a.go", line: 1, width: 48}, evSpec{file: "a.go", line: 1, width: 48, ctxString: "only ctx"})

	var jsonLay, textLay *types.Named
	for _, l := range w.layouts {
		switch {
		case strings.Contains(strings.ToLower(l.Obj().Name()), "json"):
			jsonLay = l
		case strings.Contains(strings.ToLower(l.Obj().Name()), "text"):
			textLay = l
		}
	}
	if jsonLay == nil || textLay == nil {
		r.Inconclusive(rule+":layouts", "JSON / text layout types not found")
		return
	}
	var badJ, badT []string
	var oodJ, oodT string
	failJ := func(format string, args ...any) {
		if len(badJ) < 3 {
			badJ = append(badJ, fmt.Sprintf(format, args...))
		}
	}
	failT := func(format string, args ...any) {
		if len(badT) < 3 {
			badT = append(badT, fmt.Sprintf(format, args...))
		}
	}
	runs := 0
	describe := func(ev evSpec) string {
		var ss []string
		for _, f := range append(append([]fieldSpec{}, ev.ctxFields...), ev.fields...) {
			switch f.kind {
			case "any":
				ss = append(ss, fmt.Sprintf("%q=%s", f.key, f.cs.name))
			default:
				ss = append(ss, fmt.Sprintf("%q=%s", f.key, f.kind))
			}
		}
		return fmt.Sprintf("fields [%s] ctxString=%q file=%.20q width=%d", strings.Join(ss, ", "), ev.ctxString, ev.file, ev.width)
	}
	freshJ, freshT := map[int][]byte{}, map[int][]byte{}
	for evIdx, ev := range evs {
		if oodJ != "" && oodT != "" {
			break
		}
		var jline []byte
		var top jval
		haveJ := false
		if oodJ == "" {
			out, _, err := w.run(jsonLay, ev)
			if err == nil && ev.strVars == "" {
				freshJ[evIdx] = out
			}
			runs++
			if err != nil {
				if _, isOOD := err.(oodError); isOOD {
					oodJ = err.Error()
				} else {
					failJ("%s: %v", describe(ev), err)
				}
			} else {
				jline = out
				// one line, one object
				if len(out) == 0 || out[len(out)-1] != '\n' || bytes.IndexByte(out[:len(out)-1], '\n') >= 0 {
					failJ("%s: the output is not exactly one line: %.80q", describe(ev), out)
				} else if !utf8.Valid(out) {
					failJ("%s: the line is not valid UTF-8", describe(ev))
				} else {
					dec := json.NewDecoder(bytes.NewReader(out))
					dec.UseNumber()
					v, err := decodeJSON(dec)
					if err == nil && dec.More() {
						err = fmt.Errorf("trailing data after the object")
					}
					if err != nil || v.kind != "object" {
						failJ("%s: the line is not a single JSON object (%v): %.120q", describe(ev), err, out)
					} else {
						top, haveJ = v, true
						for i := 0; i < len(out)-1; i++ {
							if out[i] < 0x20 {
								failJ("%s: raw control byte 0x%02x in the line", describe(ev), out[i])
								break
							}
						}
					}
				}
			}
		}
		if haveJ {
			wantKeys := []string{"level", "time", "fileLine", "tag"}
			ws := map[string]want{
				"level":    {kind: "string", s: "info"},
				"time":     {kind: "string", s: evalTime.Format("2006-01-02T15:04:05.000")},
				"fileLine": {kind: "string", s: fileLineWant(ev.file, ev.line, ev.width)},
				"tag":      {kind: "string", s: "_app_tag"},
			}
			if ev.ctxString != "" {
				wantKeys = append(wantKeys, "ctxString")
				ws["ctxString"] = want{kind: "string", s: fixString(ev.ctxString)}
			}
			k2, w2, dup := memberWants(append(append([]fieldSpec{}, ev.ctxFields...), ev.fields...))
			if !dup {
				for _, k := range k2 {
					if _, clash := ws[fixString(k)]; clash {
						dup = true
					}
				}
			}
			if !dup {
				for _, k := range k2 {
					wantKeys = append(wantKeys, fixString(k))
					ws[fixString(k)] = w2[k]
				}
				if m := matchWant(want{kind: "object", keys: wantKeys, obj: ws}, top, "$"); m != "" {
					failJ("%s: decoding the line does not yield the logged data — %s; line: %.160q", describe(ev), m, jline)
				}
			}
		}
		if oodT == "" {
			out, _, err := w.run(textLay, ev)
			if err == nil && ev.strVars == "" {
				freshT[evIdx] = out
			}
			runs++
			if err != nil {
				if _, isOOD := err.(oodError); isOOD {
					oodT = err.Error()
				} else {
					failT("%s: %v", describe(ev), err)
				}
				continue
			}
			if len(out) == 0 || out[len(out)-1] != '\n' || bytes.IndexByte(out[:len(out)-1], '\n') >= 0 {
				failT("%s: the output is not exactly one line: %.80q", describe(ev), out)
				continue
			}
			line := string(out[:len(out)-1])
			for i := 0; i < len(line); i++ {
				if line[i] < 0x20 {
					failT("%s: raw control byte 0x%02x in the text line", describe(ev), line[i])
					break
				}
			}
			head := "[INFO][" + evalTime.Format("2006-01-02T15:04:05.000") + "][" + fileLineWant(ev.file, ev.line, ev.width) + "] _app_tag||"
			if !strings.HasPrefix(line, head) {
				failT("%s: the line does not start with the header %q: %.120q", describe(ev), head, line)
				continue
			}
			rest := line[len(head):]
			if ev.ctxString != "" {
				if !strings.HasPrefix(rest, ev.ctxString+"||") {
					failT("%s: the context string does not follow the header: %.120q", describe(ev), line)
					continue
				}
				rest = rest[len(ev.ctxString)+2:]
			}
			// tokens: compare with the JSON line's tokens of the same event
			if haveJ && oodJ == "" {
				k2, _, dup := memberWants(append(append([]fieldSpec{}, ev.ctxFields...), ev.fields...))
				if dup {
					continue
				}
				var parts []string
				for _, k := range k2 {
					raw := rawMember(jline, top, fixString(k))
					if raw == "" {
						parts = nil
						break
					}
					val := raw
					if strings.HasPrefix(val, `"`) && strings.HasSuffix(val, `"`) && len(val) >= 2 {
						val = val[1 : len(val)-1] // string tokens lose the quotes at the top level
					}
					parts = append(parts, escKey(jline, k)+"="+val)
				}
				if parts != nil {
					if wantRest := strings.Join(parts, "||"); rest != wantRest {
						failT("%s: the key=value part is %.140q, the JSON tokens of the same event give %.140q", describe(ev), rest, wantRest)
					}
				}
			}
		}
	}
	// (4a) history: the whole event list once more through both layouts in ONE evaluation state (buffer and encoder
	// pools, caches, package variables persist from event to event, the layouts alternate): a line depends on its own
	// event only, so every output must equal the one produced from a fresh state
	if oodJ == "" && oodT == "" && len(badJ) == 0 && len(badT) == 0 {
		ip := w.interp()
		for evIdx, ev := range evs {
			if ev.strVars != "" {
				continue
			}
			for _, lay := range []*types.Named{textLay, jsonLay} {
				fresh := freshT[evIdx]
				if lay == jsonLay {
					fresh = freshJ[evIdx]
				}
				if fresh == nil {
					continue
				}
				out, _, err := w.runIn(ip, lay, ev)
				runs++
				if err != nil {
					if _, isOOD := err.(oodError); isOOD {
						// the shared state left the fragment: this pass decides nothing
						evIdx = len(evs)
						break
					}
					failT("%s, as event %d of a sequence in one evaluation state: %v", describe(ev), evIdx+1, err)
					break
				}
				if !bytes.Equal(out, fresh) {
					f := failT
					if lay == jsonLay {
						f = failJ
					}
					f("%s, as event %d of a sequence in one evaluation state (pools and caches warm), %s gives %.140q; from a fresh state the same event gives %.140q", describe(ev), evIdx+1, lay.Obj().Name(), out, fresh)
				}
			}
			if len(badJ) > 0 || len(badT) > 0 || evIdx >= len(evs) {
				break
			}
		}
	}
	// (4b) header sequence: one interpreter state (pools, caches, package variables) for the whole sequence, both
	// layouts alternating: the same instant in different zones, the same wall clock at different instants, neighbouring
	// seconds in both directions, millisecond boundaries, every level, several tags
	if oodJ == "" && oodT == "" && len(badJ) == 0 && len(badT) == 0 {
		ip := w.interp()
		base := time.Date(2024, 2, 29, 23, 59, 58, 7_000_000, time.UTC)
		zones := []*time.Location{time.UTC, time.FixedZone("A", 5*3600+1800), time.FixedZone("B", -8*3600), time.FixedZone("C", 30), time.FixedZone("D", 14*3600)}
		var seq []evSpec
		add := func(t time.Time, code int64, level, tag string) {
			seq = append(seq, evSpec{file: "a.go", line: 7, width: 48, at: t, code: code, level: level, tag: tag, fields: []fieldSpec{{key: "k", kind: "any", cs: &encCase{name: "int 1", mk: func(ip *Interp) AV { return anyOf(basicT(types.Int), kInt(1)) }, w: want{kind: "int", i: 1}}}}})
		}
		for _, z := range zones {
			add(base.In(z), 300, "INFO", "_app_tag") // one instant, five zones
		}
		for _, z := range zones {
			add(time.Date(2024, 2, 29, 23, 59, 58, 7_000_000, z), 300, "INFO", "_app_tag") // one wall clock, five instants
		}
		for _, d := range []time.Duration{time.Second, -time.Second, 0, 993 * time.Millisecond, -8 * time.Millisecond, -7 * time.Millisecond, 3 * time.Millisecond, 93 * time.Millisecond, time.Hour, 24 * time.Hour, -366 * 24 * time.Hour, 999 * time.Microsecond} {
			add(base.Add(d), 300, "INFO", "_app_tag")
			add(base.Add(d).In(zones[1]), 300, "INFO", "_app_tag")
		}
		add(time.Date(1999, 12, 31, 23, 59, 59, 999_000_000, time.UTC), 300, "INFO", "_app_tag")
		add(time.Date(2000, 1, 1, 0, 0, 0, 0, time.UTC), 300, "INFO", "_app_tag")
		add(time.Date(9999, 12, 31, 23, 59, 59, 999_999_999, time.UTC), 300, "INFO", "_app_tag")
		add(time.Date(1, 1, 1, 0, 0, 0, 1_000_000, time.UTC), 300, "INFO", "_app_tag")
		for _, li := range w.ew.levelList() {
			add(base, li.code, li.name, "_biz_order_pay")
		}
		add(base, 300, "INFO", "_x")
		add(base, 300, "INFO", "_rpc_a_very_long_tag_name_of_36_chars")
		for i, ev := range seq {
			for _, lay := range []*types.Named{textLay, jsonLay, textLay} {
				out, _, err := w.runIn(ip, lay, ev)
				runs++
				if err != nil {
					if _, isOOD := err.(oodError); isOOD {
						if lay == textLay {
							oodT = err.Error()
						} else {
							oodJ = err.Error()
						}
					} else {
						failT("header sequence, event %d: %v", i+1, err)
					}
					break
				}
				_, ln := ev.lvl()
				ts := ev.when().Format("2006-01-02T15:04:05.000")
				if lay == textLay {
					head := "[" + strings.ToUpper(ln) + "][" + ts + "][a.go:7] " + ev.tagName() + "||"
					if !strings.HasPrefix(string(out), head) {
						failT("header sequence, event %d (time %s, level %s, tag %s, after %d other events in the same evaluation state): the line does not start with %q: %.120q", i+1, ev.when().Format(time.RFC3339Nano), ln, ev.tagName(), i, head, out)
					}
				} else {
					dec := json.NewDecoder(bytes.NewReader(out))
					dec.UseNumber()
					v, derr := decodeJSON(dec)
					ws := map[string]want{"level": {kind: "string", s: strings.ToLower(ln)}, "time": {kind: "string", s: ts}, "fileLine": {kind: "string", s: "a.go:7"}, "tag": {kind: "string", s: ev.tagName()}, "k": {kind: "int", i: 1}}
					if derr != nil {
						failJ("header sequence, event %d: %v", i+1, derr)
					} else if m := matchWant(want{kind: "object", keys: []string{"level", "time", "fileLine", "tag", "k"}, obj: ws}, v, "$"); m != "" {
						failJ("header sequence, event %d (time %s, level %s, tag %s, after %d other events in the same evaluation state): %s; line: %.160q", i+1, ev.when().Format(time.RFC3339Nano), ln, ev.tagName(), i, m, out)
					}
				}
			}
			if oodJ != "" || oodT != "" || len(badJ) > 0 || len(badT) > 0 {
				break
			}
		}
	}
	// (5) history: the same map object logged twice with a key replaced in between (same size), the same layout
	// value and the same interpreter state (pools, caches) throughout
	if oodJ == "" {
		ip := w.interp()
		shared := &MapV{M: map[string]AV{}}
		names := []string{"k1", "k2", "k3", "k4", "k5", "k6", "k7", "k8", "k9"}
		for _, k := range names {
			qk := constant.MakeString(k).ExactString()
			shared.M[qk] = anyOf(basicT(types.Int), kInt(int64(len(k))))
			shared.Keys = append(shared.Keys, qk)
		}
		wantFor := func() (keys []string, ws map[string]want) {
			ws = map[string]want{}
			for _, qk := range shared.Keys {
				k, _ := strconv.Unquote(qk)
				keys = append(keys, k)
				ws[k] = want{kind: "int", i: int64(len(k))}
			}
			sort.Strings(keys)
			return
		}
		for round := 0; round < 3 && len(badJ) == 0; round++ {
			ev := evSpec{fields: []fieldSpec{{kind: "frommap", shared: shared}}, file: "a.go", line: 1, width: 48}
			out, _, err := w.runIn(ip, jsonLay, ev)
			runs++
			if err != nil {
				if _, isOOD := err.(oodError); isOOD {
					oodJ = err.Error()
				} else {
					failJ("map logged repeatedly (round %d): %v", round+1, err)
				}
				break
			}
			dec := json.NewDecoder(bytes.NewReader(out))
			dec.UseNumber()
			v, derr := decodeJSON(dec)
			ks, ws := wantFor()
			wantKeys := append([]string{"level", "time", "fileLine", "tag"}, ks...)
			for _, h := range wantKeys[:4] {
				ws[h] = want{kind: "any"}
			}
			if derr != nil {
				failJ("map logged repeatedly (round %d): %v", round+1, derr)
			} else if m := matchWant(want{kind: "object", keys: wantKeys, obj: ws}, v, "$"); m != "" {
				failJ("the same map logged again after one key was replaced (round %d): %s; line: %.160q", round+1, m, out)
			}
			// replace one key, keeping the size
			old := shared.Keys[0]
			delete(shared.M, old)
			nk := constant.MakeString(fmt.Sprintf("zz%d", round)).ExactString()
			shared.Keys = append(shared.Keys[1:], nk)
			shared.M[nk] = anyOf(basicT(types.Int), kInt(3))
		}
	}
	r.Count("layout_evaluations", runs)
	nEv := len(evs)
	switch {
	case oodJ != "":
		r.Inconclusive(rule+":"+jsonLay.Obj().Name(), "%s", oodJ)
	case len(badJ) > 0:
		r.Fail(rule+":"+jsonLay.Obj().Name(), c.pos(jsonLay.Obj().Pos()), "%s", strings.Join(badJ, "; "))
	default:
		jsonOK = true
		r.OK(rule+":"+jsonLay.Obj().Name(), "%d events evaluated (%d values of every dispatched type incl. boundary numbers, non-finite floats, %d strings of every escape class at every alignment; all ordered pairs of token kinds; nesting to depth 4; map-sourced fields; context string/fields; widths −5…200): each yields one line holding one JSON object whose members are level, time, fileLine, tag, [ctxString], context fields, fields in order, and which decodes to the logged data (integers exact, finite floats bit-exact, invalid bytes → U+FFFD, nil → null, non-finite/unmarshallable → string)", nEv, len(cases), len(encStrings()))
	}
	switch {
	case oodT != "":
		r.Inconclusive(rule+":"+textLay.Obj().Name(), "%s", oodT)
	case len(badT) > 0:
		r.Fail(rule+":"+textLay.Obj().Name(), c.pos(textLay.Obj().Pos()), "%s", strings.Join(badT, "; "))
	case oodJ == "":
		textOK = true
		r.OK(rule+":"+textLay.Obj().Name(), "%d events evaluated: one line '[LEVEL][time][file:line] tag||', context string, then key=value pairs joined by '||' whose tokens are the JSON layout's tokens for the same event (strings, error texts and non-finite floats without quotes; nested values as the identical compact JSON); file:line longer than W shown as '...' + last max(W−3,0) bytes for W from −5 to 200", nEv)
	default:
		r.Inconclusive(rule+":"+textLay.Obj().Name(), "header and line shape hold; tokens could not be compared because the JSON layout was not evaluated")
	}
	return
}

// rawMember returns the raw text of member key of the top-level object in line.
func rawMember(line []byte, top jval, key string) string {
	dec := json.NewDecoder(bytes.NewReader(line))
	dec.UseNumber()
	if _, err := dec.Token(); err != nil { // {
		return ""
	}
	for dec.More() {
		kt, err := dec.Token()
		if err != nil {
			return ""
		}
		start := dec.InputOffset()
		var raw json.RawMessage
		if err := dec.Decode(&raw); err != nil {
			return ""
		}
		_ = start
		if k, _ := kt.(string); k == key {
			return string(raw)
		}
	}
	return ""
}

// escKey: the escaped spelling of key as it appears in the JSON line (the text layout writes the same escaping).
func escKey(line []byte, key string) string {
	b, _ := json.Marshal(fixString(key))
	// find the member name in the line to take the layout's own escaping (it may differ from encoding/json's)
	dec := json.NewDecoder(bytes.NewReader(line))
	if _, err := dec.Token(); err != nil {
		return string(b[1 : len(b)-1])
	}
	pos := dec.InputOffset()
	for dec.More() {
		kt, err := dec.Token()
		if err != nil {
			break
		}
		end := dec.InputOffset()
		if k, _ := kt.(string); k == fixString(key) {
			seg := strings.TrimSpace(string(line[pos:end]))
			seg = strings.TrimLeft(seg, ", ")
			if len(seg) >= 2 {
				return seg[1 : len(seg)-1]
			}
		}
		var raw json.RawMessage
		if err := dec.Decode(&raw); err != nil {
			break
		}
		pos = dec.InputOffset()
	}
	return string(b[1 : len(b)-1])
}

// layoutDecisions registers what the layout evaluation decides for the shape obligations of C07–C10.
func layoutDecisions(r *Report, jsonOK, textOK bool) {
	switch r.Prop {
	case "C07":
		if jsonOK {
			r.Decide([]string{"C07.order:", "C07.fsm:", "C07.dispatch:", "C07.numbers:", "C07.nonfinite:", "C07.sanitised:", "C07.reflect-error:", "C07.anchor:"}, func(k string) bool {
				return !strings.Contains(k, "TextEncoder") && !strings.Contains(k, "TextLayout") || textOK
			}, "JSON layout evaluated over the listed domain")
		}
	case "C08":
		if jsonOK && textOK {
			r.Decide([]string{"C08.header:", "C08.delegate:", "C08.tokens:", "C08.sep:", "C08.width:", "C08.truncate:", "C08.anchor:"}, nil, "text layout evaluated against the JSON layout's tokens over the listed domain")
		}
	case "C09":
		// decided where the escaper evaluation is run (see below)
	case "C10":
		if jsonOK && textOK {
			r.Decide([]string{"C10.order:"}, nil, "both layouts evaluated: context fields precede the call's fields")
		}
	}
}

// ---------------------------------------------------------------------------
// String escaping through the encoders' own AppendString / AppendKey (C09)

var boundaryBytes = []byte{0x00, 0x01, 0x08, 0x09, 0x0a, 0x0b, 0x0c, 0x0d, 0x1f, 0x20, 0x21, '"', 0x23, '/', '\\', 0x5d, 0x7e, 0x7f,
	0x80, 0x81, 0xbf, 0xc0, 0xc1, 0xc2, 0xdf, 0xe0, 0xe1, 0xec, 0xed, 0xee, 0xef, 0xf0, 0xf1, 0xf3, 0xf4, 0xf5, 0xf7, 0xf8, 0xfe, 0xff, 'a'}

var smallBytes = []byte{0x00, 0x0a, '"', '\\', 'a', 0x7f, 0x80, 0xbf, 0xc2, 0xe0, 0xed, 0xef, 0xf0, 0xf4, 0xf5, 0xff}

func escaperStrings(thorough bool) []string {
	var out []string
	for b := 0; b < 256; b++ {
		out = append(out, string([]byte{byte(b)}))
	}
	for _, a := range boundaryBytes {
		for _, b := range boundaryBytes {
			out = append(out, string([]byte{a, b}))
		}
	}
	three := smallBytes
	if thorough {
		three = boundaryBytes
	}
	for _, a := range three {
		for _, b := range three {
			for _, c := range three {
				out = append(out, string([]byte{a, b, c}))
			}
		}
	}
	four := smallBytes[:8]
	if thorough {
		four = smallBytes
	}
	for _, a := range four {
		for _, b := range four {
			for _, c := range four {
				for _, d := range four {
					out = append(out, string([]byte{a, b, c, d}))
				}
			}
		}
	}
	// every code-point class edge, valid
	for _, r := range []rune{0, 0x7f, 0x80, 0x7ff, 0x800, 0xd7ff, 0xe000, 0xfffd, 0xffff, 0x10000, 0xfffff, 0x100000, 0x10ffff} {
		out = append(out, string(r), "a"+string(r)+"b")
	}
	// every special at every offset of a long plain string (block-wise fast paths, staging buffers)
	specials := []string{`"`, `\`, "\x01", "\n", "\x0b", "\x7f", "é", "\xff", "\U0010ffff", "\xe2\x82"}
	for _, sp := range specials {
		for off := 0; off <= 72; off++ {
			out = append(out, strings.Repeat("p", off)+sp+strings.Repeat("q", 24))
		}
	}
	return out
}

func (c *Ctx) checkEscaperSemantics(r *Report, ro *Roles, rule string, thorough bool) bool {
	if c.escMemo != nil {
		return *c.escMemo
	}
	ok := false
	defer func() { c.escMemo = &ok }()
	w, why := c.newEncWorld(ro)
	if w == nil {
		r.Inconclusive(rule+":world", "%s", why)
		return false
	}
	encI := c.logIface("Encoder")
	if encI == nil {
		r.Inconclusive(rule+":anchor", "Encoder interface not found")
		return false
	}
	strs := escaperStrings(thorough)
	all := true
	for _, T := range ro.Encoders {
		key := rule + ":" + T.Obj().Name()
		// constructor: a module function returning *T whose first parameter is a *bytes.Buffer
		var ctor *ssa.Function
		for _, f := range c.Funcs {
			if f.Pkg != c.LogS || f.Signature.Recv() != nil || f.Parent() != nil || f.Signature.Results().Len() != 1 || len(f.Params) == 0 {
				continue
			}
			if !types.Identical(f.Signature.Results().At(0).Type(), types.NewPointer(T)) {
				continue
			}
			if p, okp := f.Params[0].Type().(*types.Pointer); okp && isNamed(p.Elem(), "bytes", "Buffer") {
				ctor = f
			}
		}
		if ctor == nil {
			r.Inconclusive(key, "no constructor taking a *bytes.Buffer found")
			all = false
			continue
		}
		isJSON := strings.Contains(strings.ToLower(T.Obj().Name()), "json")
		var bad []string
		var oodWhy string
		runs := 0
		// long strings into a buffer that already holds a line and has 4 KiB of spare capacity (a recycled buffer): code
		// that builds in the buffer's spare room must not disturb what is there, nor its own earlier output
		const warmPrefix = "already written||"
		type strCase struct {
			s    string
			warm bool
		}
		var cases []strCase
		for _, sv := range strs {
			cases = append(cases, strCase{sv, false})
		}
		for _, n := range []int{200, 255, 256, 257, 300, 511, 513, 700, 1500, 4000, 4200} {
			unit := "plain text \"q\" back\\slash \n tab\t é日本😀 \xff end;"
			cases = append(cases, strCase{strings.Repeat(unit, n/len(unit)+1)[:n], true}, strCase{strings.Repeat("a", n), true}, strCase{strings.Repeat("\n", n/2), true})
		}
		for _, method := range []string{"AppendString", "AppendKey"} {
			for _, cs := range cases {
				sv := cs.s
				ip := w.interp()
				ip.MaxSteps = 4000000
				bv := &BufV{}
				if cs.warm {
					bv = &BufV{S: []byte(warmPrefix), Spare: 4096}
				}
				buf := &Ptr{O: ip.newObj(bv)}
				args := []AV{buf}
				for _, p := range ctor.Params[1:] {
					if isStringType(p.Type()) {
						args = append(args, kStr("||"))
					} else {
						args = append(args, ip.zeroOf(p.Type()))
					}
				}
				encv, err := ip.Run(ctor, args, nil)
				if err == nil {
					iv := &IfaceV{T: types.NewPointer(T), V: encv}
					_, err = func() (res AV, err error) {
						defer func() {
							if x := recover(); x != nil {
								switch e := x.(type) {
								case oodError:
									err = e
								case panicError:
									err = e
								default:
									panic(x)
								}
							}
						}()
						return ip.InvokeMethod(iv, method, kStr(sv)), nil
					}()
				}
				runs++
				if err != nil {
					if _, isOOD := err.(oodError); isOOD {
						oodWhy = err.Error()
						break
					}
					if len(bad) < 3 {
						bad = append(bad, fmt.Sprintf("%s(%q): %v", method, sv, err))
					}
					continue
				}
				out := string(buf.O.V.(*BufV).S)
				if cs.warm {
					if !strings.HasPrefix(out, warmPrefix) {
						if len(bad) < 3 {
							bad = append(bad, fmt.Sprintf("%s of a %d-byte string into a buffer that already holds %q: the earlier content is now %.40q", method, len(sv), warmPrefix, out))
						}
						continue
					}
					out = out[len(warmPrefix):]
				}
				lit := out
				switch {
				case isJSON && method == "AppendKey":
					lit = strings.TrimSuffix(out, ":")
				case !isJSON && method == "AppendKey":
					lit = `"` + strings.TrimSuffix(out, "=") + `"`
				case !isJSON:
					lit = `"` + out + `"`
				}
				var dec string
				problem := ""
				switch {
				case !utf8.ValidString(out):
					problem = "the output is not valid UTF-8"
				case json.Unmarshal([]byte(lit), &dec) != nil:
					problem = "the quoted output is not a JSON string literal"
				case dec != fixString(sv):
					problem = fmt.Sprintf("it decodes to %.40q, want %.40q", dec, fixString(sv))
				default:
					for i := 0; i < len(out); i++ {
						if out[i] < 0x20 {
							problem = fmt.Sprintf("raw control byte 0x%02x in the output", out[i])
							break
						}
					}
				}
				if problem != "" && len(bad) < 3 {
					bad = append(bad, fmt.Sprintf("%s(%.50q) writes %.60q: %s", method, sv, out, problem))
				}
			}
			if oodWhy != "" {
				break
			}
		}
		r.Count("escaper_evaluations", runs)
		switch {
		case oodWhy != "":
			r.Inconclusive(key, "%s", oodWhy)
			all = false
		case len(bad) > 0:
			r.Fail(key, c.pos(T.Obj().Pos()), "%s", strings.Join(bad, "; "))
			all = false
		default:
			r.OK(key, "%d strings through AppendString and AppendKey (all single bytes; all pairs over %d UTF-8 class-edge bytes; triples and quadruples over boundary alphabets; every code-point class edge; every kind of special at every offset 0–72 of a long plain string): the quoted output is a JSON string literal and valid UTF-8 that decodes to the input with each invalid byte as U+FFFD, with no raw control byte", len(strs), len(boundaryBytes))
		}
	}
	ok = all && len(ro.Encoders) >= 2
	return ok
}

// guardCase: the value of the caller-owned elements beyond the length of a field slice handed to a layout.
func (w *encWorld) guardCase() *encCase {
	return &encCase{name: "guard", mk: func(ip *Interp) AV { return anyOf(basicT(types.String), kStr("guard")) }, w: want{kind: "string", s: "guard"}}
}
