package main

// canary.go: rules whose expected match count on a correct tree is zero are additionally
// evaluated against an in-memory overlay of the repository that adds one violation of each
// (a file that exists only in the go/packages overlay, never on disk). If a rule does not
// report its canary the check fails: a rule that silently stopped matching would otherwise
// pass forever.

import (
	"path/filepath"
	"strings"
)

const canarySource = `package log

import (
	"bufio"
	"os"
)

// vcheckCanaryAppender is analysed only inside the checker's overlay.
type vcheckCanaryAppender struct {
	AppenderBase
	Layout Layout
	w      *bufio.Writer
	keep   []byte
	file   *os.File
}

func (c *vcheckCanaryAppender) Start() error { return nil }
func (c *vcheckCanaryAppender) Stop()        { _ = os.Remove(c.Name) }
func (c *vcheckCanaryAppender) Append(e *Event) {
	c.Write(c.Layout.ToBytes(e))
}
func (c *vcheckCanaryAppender) Write(b []byte) {
	c.keep = b
	go func() { _, _ = c.file.Write(b) }()
	if len(b) == 0 {
		panic("vcheck canary")
	}
}
`

// canaryExpect: property -> obligation-key prefixes that must be violated on the overlay.
var canaryExpect = map[string][]string{
	"C03": {"C03.no-shared-writes:(*vcheckCanaryAppender).Write"},
	"C14": {"C14.only-here:(*vcheckCanaryAppender).Stop"},
	"C16": {"C16.no-panic-hot:(*vcheckCanaryAppender).Write"},
	"C19": {"C19.no-panic-hot:(*vcheckCanaryAppender).Write"},
	"C20": {"C20.types:vcheckCanaryAppender", "C20.direct:(*vcheckCanaryAppender).Write"},
	"C05": {"C05.close-all:vcheckCanaryAppender.file"},
}

func runCanaries(rf ruleFn, r *Report, repo string) {
	want, ok := canaryExpect[r.Prop]
	if !ok {
		return
	}
	abs, _ := filepath.Abs(repo)
	c, err := loadRepo(LoadOpts{Repo: repo, Overlay: map[string][]byte{filepath.Join(abs, "zz_vcheck_canary.go"): []byte(canarySource)}})
	if err != nil {
		// the overlay depends on the public API (AppenderBase, Layout, Event): if it no longer type-checks the
		// canaries cannot be evaluated; this is recorded, not raised as an alarm about the repository
		for _, w := range want {
			r.Canaries[w] = false
		}
		r.Notes = append(r.Notes, "canary overlay did not load: "+err.Error())
		return
	}
	sub := newReport(r.Prop, r.Tier)
	runRule(rf, c, sub)
	for _, w := range want {
		hit := false
		for _, ob := range sub.Obls {
			if ob.Status == Violated && strings.HasPrefix(ob.Key, w) {
				hit = true
			}
		}
		r.Canaries[w] = hit
		if hit {
			r.OK(r.Prop+".canary:"+w, "rule fires on its in-memory canary")
		} else {
			r.Undecided(r.Prop+".canary:"+w, "", "the rule did not report the canary violation injected through the overlay: it is no longer armed")
		}
	}
}
