package main

// P13 — partial evaluation of a module function's SSA over a finite quotient domain.
//
// Some clauses of the properties are statements about the *values* a small, pure piece of code computes (which
// keys the tag matcher tries and in which order; what sort-and-chain does to a set of level ranges). Such a function
// touches its inputs only through operations that cannot tell the members of an equivalence class apart (comparisons
// of level codes: only the order type matters; string functions with constant separators: only the segment shape
// matters), so its behaviour on all inputs is determined by its behaviour on one representative per class, and the
// set of classes is finite. This file is the abstract transformer: an interpreter for go/ssa instructions over
// abstract values (constants, opaque symbols, a small heap), with models for the pure standard-library functions
// the module uses. It evaluates the *source's SSA in the checker*; it never builds or runs the repository's code.
//
// Anything outside the modelled fragment (channels, goroutines, reflection, I/O, unmodelled library calls, reads of
// unmodelled globals) raises oodError: the rule using the interpreter is then *inconclusive* for that construct, and
// says so, instead of guessing. A modelled run-time panic (index out of range, nil dereference, explicit panic)
// raises panicError.

import (
	"errors"
	"fmt"
	"go/constant"
	"go/token"
	"go/types"
	"math"
	"os"
	"sort"
	"strconv"
	"strings"
	"time"
	"unicode"
	"unicode/utf8"

	"golang.org/x/tools/go/ssa"
)

type AV any

type oodError struct{ why string }
type panicError struct {
	why string
	val AV // the panic value as an interface (explicit panics under Interp.Recover)
}

func (e oodError) Error() string   { return "outside the evaluated fragment: " + e.why }
func (e panicError) Error() string { return "run-time panic: " + e.why }

var absDebug = os.Getenv("VCHECK_DEBUG_ABSINT") != ""

func ood(format string, args ...any) { panic(oodError{fmt.Sprintf(format, args...)}) }
func rtPanic(format string, args ...any) {
	panic(panicError{why: fmt.Sprintf(format, args...)})
}

// Sym is an opaque token (a logger, an appender, an error value).
type Sym struct {
	Name string
	// N: for an error value, the length of its text when the model could compute it (0: unknown)
	N int
	// Kind: for an error value, its dynamic type where the model knows it ("*errors.errorString", "*fmt.wrapError",
	// "*io/fs.PathError"); Text: its text where the model could compute it
	Kind, Text string
}

type NilV struct{}

// StructV / ArrV have value semantics: they are copied when loaded and stored. The elements of an array are cells
// of their own, so that a pointer to an element or a slice of the array aliases the array where it lives.
type StructV struct{ F []AV }
type ArrV struct{ C []*Obj }

// Obj is one addressable cell.
type Obj struct {
	id int
	V  AV
}

// Ptr addresses a cell or a field/element path inside the struct/array value it holds.
type Ptr struct {
	O    *Obj
	Path []int
}

type backing struct {
	cells []*Obj
	// aliasBuf/aliasBase: this backing is the spare capacity of a bytes.Buffer as handed out by AvailableBuffer: its
	// element j lies at offset aliasBase+j of the buffer's storage. Appending within aliasCap writes there, and if the
	// buffer has grown over that region in the meantime the committed bytes are overwritten (absint_lib.go).
	aliasBuf  *BufV
	aliasBase int
	aliasCap  int
}

type SliceV struct {
	B           *backing
	Lo, Hi, Cap int
}

type TupleV []AV

type Closure struct {
	Fn   *ssa.Function
	Free []AV
}

// IfaceV is a non-nil interface value with its dynamic type.
type IfaceV struct {
	T types.Type
	V AV
}

// MapV models a map with string (or integer, printed) keys. Every look-up is logged.
type MapV struct {
	M       map[string]AV
	Keys    []string // insertion order (iteration uses sorted order and sets Interp.MapOrderUsed)
	Lookups *[]string
	Zero    AV
	// KeyV keeps the key values of keys that are not strings or integers (arrays, structs, pointers), for iteration
	KeyV map[string]AV
}

// SeqV models an iter.Seq[string] returned by a modelled library function.
type SeqV struct{ Items []AV }

// ReplacerV is a strings.Replacer built from constant pairs.
type ReplacerV struct{ R *strings.Replacer }

// BufV models a bytes.Buffer / strings.Builder.
type BufV struct {
	S []byte
	// Spare: modelled spare capacity beyond len(S) (0: AvailableBuffer hands out nothing that aliases the buffer)
	Spare int
}

// FloatV is a floating-point value (go/constant cannot hold NaN or ±Inf).
type FloatV struct{ F float64 }

// TimeV is a time.Time held natively.
type TimeV struct{ T time.Time }

// StrDataV is the *byte that unsafe.StringData returns for a string.
type StrDataV struct{ S string }

// ChanV is a channel that is made and stored but never used by the evaluated code (sends, receives and selects stay
// outside the evaluated fragment).
type ChanV struct {
	Cap         int
	Buf         []AV
	Closed      bool
	recvWaiting int
}

// ExtFn is a function value supplied by the rule (a hook, a user's lazy generator): calling it goes to Interp.OnExt.
type ExtFn struct{ Name string }

// FramesV models a *runtime.Frames over frame indices of the interpreter's own call stack.
type FramesV struct {
	idx []int
	pos int
}

type Interp struct {
	traced bool
	// Inline: import-path prefixes of library packages whose functions are evaluated like module code
	Inline   []string
	MaxDepth int
	// Sched, when set, gives channels queue semantics and turns go statements into tasks (absint_sched.go)
	Sched *Sched
	// OnGoValue, when set, receives the callee value (a closure with its bindings) and arguments of every go statement
	OnGoValue func(ip *Interp, fv AV, args []AV)
	// Recover: panics unwind through deferred calls and recover() works (default: a modelled panic ends the evaluation)
	Recover      bool
	panicFrames  []*aframe
	trace        []string
	c            *Ctx
	Steps        int
	MaxSteps     int
	Globals      map[*ssa.Global]*Obj
	Ext          func(ip *Interp, callee *ssa.Function, args []AV) (AV, bool)
	AntiStable   bool // sort models place equal elements in reverse input order
	MapOrderUsed bool // a map was iterated: the result may depend on iteration order
	MapDesc      bool // iterate maps in descending key order (the other representative of "any order")
	// OnExt is called when an ExtFn value is called.
	OnExt func(ip *Interp, name string, args []AV) AV
	// OnInvoke is called for an interface method call whose receiver is an opaque symbol.
	OnInvoke func(ip *Interp, recv *Sym, method string, args []AV) (AV, bool)
	// Stack is the interpreter's call stack (innermost last); UserFrames names synthetic frames below it.
	Stack      []*ssa.Function
	UserFrames []string
	Pools      map[*Obj][]AV          // sync.Pool contents by pool object
	PoolNew    map[*Obj]*ssa.Function // sync.Pool.New by pool object
	SyncMaps   map[*Obj]*MapV         // sync.Map contents by map object
	Trace      []string               // notable library calls, in order
	// OnGo is called for a go statement (the goroutine body is not evaluated). Without it a go statement is outside
	// the evaluated fragment.
	OnGo func(ip *Interp, fn *ssa.Function, args []AV)
	// Clock supplies time.Now (default: an opaque symbol).
	Clock func() time.Time
	// OnOS models the os package calls of the file appenders: OpenFile, ReadDir, Remove, and *os.File methods.
	OnOS func(ip *Interp, name string, args []AV) (AV, bool)
	// OnMarshal models encoding/json.Marshal on an abstract value.
	OnMarshal func(ip *Interp, v AV) ([]byte, error)
	Atomics   map[string]AV // values of sync/atomic typed variables, by cell identity
	pcOf      map[string]int
	pcName    []string
	initDone  bool
	InitFull  bool // the package initialiser also performs its registrations (plugins, converters, levels …)
	depth     int
	nextID    int
}

func newInterp(c *Ctx) *Interp {
	return &Interp{c: c, MaxSteps: 200000, Globals: map[*ssa.Global]*Obj{}, Pools: map[*Obj][]AV{}, PoolNew: map[*Obj]*ssa.Function{}, SyncMaps: map[*Obj]*MapV{}}
}

func (ip *Interp) newObj(v AV) *Obj {
	ip.nextID++
	return &Obj{id: ip.nextID, V: v}
}

// Run calls fn with the given arguments (and free variables for a closure body) and converts the two error kinds.
func (ip *Interp) Run(fn *ssa.Function, args []AV, free []AV) (res AV, err error) {
	ip.traced = false
	defer func() {
		if x := recover(); x != nil {
			if absDebug && ip.traced {
				fmt.Fprintln(os.Stderr, strings.Join(ip.trace, "\n"))
			}
			switch e := x.(type) {
			case oodError:
				err = e
			case panicError:
				err = e
			default:
				panic(x)
			}
		}
	}()
	return ip.call(fn, args, free), nil
}

func kBool(b bool) AV  { return constant.MakeBool(b) }
func kInt(i int64) AV  { return constant.MakeInt64(i) }
func kStr(s string) AV { return constant.MakeString(s) }
func isK(v AV) bool    { _, ok := v.(constant.Value); return ok }
func avBool(v AV) bool {
	k, ok := v.(constant.Value)
	if !ok || k.Kind() != constant.Bool {
		ood("condition is not a boolean constant (%s)", avString(v))
	}
	return constant.BoolVal(k)
}
func avInt(v AV) int64 {
	k, ok := v.(constant.Value)
	if !ok || k.Kind() != constant.Int {
		ood("integer expected, got %s", avString(v))
	}
	i, _ := constant.Int64Val(k)
	return i
}
func avStr(v AV) string {
	k, ok := v.(constant.Value)
	if !ok || k.Kind() != constant.String {
		ood("string expected, got %s", avString(v))
	}
	return constant.StringVal(k)
}

func avString(v AV) string {
	switch x := v.(type) {
	case nil:
		return "<unset>"
	case constant.Value:
		return x.ExactString()
	case *Sym:
		return "sym:" + x.Name
	case NilV:
		return "nil"
	case *StructV:
		var ss []string
		for _, f := range x.F {
			ss = append(ss, avString(f))
		}
		return "{" + strings.Join(ss, ",") + "}"
	case *ArrV:
		return fmt.Sprintf("[%d]…", len(x.C))
	case *Ptr:
		return fmt.Sprintf("&obj%d%v", x.O.id, x.Path)
	case *SliceV:
		return fmt.Sprintf("slice[%d:%d]", x.Lo, x.Hi)
	case TupleV:
		var ss []string
		for _, f := range x {
			ss = append(ss, avString(f))
		}
		return "(" + strings.Join(ss, ",") + ")"
	case *Closure:
		return "func:" + fname(x.Fn)
	case *IfaceV:
		return "iface(" + avString(x.V) + ")"
	case *MapV:
		return fmt.Sprintf("map[%d]", len(x.M))
	case *FloatV:
		return strconv.FormatFloat(x.F, 'g', -1, 64)
	case *TimeV:
		return x.T.Format(time.RFC3339Nano)
	case *StrDataV:
		return "strdata"
	}
	return fmt.Sprintf("%T", v)
}

func copyVal(v AV) AV {
	switch x := v.(type) {
	case *StructV:
		n := &StructV{F: make([]AV, len(x.F))}
		for i, f := range x.F {
			n.F[i] = copyVal(f)
		}
		return n
	case *ArrV:
		n := &ArrV{C: make([]*Obj, len(x.C))}
		for i, c := range x.C {
			n.C[i] = &Obj{id: -1, V: copyVal(c.V)}
		}
		return n
	}
	return v
}

func (ip *Interp) zeroOf(t types.Type) AV {
	switch u := t.Underlying().(type) {
	case *types.Basic:
		switch {
		case u.Info()&types.IsBoolean != 0:
			return kBool(false)
		case u.Info()&types.IsInteger != 0:
			return kInt(0)
		case u.Info()&types.IsString != 0:
			return kStr("")
		case u.Info()&types.IsFloat != 0:
			return &FloatV{}
		case u.Kind() == types.UnsafePointer || u.Kind() == types.UntypedNil:
			return NilV{}
		}
	case *types.Pointer, *types.Slice, *types.Map, *types.Chan, *types.Signature, *types.Interface:
		return NilV{}
	case *types.Struct:
		if isNamed(t, "bytes", "Buffer") || isNamed(t, "strings", "Builder") {
			return &BufV{}
		}
		if isNamed(t, "time", "Time") {
			return &TimeV{}
		}
		s := &StructV{F: make([]AV, u.NumFields())}
		for i := 0; i < u.NumFields(); i++ {
			s.F[i] = ip.zeroOf(u.Field(i).Type())
		}
		return s
	case *types.Array:
		if u.Len() > 4096 {
			ood("large array")
		}
		a := &ArrV{C: make([]*Obj, u.Len())}
		for i := range a.C {
			a.C[i] = ip.newObj(ip.zeroOf(u.Elem()))
		}
		return a
	case *types.Tuple:
		tv := make(TupleV, u.Len())
		for i := range tv {
			tv[i] = ip.zeroOf(u.At(i).Type())
		}
		return tv
	}
	ood("zero value of %s", t)
	return nil
}

func isNamed(t types.Type, pkg, name string) bool {
	n, ok := types.Unalias(t).(*types.Named)
	return ok && n.Obj().Pkg() != nil && n.Obj().Pkg().Path() == pkg && n.Obj().Name() == name
}

// ---- memory

// peek returns the value a pointer addresses without copying it (the caller must not keep it beyond the next store).
func (p *Ptr) peek() AV {
	v := p.O.V
	for _, i := range p.Path {
		switch x := v.(type) {
		case *StructV:
			if i >= len(x.F) {
				ood("field #%d of a value modelled with %d fields (%s)", i, len(x.F), avString(v))
			}
			v = x.F[i]
		case *ArrV:
			if i < 0 || i >= len(x.C) {
				rtPanic("index out of range")
			}
			v = x.C[i].V
		default:
			ood("path into %s", avString(v))
		}
	}
	return v
}

func (p *Ptr) load() AV {
	v := p.peek()
	if v == nil {
		ood("read of an unmodelled memory cell")
	}
	return copyVal(v)
}

// initGlobals evaluates the package initialiser leniently, once: every instruction that stays inside the modelled
// fragment is executed (composite-literal tables, constants, pools), every other one is skipped together with
// whatever depends on it. Variables a rule has already given a value keep it.
func (ip *Interp) initGlobals() {
	if ip.initDone || ip.c.LogS == nil {
		return
	}
	ip.initDone = true
	ip.initPackage(ip.c.LogS)
}

// initPackage evaluates one package initialiser leniently (see initGlobals).
func (ip *Interp) initPackage(pkg *ssa.Package) {
	ini := pkg.Func("init")
	if ini == nil || len(ini.Blocks) == 0 {
		return
	}
	preset := map[*Obj]bool{}
	for _, o := range ip.Globals {
		if o.V != nil {
			preset[o] = true
		}
	}
	if ip.InitFull {
		// package variables start as the zero value of their type
		for _, m := range pkg.Members {
			if g, ok := m.(*ssa.Global); ok && !strings.HasPrefix(g.Name(), "init$") {
				if o, ok := ip.Globals[g]; !ok || o.V == nil {
					func() {
						defer func() { recover() }()
						ip.Globals[g] = ip.newObj(ip.zeroOf(g.Type().(*types.Pointer).Elem()))
					}()
				}
			}
		}
	}
	saveSteps, saveDepth, saveStack := ip.Steps, ip.depth, ip.Stack
	defer func() { ip.Steps, ip.depth, ip.Stack = saveSteps, saveDepth, saveStack }()
	ip.depth, ip.Stack = 0, nil
	fr := &aframe{fn: ini, env: map[ssa.Value]AV{}}
	b := ini.Blocks[0]
	var prev *ssa.BasicBlock
	for steps := 0; steps < 200000 && b != nil; steps++ {
		var next *ssa.BasicBlock
		for _, in := range b.Instrs {
			done := false
			func() {
				defer func() {
					if x := recover(); x != nil {
						switch x.(type) {
						case oodError, panicError:
							// skipped
							ip.traced = false
						default:
							panic(x)
						}
					}
				}()
				switch x := in.(type) {
				case *ssa.Phi:
					for i, pb := range b.Preds {
						if pb == prev {
							fr.env[x] = ip.operand(fr, x.Edges[i])
						}
					}
				case *ssa.If:
					cond := false
					func() {
						defer func() { recover() }()
						cond = avBool(ip.operand(fr, x.Cond))
					}()
					if cond {
						next = b.Succs[0]
					} else {
						next = b.Succs[1]
					}
					// the init guard: proceed with initialisation
					if ld, ok := x.Cond.(*ssa.UnOp); ok {
						if g, ok := ld.X.(*ssa.Global); ok && strings.HasPrefix(g.Name(), "init$guard") {
							next = b.Succs[1]
						}
					}
					done = true
				case *ssa.Jump:
					next = b.Succs[0]
					done = true
				case *ssa.Return, *ssa.Panic:
					done = true
				case *ssa.Store:
					p, ok := ip.operand(fr, x.Addr).(*Ptr)
					if !ok {
						return
					}
					if preset[p.O] {
						return
					}
					p.store(ip.operand(fr, x.Val))
				case *ssa.MapUpdate:
					if !ip.InitFull {
						return
					}
					m, ok := ip.operand(fr, x.Map).(*MapV)
					if !ok {
						return
					}
					k := mapKey(ip.operand(fr, x.Key))
					if _, had := m.M[k]; !had {
						m.Keys = append(m.Keys, k)
					}
					m.M[k] = copyVal(ip.operand(fr, x.Value))
				case *ssa.DebugRef, *ssa.Defer, *ssa.Go, *ssa.Send, *ssa.RunDefers:
				case ssa.Value:
					if call, isCall := x.(*ssa.Call); isCall {
						// only pure modelled library calls and module constructors of plain values; registrations are skipped
						if cal := call.Call.StaticCallee(); cal != nil && !ip.InitFull {
							o := cal
							if cal.Origin() != nil {
								o = cal.Origin()
							}
							if o.Pkg == pkg && cal.Signature.Results().Len() == 0 {
								return
							}
						}
					}
					fr.env[x] = ip.value(fr, x)
				}
			}()
			if done {
				break
			}
		}
		prev, b = b, next
	}
}

func (p *Ptr) store(nv AV) {
	nv = copyVal(nv)
	if len(p.Path) == 0 {
		p.O.V = nv
		return
	}
	v := p.O.V
	for k, i := range p.Path {
		last := k == len(p.Path)-1
		switch x := v.(type) {
		case *StructV:
			if i >= len(x.F) {
				ood("field #%d of a value modelled with %d fields", i, len(x.F))
			}
			if last {
				x.F[i] = nv
				return
			}
			v = x.F[i]
		case *ArrV:
			if i < 0 || i >= len(x.C) {
				rtPanic("index out of range")
			}
			if last {
				x.C[i].V = nv
				return
			}
			v = x.C[i].V
		default:
			ood("path into %s", avString(v))
		}
	}
}

func (ip *Interp) mkSlice(elems []AV) *SliceV {
	b := &backing{}
	for _, e := range elems {
		b.cells = append(b.cells, ip.newObj(copyVal(e)))
	}
	return &SliceV{B: b, Lo: 0, Hi: len(elems), Cap: len(elems)}
}

func (s *SliceV) elems() []AV {
	out := make([]AV, 0, s.Hi-s.Lo)
	for i := s.Lo; i < s.Hi; i++ {
		out = append(out, copyVal(s.B.cells[i].V))
	}
	return out
}

func sliceLen(v AV) int {
	switch x := v.(type) {
	case NilV:
		return 0
	case *SliceV:
		return x.Hi - x.Lo
	}
	ood("len of %s", avString(v))
	return 0
}

// ---- equality

func avEqual(a, b AV) bool {
	switch x := a.(type) {
	case constant.Value:
		y, ok := b.(constant.Value)
		if !ok {
			ood("comparison of %s with %s", avString(a), avString(b))
		}
		if x.Kind() != y.Kind() {
			ood("comparison of different kinds")
		}
		return constant.Compare(x, token.EQL, y)
	case NilV:
		switch y := b.(type) {
		case NilV:
			return true
		case *Sym, *Ptr, *SliceV, *Closure, *IfaceV, *MapV, *ExtFn, *SeqV, *StrDataV, *StorageV, *ReflectV, *RTypeV, *RValV, *ChanV:
			_ = y
			return false
		}
	case *Sym:
		switch y := b.(type) {
		case *Sym:
			return x == y
		case NilV:
			return false
		case *IfaceV:
			return avEqual(a, y.V)
		}
	case *Ptr:
		switch y := b.(type) {
		case NilV:
			return false
		case *Ptr:
			if x.O != y.O || len(x.Path) != len(y.Path) {
				return false
			}
			for i := range x.Path {
				if x.Path[i] != y.Path[i] {
					return false
				}
			}
			return true
		case *IfaceV:
			return avEqual(a, y.V)
		}
	case *IfaceV:
		switch y := b.(type) {
		case NilV:
			return false
		case *IfaceV:
			return types.Identical(x.T, y.T) && avEqual(x.V, y.V)
		default:
			return avEqual(x.V, b)
		}
	case *StructV:
		if y, ok := b.(*StructV); ok && len(x.F) == len(y.F) {
			for i := range x.F {
				if !avEqual(x.F[i], y.F[i]) {
					return false
				}
			}
			return true
		}
	case *ArrV:
		if y, ok := b.(*ArrV); ok && len(x.C) == len(y.C) {
			for i := range x.C {
				if !avEqual(x.C[i].V, y.C[i].V) {
					return false
				}
			}
			return true
		}
	case *SliceV, *MapV, *Closure, *ExtFn, *SeqV, *StrDataV, *StorageV, *ReflectV:
		if _, ok := b.(NilV); ok {
			return false
		}
	case *RTypeV:
		switch y := b.(type) {
		case *RTypeV:
			return types.Identical(x.T, y.T)
		case NilV:
			return false
		case *IfaceV:
			return avEqual(a, y.V)
		}
	case *RValV, *ChanV:
		if _, ok := b.(NilV); ok {
			return false
		}
	case *FloatV:
		if y, ok := b.(*FloatV); ok {
			return x.F == y.F
		}
	case *TimeV:
		if y, ok := b.(*TimeV); ok {
			return x.T == y.T
		}
	}
	ood("comparison of %s with %s", avString(a), avString(b))
	return false
}

// ---- frames

type aframe struct {
	fn     *ssa.Function
	env    map[ssa.Value]AV
	free   []AV
	args   []AV
	defers []func()
	// panicking: the panic unwinding through this frame while its deferred calls run (Interp.Recover);
	// deferDepth: the call depth at which those deferred calls execute (recover() is honoured only there)
	panicking  *panicError
	deferDepth int
}

func (ip *Interp) operand(fr *aframe, v ssa.Value) AV {
	switch x := v.(type) {
	case *ssa.Const:
		if x.Value == nil {
			return ip.zeroOf(x.Type())
		}
		if b, ok := x.Type().Underlying().(*types.Basic); ok && b.Info()&types.IsInteger != 0 && x.Value.Kind() != constant.Int {
			return constant.ToInt(x.Value)
		}
		if b, ok := x.Type().Underlying().(*types.Basic); ok && b.Info()&types.IsFloat != 0 {
			f, _ := constant.Float64Val(constant.ToFloat(x.Value))
			if b.Kind() == types.Float32 {
				f = float64(float32(f))
			}
			return &FloatV{F: f}
		}
		return x.Value
	case *ssa.Parameter:
		for i, p := range fr.fn.Params {
			if p == x {
				return fr.args[i]
			}
		}
	case *ssa.FreeVar:
		for i, p := range fr.fn.FreeVars {
			if p == x {
				if i >= len(fr.free) {
					ood("free variable %s not bound", x.Name())
				}
				return fr.free[i]
			}
		}
	case *ssa.Global:
		o, ok := ip.Globals[x]
		if !ok {
			o = ip.newObj(nil) // unmodelled: a load raises oodError, a store defines it
			ip.Globals[x] = o
		}
		return &Ptr{O: o}
	case *ssa.Function:
		return &Closure{Fn: x}
	case *ssa.Builtin:
		ood("builtin %s used as a value", x.Name())
	}
	if r, ok := fr.env[v]; ok {
		return r
	}
	ood("value %s (%T) not computed", v.Name(), v)
	return nil
}

func (ip *Interp) call(fn *ssa.Function, args []AV, free []AV) AV {
	if len(fn.Blocks) == 0 {
		ood("no body for %s", fn.String())
	}
	ip.depth++
	ip.Stack = append(ip.Stack, fn)
	var curIn ssa.Instruction
	defer func() {
		if absDebug {
			if x := recover(); x != nil {
				if !ip.traced {
					ip.traced = true
					ip.trace = []string{fmt.Sprintf("ABSINT %v", x)}
				}
				if curIn != nil {
					ip.trace = append(ip.trace, fmt.Sprintf("  in %s: %s  (%s)", fname(fn), curIn.String(), fn.Prog.Fset.Position(curIn.Pos())))
				}
				ip.depth--
				ip.Stack = ip.Stack[:len(ip.Stack)-1]
				panic(x)
			}
		}
		ip.depth--
		ip.Stack = ip.Stack[:len(ip.Stack)-1]
	}()
	if md := ip.MaxDepth; (md == 0 && ip.depth > 60) || (md > 0 && ip.depth > md) {
		ood("call depth")
	}
	fr := &aframe{fn: fn, env: map[ssa.Value]AV{}, free: free, args: args}
	if !ip.Recover {
		return ip.loop(fr, fn.Blocks[0], &curIn)
	}
	var res AV
	protect := func(f func()) (pe *panicError) {
		defer func() {
			if x := recover(); x != nil {
				if p, ok := x.(panicError); ok {
					pe = &p
					return
				}
				panic(x)
			}
		}()
		f()
		return nil
	}
	pe := protect(func() { res = ip.loop(fr, fn.Blocks[0], &curIn) })
	if pe == nil {
		return res
	}
	// a panic unwinds through this frame: its deferred calls run, one of them may recover
	fr.panicking, fr.deferDepth = pe, ip.depth+1
	ip.panicFrames = append(ip.panicFrames, fr)
	for len(fr.defers) > 0 {
		d := fr.defers[len(fr.defers)-1]
		fr.defers = fr.defers[:len(fr.defers)-1]
		if p2 := protect(d); p2 != nil {
			fr.panicking = p2 // a deferred call panicked: the new panic replaces the old one
		}
	}
	ip.panicFrames = ip.panicFrames[:len(ip.panicFrames)-1]
	if fr.panicking != nil {
		panic(*fr.panicking)
	}
	ip.traced = false
	if fn.Recover != nil {
		return ip.loop(fr, fn.Recover, &curIn)
	}
	switch n := fn.Signature.Results().Len(); n {
	case 0:
		return TupleV{}
	case 1:
		return ip.zeroOf(fn.Signature.Results().At(0).Type())
	default:
		tv := make(TupleV, n)
		for i := range tv {
			tv[i] = ip.zeroOf(fn.Signature.Results().At(i).Type())
		}
		return tv
	}
}

// loop executes the blocks of fr.fn from b until a return.
func (ip *Interp) loop(fr *aframe, b *ssa.BasicBlock, cur *ssa.Instruction) AV {
	fn := fr.fn
	var prev *ssa.BasicBlock
	for {
		for _, in := range b.Instrs {
			*cur = in
			ip.Steps++
			if ip.Steps > ip.MaxSteps {
				ood("step budget exhausted in %s", fname(fn))
			}
			switch x := in.(type) {
			case *ssa.Phi:
				found := false
				for i, pb := range b.Preds {
					if pb == prev {
						fr.env[x] = ip.operand(fr, x.Edges[i])
						found = true
						break
					}
				}
				if !found {
					ood("phi without predecessor")
				}
			case *ssa.If:
				prev = b
				if avBool(ip.operand(fr, x.Cond)) {
					b = b.Succs[0]
				} else {
					b = b.Succs[1]
				}
				goto next
			case *ssa.Jump:
				prev, b = b, b.Succs[0]
				goto next
			case *ssa.Return:
				ip.runDefers(fr)
				switch len(x.Results) {
				case 0:
					return TupleV{}
				case 1:
					return ip.operand(fr, x.Results[0])
				}
				tv := make(TupleV, len(x.Results))
				for i, r := range x.Results {
					tv[i] = ip.operand(fr, r)
				}
				return tv
			case *ssa.Panic:
				if ip.Recover {
					panic(panicError{why: fmt.Sprintf("explicit panic in %s: %s", fname(fn), avString(ip.operand(fr, x.X))), val: ip.operand(fr, x.X)})
				}
				rtPanic("explicit panic in %s", fname(fn))
			case *ssa.RunDefers:
				ip.runDefers(fr)
			case *ssa.Defer:
				cc := x.Call
				args := ip.evalArgs(fr, &cc)
				fv := ip.calleeValue(fr, &cc)
				fr.defers = append(fr.defers, func() { ip.apply(&cc, fv, args) })
			case *ssa.DebugRef:
			case *ssa.Store:
				p, ok := ip.operand(fr, x.Addr).(*Ptr)
				if !ok {
					rtPanic("store through nil")
				}
				p.store(ip.operand(fr, x.Val))
			case *ssa.MapUpdate:
				m, ok := ip.operand(fr, x.Map).(*MapV)
				if !ok {
					rtPanic("assignment to entry in nil map")
				}
				kav := ip.operand(fr, x.Key)
				k := mapKey(kav)
				if _, had := m.M[k]; !had {
					m.Keys = append(m.Keys, k)
				}
				if _, basic := kav.(constant.Value); !basic {
					if m.KeyV == nil {
						m.KeyV = map[string]AV{}
					}
					m.KeyV[k] = copyVal(kav)
				}
				m.M[k] = copyVal(ip.operand(fr, x.Value))
			case *ssa.Go:
				if ip.Sched != nil && ip.OnGoValue == nil {
					cc := x.Call
					if cc.IsInvoke() {
						ood("go statement on an interface method")
					}
					fv, gargs := ip.calleeValue(fr, &cc), ip.evalArgs(fr, &cc)
					name := "goroutine"
					if cl, ok := fv.(*Closure); ok {
						name = fname(cl.Fn)
					}
					ip.Sched.Spawn(name, func() { ip.apply(nil, fv, gargs) })
					continue
				}
				if ip.OnGoValue != nil {
					cc := x.Call
					if cc.IsInvoke() {
						ood("go statement on an interface method")
					}
					ip.OnGoValue(ip, ip.calleeValue(fr, &cc), ip.evalArgs(fr, &cc))
					continue
				}
				if ip.OnGo == nil {
					ood("go statement")
				}
				cc := x.Call
				var target *ssa.Function
				switch v := cc.Value.(type) {
				case *ssa.Function:
					target = v
				case *ssa.MakeClosure:
					target, _ = v.Fn.(*ssa.Function)
				}
				ip.OnGo(ip, target, ip.evalArgs(fr, &cc))
			case *ssa.Send:
				ip.chanSend(ip.operand(fr, x.Chan), ip.operand(fr, x.X))
			case ssa.Value:
				fr.env[x] = ip.value(fr, x)
			default:
				ood("instruction %T", in)
			}
		}
		ood("block without terminator")
	next:
	}
}

func (ip *Interp) runDefers(fr *aframe) {
	for len(fr.defers) > 0 {
		d := fr.defers[len(fr.defers)-1]
		fr.defers = fr.defers[:len(fr.defers)-1]
		d()
	}
}

func mapKey(v AV) string {
	switch x := v.(type) {
	case constant.Value:
		return x.ExactString()
	case *Sym:
		return "sym:" + x.Name
	case *IfaceV:
		return mapKey(x.V)
	case *RTypeV:
		return "rtype:" + types.TypeString(x.T, nil)
	case *Ptr:
		return fmt.Sprintf("ptr:%d%v", x.O.id, x.Path)
	case NilV:
		return "nil"
	case *StructV:
		k := "{"
		for _, f := range x.F {
			k += mapKey(f) + ";"
		}
		return k + "}"
	case *ArrV:
		k := "["
		for _, o := range x.C {
			k += mapKey(o.V) + ";"
		}
		return k + "]"
	case *FloatV:
		return fmt.Sprintf("float:%v", x.F)
	}
	ood("map key %s", avString(v))
	return ""
}

func (ip *Interp) evalArgs(fr *aframe, cc *ssa.CallCommon) []AV {
	args := make([]AV, len(cc.Args))
	for i, a := range cc.Args {
		args[i] = ip.operand(fr, a)
	}
	return args
}

func (ip *Interp) calleeValue(fr *aframe, cc *ssa.CallCommon) AV {
	if cc.IsInvoke() {
		return ip.operand(fr, cc.Value)
	}
	if _, ok := cc.Value.(*ssa.Builtin); ok {
		return nil
	}
	if f, ok := cc.Value.(*ssa.Function); ok {
		return &Closure{Fn: f}
	}
	return ip.operand(fr, cc.Value)
}

// apply performs a call whose callee value and arguments are already evaluated.
func (ip *Interp) apply(cc *ssa.CallCommon, fv AV, args []AV) AV {
	if cc == nil {
		cc = &ssa.CallCommon{}
	}
	if cc.IsInvoke() {
		iv, ok := fv.(*IfaceV)
		if !ok {
			if _, isNil := fv.(NilV); isNil {
				rtPanic("method call on nil interface")
			}
			ood("interface method %s on %s", cc.Method.Name(), avString(fv))
		}
		if rt, isRT := iv.V.(*RTypeV); isRT {
			return ip.rtypeMethod(rt, cc, args)
		}
		if sym, isSym := iv.V.(*Sym); isSym {
			if cc.Method.Name() == "Error" && strings.HasPrefix(sym.Name, "error:") {
				return kStr(strings.TrimPrefix(sym.Name, "error:"))
			}
			if cc.Method.Name() == "Error" && sym.Text != "" {
				return kStr(sym.Text)
			}
			if ip.OnInvoke != nil {
				if r, ok := ip.OnInvoke(ip, sym, cc.Method.Name(), args); ok {
					return r
				}
			}
			ood("method %s of the opaque value %s", cc.Method.Name(), sym.Name)
		}
		m := ip.c.Prog.LookupMethod(iv.T, cc.Method.Pkg(), cc.Method.Name())
		if m == nil {
			ood("method %s of %s not found", cc.Method.Name(), iv.T)
		}
		return ip.callFn(m, append([]AV{iv.V}, args...), nil)
	}
	if b, ok := cc.Value.(*ssa.Builtin); ok {
		return ip.builtin(b.Name(), args, cc)
	}
	switch f := fv.(type) {
	case *Closure:
		return ip.callFn(f.Fn, args, f.Free)
	case *ExtFn:
		if ip.OnExt == nil {
			ood("external function %s", f.Name)
		}
		return ip.OnExt(ip, f.Name, args)
	case *SeqV:
		// calling an iter.Seq with a yield function
		if len(args) != 1 {
			ood("iter.Seq call")
		}
		y, ok := args[0].(*Closure)
		if !ok {
			ood("yield is not a closure")
		}
		for _, it := range f.Items {
			if !avBool(ip.callFn(y.Fn, []AV{it}, y.Free)) {
				break
			}
		}
		return TupleV{}
	case NilV:
		rtPanic("call of nil function")
	}
	ood("call of %s", avString(fv))
	return nil
}

// InvokeMethod calls method name on the dynamic value of iv (used by rule hooks that play the part of user code).
func (ip *Interp) InvokeMethod(iv *IfaceV, name string, args ...AV) AV {
	var pkg *types.Package
	if ip.c.LogS != nil {
		pkg = ip.c.LogS.Pkg
	}
	m := ip.c.Prog.LookupMethod(iv.T, pkg, name)
	if m == nil {
		ood("method %s of %s not found", name, iv.T)
	}
	return ip.callFn(m, append([]AV{iv.V}, args...), nil)
}

func (ip *Interp) callFn(fn *ssa.Function, args []AV, free []AV) AV {
	if r, ok := ip.model(fn, args); ok {
		return r
	}
	if ip.Ext != nil {
		if r, ok := ip.Ext(ip, fn, args); ok {
			return r
		}
	}
	inFragment := func() bool {
		top := fn
		for top.Parent() != nil {
			top = top.Parent()
		}
		pk := top.Pkg
		if pk == nil && top.Origin() != nil {
			pk = top.Origin().Pkg
		}
		if pk == nil {
			return false
		}
		// generic helper packages of the standard library without a model of their own are pure Go over slices, maps and
		// function values: evaluated like module code
		switch pk.Pkg.Path() {
		case "slices", "maps", "iter", "cmp":
			return true
		}
		if strings.HasPrefix(pk.Pkg.Path(), logPath) {
			return true
		}
		for _, p := range ip.Inline {
			if strings.HasPrefix(pk.Pkg.Path(), p) {
				return true
			}
		}
		return false
	}
	if len(fn.Blocks) == 0 || !inFragment() {
		// synthetic wrappers (bound methods, promoted methods) have Pkg == nil but a body
		if len(fn.Blocks) > 0 && fn.Synthetic != "" {
			return ip.call(fn, args, free)
		}
		ood("call of unmodelled function %s", fn.String())
	}
	return ip.call(fn, args, free)
}

func (ip *Interp) value(fr *aframe, v ssa.Value) AV {
	switch x := v.(type) {
	case *ssa.Alloc:
		et := x.Type().Underlying().(*types.Pointer).Elem()
		return &Ptr{O: ip.newObj(ip.zeroOf(et))}
	case *ssa.UnOp:
		a := ip.operand(fr, x.X)
		switch x.Op {
		case token.MUL:
			p, ok := a.(*Ptr)
			if !ok {
				rtPanic("nil pointer dereference")
			}
			if p.O.V == nil {
				if _, isGlobal := x.X.(*ssa.Global); isGlobal {
					ip.initGlobals()
				}
			}
			return p.load()
		case token.NOT:
			return kBool(!avBool(a))
		case token.ARROW:
			return ip.chanRecv(a, ip.zeroOf(chanElem(x.X)), x.CommaOk)
		case token.SUB:
			if f, ok := a.(*FloatV); ok {
				return &FloatV{F: -f.F}
			}
			k, ok := a.(constant.Value)
			if !ok {
				ood("negation of %s", avString(a))
			}
			r, ok2 := convertConst(constant.UnaryOp(token.SUB, k, 0), x.Type())
			if !ok2 {
				ood("negation")
			}
			return r
		case token.XOR:
			k, ok := a.(constant.Value)
			if !ok || k.Kind() != constant.Int {
				ood("complement")
			}
			r, ok2 := convertConst(constant.UnaryOp(token.XOR, k, 0), x.Type())
			if !ok2 {
				ood("complement")
			}
			return r
		}
		ood("unary %s", x.Op)
	case *ssa.BinOp:
		a, b := ip.operand(fr, x.X), ip.operand(fr, x.Y)
		if fa, ok := a.(*FloatV); ok {
			if fb, ok := b.(*FloatV); ok {
				is32 := false
				if bt, ok := x.X.Type().Underlying().(*types.Basic); ok && bt.Kind() == types.Float32 {
					is32 = true
				}
				rnd := func(f float64) AV {
					if is32 {
						f = float64(float32(f))
					}
					return &FloatV{F: f}
				}
				switch x.Op {
				case token.ADD:
					return rnd(fa.F + fb.F)
				case token.SUB:
					return rnd(fa.F - fb.F)
				case token.MUL:
					return rnd(fa.F * fb.F)
				case token.QUO:
					return rnd(fa.F / fb.F)
				case token.EQL:
					return kBool(fa.F == fb.F)
				case token.NEQ:
					return kBool(fa.F != fb.F)
				case token.LSS:
					return kBool(fa.F < fb.F)
				case token.LEQ:
					return kBool(fa.F <= fb.F)
				case token.GTR:
					return kBool(fa.F > fb.F)
				case token.GEQ:
					return kBool(fa.F >= fb.F)
				}
				ood("float operation %s", x.Op)
			}
		}
		ka, oka := a.(constant.Value)
		kb, okb := b.(constant.Value)
		if oka && okb {
			if x.Op == token.QUO || x.Op == token.REM {
				if kb.Kind() == constant.Int && constant.Sign(kb) == 0 {
					rtPanic("integer divide by zero")
				}
			}
			if ka.Kind() == constant.Float || kb.Kind() == constant.Float {
				switch x.Op {
				case token.EQL, token.NEQ, token.LSS, token.LEQ, token.GTR, token.GEQ:
					return kBool(constant.Compare(ka, x.Op, kb))
				case token.ADD, token.SUB, token.MUL, token.QUO:
					return constant.BinaryOp(ka, x.Op, kb)
				}
			}
			r, ok := evalBinOp(x.Op, ka, kb, x.X.Type(), x.Type())
			if !ok {
				ood("binary %s on %s, %s", x.Op, avString(a), avString(b))
			}
			return r
		}
		switch x.Op {
		case token.EQL:
			return kBool(avEqual(a, b))
		case token.NEQ:
			return kBool(!avEqual(a, b))
		}
		ood("binary %s on %s, %s", x.Op, avString(a), avString(b))
	case *ssa.Call:
		cc := x.Call
		args := ip.evalArgs(fr, &cc)
		fv := ip.calleeValue(fr, &cc)
		return ip.apply(&cc, fv, args)
	case *ssa.FieldAddr:
		p, ok := ip.operand(fr, x.X).(*Ptr)
		if !ok {
			rtPanic("nil pointer dereference (field %s)", fieldName(x))
		}
		return &Ptr{O: p.O, Path: append(append([]int{}, p.Path...), x.Field)}
	case *ssa.Field:
		s, ok := ip.operand(fr, x.X).(*StructV)
		if !ok {
			ood("field of %s", avString(ip.operand(fr, x.X)))
		}
		return copyVal(s.F[x.Field])
	case *ssa.IndexAddr:
		base := ip.operand(fr, x.X)
		i := int(avInt(ip.operand(fr, x.Index)))
		switch s := base.(type) {
		case *SliceV:
			if i < 0 || i >= s.Hi-s.Lo {
				rtPanic("index out of range [%d] with length %d", i, s.Hi-s.Lo)
			}
			return &Ptr{O: s.B.cells[s.Lo+i]}
		case NilV:
			rtPanic("index out of range [%d] with length 0", i)
		case *Ptr: // pointer to array
			if s.O.V == nil {
				if _, isGlobal := x.X.(*ssa.Global); isGlobal {
					ip.initGlobals()
				}
			}
			arr, ok := s.peek().(*ArrV)
			if !ok {
				ood("index of non-array")
			}
			if i < 0 || i >= len(arr.C) {
				rtPanic("index out of range [%d] with length %d", i, len(arr.C))
			}
			return &Ptr{O: arr.C[i]}
		}
		ood("index address of %s", avString(base))
	case *ssa.Index:
		base := ip.operand(fr, x.X)
		i := int(avInt(ip.operand(fr, x.Index)))
		switch s := base.(type) {
		case *ArrV:
			if i < 0 || i >= len(s.C) {
				rtPanic("index out of range")
			}
			return copyVal(s.C[i].V)
		case constant.Value:
			str := avStr(s)
			if i < 0 || i >= len(str) {
				rtPanic("index out of range [%d] with length %d", i, len(str))
			}
			return kInt(int64(str[i]))
		}
		ood("index of %s", avString(base))
	case *ssa.Select:
		return ip.selectOp(fr, x)
	case *ssa.Lookup:
		base := ip.operand(fr, x.X)
		switch m := base.(type) {
		case constant.Value:
			str := avStr(m)
			i := int(avInt(ip.operand(fr, x.Index)))
			if i < 0 || i >= len(str) {
				rtPanic("index out of range [%d] with length %d", i, len(str))
			}
			return kInt(int64(str[i]))
		case *MapV, NilV:
			var mv *MapV
			if mm, ok := m.(*MapV); ok {
				mv = mm
			}
			k := mapKey(ip.operand(fr, x.Index))
			var val AV
			found := false
			if mv != nil {
				if mv.Lookups != nil {
					*mv.Lookups = append(*mv.Lookups, k)
				}
				val, found = mv.M[k]
			}
			if !found {
				val = ip.zeroOf(x.X.Type().Underlying().(*types.Map).Elem())
			}
			if x.CommaOk {
				return TupleV{copyVal(val), kBool(found)}
			}
			return copyVal(val)
		}
		ood("lookup in %s", avString(base))
	case *ssa.Slice:
		base := ip.operand(fr, x.X)
		get := func(v ssa.Value, def int) int {
			if v == nil {
				return def
			}
			return int(avInt(ip.operand(fr, v)))
		}
		switch s := base.(type) {
		case constant.Value:
			str := avStr(s)
			lo, hi := get(x.Low, 0), get(x.High, len(str))
			if lo < 0 || hi > len(str) || lo > hi {
				rtPanic("slice bounds out of range [%d:%d] with length %d", lo, hi, len(str))
			}
			return kStr(str[lo:hi])
		case *SliceV:
			lo, hi := get(x.Low, 0), get(x.High, s.Hi-s.Lo)
			mx := get(x.Max, s.Cap)
			if lo < 0 || hi > s.Cap || lo > hi || mx > s.Cap || hi > mx {
				rtPanic("slice bounds out of range [%d:%d] with capacity %d", lo, hi, s.Cap)
			}
			return &SliceV{B: s.B, Lo: s.Lo + lo, Hi: s.Lo + hi, Cap: mx}
		case NilV:
			lo, hi := get(x.Low, 0), get(x.High, 0)
			if lo != 0 || hi != 0 {
				rtPanic("slice bounds out of range")
			}
			return NilV{}
		case *Ptr:
			arr, ok := s.peek().(*ArrV)
			if !ok {
				ood("slice of a pointer to %s", avString(s.peek()))
			}
			n := len(arr.C)
			lo, hi := get(x.Low, 0), get(x.High, n)
			mx := get(x.Max, n)
			if lo < 0 || hi > n || lo > hi || mx > n || hi > mx {
				rtPanic("slice bounds out of range [%d:%d] with capacity %d", lo, hi, n)
			}
			return &SliceV{B: &backing{cells: arr.C}, Lo: lo, Hi: hi, Cap: mx}
		}
		ood("slice of %s", avString(base))
	case *ssa.MakeSlice:
		n := int(avInt(ip.operand(fr, x.Len)))
		cp := int(avInt(ip.operand(fr, x.Cap)))
		if n < 0 || cp < n || cp > 1<<16 {
			rtPanic("makeslice: len out of range")
		}
		b := &backing{}
		et := x.Type().Underlying().(*types.Slice).Elem()
		for i := 0; i < cp; i++ {
			b.cells = append(b.cells, ip.newObj(ip.zeroOf(et)))
		}
		return &SliceV{B: b, Lo: 0, Hi: n, Cap: cp}
	case *ssa.MakeMap:
		return &MapV{M: map[string]AV{}}
	case *ssa.MakeChan:
		n := int(avInt(ip.operand(fr, x.Size)))
		// runtime.makechan: negative sizes and sizes whose buffer exceeds the address space (maxAlloc = 1<<48 on
		// 64-bit targets) panic
		es := int64(1)
		if ct, ok := x.Type().Underlying().(*types.Chan); ok {
			func() {
				defer func() { recover() }()
				if z := types.SizesFor("gc", "amd64").Sizeof(ct.Elem()); z > 0 {
					es = z
				}
			}()
		}
		if n < 0 || int64(n) > (1<<48)/es {
			rtPanic("makechan: size out of range (%d)", n)
		}
		return &ChanV{Cap: n}
	case *ssa.MakeClosure:
		cl := &Closure{Fn: x.Fn.(*ssa.Function)}
		for _, b := range x.Bindings {
			cl.Free = append(cl.Free, ip.operand(fr, b))
		}
		return cl
	case *ssa.MakeInterface:
		a := ip.operand(fr, x.X)
		return &IfaceV{T: x.X.Type(), V: a}
	case *ssa.ChangeInterface:
		return ip.operand(fr, x.X)
	case *ssa.ChangeType:
		return ip.operand(fr, x.X)
	case *ssa.Convert:
		return ip.convert(ip.operand(fr, x.X), x.X.Type(), x.Type())
	case *ssa.TypeAssert:
		a := ip.operand(fr, x.X)
		iv, isI := a.(*IfaceV)
		ok := false
		if isI {
			if types.IsInterface(x.AssertedType) {
				ok = types.AssertableTo(x.AssertedType.Underlying().(*types.Interface), iv.T) && implementsIface(iv.T, x.AssertedType)
			} else {
				ok = types.Identical(iv.T, x.AssertedType)
			}
		} else if _, isNil := a.(NilV); !isNil {
			ood("type assertion on %s", avString(a))
		}
		var res AV
		if ok {
			if types.IsInterface(x.AssertedType) {
				res = iv
			} else {
				res = iv.V
			}
		} else {
			if !x.CommaOk {
				rtPanic("interface conversion")
			}
			res = ip.zeroOf(x.AssertedType)
		}
		if x.CommaOk {
			return TupleV{res, kBool(ok)}
		}
		return res
	case *ssa.Extract:
		t, ok := ip.operand(fr, x.Tuple).(TupleV)
		if !ok || x.Index >= len(t) {
			ood("extract from %s", avString(ip.operand(fr, x.Tuple)))
		}
		return t[x.Index]
	case *ssa.Range:
		base := ip.operand(fr, x.X)
		switch m := base.(type) {
		case constant.Value:
			return &iterV{str: avStr(m)}
		case *MapV:
			ip.MapOrderUsed = true
			keys := append([]string{}, m.Keys...)
			sort.Strings(keys)
			if ip.MapDesc {
				for i, j := 0, len(keys)-1; i < j; i, j = i+1, j-1 {
					keys[i], keys[j] = keys[j], keys[i]
				}
			}
			return &iterV{m: m, keys: keys, keyT: x.X.Type().Underlying().(*types.Map).Key()}
		case NilV:
			return &iterV{}
		}
		ood("range over %s", avString(base))
	case *ssa.Next:
		it, ok := ip.operand(fr, x.Iter).(*iterV)
		if !ok {
			ood("next")
		}
		return it.next(ip, x.IsString)
	}
	ood("instruction %T in %s", v, fname(fr.fn))
	return nil
}

func implementsIface(t types.Type, iface types.Type) bool {
	it, ok := iface.Underlying().(*types.Interface)
	if !ok {
		return false
	}
	return types.Implements(t, it)
}

type iterV struct {
	str  string
	pos  int
	m    *MapV
	keys []string
	keyT types.Type
}

func (it *iterV) next(ip *Interp, isString bool) AV {
	if isString {
		if it.pos >= len(it.str) {
			return TupleV{kBool(false), kInt(0), kInt(0)}
		}
		r, sz := utf8.DecodeRuneInString(it.str[it.pos:])
		p := it.pos
		it.pos += sz
		return TupleV{kBool(true), kInt(int64(p)), kInt(int64(r))}
	}
	if it.m == nil || it.pos >= len(it.keys) {
		return TupleV{kBool(false), NilV{}, NilV{}}
	}
	k := it.keys[it.pos]
	it.pos++
	var kv AV
	if b, ok := it.keyT.Underlying().(*types.Basic); ok && b.Info()&types.IsString != 0 {
		s, err := strconv.Unquote(k)
		if err != nil {
			ood("map key")
		}
		kv = kStr(s)
	} else if ok && b.Info()&types.IsInteger != 0 {
		n, err := strconv.ParseInt(k, 10, 64)
		if err != nil {
			ood("map key")
		}
		kv = kInt(n)
	} else if v, ok := it.m.KeyV[k]; ok {
		kv = copyVal(v)
	} else {
		ood("iteration over a map with non-basic keys")
	}
	return TupleV{kBool(true), kv, copyVal(it.m.M[k])}
}

func (ip *Interp) convert(a AV, from, to types.Type) AV {
	tb, _ := to.Underlying().(*types.Basic)
	fb, _ := from.Underlying().(*types.Basic)
	if f, ok := a.(*FloatV); ok && tb != nil {
		switch {
		case tb.Kind() == types.Float32:
			return &FloatV{F: float64(float32(f.F))}
		case tb.Info()&types.IsFloat != 0:
			return &FloatV{F: f.F}
		case tb.Info()&types.IsInteger != 0:
			if math.IsNaN(f.F) || math.IsInf(f.F, 0) {
				ood("conversion of a non-finite float to an integer")
			}
			r, ok := convertConst(constant.MakeInt64(int64(f.F)), to)
			if !ok {
				ood("float to integer")
			}
			return r
		}
	}
	if k, ok := a.(constant.Value); ok && tb != nil && tb.Info()&types.IsFloat != 0 && k.Kind() == constant.Int {
		var f float64
		if fb != nil && fb.Info()&types.IsUnsigned != 0 {
			u, _ := constant.Uint64Val(k)
			f = float64(u)
		} else {
			i, _ := constant.Int64Val(k)
			f = float64(i)
		}
		if tb.Kind() == types.Float32 {
			f = float64(float32(f))
		}
		return &FloatV{F: f}
	}
	if _, ok := a.(*StrDataV); ok {
		return a // *byte ↔ unsafe.Pointer
	}
	if k, ok := a.(constant.Value); ok {
		if tb != nil && tb.Info()&types.IsString != 0 {
			if k.Kind() == constant.String {
				return k
			}
			if k.Kind() == constant.Int { // string(rune)
				i, _ := constant.Int64Val(k)
				return kStr(string(rune(i)))
			}
		}
		if tb != nil && tb.Info()&types.IsNumeric != 0 {
			if tb.Info()&types.IsFloat != 0 {
				return constant.ToFloat(k)
			}
			if k.Kind() == constant.Float {
				f, _ := constant.Float64Val(k)
				return kInt(int64(f))
			}
			r, ok := convertConst(k, to)
			if !ok {
				ood("numeric conversion")
			}
			return r
		}
		if sl, ok := to.Underlying().(*types.Slice); ok && k.Kind() == constant.String {
			eb, _ := sl.Elem().Underlying().(*types.Basic)
			s := constant.StringVal(k)
			var es []AV
			if eb != nil && eb.Kind() == types.Byte {
				for i := 0; i < len(s); i++ {
					es = append(es, kInt(int64(s[i])))
				}
			} else {
				for _, r := range s {
					es = append(es, kInt(int64(r)))
				}
			}
			return ip.mkSlice(es)
		}
	}
	if tb != nil && tb.Info()&types.IsString != 0 {
		switch s := a.(type) {
		case *SliceV, NilV:
			var es []AV
			if sv, ok := s.(*SliceV); ok {
				es = sv.elems()
			}
			el := from.Underlying().(*types.Slice).Elem().Underlying().(*types.Basic)
			if el.Kind() == types.Byte {
				bs := make([]byte, len(es))
				for i, e := range es {
					bs[i] = byte(avInt(e))
				}
				return kStr(string(bs))
			}
			rs := make([]rune, len(es))
			for i, e := range es {
				rs[i] = rune(avInt(e))
			}
			return kStr(string(rs))
		}
	}
	_ = fb
	switch a.(type) {
	case *Ptr, NilV, *Sym:
		return a // pointer conversions between identical underlying types
	}
	ood("conversion %s → %s", from, to)
	return nil
}

func (ip *Interp) builtin(name string, args []AV, cc *ssa.CallCommon) AV {
	switch name {
	case "recover":
		if !ip.Recover {
			ood("builtin recover")
		}
		if n := len(ip.panicFrames); n > 0 {
			if pf := ip.panicFrames[n-1]; pf.panicking != nil && pf.deferDepth == ip.depth {
				pe := pf.panicking
				pf.panicking = nil
				if pe.val != nil {
					return pe.val
				}
				return ip.runtimeErr(pe.why)
			}
		}
		return NilV{}
	case "close":
		ip.chanClose(args[0])
		return TupleV{}
	case "clear":
		switch x := args[0].(type) {
		case *MapV:
			x.M, x.Keys = map[string]AV{}, nil
			return TupleV{}
		case *SliceV:
			var et types.Type
			if cc != nil && len(cc.Args) == 1 {
				if sl, ok := cc.Args[0].Type().Underlying().(*types.Slice); ok {
					et = sl.Elem()
				}
			}
			for i := x.Lo; i < x.Hi; i++ {
				if et != nil {
					x.B.cells[i].V = ip.zeroOf(et)
				} else {
					x.B.cells[i].V = NilV{}
				}
			}
			return TupleV{}
		case NilV:
			return TupleV{}
		}
		ood("clear of %s", avString(args[0]))
	case "len":
		switch x := args[0].(type) {
		case *ChanV:
			return kInt(int64(len(x.Buf)))
		case constant.Value:
			return kInt(int64(len(avStr(x))))
		case *MapV:
			return kInt(int64(len(x.M)))
		case *ArrV:
			return kInt(int64(len(x.C)))
		}
		return kInt(int64(sliceLen(args[0])))
	case "cap":
		switch x := args[0].(type) {
		case *ChanV:
			return kInt(int64(x.Cap))
		case NilV:
			return kInt(0)
		case *SliceV:
			return kInt(int64(x.Cap - x.Lo))
		}
	case "append":
		var add []AV
		switch y := args[1].(type) {
		case NilV:
		case *SliceV:
			add = y.elems()
		case constant.Value: // append([]byte, string...)
			s := avStr(y)
			for i := 0; i < len(s); i++ {
				add = append(add, kInt(int64(s[i])))
			}
		default:
			ood("append of %s", avString(args[1]))
		}
		var cur []AV
		if s, ok := args[0].(*SliceV); ok {
			// beyond the capacity: reallocate with the exact length (Go's growth policy is not modelled)
			cur = s.elems()
		} else if _, ok := args[0].(NilV); !ok {
			ood("append to %s", avString(args[0]))
		}
		if len(cur)+len(add) == 0 {
			return args[0]
		}
		if s, ok := args[0].(*SliceV); ok && s.B != nil && s.B.aliasBuf == nil && len(add) > 0 && s.Hi+len(add) <= s.Cap && s.Cap <= len(s.B.cells) {
			// enough spare capacity: the new elements land in the shared backing array, as in Go
			for j, a := range add {
				s.B.cells[s.Hi+j].V = copyVal(a)
			}
			return &SliceV{B: s.B, Lo: s.Lo, Hi: s.Hi + len(add), Cap: s.Cap}
		}
		out := ip.mkSlice(append(cur, add...))
		if s, ok := args[0].(*SliceV); ok && s.B != nil && s.B.aliasBuf != nil && s.Lo == 0 && len(cur)+len(add) <= s.B.aliasCap {
			// still inside the buffer's spare capacity: the bytes land in the buffer's own storage
			ab := s.B.aliasBuf
			for j := len(cur); j < len(cur)+len(add); j++ {
				if pos := s.B.aliasBase + j; pos < len(ab.S) {
					if k, isK := add[j-len(cur)].(constant.Value); isK {
						v, _ := constant.Int64Val(k)
						ab.S[pos] = byte(v)
					}
				}
			}
			out.B.aliasBuf, out.B.aliasBase, out.B.aliasCap = ab, s.B.aliasBase, s.B.aliasCap
		}
		return out
	case "copy":
		dst, ok := args[0].(*SliceV)
		if !ok {
			if _, isNil := args[0].(NilV); isNil {
				return kInt(0)
			}
			ood("copy into %s", avString(args[0]))
		}
		var src []AV
		switch y := args[1].(type) {
		case NilV:
		case *SliceV:
			src = y.elems()
		case constant.Value:
			s := avStr(y)
			for i := 0; i < len(s); i++ {
				src = append(src, kInt(int64(s[i])))
			}
		}
		n := min(len(src), dst.Hi-dst.Lo)
		for i := 0; i < n; i++ {
			dst.B.cells[dst.Lo+i].V = copyVal(src[i])
		}
		return kInt(int64(n))
	case "min", "max":
		best := args[0]
		for _, a := range args[1:] {
			ka, kb := best.(constant.Value), a.(constant.Value)
			if ka == nil || kb == nil {
				ood("min/max")
			}
			if (name == "min" && constant.Compare(kb, token.LSS, ka)) || (name == "max" && constant.Compare(kb, token.GTR, ka)) {
				best = a
			}
		}
		return best
	case "delete":
		if m, ok := args[0].(*MapV); ok {
			k := mapKey(args[1])
			delete(m.M, k)
			for i, kk := range m.Keys {
				if kk == k {
					m.Keys = append(m.Keys[:i:i], m.Keys[i+1:]...)
					break
				}
			}
		}
		return TupleV{}
	case "panic":
		rtPanic("explicit panic")
	case "StringData":
		return &StrDataV{S: avStr(args[0])}
	case "String":
		switch p := args[0].(type) {
		case *StrDataV:
			n := int(avInt(args[1]))
			if n < 0 || n > len(p.S) {
				rtPanic("unsafe.String: length out of range")
			}
			return kStr(p.S[:n])
		case NilV:
			if avInt(args[1]) == 0 {
				return kStr("")
			}
			rtPanic("unsafe.String: ptr is nil and len is not zero")
		}
		ood("unsafe.String of %s", avString(args[0]))
	}
	ood("builtin %s", name)
	return nil
}

// ---- models of pure library functions

func strSlice(ip *Interp, ss []string) AV {
	es := make([]AV, len(ss))
	for i, s := range ss {
		es[i] = kStr(s)
	}
	if len(es) == 0 {
		return &SliceV{B: &backing{}, Lo: 0, Hi: 0, Cap: 0}
	}
	return ip.mkSlice(es)
}

func avStrings(v AV) []string {
	switch x := v.(type) {
	case NilV:
		return nil
	case *SliceV:
		var out []string
		for _, e := range x.elems() {
			out = append(out, avStr(e))
		}
		return out
	}
	ood("[]string expected")
	return nil
}

// frameName names the frame k levels above the function currently executing (0 = that function itself); below the
// interpreter's own stack come the synthetic user frames, innermost first.
func (ip *Interp) frameName(k int) (string, bool) {
	i := len(ip.Stack) - 1 - k
	if i >= 0 {
		return "frame:" + fname(ip.Stack[i]), true
	}
	u := -i - 1
	if u < len(ip.UserFrames) {
		return "frame:" + ip.UserFrames[u], true
	}
	return "", false
}

// pcFor gives each frame (by name) a stable program-counter value.
func (ip *Interp) pcFor(name string) int {
	if ip.pcOf == nil {
		ip.pcOf = map[string]int{}
	}
	if id, ok := ip.pcOf[name]; ok {
		return id
	}
	id := 1000 + len(ip.pcName)
	ip.pcOf[name] = id
	ip.pcName = append(ip.pcName, name)
	return id
}

func (ip *Interp) frameStruct(t types.Type, name string) AV {
	fv := ip.zeroOf(t).(*StructV)
	st := t.Underlying().(*types.Struct)
	for i := 0; i < st.NumFields(); i++ {
		switch st.Field(i).Name() {
		case "File":
			fv.F[i] = kStr(name)
		case "Line":
			fv.F[i] = kInt(1)
		case "Function":
			fv.F[i] = kStr(name)
		}
	}
	return fv
}

func (ip *Interp) model(fn *ssa.Function, args []AV) (res AV, ok bool) {
	name := fn.String()
	if fn.Origin() != nil {
		name = fn.Origin().String()
	}
	if ip.OnOS != nil && (strings.HasPrefix(name, "os.") || strings.HasPrefix(name, "(*os.File).") || strings.HasPrefix(name, "path/filepath.") || name == "fmt.Fprintln" || name == "fmt.Fprintf" || name == "fmt.Fprint") {
		if r, ok := ip.OnOS(ip, name, args); ok {
			return r, true
		}
	}
	switch name {
	case "runtime/debug.Stack":
		return ip.bytesAV([]byte("goroutine 1 [running]:\n")), true
	case "runtime.Caller":
		// frame 0 = the function calling runtime.Caller
		nm, ok := ip.frameName(int(avInt(args[0])))
		if !ok {
			return TupleV{kInt(0), kStr(""), kInt(0), kBool(false)}, true
		}
		ip.Trace = append(ip.Trace, "runtime.Caller→"+nm)
		return TupleV{kInt(1), kStr(nm), kInt(1), kBool(true)}, true
	case "runtime.Callers":
		// skip 0 = Callers itself, 1 = the function calling Callers
		sv, isS := args[1].(*SliceV)
		if !isS {
			return kInt(0), true
		}
		skip := int(avInt(args[0]))
		n := 0
		for i := sv.Lo; i < sv.Hi; i++ {
			k := skip - 1 + n
			if skip == 0 {
				ood("runtime.Callers(0, …)")
			}
			if _, ok := ip.frameName(k); !ok {
				break
			}
			nm, _ := ip.frameName(k)
			sv.B.cells[i].V = kInt(int64(ip.pcFor(nm)))
			n++
		}
		return kInt(int64(n)), true
	case "runtime.CallersFrames":
		sv, isS := args[0].(*SliceV)
		f := &FramesV{}
		if isS {
			for _, e := range sv.elems() {
				f.idx = append(f.idx, int(avInt(e)))
			}
		}
		return &IfaceV{T: fn.Signature.Results().At(0).Type(), V: f}, true
	case "(*runtime.Frames).Next":
		iv, _ := args[0].(*IfaceV)
		var f *FramesV
		if iv != nil {
			f, _ = iv.V.(*FramesV)
		}
		ft := fn.Signature.Results().At(0).Type()
		if f == nil || f.pos >= len(f.idx) {
			return TupleV{ip.zeroOf(ft), kBool(false)}, true
		}
		pc := f.idx[f.pos]
		f.pos++
		nm := ""
		if i := pc - 1000; i >= 0 && i < len(ip.pcName) {
			nm = ip.pcName[i]
		}
		ip.Trace = append(ip.Trace, "CallersFrames→"+nm)
		return TupleV{ip.frameStruct(ft, nm), kBool(f.pos < len(f.idx))}, true
	case "(*sync.Pool).Get":
		p, isP := args[0].(*Ptr)
		if !isP {
			ood("sync.Pool receiver")
		}
		if items := ip.Pools[p.O]; len(items) > 0 {
			it := items[len(items)-1]
			ip.Pools[p.O] = items[:len(items)-1]
			ip.Trace = append(ip.Trace, "pool.Get(reused)")
			return it, true
		}
		ip.Trace = append(ip.Trace, "pool.Get(new)")
		if nf := ip.PoolNew[p.O]; nf != nil {
			return ip.callFn(nf, nil, nil), true
		}
		// a pool value built by the evaluated initialiser: its New field holds the function
		if sv, ok := p.peek().(*StructV); ok {
			for _, f := range sv.F {
				if cl, ok := f.(*Closure); ok {
					return ip.callFn(cl.Fn, nil, cl.Free), true
				}
			}
		}
		return NilV{}, true
	case "(*sync.Pool).Put":
		p, isP := args[0].(*Ptr)
		if !isP {
			ood("sync.Pool receiver")
		}
		ip.Pools[p.O] = append(ip.Pools[p.O], args[1])
		ip.Trace = append(ip.Trace, "pool.Put")
		return TupleV{}, true
	case "(*sync.Map).Load", "(*sync.Map).Store", "(*sync.Map).LoadOrStore":
		p, isP := args[0].(*Ptr)
		if !isP {
			ood("sync.Map receiver")
		}
		m := ip.SyncMaps[p.O]
		if m == nil {
			m = &MapV{M: map[string]AV{}}
			ip.SyncMaps[p.O] = m
		}
		k := mapKey(args[1])
		switch fn.Name() {
		case "Load":
			v, ok := m.M[k]
			if !ok {
				return TupleV{NilV{}, kBool(false)}, true
			}
			return TupleV{v, kBool(true)}, true
		case "Store":
			m.M[k] = args[2]
			return TupleV{}, true
		default:
			if v, ok := m.M[k]; ok {
				return TupleV{v, kBool(true)}, true
			}
			m.M[k] = args[2]
			return TupleV{args[2], kBool(false)}, true
		}
	case "time.Now":
		ip.Trace = append(ip.Trace, "time.Now")
		if ip.Clock != nil {
			return &TimeV{T: ip.Clock()}, true
		}
		return &Sym{Name: "time.Now"}, true
	case "fmt.Sprintf":
		ip.Trace = append(ip.Trace, "fmt.Sprintf")
		if f, ok := args[0].(constant.Value); ok && f.Kind() == constant.String {
			// with arguments that have a native counterpart the real formatter is used
			var natives []any
			okAll := true
			if len(args) > 1 {
				if sv, isS := args[1].(*SliceV); isS {
					for _, e := range sv.elems() {
						n, ok := avNative(e)
						if !ok {
							okAll = false
							break
						}
						natives = append(natives, n)
					}
				} else if _, isNil := args[1].(NilV); !isNil {
					okAll = false
				}
			}
			if okAll {
				return kStr(fmt.Sprintf(constant.StringVal(f), natives...)), true
			}
			return kStr("sprintf(" + constant.StringVal(f) + ")"), true
		}
		return kStr("sprintf(?)"), true
	}
	if r, ok := ip.model2(fn, name, args); ok {
		return r, true
	}
	s := func(i int) string { return avStr(args[i]) }
	n := func(i int) int { return int(avInt(args[i])) }
	switch name {
	case "strings.Index":
		return kInt(int64(strings.Index(s(0), s(1)))), true
	case "strings.LastIndex":
		return kInt(int64(strings.LastIndex(s(0), s(1)))), true
	case "strings.IndexByte":
		return kInt(int64(strings.IndexByte(s(0), byte(n(1))))), true
	case "strings.LastIndexByte":
		return kInt(int64(strings.LastIndexByte(s(0), byte(n(1))))), true
	case "strings.IndexRune":
		return kInt(int64(strings.IndexRune(s(0), rune(n(1))))), true
	case "strings.IndexAny":
		return kInt(int64(strings.IndexAny(s(0), s(1)))), true
	case "strings.Contains":
		return kBool(strings.Contains(s(0), s(1))), true
	case "strings.ContainsRune":
		return kBool(strings.ContainsRune(s(0), rune(n(1)))), true
	case "strings.ContainsAny":
		return kBool(strings.ContainsAny(s(0), s(1))), true
	case "strings.HasPrefix":
		return kBool(strings.HasPrefix(s(0), s(1))), true
	case "strings.HasSuffix":
		return kBool(strings.HasSuffix(s(0), s(1))), true
	case "strings.TrimPrefix":
		return kStr(strings.TrimPrefix(s(0), s(1))), true
	case "strings.TrimSuffix":
		return kStr(strings.TrimSuffix(s(0), s(1))), true
	case "strings.TrimSpace":
		return kStr(strings.TrimSpace(s(0))), true
	case "strings.Trim":
		return kStr(strings.Trim(s(0), s(1))), true
	case "strings.TrimLeft":
		return kStr(strings.TrimLeft(s(0), s(1))), true
	case "strings.TrimRight":
		return kStr(strings.TrimRight(s(0), s(1))), true
	case "strings.CutPrefix":
		a, b := strings.CutPrefix(s(0), s(1))
		return TupleV{kStr(a), kBool(b)}, true
	case "strings.CutSuffix":
		a, b := strings.CutSuffix(s(0), s(1))
		return TupleV{kStr(a), kBool(b)}, true
	case "strings.Cut":
		a, b, c := strings.Cut(s(0), s(1))
		return TupleV{kStr(a), kStr(b), kBool(c)}, true
	case "strings.Split":
		return strSlice(ip, strings.Split(s(0), s(1))), true
	case "strings.SplitN":
		return strSlice(ip, strings.SplitN(s(0), s(1), n(2))), true
	case "strings.SplitAfter":
		return strSlice(ip, strings.SplitAfter(s(0), s(1))), true
	case "strings.Fields":
		return strSlice(ip, strings.Fields(s(0))), true
	case "strings.SplitSeq":
		var items []AV
		for _, p := range strings.Split(s(0), s(1)) {
			items = append(items, kStr(p))
		}
		return &SeqV{Items: items}, true
	case "strings.FieldsSeq":
		var items []AV
		for _, p := range strings.Fields(s(0)) {
			items = append(items, kStr(p))
		}
		return &SeqV{Items: items}, true
	case "strings.Join":
		return kStr(strings.Join(avStrings(args[0]), s(1))), true
	case "strings.ToUpper":
		return kStr(strings.ToUpper(s(0))), true
	case "strings.ToLower":
		return kStr(strings.ToLower(s(0))), true
	case "strings.NewReplacer":
		// the library's own replacer over the constant pairs (trusted library)
		pairs := avStrings(args[0])
		if len(pairs)%2 != 0 {
			rtPanic("strings.NewReplacer: odd argument count")
		}
		return &Ptr{O: ip.newObj(&ReplacerV{R: strings.NewReplacer(pairs...)})}, true
	case "(*strings.Replacer).Replace":
		if p, ok := args[0].(*Ptr); ok {
			if rv, ok := p.peek().(*ReplacerV); ok {
				return kStr(rv.R.Replace(s(1))), true
			}
		}
		ood("strings.Replacer receiver")
	case "strings.Repeat":
		if n(1) < 0 || n(1) > 1<<12 {
			rtPanic("strings.Repeat count")
		}
		return kStr(strings.Repeat(s(0), n(1))), true
	case "strings.Count":
		return kInt(int64(strings.Count(s(0), s(1)))), true
	case "strings.EqualFold":
		return kBool(strings.EqualFold(s(0), s(1))), true
	case "strings.Compare":
		return kInt(int64(strings.Compare(s(0), s(1)))), true
	case "strings.Replace":
		return kStr(strings.Replace(s(0), s(1), s(2), n(3))), true
	case "strings.ReplaceAll":
		return kStr(strings.ReplaceAll(s(0), s(1), s(2))), true
	case "strings.Title":
		ood("strings.Title")
	case "strconv.Itoa":
		return kStr(strconv.Itoa(n(0))), true
	case "strconv.Quote":
		return kStr(strconv.Quote(s(0))), true
	case "unicode.IsLower":
		return kBool(unicode.IsLower(rune(n(0)))), true
	case "unicode.IsUpper":
		return kBool(unicode.IsUpper(rune(n(0)))), true
	case "unicode.IsDigit":
		return kBool(unicode.IsDigit(rune(n(0)))), true
	case "unicode.IsLetter":
		return kBool(unicode.IsLetter(rune(n(0)))), true
	case "unicode.IsSpace":
		return kBool(unicode.IsSpace(rune(n(0)))), true
	case "unicode.ToUpper":
		return kInt(int64(unicode.ToUpper(rune(n(0))))), true
	case "unicode.ToLower":
		return kInt(int64(unicode.ToLower(rune(n(0))))), true
	case "unicode/utf8.RuneCountInString":
		return kInt(int64(utf8.RuneCountInString(s(0)))), true
	case "unicode/utf8.DecodeRuneInString":
		r, sz := utf8.DecodeRuneInString(s(0))
		return TupleV{kInt(int64(r)), kInt(int64(sz))}, true
	case "unicode/utf8.DecodeLastRuneInString":
		r, sz := utf8.DecodeLastRuneInString(s(0))
		return TupleV{kInt(int64(r)), kInt(int64(sz))}, true
	case "unicode/utf8.ValidString":
		return kBool(utf8.ValidString(s(0))), true
	case "slices.Contains":
		sl := args[0]
		if _, isNil := sl.(NilV); isNil {
			return kBool(false), true
		}
		sv, ok := sl.(*SliceV)
		if !ok {
			ood("slices.Contains")
		}
		for _, e := range sv.elems() {
			if avEqual(e, args[1]) {
				return kBool(true), true
			}
		}
		return kBool(false), true
	case "slices.Index":
		sv, ok := args[0].(*SliceV)
		if !ok {
			return kInt(-1), true
		}
		for i, e := range sv.elems() {
			if avEqual(e, args[1]) {
				return kInt(int64(i)), true
			}
		}
		return kInt(-1), true
	case "slices.Reverse":
		if sv, ok := args[0].(*SliceV); ok {
			for i, j := sv.Lo, sv.Hi-1; i < j; i, j = i+1, j-1 {
				sv.B.cells[i].V, sv.B.cells[j].V = sv.B.cells[j].V, sv.B.cells[i].V
			}
		}
		return TupleV{}, true
	case "sort.Slice", "sort.SliceStable":
		iv, isI := args[0].(*IfaceV)
		less, isC := args[1].(*Closure)
		if !isI || !isC {
			if _, isNil := args[0].(*IfaceV); !isNil {
				ood("sort.Slice arguments")
			}
		}
		sv, ok := iv.V.(*SliceV)
		if !ok {
			if _, isNil := iv.V.(NilV); isNil {
				return TupleV{}, true
			}
			ood("sort.Slice of %s", avString(iv.V))
		}
		stable := name == "sort.SliceStable" || !ip.AntiStable
		ip.sortInPlace(sv, stable, func(i, j int) bool {
			return avBool(ip.callFn(less.Fn, []AV{kInt(int64(i)), kInt(int64(j))}, less.Free))
		})
		return TupleV{}, true
	case "slices.SortFunc", "slices.SortStableFunc":
		cmp, isC := args[1].(*Closure)
		sv, ok := args[0].(*SliceV)
		if !ok {
			if _, isNil := args[0].(NilV); isNil {
				return TupleV{}, true
			}
			ood("slices.SortFunc arguments")
		}
		if !isC {
			ood("slices.SortFunc comparator")
		}
		stable := name == "slices.SortStableFunc" || !ip.AntiStable
		ip.sortInPlace(sv, stable, func(i, j int) bool {
			a, b := copyVal(sv.B.cells[sv.Lo+i].V), copyVal(sv.B.cells[sv.Lo+j].V)
			return avInt(ip.callFn(cmp.Fn, []AV{a, b}, cmp.Free)) < 0
		})
		return TupleV{}, true
	case "cmp.Compare":
		ka, kb := args[0].(constant.Value), args[1].(constant.Value)
		if ka == nil || kb == nil {
			ood("cmp.Compare")
		}
		switch {
		case constant.Compare(ka, token.LSS, kb):
			return kInt(-1), true
		case constant.Compare(ka, token.GTR, kb):
			return kInt(1), true
		}
		return kInt(0), true
	case "errors.New", "fmt.Errorf", "github.com/go-spring/stdlib/errutil.Explain", "github.com/go-spring/stdlib/errutil.Stack":
		sym := &Sym{Name: "error"}
		// the text and its length, where they are determined by constant strings, integers and the texts of wrapped
		// errors (a text that grows faster than the input is a resource problem the evaluators look for), and the
		// dynamic type (errors.New and fmt.Errorf without %w: *errors.errorString; one %w: *fmt.wrapError; errutil's
		// Stack and Explain are fmt.Errorf("%s >> %w") / ("%s: %w") around a non-nil error and fmt.Errorf otherwise)
		fi, rest := 0, 1
		var inner AV
		sep := ""
		if strings.HasPrefix(name, "github.com/") {
			fi, rest, inner = 1, 2, args[0]
			sep = " >> "
			if strings.HasSuffix(name, "Explain") {
				sep = ": "
			}
		}
		if f, ok := args[fi].(constant.Value); ok && f.Kind() == constant.String {
			format := constant.StringVal(f)
			var vals []any
			known, textKnown := true, true
			if name != "errors.New" && len(args) > rest {
				if sv, ok := args[rest].(*SliceV); ok {
					for _, e := range sv.elems() {
						if iv, ok := e.(*IfaceV); ok {
							e = iv.V
						}
						switch x := e.(type) {
						case constant.Value:
							switch x.Kind() {
							case constant.String:
								vals = append(vals, constant.StringVal(x))
							case constant.Int:
								n, _ := constant.Int64Val(x)
								vals = append(vals, n)
							default:
								vals = append(vals, "?")
								textKnown = false
							}
						case *Sym:
							switch {
							case strings.HasPrefix(x.Name, "error:"):
								vals = append(vals, errors.New(strings.TrimPrefix(x.Name, "error:")))
							case x.Text != "":
								vals = append(vals, errors.New(x.Text))
							case x.N > 0 && x.N < 1<<22:
								vals = append(vals, fmt.Errorf("%s", strings.Repeat("e", x.N)))
								textKnown = false
							default:
								known = false
							}
						default:
							known = false
						}
					}
				}
			}
			if known {
				var text string
				if name == "errors.New" {
					text = format
				} else {
					text = fmt.Errorf(format, vals...).Error()
				}
				nW := strings.Count(format, "%w")
				if inner != nil && !isNilAV(inner) {
					nW = 1
					innerText, innerN := "", 0
					if iv, ok := inner.(*IfaceV); ok {
						if x, ok := iv.V.(*Sym); ok {
							switch {
							case strings.HasPrefix(x.Name, "error:"):
								innerText = strings.TrimPrefix(x.Name, "error:")
							case x.Text != "":
								innerText = x.Text
							}
							innerN = max(x.N, len(innerText))
						}
					}
					if innerText == "" {
						textKnown = false
						innerText = strings.Repeat("e", innerN)
					}
					if innerN == 0 {
						known = false
					}
					text = fmt.Sprintf(format, vals...) + sep + innerText
				}
				if known {
					sym.N = len(text)
				}
				if known && textKnown {
					sym.Text = text
				}
				switch nW {
				case 0:
					sym.Kind = "*errors.errorString"
				case 1:
					sym.Kind = "*fmt.wrapError"
				default:
					sym.Kind = "*fmt.wrapErrors"
				}
			}
		}
		return &IfaceV{T: types.Universe.Lookup("error").Type(), V: sym}, true
	case "errors.Join":
		// nil iff every argument is nil
		if sv, ok := args[0].(*SliceV); ok {
			for _, e := range sv.elems() {
				if !isNilAV(e) {
					return &IfaceV{T: types.Universe.Lookup("error").Type(), V: &Sym{Name: "error"}}, true
				}
			}
		}
		return NilV{}, true
	case "strconv.Unquote":
		u, err := strconv.Unquote(s(0))
		if err != nil {
			return TupleV{kStr(""), ip.errVal(err.Error())}, true
		}
		return TupleV{kStr(u), NilV{}}, true
	}
	// bytes.Buffer / strings.Builder methods on a modelled buffer
	if recv := fn.Signature.Recv(); recv != nil && len(args) > 0 {
		if p, isP := args[0].(*Ptr); isP {
			if b, isB := peekBuf(p); isB {
				switch fn.Name() {
				case "WriteByte":
					b.S = append(b.S, byte(n(1)))
					b.Spare = max(0, b.Spare-1)
					return NilV{}, true
				case "WriteString":
					b.S = append(b.S, s(1)...)
					b.Spare = max(0, b.Spare-len(s(1)))
					return TupleV{kInt(int64(len(s(1)))), NilV{}}, true
				case "WriteRune":
					b.S = utf8.AppendRune(b.S, rune(n(1)))
					return TupleV{kInt(int64(utf8.RuneLen(rune(n(1))))), NilV{}}, true
				case "Write":
					if sv, ok := args[1].(*SliceV); ok {
						for _, e := range sv.elems() {
							b.S = append(b.S, byte(avInt(e)))
							b.Spare = max(0, b.Spare-1)
						}
						return TupleV{kInt(int64(sv.Hi - sv.Lo)), NilV{}}, true
					}
					return TupleV{kInt(0), NilV{}}, true
				case "String":
					return kStr(string(b.S)), true
				case "Len":
					return kInt(int64(len(b.S))), true
				case "Reset":
					b.S = b.S[:0]
					return TupleV{}, true
				case "Grow":
					if g := n(1); g > b.Spare {
						b.Spare = g
					}
					return TupleV{}, true
				case "Truncate":
					if n(1) < 0 || n(1) > len(b.S) {
						rtPanic("bytes.Buffer: truncation out of range")
					}
					b.S = b.S[:n(1)]
					return TupleV{}, true
				case "Bytes":
					es := make([]AV, len(b.S))
					for i, c := range b.S {
						es[i] = kInt(int64(c))
					}
					return ip.mkSlice(es), true
				}
			}
		}
	}
	return nil, false
}

func peekBuf(p *Ptr) (*BufV, bool) {
	v := p.O.V
	for _, i := range p.Path {
		switch x := v.(type) {
		case *StructV:
			v = x.F[i]
		case *ArrV:
			v = x.C[i].V
		default:
			return nil, false
		}
	}
	b, ok := v.(*BufV)
	return b, ok
}

// sortInPlace is an insertion sort that swaps cell contents in place (the less callback indexes the live slice).
// stable=false places an element before the elements it is not less than … i.e. before its equals.
func (ip *Interp) sortInPlace(sv *SliceV, stable bool, less func(i, j int) bool) {
	n := sv.Hi - sv.Lo
	swap := func(i, j int) {
		sv.B.cells[sv.Lo+i].V, sv.B.cells[sv.Lo+j].V = sv.B.cells[sv.Lo+j].V, sv.B.cells[sv.Lo+i].V
	}
	for i := 1; i < n; i++ {
		for j := i; j > 0; j-- {
			if stable {
				if !less(j, j-1) {
					break
				}
			} else {
				if less(j-1, j) {
					break
				}
			}
			swap(j, j-1)
		}
	}
}
