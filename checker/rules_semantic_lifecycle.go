package main

// Lifecycle evaluation (P13): Refresh, Destroy, registration and logging are evaluated, as sequences of operations
// on one interpreter state, against a small reference model of the documented behaviour. The plugin factory is
// stubbed (NewPlugin returns opaque loggers/appenders that record Start/Stop/Append/Write and report the tags the
// scenario gives them): what is evaluated is the control logic of configuration — tag routing (literal, longest
// wildcard prefix, root), validation errors, handle binding, the configured flag, the Destroy lists and order,
// unbinding — not value injection (C15, shape rules).
//
// Decided clauses: C02 (routing and validation), C12.handle / C12.unknown-name, C16 (state machine over operation
// sequences), C05.registered / C05.destroy-order.

import (
	"fmt"
	"go/constant"
	"go/types"
	"sort"
	"strings"

	"golang.org/x/tools/go/ssa"
)

type lcLogger struct {
	name    string
	tags    string
	failing bool   // Start returns an error
	alias   string // what GetName reports (default: the configured name)
}

type lcConfig struct {
	name      string
	appenders []string
	loggers   []lcLogger // "root" may be among them
	valid     bool
	late      bool // fails after things were started
	badprop   bool // a property setter rejects its value (the last step of Refresh, after tags and handles were bound)
	why       string
}

type lcWorld struct {
	c        *Ctx
	ro       *Roles
	ew       *entryWorld
	refresh  *ssa.Function
	destroy  *ssa.Function
	regTag   *ssa.Function
	getLog   *ssa.Function
	newPlug  *ssa.Function
	entry    *ssa.Function
	entryLow *ssa.Function // an entry point of a level the narrow stub loggers disable
	wrapperT *types.Named
	pluginT  *types.Named
}

func (c *Ctx) newLcWorld(ro *Roles) (*lcWorld, string) {
	ew, why := c.newEntryWorld(ro)
	if ew == nil {
		return nil, why
	}
	w := &lcWorld{c: c, ro: ro, ew: ew}
	w.refresh, w.destroy, w.regTag, w.getLog, w.newPlug = c.logFunc("Refresh"), c.logFunc("Destroy"), c.logFunc("RegisterTag"), c.logFunc("GetLogger"), c.logFunc("NewPlugin")
	w.wrapperT, w.pluginT = c.logType("LoggerWrapper"), c.logType("Plugin")
	if w.refresh == nil || w.destroy == nil || w.regTag == nil || w.getLog == nil || w.newPlug == nil || w.wrapperT == nil || w.pluginT == nil {
		return nil, "Refresh / Destroy / RegisterTag / GetLogger / NewPlugin / LoggerWrapper / Plugin not found"
	}
	for _, E := range ro.EntryPoints {
		if E.Name() == "Error" {
			w.entry = E
		}
		if E.Name() == "Info" {
			w.entryLow = E
		}
	}
	if w.entry == nil || w.entryLow == nil {
		return nil, "entry points Info / Error not found"
	}
	return w, ""
}

var lcTags = []string{"aaa", "aaa_bbb", "aaa_bbb_ccc", "aaa_bbb_ccc_ddd", "_aaa", "_aaa_bbb", "a_b", "a_b_c", "_a_b", "ab_c", "aaa_bbx", "xyz_www"}

const lcInitialTags = 10 // the rest is registered by the "register" operation
var lcHandles = []string{"l1", "l2"}

func lcConfigs() []lcConfig {
	return []lcConfig{
		{name: "A", appenders: []string{"a1", "a2"}, valid: true, loggers: []lcLogger{
			{name: "root"}, {name: "l1", tags: "aaa_bbb"}, {name: "l2", tags: " aaa_* , _aaa_*"}, {name: "l3", tags: "aaa_bbb_*,xyz_www,,"}}},
		{name: "B", appenders: []string{"a1"}, valid: true, loggers: []lcLogger{
			{name: "l1", tags: "aaa_bbb_ccc_*"}, {name: "l2", tags: "aaa_bbb_ccc_ddd,aaa_bbx_*,aaa_bb_*,_*"}}},
		{name: "C", appenders: []string{"a1"}, valid: true, loggers: []lcLogger{
			{name: "l2", tags: "aaa"}, {name: "root"}, {name: "l1", tags: "aaa_bbb_ccc,aaa_bbb_ccc"}}},
		{name: "D", appenders: []string{"a2"}, valid: true, loggers: []lcLogger{
			{name: "l1", tags: "a_*"}, {name: "l2", tags: "_a_*,ab_*,a_b_c"}, {name: "root"}}},
		// (two loggers that report the same name cannot come out of the real plugin factory, whose names are the unique
		// configuration keys; the duplicate-tag check under colliding `name` keys is evaluated end to end by C15.config-values)
		{name: "dupname", appenders: []string{"a1"}, why: "two different loggers list the same tag", loggers: []lcLogger{{name: "l1", tags: "aaa"}, {name: "l2", tags: "aaa"}}},
		{name: "dup", appenders: []string{"a1"}, why: "two loggers list the same tag", loggers: []lcLogger{{name: "l1", tags: "aaa_*"}, {name: "l2", tags: "xyz_www,aaa_*"}}},
		{name: "roottags", appenders: []string{"a1"}, why: "the root logger lists tags", loggers: []lcLogger{{name: "root", tags: "aaa"}, {name: "l1", tags: "xyz_www"}, {name: "l2", tags: "aaa_bbb"}}},
		{name: "notags", appenders: []string{"a1"}, why: "a non-root logger lists no tags", loggers: []lcLogger{{name: "l1", tags: " , "}, {name: "l2", tags: "aaa"}}},
		{name: "badwild", appenders: []string{"a1"}, why: "a wildcard is not of the form ..._*", loggers: []lcLogger{{name: "l1", tags: "aaa*"}, {name: "l2", tags: "aaa"}}},
		{name: "badwild2", appenders: []string{"a1"}, why: "a wildcard is not of the form ..._*", loggers: []lcLogger{{name: "l1", tags: "aaa_*_bbb"}, {name: "l2", tags: "aaa"}}},
		{name: "nohandle", appenders: []string{"a1"}, why: "a requested handle name is not configured", loggers: []lcLogger{{name: "l1", tags: "aaa"}}},
		{name: "late", appenders: []string{"a1"}, late: true, why: "a logger fails to start", loggers: []lcLogger{{name: "l1", tags: "aaa"}, {name: "l2", tags: "xyz_www", failing: true}}},
		{name: "badprop", appenders: []string{"a1"}, late: true, badprop: true, why: "a property value is rejected by its setter", loggers: []lcLogger{{name: "l1", tags: "aaa_*"}, {name: "l2", tags: "xyz_www"}, {name: "root"}}},
		{name: "noapp", appenders: nil, why: "no appenders section", loggers: []lcLogger{{name: "l1", tags: "aaa"}, {name: "l2", tags: "xyz_www"}}},
	}
}

// route is the reference: which logger serves tag under cfg.
func (cfg lcConfig) route(tag string) string {
	table := map[string]string{}
	root := "builtin"
	for _, l := range cfg.loggers {
		if l.name == "root" {
			root = "root"
			continue
		}
		for _, t := range strings.Split(l.tags, ",") {
			if t = strings.TrimSpace(t); t != "" {
				table[t] = l.name
			}
		}
	}
	if l, ok := table[tag]; ok {
		return l
	}
	segs := strings.Split(strings.TrimPrefix(tag, "_"), "_")
	pre := ""
	if strings.HasPrefix(tag, "_") {
		pre = "_"
	}
	for k := len(segs) - 1; k >= 1; k-- {
		if l, ok := table[pre+strings.Join(segs[:k], "_")+"_*"]; ok {
			return l
		}
	}
	return root
}

type lcState struct {
	ip       *Interp
	w        *lcWorld
	cfgs     map[string]lcConfig
	active   string // name of the config NewPlugin is currently serving
	events   []string
	started  map[string]bool
	stopped  map[string]bool
	received []string
	tagPtr   map[string]*Ptr
	handle   map[string]*Ptr
	ctx      AV
}

func (w *lcWorld) newState() *lcState {
	c := w.c
	st := &lcState{w: w, started: map[string]bool{}, stopped: map[string]bool{}, tagPtr: map[string]*Ptr{}, handle: map[string]*Ptr{}, cfgs: map[string]lcConfig{}}
	for _, cfg := range lcConfigs() {
		st.cfgs[cfg.name] = cfg
	}
	ip := newInterp(c)
	ip.MaxSteps = 2000000
	st.ip = ip
	for g, li := range w.ew.lg {
		ip.Globals[g] = ip.newObj(w.ew.ll.level(ip, li.code, li.name))
	}
	for g, nf := range w.ew.poolGlobs {
		o := ip.newObj(&StructV{})
		ip.Globals[g] = o
		ip.PoolNew[o] = nf
	}
	for _, g := range w.ew.boolGlobs {
		ip.Globals[g] = ip.newObj(kBool(false)) // caller look-up off
	}
	for _, g := range w.ew.hookGlobs {
		ip.Globals[g] = ip.newObj(NilV{})
	}
	loggerT := types.NewPointer(w.ro.Loggers[0])
	for _, l := range w.ro.Loggers {
		if strings.Contains(l.Obj().Name(), "Console") {
			loggerT = types.NewPointer(l)
		}
	}
	var appT types.Type = loggerT
	for _, a := range w.ro.LeafAppenders {
		if strings.Contains(a.Obj().Name(), "Console") {
			appT = types.NewPointer(a)
		}
	}
	if dg := c.names().DefaultLogger; dg != nil {
		ip.Globals[dg] = ip.newObj(&IfaceV{T: loggerT, V: &Sym{Name: "logger:builtin"}})
	}
	// registries start empty; the plugin registry offers one logger and one appender class
	for _, m := range c.LogS.Members {
		g, ok := m.(*ssa.Global)
		if !ok {
			continue
		}
		if _, set := ip.Globals[g]; set {
			continue
		}
		et := g.Type().(*types.Pointer).Elem()
		switch u := et.Underlying().(type) {
		case *types.Map:
			mv := &MapV{M: map[string]AV{}}
			if inner, ok := u.Elem().Underlying().(*types.Map); ok {
				if pp, ok := inner.Elem().(*types.Pointer); ok && types.Identical(pp.Elem(), w.pluginT) {
					// pluginRegistry[type][name] = &Plugin{Class: …}
					for _, kind := range []string{"logger", "appender"} {
						sub := &MapV{M: map[string]AV{}}
						pl := ip.zeroOf(w.pluginT).(*StructV)
						ps := w.pluginT.Underlying().(*types.Struct)
						for i := 0; i < ps.NumFields(); i++ {
							switch {
							case ps.Field(i).Name() == "Name":
								pl.F[i] = kStr("Stub")
							case types.IsInterface(ps.Field(i).Type()):
								pl.F[i] = &IfaceV{T: loggerT, V: &Sym{Name: "class:" + kind}}
							}
						}
						k := constant.MakeString("Stub").ExactString()
						sub.M[k] = &Ptr{O: ip.newObj(pl)}
						sub.Keys = append(sub.Keys, k)
						kk := constant.MakeString(kind).ExactString()
						mv.M[kk] = sub
						mv.Keys = append(mv.Keys, kk)
					}
				}
			}
			if sig, ok := u.Elem().Underlying().(*types.Signature); ok && sig.Params().Len() == 1 && sig.Results().Len() == 1 && isStringType(u.Key()) && isStringType(sig.Params().At(0).Type()) {
				// the property registry: one property whose setter rejects the value "bad"
				k := constant.MakeString("lcProp").ExactString()
				mv.M[k] = &ExtFn{Name: "lcprop"}
				mv.Keys = append(mv.Keys, k)
			}
			ip.Globals[g] = ip.newObj(mv)
		case *types.Struct:
			if nt, ok := types.Unalias(et).(*types.Named); ok && nt.Obj().Pkg() != nil && nt.Obj().Pkg().Path() != logPath {
				ip.Globals[g] = ip.newObj(&StructV{})
			} else {
				ip.Globals[g] = ip.newObj(ip.zeroOf(et))
			}
		}
	}
	st.ctx = &IfaceV{T: loggerT, V: &Sym{Name: "ctx"}}
	ip.Ext = func(ip *Interp, callee *ssa.Function, args []AV) (AV, bool) {
		if callee == w.newPlug {
			// NewPlugin(class, prefix, storage): the stub factory
			prefix := avStr(args[1])
			kind, name, _ := strings.Cut(prefix, ".")
			switch kind {
			case "logger":
				return TupleV{&ReflectV{V: &IfaceV{T: loggerT, V: &Sym{Name: "logger:" + name}}}, NilV{}}, true
			case "appender":
				return TupleV{&ReflectV{V: &IfaceV{T: appT, V: &Sym{Name: "appender:" + name}}}, NilV{}}, true
			}
			return TupleV{&ReflectV{V: NilV{}}, ip.errVal("unknown plugin prefix " + prefix)}, true
		}
		if callee.Pkg == c.LogS && callee.Signature.Recv() == nil && callee.Signature.Results().Len() == 1 && types.Identical(callee.Signature.Results().At(0).Type(), w.ew.fieldT) {
			return &Sym{Name: "field"}, true
		}
		return nil, false
	}
	ip.OnExt = func(ip *Interp, name string, args []AV) AV {
		if name == "lcprop" {
			// applying a property is an effect on the live configuration like starting or stopping something
			st.events = append(st.events, "property lcProp="+avStr(args[0]))
			if len(args) == 1 && avStr(args[0]) == "bad" {
				return ip.errVal("invalid lcProp")
			}
			return NilV{}
		}
		ood("external function %s", name)
		return nil
	}
	ip.OnInvoke = func(ip *Interp, recv *Sym, method string, args []AV) (AV, bool) {
		kind, name, _ := strings.Cut(recv.Name, ":")
		switch method {
		case "GetName":
			for _, l := range st.cfgs[st.active].loggers {
				if kind == "logger" && l.name == name && l.alias != "" {
					return kStr(l.alias), true
				}
			}
			return kStr(name), true
		case "GetTags":
			for _, l := range st.cfgs[st.active].loggers {
				if l.name == name {
					return kStr(l.tags), true
				}
			}
			return kStr(""), true
		case "GetLevel":
			if lcNarrow(recv.Name) {
				return w.ew.ll.rangeValue(ip, 400, 999), true
			}
			return w.ew.ll.rangeValue(ip, 0, 999), true
		case "Start":
			st.events = append(st.events, "start "+recv.Name)
			for _, l := range st.cfgs[st.active].loggers {
				if kind == "logger" && l.name == name && l.failing {
					return ip.errVal("start failed"), true
				}
			}
			st.started[recv.Name] = true
			delete(st.stopped, recv.Name)
			return NilV{}, true
		case "Stop":
			st.events = append(st.events, "stop "+recv.Name)
			st.stopped[recv.Name] = true
			return TupleV{}, true
		case "Append", "Write":
			st.received = append(st.received, recv.Name)
			if method == "Write" {
				return TupleV{}, true
			}
			return TupleV{}, true
		}
		return nil, false
	}
	return st
}

// lcNarrow: every other configured stub logger enables only levels from 400 (WARN) up, so that INFO probes tell whether
// the level test is made against the logger that serves the tag now.
func lcNarrow(sym string) bool {
	kind, name, _ := strings.Cut(sym, ":")
	if kind != "logger" || name == "root" || name == "builtin" {
		return false
	}
	h := 0
	for i := 0; i < len(name); i++ {
		h = h*31 + int(name[i])
	}
	return h%2 == 0
}

func (ll *levelLayout) rangeValue(ip *Interp, lo, hi int64) AV {
	rg := ip.zeroOf(ll.rangeT).(*StructV)
	rg.F[ll.minIdx] = ll.level(ip, lo, fmt.Sprintf("L%d", lo))
	rg.F[ll.maxIdx] = ll.level(ip, hi, fmt.Sprintf("L%d", hi))
	return rg
}

// call runs fn and classifies the outcome: "ok", "panic: …", or an oodError.
func (st *lcState) call(fn *ssa.Function, args ...AV) (AV, string, error) {
	res, err := st.ip.Run(fn, args, nil)
	if err != nil {
		if _, isOOD := err.(oodError); isOOD {
			return nil, "", err
		}
		return nil, err.Error(), nil
	}
	return res, "ok", nil
}

func (st *lcState) configData(cfg lcConfig) AV {
	m := &MapV{M: map[string]AV{}}
	put := func(k, v string) {
		qk := constant.MakeString(k).ExactString()
		m.M[qk] = kStr(v)
		m.Keys = append(m.Keys, qk)
	}
	for _, a := range cfg.appenders {
		put("appender."+a+".type", "Stub")
	}
	for _, l := range cfg.loggers {
		put("logger."+l.name+".type", "Stub")
	}
	if cfg.badprop {
		put("lcProp", "bad")
	} else {
		put("lcProp", "fine")
	}
	return m
}

type lcModel struct {
	configured  bool   // a Refresh got past its guard and no Destroy followed
	live        string // name of the successfully applied config, "" otherwise
	failed      bool   // the last Refresh since the last Destroy failed after the guard
	halfApplied bool   // … and had started something that is still running
	tags        map[string]bool
	handles     map[string]bool
}

func (c *Ctx) checkLifecycleSemantics(r *Report, ro *Roles, rule string, thorough bool) bool {
	if c.lcMemo != nil {
		return *c.lcMemo
	}
	okAll := false
	defer func() { c.lcMemo = &okAll }()
	w, why := c.newLcWorld(ro)
	if w == nil {
		r.Inconclusive(rule+":world", "%s", why)
		return false
	}
	key := rule + ":sequences"
	ops := []string{"refresh:A", "refresh:B", "refresh:D", "refresh:dup", "refresh:late", "refresh:badprop", "refresh:nohandle", "destroy", "probe", "register", "handle"}
	maxLen := 3
	if thorough {
		maxLen = 4
	}
	// sequences: all up to maxLen, plus every invalid configuration in a fresh state, plus longer cycles
	var seqs [][]string
	var gen func(prefix []string)
	gen = func(prefix []string) {
		if len(prefix) > 0 {
			seqs = append(seqs, append([]string{}, prefix...))
		}
		if len(prefix) == maxLen {
			return
		}
		for _, op := range ops {
			gen(append(prefix, op))
		}
	}
	gen(nil)
	for _, cfg := range lcConfigs() {
		seqs = append(seqs, []string{"refresh:" + cfg.name, "probe", "destroy", "probe", "refresh:A", "probe", "destroy", "destroy", "register", "handle", "refresh:B", "probe"})
	}
	seqs = append(seqs, []string{"refresh:A", "refresh:B", "probe", "register", "handle", "destroy", "register", "handle", "refresh:C", "probe", "refresh:A", "destroy", "probe", "refresh:late", "probe", "destroy", "refresh:A", "probe"})
	var bad []string
	var oodWhy string
	runs := 0
	fail := func(seq []string, i int, format string, args ...any) {
		if len(bad) < 4 {
			bad = append(bad, fmt.Sprintf("after [%s]: %s", strings.Join(seq[:i+1], " → "), fmt.Sprintf(format, args...)))
		}
	}
	type job struct {
		seq  []string
		desc bool
	}
	var jobs []job
	for _, seq := range seqs {
		jobs = append(jobs, job{seq, false})
		hasRefresh, hasProbe := false, false
		for _, op := range seq {
			hasRefresh = hasRefresh || strings.HasPrefix(op, "refresh:")
			hasProbe = hasProbe || (hasRefresh && op == "probe")
		}
		if hasProbe {
			jobs = append(jobs, job{seq, true}) // the other map iteration order
		}
	}
seqLoop:
	for _, jb := range jobs {
		seq := jb.seq
		if len(bad) >= 4 {
			break
		}
		st := w.newState()
		st.ip.MapDesc = jb.desc
		mdl := &lcModel{tags: map[string]bool{}, handles: map[string]bool{}}
		// initial registrations (before any configuration)
		for _, t := range lcTags[:lcInitialTags] {
			res, out, err := st.call(w.regTag, kStr(t))
			if err != nil {
				oodWhy = err.Error()
				break seqLoop
			}
			if out != "ok" {
				fail(seq, -1, "RegisterTag(%q) before any Refresh: %s", t, out)
				continue seqLoop
			}
			if p, ok := res.(*Ptr); ok {
				st.tagPtr[t] = p
			}
			mdl.tags[t] = true
		}
		for _, h := range lcHandles {
			res, out, err := st.call(w.getLog, kStr(h))
			if err != nil {
				oodWhy = err.Error()
				break seqLoop
			}
			if out != "ok" {
				fail(seq, -1, "GetLogger(%q) before any Refresh: %s", h, out)
				continue seqLoop
			}
			if p, ok := res.(*Ptr); ok {
				st.handle[h] = p
			}
			mdl.handles[h] = true
		}
		runs++
		for i, op := range seq {
			kind, arg, _ := strings.Cut(op, ":")
			switch kind {
			case "refresh":
				cfg := st.cfgs[arg]
				st.active = arg
				before := append([]string{}, st.events...)
				res, out, err := st.call(w.refresh, st.configData(cfg))
				if err != nil {
					oodWhy = err.Error()
					break seqLoop
				}
				if out != "ok" {
					fail(seq, i, "Refresh(%s) %s", arg, out)
					continue seqLoop
				}
				_, isNil := res.(NilV)
				switch {
				case mdl.live != "":
					// a configuration is live: the second Refresh is rejected and disturbs nothing
					if isNil {
						fail(seq, i, "a second Refresh without an intervening Destroy succeeded")
					}
					if len(st.events) != len(before) {
						fail(seq, i, "a rejected second Refresh started or stopped something or applied a property (%v): the live configuration is disturbed", st.events[len(before):])
					}
					st.active = mdl.live
				case !cfg.valid:
					if isNil {
						fail(seq, i, "Refresh returned nil although %s", cfg.why)
						continue seqLoop
					}
					mdl.configured, mdl.failed = true, true
					for _, e := range st.events[len(before):] {
						if strings.HasPrefix(e, "start ") && !st.stopped[strings.TrimPrefix(e, "start ")] {
							mdl.halfApplied = true
						}
					}
				case mdl.failed:
					// after a failed Refresh and before Destroy: if that Refresh had started anything, a new one on top of the
					// half-applied configuration must be rejected; otherwise the property does not say
					if isNil {
						if mdl.halfApplied {
							fail(seq, i, "a Refresh is accepted on top of a half-applied configuration (an earlier Refresh failed after it had started loggers/appenders, and no Destroy followed)")
						}
						mdl.live, mdl.failed = arg, false
					}
				default:
					if !isNil {
						fail(seq, i, "Refresh with the valid configuration %s returned an error", arg)
						continue seqLoop
					}
					mdl.configured, mdl.live, mdl.failed = true, arg, false
				}
			case "destroy":
				before := len(st.events)
				_, out, err := st.call(w.destroy)
				if err != nil {
					oodWhy = err.Error()
					break seqLoop
				}
				if out != "ok" {
					fail(seq, i, "Destroy %s", out)
					continue seqLoop
				}
				evs := st.events[before:]
				for _, e := range evs {
					if n := strings.TrimPrefix(e, "stop "); n != e && !st.started[n] && n != "logger:builtin" {
						fail(seq, i, "Destroy stops %s, which was never started (Stop of a never-started asynchronous logger blocks on its nil queue)", n)
					}
				}
				if mdl.live != "" {
					// everything started by the live configuration is stopped exactly once, loggers before appenders
					cfg := st.cfgs[mdl.live]
					want := map[string]bool{}
					for _, a := range cfg.appenders {
						want["appender:"+a] = true
					}
					for _, l := range cfg.loggers {
						want["logger:"+l.name] = true
					}
					seenApp := false
					got := map[string]int{}
					for _, e := range evs {
						name := strings.TrimPrefix(e, "stop ")
						got[name]++
						if strings.HasPrefix(name, "appender:") {
							seenApp = true
						} else if seenApp {
							fail(seq, i, "Destroy stops %s after an appender was stopped", name)
						}
					}
					for n := range want {
						if got[n] != 1 {
							fail(seq, i, "Destroy stops %s %d time(s), want once (events %v)", n, got[n], evs)
						}
					}
				} else if !mdl.configured && !mdl.failed && len(evs) > 0 {
					fail(seq, i, "Destroy without a live configuration stops %v", evs)
				}
				mdl.configured, mdl.live, mdl.failed, mdl.halfApplied = false, "", false, false
				for n := range st.started {
					if st.stopped[n] {
						delete(st.started, n)
					}
				}
			case "register", "handle":
				fn, name := w.regTag, lcTags[lcInitialTags]
				if kind == "handle" {
					fn, name = w.getLog, "l1"
				}
				if i%2 == 1 && kind == "register" {
					name = lcTags[lcInitialTags+1]
				}
				res, out, err := st.call(fn, kStr(name))
				if err != nil {
					oodWhy = err.Error()
					break seqLoop
				}
				switch {
				case mdl.live != "":
					if out == "ok" {
						fail(seq, i, "%s(%q) is accepted while a configuration is live", fn.Name(), name)
					}
				case !mdl.configured && !mdl.failed:
					if out != "ok" {
						fail(seq, i, "%s(%q) with no live configuration: %s", fn.Name(), name, out)
						continue seqLoop
					}
					if p, ok := res.(*Ptr); ok {
						if kind == "register" {
							if old, had := st.tagPtr[name]; had && old.O != p.O {
								fail(seq, i, "registering %q twice yields two different tags", name)
							}
							st.tagPtr[name] = p
							mdl.tags[name] = true
						} else if old, had := st.handle[name]; had && old.O != p.O {
							fail(seq, i, "GetLogger(%q) twice yields two different handles", name)
						}
					}
				default:
					// after a failed Refresh the property does not say whether registration is possible
					if out == "ok" {
						if p, ok := res.(*Ptr); ok && kind == "register" {
							st.tagPtr[name] = p
							mdl.tags[name] = true
						}
					}
				}
			case "probe":
				var tags []string
				for t := range st.tagPtr {
					tags = append(tags, t)
				}
				sort.Strings(tags)
				for _, t := range tags {
					st.received = nil
					_, out, err := st.call(w.entry, st.ctx, st.tagPtr[t], NilV{})
					if err != nil {
						oodWhy = err.Error()
						break seqLoop
					}
					if out != "ok" {
						fail(seq, i, "logging through tag %q %s", t, out)
						continue seqLoop
					}
					if len(st.received) != 1 {
						fail(seq, i, "an event logged through tag %q reaches %v (want exactly one logger)", t, st.received)
						continue
					}
					got := st.received[0]
					switch {
					case mdl.live != "":
						if want := "logger:" + st.cfgs[mdl.live].route(t); got != want {
							fail(seq, i, "tag %q is served by %s, want %s (configuration %s)", t, got, want, mdl.live)
						}
					case !mdl.configured && !mdl.failed:
						if got != "logger:builtin" {
							fail(seq, i, "with no live configuration tag %q is served by %s, want the built-in logger", t, got)
						}
					}
					if st.stopped[got] && got != "logger:builtin" {
						fail(seq, i, "an event logged through tag %q is handed to %s, which has been stopped (an asynchronous logger would panic on its closed queue)", t, got)
					}
					// the level test is made against the logger serving the tag now
					st.received = nil
					_, out, err = st.call(w.entryLow, st.ctx, st.tagPtr[t], NilV{})
					if err != nil {
						oodWhy = err.Error()
						break seqLoop
					}
					switch {
					case out != "ok":
						fail(seq, i, "logging at INFO through tag %q %s", t, out)
						continue seqLoop
					case lcNarrow(got) && len(st.received) != 0:
						fail(seq, i, "an INFO event logged through tag %q reaches %v although the serving logger %s enables only WARN and above", t, st.received, got)
					case !lcNarrow(got) && (len(st.received) != 1 || st.received[0] != got):
						fail(seq, i, "an INFO event logged through tag %q reaches %v, want exactly the serving logger %s, which enables every level", t, st.received, got)
					}
				}
				var hs []string
				for h := range st.handle {
					hs = append(hs, h)
				}
				sort.Strings(hs)
				for _, h := range hs {
					st.received = nil
					m, path := w.c.methodWithPath(w.wrapperT, "Write")
					if m == nil {
						continue
					}
					hp := st.handle[h]
					res, out, err := st.call(m, &Ptr{O: hp.O, Path: append(append([]int{}, hp.Path...), path...)}, st.ip.mkSlice([]AV{kInt('x'), kInt('\n')}))
					if err != nil {
						oodWhy = err.Error()
						break seqLoop
					}
					if out != "ok" {
						fail(seq, i, "writing through handle %q %s", h, out)
						continue seqLoop
					}
					if tv, ok := res.(TupleV); ok && len(tv) == 2 {
						if n, ok := tv[0].(constant.Value); !ok || avInt(n) != 2 {
							fail(seq, i, "Write through handle %q reports %s bytes, want 2", h, avString(tv[0]))
						}
					}
					if len(st.received) != 1 {
						fail(seq, i, "bytes written through handle %q reach %v (want exactly one logger)", h, st.received)
						continue
					}
					got := st.received[0]
					switch {
					case mdl.live != "":
						if got != "logger:"+h {
							fail(seq, i, "handle %q forwards to %s, want the logger configured under that name", h, got)
						}
					case !mdl.configured && !mdl.failed:
						if got != "logger:builtin" {
							fail(seq, i, "with no live configuration handle %q forwards to %s, want the built-in logger", h, got)
						}
					}
					if st.stopped[got] && got != "logger:builtin" {
						fail(seq, i, "bytes written through handle %q are handed to %s, which has been stopped", h, got)
					}
				}
			}
		}
	}
	r.Count("lifecycle_sequences", runs)
	switch {
	case oodWhy != "":
		r.Inconclusive(key, "%s", oodWhy)
	case len(bad) > 0:
		r.Fail(key, c.pos(w.refresh.Pos()), "%s", strings.Join(bad, "; "))
	default:
		okAll = true
		r.OK(key, "%d operation sequences (all of length ≤ %d over Refresh(valid A/B/C, duplicate tag, late failure, unknown handle name), Destroy, log+write probes, RegisterTag, GetLogger; every invalid configuration followed by a recovery cycle): routing is literal entry > longest underscore-delimited wildcard prefix > root for %d tags; each invalid configuration makes Refresh return an error; a second Refresh is rejected without effect; registration is refused exactly while a configuration is live; handles are stable and forward to the logger of their name; Destroy stops everything once, loggers first, is idempotent and unbinds; no probe panics or reaches a stopped logger", runs, maxLen, len(lcTags))
	}
	return okAll
}
