package main

// Expression-parser evaluation (P13): expr.Parse is evaluated — through the generated lexer and parser and the ANTLR
// runtime (package initialisers, ATN deserialisation, adaptive prediction, error recovery with panic/recover, tree
// walk) — in the checker's interpreter, on expressions generated from Expr.g4's shape by the checker, and compared
// with a reference flattener written from the property statement. Malformed inputs must give (nil map, error).

import (
	"fmt"
	"go/constant"
	"sort"
	"strconv"
	"strings"
)

type rexpr struct {
	typ    string
	fields []rfield
	comma  bool // trailing comma
}

type rfield struct {
	path []string // tokens of the field access: IDENT ('.' IDENT | '[' INTEGER ']')*
	kind string   // ident | string | int | float | expr
	text string   // token text
	mean string   // what the map must hold
	sub  *rexpr
}

// render writes the expression with the spacing style: 0 none, 1 one space between all tokens, 2 tabs / newlines /
// CRLF between all tokens (inside field paths too).
func (e *rexpr) render(style int) string {
	var toks []string
	var walk func(e *rexpr)
	walk = func(e *rexpr) {
		toks = append(toks, e.typ, "{")
		for i, f := range e.fields {
			if i > 0 {
				toks = append(toks, ",")
			}
			toks = append(toks, f.path...)
			toks = append(toks, "=")
			if f.sub != nil {
				walk(f.sub)
			} else {
				toks = append(toks, f.text)
			}
		}
		if e.comma && len(e.fields) > 0 {
			toks = append(toks, ",")
		}
		toks = append(toks, "}")
	}
	walk(e)
	seps := []string{"\t", "\n", "\r\n", "  ", " \t\n "}
	var b strings.Builder
	for i, t := range toks {
		if i > 0 {
			switch style {
			case 1:
				b.WriteString(" ")
			case 2:
				b.WriteString(seps[i%len(seps)])
			}
		}
		b.WriteString(t)
	}
	return b.String()
}

func (e *rexpr) flatten(prefix string, out map[string]string) {
	if prefix == "" {
		out["type"] = e.typ
	} else {
		out[prefix+".type"] = e.typ
	}
	for _, f := range e.fields {
		k := strings.Join(f.path, "")
		if prefix != "" {
			k = prefix + "." + k
		}
		if f.sub != nil {
			f.sub.flatten(k, out)
		} else {
			out[k] = f.mean
		}
	}
}

func exprCorpus(thorough bool) []*rexpr {
	var out []*rexpr
	one := func(path []string, kind, text, mean string) *rexpr {
		return &rexpr{typ: "T", fields: []rfield{{path: path, kind: kind, text: text, mean: mean}}}
	}
	p := func(s ...string) []string { return s }
	paths := [][]string{p("a"), p("_x9"), p("a", ".", "b"), p("a", "[", "0", "]"), p("a", ".", "b", "[", "12", "]", ".", "c"), p("a", "[", "0", "]", "[", "1", "]"), p("Key_1", ".", "type"), p("a", "[", "0x1F", "]"), p("abcdefghijklmnopqrstuvwxyz_ABCDEFGHIJKLMNOPQRSTUVWXYZ0123456789", "[", "0xabcdefABCDEF", "]", ".", "z"), p("a", "[", "+3", "]", ".", "b"), p("a", "[", "-1", "]")}
	type lit struct{ kind, text, mean string }
	lits := []lit{
		{"ident", "value", "value"}, {"ident", "true", "true"}, {"ident", "_", "_"}, {"ident", "A9_b", "A9_b"},
		{"int", "42", "42"}, {"int", "-17", "-17"}, {"int", "+0", "+0"}, {"int", "0xFF", "0xFF"}, {"int", "007", "007"},
		{"float", "3.14", "3.14"}, {"float", "-0.5", "-0.5"}, {"float", "+2E10", "+2E10"}, {"float", ".25e-2", ".25e-2"}, {"float", "1e+9", "1e+9"},
		{"string", `""`, ""}, {"string", `"hello"`, "hello"}, {"string", `"a b"`, "a b"},
		{"string", `"q\"q"`, `q"q`}, {"string", `"b\\s"`, `b\s`}, {"string", `"s\/l"`, "s/l"}, {"string", `"\b\f\n\r\t"`, "\b\f\n\r\t"},
		{"string", `"{},=[].x"`, "{},=[].x"}, {"string", "\"raw\ttab\"", "raw\ttab"}, {"string", "\"raw\nnewline\"", "raw\nnewline"},
		{"string", `"é日本😀"`, "é日本😀"},
		{"string", `"é\n日本"`, "é\n日本"}, {"string", `"\"😀\" ß\\"`, `"😀" ß\`}, {"string", `"tab\tñ"`, "tab\tñ"},
		{"int", "0xabcdef", "0xabcdef"}, {"int", "0xABCDEF", "0xABCDEF"}, {"int", "0x0123456789", "0x0123456789"}, {"int", "-1234567890", "-1234567890"},
		{"float", "1234567890.0987654321e+1234567890", "1234567890.0987654321e+1234567890"}, {"float", "5E-7", "5E-7"},
		{"ident", "abcdefghijklmnopqrstuvwxyz", "abcdefghijklmnopqrstuvwxyz"}, {"ident", "ABCDEFGHIJKLMNOPQRSTUVWXYZ_0123456789", "ABCDEFGHIJKLMNOPQRSTUVWXYZ_0123456789"},
		{"string", "\" !#$%&'()*+,-./0123456789:;<=>?@ABCDEFGHIJKLMNOPQRSTUVWXYZ[]^_`abcdefghijklmnopqrstuvwxyz{|}~\"", " !#$%&'()*+,-./0123456789:;<=>?@ABCDEFGHIJKLMNOPQRSTUVWXYZ[]^_`abcdefghijklmnopqrstuvwxyz{|}~"}, {"string", `"  padded  "`, "  padded  "}, {"string", `"\\\""`, `\"`}, {"string", `"tail\\"`, `tail\`},
	}
	for i, l := range lits {
		out = append(out, one(paths[i%len(paths)], l.kind, l.text, l.mean))
	}
	for i, pa := range paths {
		l := lits[(i*5+3)%len(lits)]
		out = append(out, one(pa, l.kind, l.text, l.mean))
	}
	// empty body, trailing comma, several fields, duplicates (the later assignment wins), a field called type
	out = append(out, &rexpr{typ: "Empty"})
	out = append(out, &rexpr{typ: "T", comma: true, fields: []rfield{{path: p("a"), kind: "int", text: "1", mean: "1"}}})
	out = append(out, &rexpr{typ: "T", comma: true, fields: []rfield{{path: p("a"), kind: "int", text: "1", mean: "1"}, {path: p("b", ".", "c"), kind: "string", text: `"x"`, mean: "x"}, {path: p("a"), kind: "ident", text: "later", mean: "later"}}})
	out = append(out, &rexpr{typ: "T", fields: []rfield{{path: p("type"), kind: "ident", text: "Other", mean: "Other"}, {path: p("z"), kind: "float", text: "1.5", mean: "1.5"}}})
	out = append(out, &rexpr{typ: "T", fields: []rfield{{path: p("a", ".", "b"), kind: "int", text: "1", mean: "1"}, {path: p("a"), kind: "expr", sub: &rexpr{typ: "S", fields: []rfield{{path: p("b"), kind: "int", text: "2", mean: "2"}}}}}})
	// nesting
	nest := func(depth int) *rexpr {
		cur := &rexpr{typ: fmt.Sprintf("L%d", depth), fields: []rfield{{path: p("leaf"), kind: "string", text: `"v"`, mean: "v"}}}
		for d := depth - 1; d >= 1; d-- {
			cur = &rexpr{typ: fmt.Sprintf("L%d", d), comma: d%2 == 0, fields: []rfield{
				{path: p("n"), kind: "int", text: strconv.Itoa(d), mean: strconv.Itoa(d)},
				{path: paths[d%len(paths)], kind: "expr", sub: cur},
				{path: p("after"), kind: "ident", text: "x", mean: "x"}}}
		}
		return cur
	}
	for _, d := range []int{2, 3, 6} {
		out = append(out, nest(d))
	}
	out = append(out, &rexpr{typ: "T", fields: []rfield{{path: p("e"), kind: "expr", sub: &rexpr{typ: "Empty"}}, {path: p("f"), kind: "expr", sub: &rexpr{typ: "Empty", comma: true}}}})
	if thorough {
		for _, pa := range paths {
			for _, l := range lits {
				out = append(out, one(pa, l.kind, l.text, l.mean))
			}
		}
		for i := range lits {
			var fs []rfield
			for j := 0; j < 5; j++ {
				l := lits[(i+j*7)%len(lits)]
				fs = append(fs, rfield{path: paths[(i+j)%len(paths)], kind: l.kind, text: l.text, mean: l.mean})
			}
			out = append(out, &rexpr{typ: "Multi", fields: fs, comma: i%2 == 0})
		}
		out = append(out, nest(4), nest(5))
	}
	return out
}

// malformed inputs: each must give (nil, error).
func exprMalformed(thorough bool) []string {
	bad := []string{
		"T", "{", "}", "T{", "T}", "{}", "T{}}", "T{} x", "T{a}", "T{a=}", "T{=1}", "T{a=1 b=2}", "T{,}", "T{a=1,,}", "T{,a=1}",
		"T{a.=1}", "T{.a=1}", "T{a[=1}", "T{a[]=1}", "T{a[x]=1}", "T{a[0=1}", "T{a]=1}", "T{a..b=1}", "T{a[1.5]=1}",
		`T{a="unterminated}`, `T{a="bad\q"}`, `T{a="badA"}`, `T{a='x'}`, "T{a=@}", "T{a=1}@", "#", "T{a=1;}", "T{a==1}",
		"T{a=T{}", "T{a=T{b=}}", "9T{}", "T{9=1}", "T{a=1}T{b=2}", "=", ",", "T{a=-}", "T{a=0x}", "T{a=1e}", "T{a=.}", "T{a=+.e1}",
		"\"T\"{}", "T{a=\"x\"\"y\"}", "T { a = 1 , , b = 2 }", "T{a=1}}}}", "{{{{", "T{a=\x00}", "T{a=\"\\\"}",
	}
	if thorough {
		valid := []string{`Type{ a.b[0] = "x\ty", c = Sub{ d = 1.5, e = _id, }, f = -0x1 }`, `A{b=C{d=E{f="g"}}}`}
		for _, v := range valid {
			for i := 1; i < len(v); i++ {
				bad = append(bad, v[:i])
			}
			for i := 0; i < len(v); i++ {
				if strings.ContainsRune("{}=,[].\"", rune(v[i])) {
					bad = append(bad, v[:i]+v[i+1:])
				}
			}
		}
	}
	return bad
}

// refAccepts: a small recogniser for Expr.g4 written from the grammar (used only to drop generated "malformed" inputs
// that happen to be well-formed, e.g. a truncation that is again a complete expression).
func refAccepts(s string) bool {
	s = strings.TrimSpace(s)
	type tok struct{ k, t string }
	var toks []tok
	i := 0
	isD := func(c byte) bool { return c >= '0' && c <= '9' }
	isL := func(c byte) bool { return c == '_' || (c >= 'a' && c <= 'z') || (c >= 'A' && c <= 'Z') }
	isH := func(c byte) bool { return isD(c) || (c >= 'a' && c <= 'f') || (c >= 'A' && c <= 'F') }
	for i < len(s) {
		c := s[i]
		switch {
		case c == ' ' || c == '\t' || c == '\r' || c == '\n':
			i++
		case strings.IndexByte("{}=,[].", c) >= 0 && !(c == '.' && i+1 < len(s) && isD(s[i+1])):
			toks = append(toks, tok{string(c), string(c)})
			i++
		case isL(c):
			j := i
			for j < len(s) && (isL(s[j]) || isD(s[j])) {
				j++
			}
			toks = append(toks, tok{"IDENT", s[i:j]})
			i = j
		case c == '"':
			j := i + 1
			for {
				if j >= len(s) {
					return false
				}
				if s[j] == '"' {
					break
				}
				if s[j] == '\\' {
					if j+1 >= len(s) || strings.IndexByte(`"\/bfnrt`, s[j+1]) < 0 {
						return false
					}
					j++
				}
				j++
			}
			toks = append(toks, tok{"STRING", s[i : j+1]})
			i = j + 1
		default:
			// INTEGER | FLOAT, longest match
			j := i
			if c == '0' && i+2 < len(s)+0 && i+1 < len(s) && s[i+1] == 'x' && i+2 < len(s) && isH(s[i+2]) {
				j = i + 2
				for j < len(s) && isH(s[j]) {
					j++
				}
				toks = append(toks, tok{"INTEGER", s[i:j]})
				i = j
				continue
			}
			if c == '+' || c == '-' {
				j++
			}
			k := j
			for k < len(s) && isD(s[k]) {
				k++
			}
			intEnd := k
			hasInt := k > j
			if k < len(s) && s[k] == '.' && k+1 < len(s) && isD(s[k+1]) {
				k++
				for k < len(s) && isD(s[k]) {
					k++
				}
			} else if !hasInt {
				return false
			}
			fl := k
			if k < len(s) && (s[k] == 'e' || s[k] == 'E') {
				m := k + 1
				if m < len(s) && (s[m] == '+' || s[m] == '-') {
					m++
				}
				if m < len(s) && isD(s[m]) {
					for m < len(s) && isD(s[m]) {
						m++
					}
					fl = m
				}
			}
			if fl > intEnd || !hasInt {
				toks = append(toks, tok{"FLOAT", s[i:fl]})
			} else {
				toks = append(toks, tok{"INTEGER", s[i:fl]})
			}
			i = fl
		}
	}
	pos := 0
	peek := func() string {
		if pos < len(toks) {
			return toks[pos].k
		}
		return "EOF"
	}
	var expr func() bool
	expr = func() bool {
		if peek() != "IDENT" {
			return false
		}
		pos++
		if peek() != "{" {
			return false
		}
		pos++
		if peek() != "}" {
			for {
				// innerExpr
				if peek() != "IDENT" {
					return false
				}
				pos++
				for peek() == "." || peek() == "[" {
					if peek() == "." {
						pos++
						if peek() != "IDENT" {
							return false
						}
						pos++
					} else {
						pos++
						if peek() != "INTEGER" {
							return false
						}
						pos++
						if peek() != "]" {
							return false
						}
						pos++
					}
				}
				if peek() != "=" {
					return false
				}
				pos++
				switch peek() {
				case "IDENT":
					if pos+1 < len(toks) && toks[pos+1].k == "{" {
						if !expr() {
							return false
						}
					} else {
						pos++
					}
				case "STRING", "INTEGER", "FLOAT":
					pos++
				default:
					return false
				}
				if peek() == "," {
					pos++
					if peek() == "}" {
						break
					}
					continue
				}
				break
			}
		}
		if peek() != "}" {
			return false
		}
		pos++
		return true
	}
	return expr() && peek() == "EOF"
}

func (c *Ctx) checkExprSemantics(r *Report, rule string) bool {
	if c.exprMemo != nil {
		return *c.exprMemo
	}
	okAll := false
	defer func() { c.exprMemo = &okAll }()
	key := rule + ":expr.Parse"
	parse := c.ExprS.Func("Parse")
	if parse == nil {
		r.Inconclusive(key, "expr.Parse not found")
		return false
	}
	thorough := r.Tier == "thorough"
	ip := newInterp(c)
	ip.MaxSteps = 60000000
	ip.MaxDepth = 400
	ip.InitFull = true
	ip.Recover = true
	ip.Inline = []string{"github.com/antlr4-go/antlr", "container/list", "golang.org/x/exp/"}
	for _, pk := range c.Prog.AllPackages() {
		if strings.HasPrefix(pk.Pkg.Path(), "github.com/antlr4-go/antlr") {
			ip.initPackage(pk)
		}
	}
	ip.initPackage(c.ExprS)
	type outcome struct {
		m      map[string]string
		err    bool
		errLen int    // length of the error text, where the model could compute it
		what   string // "" | "ood: …" | "run-time panic: …"
	}
	run := func(in string) outcome {
		ip.Steps = 0
		res, err := ip.Run(parse, []AV{kStr(in)}, nil)
		if err != nil {
			if _, isOOD := err.(oodError); isOOD {
				return outcome{what: "ood: " + err.Error()}
			}
			return outcome{what: err.Error()}
		}
		tv, ok := res.(TupleV)
		if !ok || len(tv) != 2 {
			return outcome{what: "ood: result " + avString(res)}
		}
		o := outcome{err: !isNilAV(tv[1])}
		if iv, ok := tv[1].(*IfaceV); ok {
			if sym, ok := iv.V.(*Sym); ok {
				o.errLen = sym.N
			}
		}
		if mv, ok := tv[0].(*MapV); ok {
			o.m = map[string]string{}
			for _, k := range mv.Keys {
				ks, err := strconv.Unquote(k)
				if err != nil {
					return outcome{what: "ood: map key " + k}
				}
				v, ok := mv.M[k].(constant.Value)
				if !ok || v.Kind() != constant.String {
					return outcome{what: "ood: map value " + avString(mv.M[k])}
				}
				o.m[ks] = constant.StringVal(v)
			}
		} else if !isNilAV(tv[0]) {
			return outcome{what: "ood: map result " + avString(tv[0])}
		}
		return o
	}
	var bad []string
	nBad := 0
	fail := func(format string, args ...any) {
		nBad++
		if len(bad) < 5 {
			bad = append(bad, fmt.Sprintf(format, args...))
		}
	}
	show := func(m map[string]string) string {
		var ks []string
		for k := range m {
			ks = append(ks, k)
		}
		sort.Strings(ks)
		var b strings.Builder
		for _, k := range ks {
			fmt.Fprintf(&b, "%q:%q ", k, m[k])
		}
		return "{" + strings.TrimSpace(b.String()) + "}"
	}
	nGood, nMal := 0, 0
	// empty input
	for _, in := range []string{"", " ", "\t\r\n "} {
		o := run(in)
		if strings.HasPrefix(o.what, "ood") {
			r.Inconclusive(key, "%s", o.what)
			return false
		}
		if o.what != "" || o.m != nil || o.err {
			fail("Parse(%q) = (%s, error=%v) %s, want (nil, nil)", in, show(o.m), o.err, o.what)
		}
	}
	corpus := exprCorpus(thorough)
	for _, e := range corpus {
		want := map[string]string{}
		e.flatten("", want)
		for style := 0; style < 4; style++ {
			in := e.render(style % 3)
			if style == 3 {
				in = " \n\t" + e.render(1) + "\r\n  "
			}
			if !refAccepts(in) {
				r.Inconclusive(key, "the checker's recogniser rejects its own rendering %q", in)
				return false
			}
			nGood++
			o := run(in)
			if strings.HasPrefix(o.what, "ood") {
				r.Inconclusive(key, "%s (input %q)", o.what, in)
				return false
			}
			switch {
			case o.what != "":
				fail("Parse(%q): %s", in, o.what)
			case o.err || o.m == nil:
				fail("Parse(%q) returns an error for a well-formed expression", in)
			default:
				same := len(o.m) == len(want)
				for k, v := range want {
					if gv, ok := o.m[k]; !ok || gv != v {
						same = false
					}
				}
				if !same {
					fail("Parse(%q) = %s, want %s", in, show(o.m), show(want))
				}
			}
		}
	}
	for _, in := range exprMalformed(thorough) {
		if strings.TrimSpace(in) == "" || refAccepts(in) {
			continue
		}
		nMal++
		o := run(in)
		if strings.HasPrefix(o.what, "ood") {
			r.Inconclusive(key, "%s (input %q)", o.what, in)
			return false
		}
		switch {
		case o.what != "":
			fail("Parse(%q): %s", in, o.what)
		case !o.err || o.m != nil:
			fail("Parse(%q) = (%s, error=%v) for a malformed expression, want (nil, error)", in, show(o.m), o.err)
		}
	}
	// history independence: after inputs whose tree walk fails deep inside nested expressions, well-formed nested
	// expressions still parse to the same map
	nHist := 0
	if len(bad) == 0 {
		for i := 0; i < 40; i++ {
			for _, in := range []string{"A{a=B{b=C{c=D{d", "A{a=B{b=C{c=D{d=}}}}", "A{x=B{y=[1]}}"} {
				nHist++
				if o := run(in); strings.HasPrefix(o.what, "ood") {
					r.Inconclusive(key, "%s (input %q)", o.what, in)
					return false
				} else if o.what != "" || !o.err || o.m != nil {
					fail("Parse(%q) (repetition %d) = (%s, error=%v) %s, want (nil, error)", in, i, show(o.m), o.err, o.what)
				}
			}
		}
		// … and right after each single malformed input (a state poisoned by one failure and healed by the next call
		// would go unnoticed above)
		if nBad == 0 {
			probe := corpus[len(corpus)/2]
			for _, e := range corpus {
				for _, f := range e.fields {
					if f.sub != nil {
						probe = e
					}
				}
			}
			pw := map[string]string{}
			probe.flatten("", pw)
			pin := probe.render(1)
			for _, m := range append([]string{"}", `= "x"`, "1024", "A{a=B{b=C{c=D{d"}, exprMalformed(false)...) {
				if strings.TrimSpace(m) == "" || refAccepts(m) {
					continue
				}
				nHist += 2
				if o := run(m); strings.HasPrefix(o.what, "ood") {
					r.Inconclusive(key, "%s (input %q)", o.what, m)
					return false
				}
				o := run(pin)
				if strings.HasPrefix(o.what, "ood") {
					r.Inconclusive(key, "%s (input %q)", o.what, pin)
					return false
				}
				same := o.what == "" && !o.err && len(o.m) == len(pw)
				for k, v := range pw {
					if gv, ok := o.m[k]; !ok || gv != v {
						same = false
					}
				}
				if !same {
					fail("right after the malformed input %q, Parse(%q) = (%s, error=%v) %s, want %s", m, pin, show(o.m), o.err, o.what, show(pw))
					break
				}
			}
		}
		for _, e := range corpus {
			if len(e.fields) == 0 || nBad > 0 {
				continue
			}
			nested := false
			for _, f := range e.fields {
				nested = nested || f.sub != nil
			}
			if !nested {
				continue
			}
			want := map[string]string{}
			e.flatten("", want)
			in := e.render(1)
			nHist++
			o := run(in)
			if strings.HasPrefix(o.what, "ood") {
				r.Inconclusive(key, "%s (input %q)", o.what, in)
				return false
			}
			same := o.what == "" && !o.err && len(o.m) == len(want)
			for k, v := range want {
				if gv, ok := o.m[k]; !ok || gv != v {
					same = false
				}
			}
			if !same {
				fail("after 120 malformed inputs that fail inside nested expressions, Parse(%q) = (%s, error=%v) %s, want %s as before", in, show(o.m), o.err, o.what, show(want))
			}
		}
	}
	// resources: an input of n characters the lexer rejects one by one must not cost more than linearly in n — measured on
	// the text of the returned error, which (quoting the input once per recorded error and wrapping the errors before it)
	// is where a quadratic or cubic blow-up shows: 64 KiB of such input would otherwise not finish
	if nBad == 0 {
		lens := map[int]int{}
		for _, n := range []int{50, 100, 200} {
			o := run("T{a=" + strings.Repeat("@", n) + "}")
			if strings.HasPrefix(o.what, "ood") {
				r.Inconclusive(key, "%s (input of %d rejected characters)", o.what, n)
				return false
			}
			if o.what != "" || !o.err || o.m != nil {
				fail("Parse of %d rejected characters = (%s, error=%v) %s, want (nil, error)", n, show(o.m), o.err, o.what)
			}
			lens[n] = o.errLen
		}
		if lens[100] > 0 && lens[200] > 0 && lens[200] > 3*lens[100] {
			fail("the error text for 50 / 100 / 200 rejected characters is %d / %d / %d bytes long: it grows faster than the input (every error quotes the whole input and wraps the errors before it), so time and memory are at least quadratic in the input size and a 64 KiB input does not finish", lens[50], lens[100], lens[200])
		}
		r.Count("expr_error_text_bytes_200", lens[200])
	}
	r.Count("expr_history_evaluations", nHist)
	r.Count("expr_evaluations", nGood+nMal+3)
	if len(bad) > 0 {
		r.Fail(key, c.pos(parse.Pos()), "%d of %d evaluated inputs disagree with the statement, e.g. %s", nBad, nGood+nMal+3, strings.Join(bad, "; "))
		return false
	}
	okAll = true
	r.OK(key, "Parse evaluated through the generated lexer/parser and the ANTLR runtime on %d well-formed inputs (%d expressions × 4 spacings: none, single spaces, tabs/newlines/CRLF between all tokens incl. inside field paths, surrounding whitespace; every literal kind and escape, raw control characters and non-ASCII in strings (also beside escapes), dotted/indexed paths, duplicates, a field named type, empty bodies, trailing commas, nesting to depth 6) — each result equals the reference flattening; %d malformed inputs each give (nil, error); empty input gives (nil, nil); no panic leaves Parse", nGood, len(corpus), nMal)
	return true
}
