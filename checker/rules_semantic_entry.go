package main

// Entry-point evaluation (P13): every logging entry point is evaluated, through whatever helpers it uses, in each
// class of the environment that its code can distinguish — serving logger bound/unbound, its range containing the
// entry point's level or ending just below / starting just above it, hooks set/unset, caller look-up off/default/
// fast, a recycled event. The serving logger, the hooks, the lazy generator, the field constructors, the event pool
// and the runtime's frame look-up are models; everything else is the module's own SSA.
//
// Decided clauses: C01.entry (emits at exactly its own level, gated by the serving logger's range), C10.gated /
// C10.once / C10.record / C10.lazy-result (hooks, clock and lazy generator run exactly once iff emitted, with the
// caller's context, and their results are what the event carries), C11.default / C11.fast / C11.same / C11.disabled
// (the reported frame is the caller of the entry point in both modes; empty when disabled), C03.reset for the
// recorder (a recycled event carries nothing of the previous record).

import (
	"fmt"
	"go/constant"
	"go/types"
	"sort"
	"strings"

	"golang.org/x/tools/go/ssa"
)

type entryCfg struct {
	bound        bool // the tag is bound to a configured logger (else the built-in logger serves it)
	rangeLo      int64
	rangeHi      int64
	hooks        bool
	hookMask     int // when non-zero: bit i set = i-th hook variable (sorted by name) is set; overrides hooks
	enableCaller bool
	fastCaller   bool
	skip         int64    // for entry points with a skip parameter
	sites        []string // consecutive calls from these call sites (default: one call from USER)
	level        levelInfo
}

type entryObs struct {
	appends  []string // logger names, in order
	events   []*StructV
	evPtrs   []*Ptr
	calls    map[string]int
	ctxArgs  map[string][]string
	trace    []string
	lazyRet  AV
	userArgs AV // the ...Field slice handed to the entry point, if any
	err      error
}

type entryWorld struct {
	c         *Ctx
	ro        *Roles
	ll        *levelLayout
	lg        map[*ssa.Global]levelInfo
	fieldT    *types.Named
	eventT    *types.Named
	tagT      *types.Named
	loggerI   *types.Named
	boolGlobs []*ssa.Global
	poolGlobs map[*ssa.Global]*ssa.Function
	hookGlobs []*ssa.Global
	putEvent  *ssa.Function
	evIdx     map[string]int
}

func (c *Ctx) newEntryWorld(ro *Roles) (*entryWorld, string) {
	w := &entryWorld{c: c, ro: ro, poolGlobs: map[*ssa.Global]*ssa.Function{}, evIdx: map[string]int{}}
	var why string
	w.ll, why = c.levelLayout(ro)
	if w.ll == nil {
		return nil, why
	}
	w.lg = c.levelGlobals()
	w.fieldT, w.eventT, w.tagT, w.loggerI = c.logType("Field"), c.logType("Event"), c.logType("Tag"), c.logType("Logger")
	if w.fieldT == nil || w.eventT == nil || w.tagT == nil || w.loggerI == nil {
		return nil, "Field / Event / Tag / Logger type not found"
	}
	w.putEvent = c.logFunc("PutEvent")
	es := w.eventT.Underlying().(*types.Struct)
	for i := 0; i < es.NumFields(); i++ {
		w.evIdx[es.Field(i).Name()] = i
	}
	for _, m := range c.LogS.Members {
		g, ok := m.(*ssa.Global)
		if !ok {
			continue
		}
		et := g.Type().(*types.Pointer).Elem()
		if b, ok := et.Underlying().(*types.Basic); ok && b.Kind() == types.Bool {
			w.boolGlobs = append(w.boolGlobs, g)
		}
		if isNamed(et, "sync", "Pool") {
			w.poolGlobs[g] = nil
		}
		if sig, ok := et.Underlying().(*types.Signature); ok && sig.Params().Len() == 1 && isContext(sig.Params().At(0).Type()) && g.Object() != nil && g.Object().Exported() {
			w.hookGlobs = append(w.hookGlobs, g)
		}
	}
	// sync.Pool{New: f} initialisers: either a store into a field of the global, or a composite literal built in a
	// local and copied into the global
	if ini := c.LogS.Func("init"); ini != nil {
		fnOf := func(v ssa.Value) *ssa.Function {
			switch f := v.(type) {
			case *ssa.Function:
				return f
			case *ssa.MakeClosure:
				fn, _ := f.Fn.(*ssa.Function)
				return fn
			case *ssa.ChangeType:
				fn, _ := f.X.(*ssa.Function)
				return fn
			}
			return nil
		}
		eachInstr(ini, func(in ssa.Instruction) {
			st, ok := in.(*ssa.Store)
			if !ok {
				return
			}
			if fa, ok := st.Addr.(*ssa.FieldAddr); ok {
				if g, ok := fa.X.(*ssa.Global); ok {
					if _, isPool := w.poolGlobs[g]; isPool {
						if fn := fnOf(st.Val); fn != nil {
							w.poolGlobs[g] = fn
						}
					}
				}
				return
			}
			g, ok := st.Addr.(*ssa.Global)
			if !ok {
				return
			}
			if _, isPool := w.poolGlobs[g]; !isPool {
				return
			}
			if ld, ok := st.Val.(*ssa.UnOp); ok {
				if al, ok := ld.X.(*ssa.Alloc); ok && al.Referrers() != nil {
					for _, rr := range *al.Referrers() {
						if fa, ok := rr.(*ssa.FieldAddr); ok {
							for _, s2 := range storesTo(fa) {
								if fn := fnOf(s2.Val); fn != nil {
									w.poolGlobs[g] = fn
								}
							}
						}
					}
				}
			}
		})
	}
	sort.Slice(w.hookGlobs, func(i, j int) bool { return w.hookGlobs[i].Name() < w.hookGlobs[j].Name() })
	return w, ""
}

// run evaluates entry point E once under cfg. If prev is non-nil, the event pool first holds the event of an earlier
// record that went through PutEvent (a recycled event).
func (w *entryWorld) run(E *ssa.Function, cfg entryCfg, recycle bool) *entryObs {
	c := w.c
	obs := &entryObs{calls: map[string]int{}, ctxArgs: map[string][]string{}}
	ip := newInterp(c)
	ip.UserFrames = []string{"USER"}
	for i := 1; i < 80; i++ {
		ip.UserFrames = append(ip.UserFrames, fmt.Sprintf("USER-CALLER-%d", i))
	}
	for g, li := range w.lg {
		ip.Globals[g] = ip.newObj(w.ll.level(ip, li.code, li.name))
	}
	for _, g := range w.boolGlobs {
		v := cfg.fastCaller
		if g == c.names().EnableCaller {
			v = cfg.enableCaller
		}
		ip.Globals[g] = ip.newObj(kBool(v))
	}
	for i, g := range w.hookGlobs {
		set := cfg.hooks
		if cfg.hookMask != 0 {
			set = cfg.hookMask&(1<<i) != 0
		}
		if set {
			ip.Globals[g] = ip.newObj(&ExtFn{Name: "hook:" + g.Name()})
		} else {
			ip.Globals[g] = ip.newObj(NilV{})
		}
	}
	loggerT := types.NewPointer(w.ro.Loggers[0])
	mkLogger := func(name string) AV { return &IfaceV{T: loggerT, V: &Sym{Name: name}} }
	if dg := c.names().DefaultLogger; dg != nil {
		ip.Globals[dg] = ip.newObj(mkLogger("builtin"))
	}
	for g, nf := range w.poolGlobs {
		o := ip.newObj(&StructV{})
		ip.Globals[g] = o
		ip.PoolNew[o] = nf
	}
	for _, m := range c.LogS.Members {
		if g, ok := m.(*ssa.Global); ok {
			if _, set := ip.Globals[g]; !set && isNamed(g.Type().(*types.Pointer).Elem(), "sync", "Map") {
				ip.Globals[g] = ip.newObj(&StructV{})
			}
		}
	}
	ctx := &IfaceV{T: types.NewPointer(w.tagT), V: &Sym{Name: "ctx"}}
	ip.OnInvoke = func(ip *Interp, recv *Sym, method string, args []AV) (AV, bool) {
		switch method {
		case "GetLevel":
			obs.calls["GetLevel:"+recv.Name]++
			rg := ip.zeroOf(w.ll.rangeT).(*StructV)
			rg.F[w.ll.minIdx] = w.ll.level(ip, cfg.rangeLo, fmt.Sprintf("L%d", cfg.rangeLo))
			rg.F[w.ll.maxIdx] = w.ll.level(ip, cfg.rangeHi, fmt.Sprintf("L%d", cfg.rangeHi))
			return rg, true
		case "Append":
			obs.appends = append(obs.appends, recv.Name)
			if p, ok := args[0].(*Ptr); ok {
				if ev, ok := p.load().(*StructV); ok {
					obs.events = append(obs.events, ev)
					obs.evPtrs = append(obs.evPtrs, p)
				}
			}
			obs.trace = append(obs.trace, "Append:"+recv.Name)
			return TupleV{}, true
		case "GetName":
			return kStr(recv.Name), true
		case "GetTags":
			return kStr(""), true
		}
		return nil, false
	}
	ip.OnExt = func(ip *Interp, name string, args []AV) AV {
		obs.calls[name]++
		obs.trace = append(obs.trace, name)
		var as []string
		for _, a := range args {
			as = append(as, avString(a))
		}
		obs.ctxArgs[name] = append(obs.ctxArgs[name], strings.Join(as, ","))
		switch {
		case name == "lazy":
			obs.lazyRet = ip.mkSlice([]AV{&Sym{Name: "lazyfield1"}, &Sym{Name: "lazyfield2"}})
			return obs.lazyRet
		case strings.HasPrefix(name, "hook:"):
			g := c.logGlobal(strings.TrimPrefix(name, "hook:"))
			res := g.Type().(*types.Pointer).Elem().Underlying().(*types.Signature).Results().At(0).Type()
			// a hook may read mutable state: every invocation after the first returns a value of its own
			val := "value-of-" + name
			if n := obs.calls[name]; n > 1 {
				val = fmt.Sprintf("%s#%d", val, n)
			}
			switch {
			case isStringType(res):
				return kStr(val)
			case isNamed(res, "time", "Time"):
				return &Sym{Name: val}
			default:
				return ip.mkSlice([]AV{&Sym{Name: val}})
			}
		}
		ood("external %s", name)
		return nil
	}
	// field constructors are opaque: a function of the module whose only result is a Field
	ip.Ext = func(ip *Interp, callee *ssa.Function, args []AV) (AV, bool) {
		if callee.Pkg == c.LogS && callee.Signature.Recv() == nil && callee.Signature.Results().Len() == 1 &&
			types.Identical(callee.Signature.Results().At(0).Type(), w.fieldT) {
			obs.calls["field:"+callee.Name()]++
			obs.trace = append(obs.trace, "field:"+callee.Name())
			var as []string
			for _, a := range args {
				as = append(as, avString(a))
			}
			return &Sym{Name: "field:" + callee.Name() + "(" + strings.Join(as, ",") + ")"}, true
		}
		return nil, false
	}
	// the tag
	tag := ip.zeroOf(w.tagT).(*StructV)
	ts := w.tagT.Underlying().(*types.Struct)
	for i := 0; i < ts.NumFields(); i++ {
		switch {
		case isStringType(ts.Field(i).Type()):
			tag.F[i] = kStr("the_tag")
		case types.Identical(ts.Field(i).Type(), w.loggerI) && cfg.bound:
			tag.F[i] = mkLogger("configured")
		}
	}
	tagPtr := &Ptr{O: ip.newObj(tag)}
	if recycle {
		// an event that carried an earlier record and went back to the pool the way appenders return it
		for g := range w.poolGlobs {
			o := ip.Globals[g]
			if nf := ip.PoolNew[o]; nf != nil && nf.Signature.Results().Len() == 1 {
				if _, err := ip.Run(nf, nil, nil); err == nil {
					v, _ := ip.Run(nf, nil, nil)
					if iv, ok := v.(*IfaceV); ok {
						if p, ok := iv.V.(*Ptr); ok {
							if ev, ok := p.O.V.(*StructV); ok && types.Identical(iv.T, types.NewPointer(w.eventT)) {
								for name, i := range w.evIdx {
									switch name {
									case "File", "Tag", "CtxString":
										ev.F[i] = kStr("STALE-" + name)
									case "Line":
										ev.F[i] = kInt(4242)
									case "Fields", "CtxFields":
										ev.F[i] = ip.mkSlice([]AV{&Sym{Name: "STALE-" + name}})
									case "Time":
										ev.F[i] = &Sym{Name: "STALE-Time"}
									case "Level":
										ev.F[i] = w.ll.level(ip, 777, "STALE")
									}
								}
								if w.putEvent != nil {
									if _, err := ip.Run(w.putEvent, []AV{p}, nil); err != nil {
										obs.err = err
										return obs
									}
								}
							}
						}
					}
				}
			}
		}
		ip.Trace = nil
	}
	var args []AV
	for _, p := range E.Params {
		t := p.Type()
		switch {
		case isContext(t):
			args = append(args, ctx)
		case types.Identical(t, types.NewPointer(w.tagT)):
			args = append(args, tagPtr)
		case types.Identical(t, w.ll.levelT):
			args = append(args, w.ll.level(ip, cfg.level.code, cfg.level.name))
		case isStringType(t):
			args = append(args, kStr("format %d"))
		default:
			switch u := t.Underlying().(type) {
			case *types.Basic:
				if u.Info()&types.IsInteger != 0 {
					args = append(args, kInt(cfg.skip))
					continue
				}
			case *types.Signature:
				args = append(args, &ExtFn{Name: "lazy"})
				continue
			case *types.Slice:
				if types.Identical(u.Elem(), w.fieldT) {
					obs.userArgs = ip.mkSlice([]AV{&Sym{Name: "userfield1"}, &Sym{Name: "userfield2"}})
					args = append(args, obs.userArgs)
				} else {
					args = append(args, ip.mkSlice([]AV{&IfaceV{T: types.Typ[types.Int], V: kInt(7)}}))
				}
				continue
			}
			args = append(args, nil)
		}
	}
	sites := cfg.sites
	if len(sites) == 0 {
		sites = []string{"USER"}
	}
	for _, site := range sites {
		ip.UserFrames[0] = site
		if _, obs.err = ip.Run(E, args, nil); obs.err != nil {
			break
		}
		// the appender is done with the event: it goes back to the pool
		if len(sites) > 1 && w.putEvent != nil && len(obs.evPtrs) > 0 {
			if _, err := ip.Run(w.putEvent, []AV{obs.evPtrs[len(obs.evPtrs)-1]}, nil); err != nil {
				obs.err = err
				break
			}
		}
	}
	obs.trace = append(obs.trace, ip.Trace...)
	for _, t := range ip.Trace {
		obs.calls[strings.SplitN(t, "→", 2)[0]]++
	}
	return obs
}

func (w *entryWorld) evField(ev *StructV, name string) AV {
	i, ok := w.evIdx[name]
	if !ok {
		return nil
	}
	return ev.F[i]
}

func isZeroAV(v AV) bool {
	switch x := v.(type) {
	case nil:
		return true
	case NilV:
		return true
	case constant.Value:
		switch x.Kind() {
		case constant.String:
			return constant.StringVal(x) == ""
		case constant.Int:
			return constant.Sign(x) == 0
		case constant.Bool:
			return !constant.BoolVal(x)
		}
	case *SliceV:
		return x.Hi-x.Lo == 0
	case *StructV:
		for _, f := range x.F {
			if !isZeroAV(f) {
				return false
			}
		}
		return true
	}
	return false
}

func sliceSyms(v AV) string {
	sv, ok := v.(*SliceV)
	if !ok {
		if _, isNil := v.(NilV); isNil {
			return "[]"
		}
		return avString(v)
	}
	var ss []string
	for _, e := range sv.elems() {
		ss = append(ss, avString(e))
	}
	return "[" + strings.Join(ss, " ") + "]"
}

// checkEntrySemantics evaluates every entry point; it returns, per entry point name, whether the evaluation was
// conclusive and positive.
func (c *Ctx) checkEntrySemantics(r *Report, ro *Roles, rule string) map[string]bool {
	res := map[string]bool{}
	w, why := c.newEntryWorld(ro)
	if w == nil {
		r.Inconclusive(rule+":world", "%s", why)
		return res
	}
	if len(ro.Loggers) == 0 {
		return res
	}
	byName := map[string]levelInfo{}
	for g, li := range w.lg {
		byName[g.Name()] = li
	}
	// skip values: small ones, and the neighbourhood of every small integer constant in the code below the recorder
	// (a fixed window or a cut-off there would show up at exactly those depths)
	skipSet := map[int64]bool{2: true, 3: true}
	if ro.Recorder != nil {
		for f := range c.reach(ro.Recorder) {
			if ro.HotPath[f] && f != ro.Recorder && !strings.Contains(fname(f), "aller") {
				continue
			}
			eachInstr(f, func(in ssa.Instruction) {
				var ops []*ssa.Value
				for _, op := range in.Operands(ops) {
					if op == nil || *op == nil {
						continue
					}
					if k, ok := (*op).(*ssa.Const); ok && k.Value != nil && k.Value.Kind() == constant.Int {
						if v, exact := constant.Int64Val(k.Value); exact && v >= 2 && v <= 64 {
							for d := int64(-2); d <= 2; d++ {
								if v+d >= 2 && v+d < 70 {
									skipSet[v+d] = true
								}
							}
						}
					}
					if al, ok := (*op).(*ssa.Alloc); ok {
						if at, ok := al.Type().(*types.Pointer).Elem().Underlying().(*types.Array); ok && at.Len() >= 2 && at.Len() <= 64 {
							for d := int64(-2); d <= 2; d++ {
								skipSet[at.Len()+d] = true
							}
						}
					}
				}
			})
		}
	}
	var skips []int64
	for k := range skipSet {
		skips = append(skips, k)
	}
	sort.Slice(skips, func(i, j int) bool { return skips[i] < skips[j] })
	runs := 0
	for _, E := range ro.EntryPoints {
		key := rule + ":" + fname(E)
		var lvl levelInfo
		hasLevelParam, hasSkip, lazy, formatted := false, false, false, false
		for _, p := range E.Params {
			switch u := p.Type().Underlying().(type) {
			case *types.Signature:
				lazy = true
			case *types.Basic:
				if u.Info()&types.IsInteger != 0 {
					hasSkip = true
				}
				if u.Info()&types.IsString != 0 {
					formatted = true
				}
			}
			if types.Identical(p.Type(), w.ll.levelT) {
				hasLevelParam = true
			}
		}
		if g, ok := apiLevel[E.Name()]; ok {
			lvl, ok = byName[g]
			if !ok {
				r.Inconclusive(key, "level variable %s has no constant initialiser", g)
				continue
			}
		} else if hasLevelParam {
			lvl = levelInfo{350, "CUSTOM"}
		} else {
			r.Inconclusive(key, "entry point outside the documented API without a level parameter: its level is not specified")
			continue
		}
		var bad []string
		var oodWhy string
		fail := func(format string, args ...any) {
			if len(bad) < 4 {
				bad = append(bad, fmt.Sprintf(format, args...))
			}
		}
		base := entryCfg{bound: true, rangeLo: lvl.code, rangeHi: lvl.code + 1, hooks: true, enableCaller: true, skip: 1, level: lvl}
		type scenario struct {
			name    string
			cfg     entryCfg
			recycle bool
			emitted bool
		}
		var scs []scenario
		add := func(name string, emitted bool, mod func(*entryCfg)) {
			cfg := base
			mod(&cfg)
			scs = append(scs, scenario{name, cfg, false, emitted})
		}
		add("range [L,L+1), hooks set, default caller look-up", true, func(e *entryCfg) {})
		add("range [L,L+1), hooks unset", true, func(e *entryCfg) { e.hooks = false })
		add("range [L,L+1), fast caller look-up", true, func(e *entryCfg) { e.fastCaller = true })
		add("range [L,L+1), caller look-up disabled", true, func(e *entryCfg) { e.enableCaller = false })
		add("range [L,L+1), tag not bound (built-in logger)", true, func(e *entryCfg) { e.bound = false })
		add("range [L+1,L+2): level below the range", false, func(e *entryCfg) { e.rangeLo, e.rangeHi = lvl.code+1, lvl.code+2 })
		add("range [L-1,L): level at the exclusive upper bound", false, func(e *entryCfg) { e.rangeLo, e.rangeHi = lvl.code-1, lvl.code })
		add("range [L+1,L+2), tag not bound", false, func(e *entryCfg) { e.rangeLo, e.rangeHi, e.bound = lvl.code+1, lvl.code+2, false })
		for m := 1; m < 1<<len(w.hookGlobs)-1; m++ {
			m := m
			add(fmt.Sprintf("range [L,L+1), hooks set: mask %03b of %d", m, len(w.hookGlobs)), true, func(e *entryCfg) { e.hookMask = m })
		}
		if hasSkip {
			for _, k := range skips {
				k := k
				add(fmt.Sprintf("skip=%d", k), true, func(e *entryCfg) { e.skip = k })
				add(fmt.Sprintf("skip=%d, fast caller look-up", k), true, func(e *entryCfg) { e.skip, e.fastCaller = k, true })
			}
		}
		for _, fast := range []bool{false, true} {
			fast := fast
			mode := map[bool]string{false: "default", true: "fast"}[fast]
			scs = append(scs, scenario{"calls from sites A, B, A, B in " + mode + " look-up mode", func() entryCfg {
				e := base
				e.fastCaller, e.sites = fast, []string{"SITE-A", "SITE-B", "SITE-A", "SITE-B"}
				return e
			}(), false, true})
		}
		scs = append(scs, scenario{"recycled event, hooks unset, caller look-up disabled", func() entryCfg { e := base; e.hooks, e.enableCaller = false, false; return e }(), true, true})
		for _, sc := range scs {
			o := w.run(E, sc.cfg, sc.recycle)
			runs++
			if o.err != nil {
				if _, isOOD := o.err.(oodError); isOOD {
					oodWhy = o.err.Error()
					break
				}
				fail("%s: %v", sc.name, o.err)
				continue
			}
			hookN := 0
			for k, n := range o.calls {
				if strings.HasPrefix(k, "hook:") {
					hookN += n
				}
			}
			if !sc.emitted {
				if len(o.appends) != 0 {
					fail("%s: an event is emitted although the serving logger's range does not contain %s", sc.name, lvl.name)
				}
				if hookN != 0 || o.calls["lazy"] != 0 || o.calls["time.Now"] != 0 || o.calls["fmt.Sprintf"] != 0 || o.calls["field:Msgf"] != 0 {
					fail("%s: work is done for a disabled level (hooks %d, lazy generator %d, clock %d, message formatting %d)", sc.name, hookN, o.calls["lazy"], o.calls["time.Now"], o.calls["fmt.Sprintf"]+o.calls["field:Msgf"])
				}
				continue
			}
			if len(sc.cfg.sites) > 1 {
				// repeated calls (cache hits of the fast look-up, recycled events): each record names its own site
				if len(o.events) != len(sc.cfg.sites) {
					fail("%s: %d events for %d calls", sc.name, len(o.events), len(sc.cfg.sites))
					continue
				}
				for i, ev := range o.events {
					// every record carries the results of its own hook invocations (same context throughout)
					for hi, g := range w.hookGlobs {
						set := sc.cfg.hooks
						if sc.cfg.hookMask != 0 {
							set = sc.cfg.hookMask&(1<<hi) != 0
						}
						if !set {
							continue
						}
						res := g.Type().(*types.Pointer).Elem().Underlying().(*types.Signature).Results().At(0).Type()
						field := "CtxFields"
						switch {
						case isNamed(res, "time", "Time"):
							field = "Time"
						case isStringType(res):
							field = "CtxString"
						}
						wantV := "value-of-hook:" + g.Name()
						if i > 0 {
							wantV = fmt.Sprintf("%s#%d", wantV, i+1)
						}
						gs := avString(w.evField(ev, field))
						if field == "CtxFields" {
							gs = sliceSyms(w.evField(ev, field))
						}
						if strings.Trim(strings.TrimPrefix(gs, "sym:"), `"[] `) != wantV && !strings.HasSuffix(strings.Trim(gs, `"[] `), wantV) {
							fail("%s: call %d of %d with the same context: Event.%s is %s, want the result of this call's own invocation of hook %s (%s)", sc.name, i+1, len(o.events), field, gs, g.Name(), wantV)
						}
					}
					if n := o.calls["hook:"+w.hookGlobs[0].Name()]; sc.cfg.hooks && sc.cfg.hookMask == 0 && n != len(o.events) && i == 0 {
						fail("%s: %d calls with the same context invoke hook %s %d times (want once per emitted event)", sc.name, len(o.events), w.hookGlobs[0].Name(), n)
					}
					want := fmt.Sprintf("%q", "frame:"+sc.cfg.sites[i])
					if hasSkip && sc.cfg.skip > 1 {
						continue
					}
					if got := avString(w.evField(ev, "File")); got != want {
						fail("%s: call %d (from %s) is reported as %s", sc.name, i+1, sc.cfg.sites[i], got)
					}
				}
				continue
			}
			wantLogger := "configured"
			if !sc.cfg.bound {
				wantLogger = "builtin"
			}
			if len(o.appends) != 1 || o.appends[0] != wantLogger {
				fail("%s: want exactly one event handed to the %s logger, got %v", sc.name, wantLogger, o.appends)
				continue
			}
			if len(o.events) != 1 {
				fail("%s: the published event could not be read", sc.name)
				continue
			}
			ev := o.events[0]
			if lv, ok := w.evField(ev, "Level").(*StructV); !ok || avInt(lv.F[w.ll.codeIdx]) != lvl.code {
				fail("%s: the event's level is %s, the entry point's own level is %s(%d)", sc.name, avString(w.evField(ev, "Level")), lvl.name, lvl.code)
			}
			if t := w.evField(ev, "Tag"); avString(t) != `"the_tag"` {
				fail("%s: the event's tag is %s, not the tag's name", sc.name, avString(t))
			}
			// hooks: each one that is set runs exactly once with the caller's context and its result is in the event;
			// each one that is not set is not called and leaves its part of the event empty (the clock for the time)
			for i, g := range w.hookGlobs {
				set := sc.cfg.hooks
				if sc.cfg.hookMask != 0 {
					set = sc.cfg.hookMask&(1<<i) != 0
				}
				n := o.calls["hook:"+g.Name()]
				res := g.Type().(*types.Pointer).Elem().Underlying().(*types.Signature).Results().At(0).Type()
				var field string
				switch {
				case isNamed(res, "time", "Time"):
					field = "Time"
				case isStringType(res):
					field = "CtxString"
				default:
					field = "CtxFields"
				}
				got := w.evField(ev, field)
				if set {
					if n != 1 {
						fail("%s: hook %s is invoked %d times per emitted event (want once)", sc.name, g.Name(), n)
					}
					for _, a := range o.ctxArgs["hook:"+g.Name()] {
						if !strings.Contains(a, "sym:ctx") {
							fail("%s: hook %s is invoked with %s instead of the caller's context", sc.name, g.Name(), a)
						}
					}
					gs := avString(got)
					if field == "CtxFields" {
						gs = sliceSyms(got)
					}
					if !strings.Contains(gs, "value-of-hook:"+g.Name()) || strings.Count(gs, "value-of-hook:") != 1 {
						fail("%s: Event.%s is %s, not the result of hook %s", sc.name, field, gs, g.Name())
					}
				} else {
					if n != 0 {
						fail("%s: hook %s is not set but invoked", sc.name, g.Name())
					}
					if field == "Time" {
						if o.calls["time.Now"] < 1 || avString(got) != "sym:time.Now" {
							fail("%s: Event.Time is %s, not the wall clock (no timestamp hook set)", sc.name, avString(got))
						}
					} else if !isZeroAV(got) {
						fail("%s: Event.%s is %s although hook %s is not set", sc.name, field, avString(got), g.Name())
					}
				}
			}
			_ = hookN
			// fields
			got := sliceSyms(w.evField(ev, "Fields"))
			switch {
			case lazy:
				if o.calls["lazy"] != 1 {
					fail("%s: the lazy generator is invoked %d times (want once)", sc.name, o.calls["lazy"])
				}
				if got != "[sym:lazyfield1 sym:lazyfield2]" {
					fail("%s: the event's fields are %s, not the generator's result", sc.name, got)
				}
			case formatted:
				if !strings.HasPrefix(got, "[sym:field:") || strings.Count(got, "sym:") != 1 {
					fail("%s: the event's fields are %s, want the one formatted message field", sc.name, got)
				}
			default:
				if got != "[sym:userfield1 sym:userfield2]" {
					fail("%s: the event's fields are %s, not the caller's fields in order", sc.name, got)
				}
			}
			// location
			file, line := w.evField(ev, "File"), w.evField(ev, "Line")
			wantFrame := "frame:USER"
			if hasSkip && sc.cfg.skip > 1 {
				wantFrame = fmt.Sprintf("frame:USER-CALLER-%d", sc.cfg.skip-1)
			}
			if sc.cfg.enableCaller {
				if avString(file) != fmt.Sprintf("%q", wantFrame) {
					mode := "default"
					if sc.cfg.fastCaller {
						mode = "fast"
					}
					fail("%s: the %s look-up reports %s, want the frame of the statement that called the entry point (%s)", sc.name, mode, avString(file), wantFrame)
				}
			} else if !isZeroAV(file) || !isZeroAV(line) {
				fail("%s: the event carries location %s:%s although caller look-up is disabled", sc.name, avString(file), avString(line))
			}
		}
		switch {
		case oodWhy != "":
			r.Inconclusive(key, "%s", oodWhy)
		case len(bad) > 0:
			r.Fail(key, c.pos(E.Pos()), "%s", strings.Join(bad, "; "))
		default:
			res[E.Name()] = true
			r.OK(key, "%d environment classes evaluated through %s: emits at %s exactly when the serving logger's range contains it; hooks, clock, lazy generator and message formatting run once iff emitted, with the caller's context; the event carries their results, the caller's fields, the tag's name and the caller's frame in both look-up modes (nothing when disabled); a recycled event carries nothing stale", len(scs), fname(E), lvl.name)
		}
	}
	r.Count("entry_evaluations", runs)
	return res
}

// entryDecisions turns conclusive positive evaluations into decisions for the shape obligations of the same clauses.
func entryDecisions(r *Report, ro *Roles, ok map[string]bool, prop string) {
	all := len(ro.EntryPoints) > 0
	for _, E := range ro.EntryPoints {
		if !ok[E.Name()] {
			all = false
		}
	}
	perEntry := map[string][]string{
		"C01": {"C01.entry:"},
		"C10": {"C10.gated:", "C10.once:", "C10.lazy-result:"},
		"C11": {"C11.default:", "C11.fast:"},
	}[prop]
	for _, E := range ro.EntryPoints {
		if !ok[E.Name()] {
			continue
		}
		name := E.Name()
		r.Decide(perEntry, func(key string) bool {
			rest := key[strings.Index(key, ":")+1:]
			if i := strings.Index(rest, "→"); i >= 0 {
				rest = rest[:i]
			}
			if i := strings.Index(rest, "#"); i >= 0 {
				rest = rest[:i]
			}
			return rest == name
		}, "entry point "+name+" evaluated in every environment class")
	}
	if all {
		whole := map[string][]string{
			"C10": {"C10.record:", "C10.anchor:"},
			"C11": {"C11.same:", "C11.disabled:", "C11.anchor:", "C11.form:"},
		}[prop]
		if len(whole) > 0 {
			r.Decide(whole, nil, "all entry points evaluated in every environment class")
		}
	}
}

// levelList: the registered levels in ascending order of code.
func (w *entryWorld) levelList() []levelInfo {
	var out []levelInfo
	for _, li := range w.lg {
		out = append(out, li)
	}
	sort.Slice(out, func(i, j int) bool { return out[i].code < out[j].code })
	return out
}
