package main

// rules_config.go: C15 — configuration resolves as declared; bad configuration is an error, not a panic.

import (
	"fmt"
	"go/constant"
	"go/token"
	"go/types"
	"sort"
	"strconv"
	"strings"

	"golang.org/x/tools/go/ssa"
)

func init() { register("C15", checkC15) }

type pluginReg struct {
	Name string
	Typ  string
	T    *types.Named
	Pos  string
}

// camelKey mirrors the documented key normalisation (foo_bar-baz → fooBarBaz, segment-wise lower first letter).
func camelKey(key string) string {
	if key == "" {
		return ""
	}
	b := []byte(key)
	out := make([]byte, 0, len(b))
	c := b[0]
	if c >= 'A' && c <= 'Z' {
		c += 'a' - 'A'
	}
	out = append(out, c)
	lowerNext, upperNext := false, false
	for i := 1; i < len(b); i++ {
		c = b[i]
		if c == '.' {
			lowerNext = true
			out = append(out, c)
			continue
		} else if c == '-' || c == '_' {
			upperNext = true
			continue
		}
		if lowerNext {
			if c >= 'A' && c <= 'Z' {
				c += 'a' - 'A'
			}
			lowerNext = false
		} else if upperNext {
			if c >= 'a' && c <= 'z' {
				c -= 'a' - 'A'
			}
			upperNext = false
		}
		out = append(out, c)
	}
	return string(out)
}

func (c *Ctx) pluginRegistrations() []pluginReg {
	var out []pluginReg
	for _, f := range c.Funcs {
		eachInstr(f, func(in ssa.Instruction) {
			call, ok := in.(*ssa.Call)
			if !ok {
				return
			}
			s := call.Common().StaticCallee()
			if s == nil || s.Origin() == nil || s.Origin().Name() != "RegisterPlugin" || len(s.TypeArgs()) != 1 {
				return
			}
			nt, _ := s.TypeArgs()[0].(*types.Named)
			name, ok1 := constString(call.Call.Args[0])
			typ, ok2 := constString(call.Call.Args[1])
			if nt == nil || !ok1 || !ok2 {
				return
			}
			out = append(out, pluginReg{name, typ, nt, c.instrPos(in)})
		})
	}
	sort.Slice(out, func(i, j int) bool { return out[i].Typ+out[i].Name < out[j].Typ+out[j].Name })
	return out
}

func (c *Ctx) converterTypes() map[string]*ssa.Function {
	out := map[string]*ssa.Function{}
	for _, f := range c.Funcs {
		eachInstr(f, func(in ssa.Instruction) {
			call, ok := in.(*ssa.Call)
			if !ok {
				return
			}
			s := call.Common().StaticCallee()
			if s == nil || s.Origin() == nil || s.Origin().Name() != "RegisterConverter" || len(s.TypeArgs()) != 1 {
				return
			}
			var fn *ssa.Function
			switch a := call.Call.Args[0].(type) {
			case *ssa.Function:
				fn = a
			case *ssa.ChangeType:
				fn, _ = a.X.(*ssa.Function)
			case *ssa.MakeClosure:
				fn, _ = a.Fn.(*ssa.Function)
			}
			out[types.TypeString(s.TypeArgs()[0], nil)] = fn
		})
	}
	return out
}

// configFuncs: module functions of package log reachable from Refresh and NewPlugin without
// entering the log call path (Append/Write/ToBytes implementations, the worker, goroutine bodies).
func (c *Ctx) configFuncs() map[*ssa.Function]bool {
	ro := c.roles(newReport("tmp", "quick"))
	stop := map[*ssa.Function]bool{}
	for _, nt := range append(append(append([]*types.Named{}, ro.Loggers...), ro.LeafAppenders...), ro.AppenderRef) {
		if nt == nil {
			continue
		}
		for _, m := range []string{"Append", "Write"} {
			if f := c.method(nt, m); f != nil {
				stop[f] = true
			}
		}
	}
	for _, nt := range ro.Layouts {
		if f := c.method(nt, "ToBytes"); f != nil {
			stop[f] = true
		}
	}
	if ro.Worker != nil {
		stop[ro.Worker] = true
	}
	if ro.Retention != nil {
		stop[ro.Retention] = true
	}
	var work []*ssa.Function
	out := map[*ssa.Function]bool{}
	push := func(f *ssa.Function) {
		if f == nil || out[f] || stop[f] {
			return
		}
		p := f
		for p.Parent() != nil {
			p = p.Parent()
		}
		if !(p.Pkg == c.LogS || (p.Origin() != nil && p.Origin().Pkg == c.LogS)) {
			return
		}
		out[f] = true
		work = append(work, f)
	}
	for _, n := range []string{"Refresh", "NewPlugin"} {
		push(c.logFunc(n))
	}
	// converters are called through reflection
	for _, fn := range c.converterTypes() {
		push(fn)
	}
	for len(work) > 0 {
		f := work[len(work)-1]
		work = work[:len(work)-1]
		goTargets := map[*ssa.Function]bool{}
		sortCmp := map[*ssa.Function]bool{}
		eachInstr(f, func(in ssa.Instruction) {
			if t, ok := goStart(in); ok && t != nil {
				goTargets[t] = true
			}
			// comparators handed to package sort/slices get indices from the library
			if call, ok := in.(*ssa.Call); ok {
				if sc := call.Common().StaticCallee(); sc != nil && sc.Object() != nil && sc.Object().Pkg() != nil && (sc.Object().Pkg().Path() == "sort" || sc.Object().Pkg().Path() == "slices") {
					for _, a := range call.Call.Args {
						if mc, ok := a.(*ssa.MakeClosure); ok {
							sortCmp[mc.Fn.(*ssa.Function)] = true
						}
					}
				}
			}
		})
		for _, g := range c.moduleCallees(f) {
			if goTargets[g] {
				continue
			}
			if sortCmp[g] {
				c.libraryIndexed[g] = true
			}
			push(g)
		}
	}
	return out
}

func checkC15(c *Ctx, r *Report) {
	r.Explanation = "decided: every registered plugin type satisfies the interface its consumer asserts without a check (or is assignable to the element fields it can be injected into), every element default names a registered plugin of the right kind and every element kind is a declared plugin type; every tagged field is exported and settable, every attribute type is handled by the kind switch or has a registered converter, the name attribute is a string, every literal default converts; no pointer that is nil on some branch of a type switch is dereferenced afterwards (so every registered logger/appender type can go through Refresh); unchecked type assertions, explicit panics, reflect setters and non-constant index/slice operations on the configuration path are each discharged by one of these facts, by a dominating guard or by a linear-bounds proof; every error result on the configuration path is consumed; storage keys are built only from camel-cased pieces; the async buffer is created only after its size was validated. Not decided: ${} substitution semantics, equivalence of '!' expressions and flat keys, the exact values injected."
	r.Undecidedcl = []string{"value semantics of ${key} substitution and of inline '!' expressions (data flow through the storage at run time)", "third-party plugins registered by applications"}
	r.Assumptions = []string{"reflect.Value.Set* panic only on kind/assignability mismatch or unexported fields", "flatten.Storage contract"}
	{
		// sort-and-chain runs at configuration time: evaluated over every reference set of size 1–4 without a run-time
		// panic, its index and slice expressions are in range for the reference lists the property quantifies over
		ro := c.roles(r)
		if conclusive, ok := c.checkChainSemantics(r, ro); conclusive && ok {
			if cf := c.chainFunc(ro); cf != nil {
				names := map[string]bool{}
				for f := range c.reach(cf) {
					if c.inModule(f) {
						names[fname(f)] = true
					}
				}
				r.Decide([]string{"C15.bounds:"}, func(k string) bool {
					rest := strings.TrimPrefix(k, "C15.bounds:")
					if i := strings.Index(rest, "#"); i >= 0 {
						rest = rest[:i]
					}
					return names[rest]
				}, "sort-and-chain evaluated over every reference set of size 1–4 without an out-of-range access")
			}
		}
	}
	cfgOK := c.checkConfigSemantics(r, c.roles(r), "C15.config-values")
	camelOK := c.checkCamelSemantics(r, "C15.key-values")
	if cfgOK {
		r.Decide([]string{"C15.attr-lookup:", "C15.attributes:", "C15.subst:", "C15.int-width:", "C15.keys:", "C15.optional-key:", "C15.registry:", "C15.assert:", "C15.exhaustive:", "C15.chan-size:", "C15.anchor:config-sized channels"}, nil,
			"configurations evaluated end to end: every registered and synthetic plugin type created from generated configurations and compared with the statement's reference resolution; Refresh evaluated for every logger × appender type and over ill-formed configurations")
	}
	if camelOK {
		if fn := c.names().CamelFn; fn != nil {
			r.Decide([]string{"C15.camel:", "C15.bounds:"}, func(k string) bool {
				rest := k[strings.Index(k, ":")+1:]
				return rest == fname(fn) || strings.HasPrefix(rest, fname(fn)+"#")
			}, "key normaliser evaluated over every short string and over the three spellings of well-formed keys")
		}
	}
	regs := c.pluginRegistrations()
	r.Floor("RegisterPlugin sites", len(regs), 13)
	cfg := c.configFuncs()
	r.Count("config_path_functions", len(cfg))
	for f := range cfg {
		r.SawFunc(f)
	}
	c.checkRegistry(r, regs)
	c.checkAttributes(r, regs)
	c.checkNilPhiDeref(r, cfg, regs)
	c.checkAsserts(r, cfg, regs)
	c.checkConfigPanics(r, cfg)
	c.checkConfigErrors(r, cfg)
	c.checkChanSize(r)
	c.checkStorageKeys(r, cfg)
	c.checkConfigBoundsAll(r, cfg)
	c.checkAttrLookup(r)
	c.checkSubst(r)
	c.checkCamelShifts(r)
	c.checkParseWidth(r)
	c.checkOptionalKey(r)
}

// checkOptionalKey: where the element injector strips the optional marker "?" from the element name, every
// storage key must be built from the stripped name (a key containing "?" never exists, so the configured
// element would be silently ignored).
func (c *Ctx) checkOptionalKey(r *Report) {
	inj := c.names().ElemInjector
	camel := c.names().CamelFn
	if inj == nil || camel == nil {
		r.Undecided("C15.optional-key:anchor", "", "element injector or key normaliser not found")
		return
	}
	key := "C15.optional-key:" + fname(inj)
	var cut *ssa.Call
	eachInstr(inj, func(in ssa.Instruction) {
		if call, ok := in.(*ssa.Call); ok && (calleeIs(call, "strings", "", "CutSuffix") || calleeIs(call, "strings", "", "TrimSuffix")) {
			if k, ok := constString(call.Call.Args[1]); ok && k == "?" {
				cut = call
			}
		}
	})
	if cut == nil {
		r.Fail(key, c.pos(inj.Pos()), "the element injector does not strip the optional marker \"?\" from element names: optional elements are looked up under a key that cannot exist")
		return
	}
	raw := cut.Call.Args[0]
	var bad []string
	n := 0
	eachInstr(inj, func(in ssa.Instruction) {
		call, ok := in.(*ssa.Call)
		if !ok || call.Common().StaticCallee() != camel {
			return
		}
		n++
		if call.Call.Args[0] == raw {
			bad = append(bad, c.instrPos(in))
		}
	})
	if len(bad) > 0 {
		r.Fail(key, c.pos(inj.Pos()), "a storage key is built from the element name before its optional marker \"?\" is stripped (%s): the element's configured sub-tree is never found, so bad sub-trees are not rejected and configured optional elements stay nil", strings.Join(bad, ", "))
	} else {
		r.OK(key, "%d key computations, all from the element name with the optional marker stripped", n)
	}
}

// checkAttrLookup: "configured value, else default, else error" — presence and value of an attribute must come
// from ONE query of the storage's leaf data. flatten.Storage.Has is also true for keys that only have sub-keys and
// for empty containers, for which Get returns ""; a Has+Get pair therefore turns such keys into the empty string
// instead of falling back to the default or failing.
func (c *Ctx) checkAttrLookup(r *Report) {
	inj := c.names().AttrInjector
	if inj == nil {
		r.Undecided("C15.attr-lookup:injectAttribute", "", "attribute injector not found")
		return
	}
	key := "C15.attr-lookup:" + fname(inj)
	fr := &Frame{Fn: inj}
	var bad []string
	nLook := 0
	defaultOnMiss, errorOnNoDefault := false, false
	eachInstr(inj, func(in ssa.Instruction) {
		switch x := in.(type) {
		case *ssa.Lookup:
			if x.CommaOk && strings.Contains(c.prov(x.X, fr).String(), "RawData(") {
				nLook++
			}
		case *ssa.Call:
			s := x.Common().StaticCallee()
			if s != nil && s.Object() != nil && s.Object().Pkg() != nil && strings.HasSuffix(s.Object().Pkg().Path(), "flatten") && s.Signature.Recv() != nil {
				if s.Name() == "Has" || s.Name() == "Get" {
					bad = append(bad, fmt.Sprintf("(*Storage).%s at %s", s.Name(), c.instrPos(in)))
				}
			}
		}
	})
	// the default is consulted on the miss edge and its absence is an error
	eachInstr(inj, func(in ssa.Instruction) {
		call, ok := in.(*ssa.Call)
		if !ok {
			return
		}
		s := call.Common().StaticCallee()
		if s == nil || s.Name() != "Lookup" || recvNamed(s) == nil || recvNamed(s).Obj().Name() != "PluginTag" {
			return
		}
		if k, ok := constString(call.Call.Args[1]); !ok || k != "default" {
			return
		}
		for _, g := range guardsOfInstr(in) {
			if ex, ok := g.Cond.(*ssa.Extract); ok && ex.Index == 1 && !g.Polarity {
				if lk, ok := ex.Tuple.(*ssa.Lookup); ok && lk.CommaOk {
					defaultOnMiss = true
				}
			}
		}
		// !ok of the default look-up leads to an error return
		if refs := call.Referrers(); refs != nil {
			for _, u := range *refs {
				if ex, ok := u.(*ssa.Extract); ok && ex.Index == 1 {
					if rr := ex.Referrers(); rr != nil {
						for _, q := range *rr {
							if iff, ok := q.(*ssa.If); ok {
								fb := iff.Block().Succs[1]
								if ret, ok := fb.Instrs[len(fb.Instrs)-1].(*ssa.Return); ok && !returnsNilErr(ret, fb) {
									errorOnNoDefault = true
								}
							}
						}
					}
				}
			}
		}
	})
	switch {
	case len(bad) > 0:
		r.Fail(key, c.pos(inj.Pos()), "attribute presence/value is read with %s instead of one comma-ok look-up in the storage's leaf data: for a key that only has sub-keys, or whose value is an empty container, Has is true and Get returns \"\", so the attribute silently becomes the empty string instead of taking its default or failing", strings.Join(bad, ", "))
	case nLook < 1:
		r.Fail(key, c.pos(inj.Pos()), "no comma-ok look-up of the attribute key in the storage's leaf data")
	case !defaultOnMiss || !errorOnNoDefault:
		r.Fail(key, c.pos(inj.Pos()), "the chain configured value → declared default → error is broken (default consulted on miss=%v, error without default=%v)", defaultOnMiss, errorOnNoDefault)
	default:
		r.OK(key, "%d comma-ok leaf look-ups; default consulted exactly on a miss; no default ⇒ error", nLook)
	}
}

// checkSubst: a value of the form ${key} is replaced by the top-level property `key` (camel-cased) and a missing
// property is an error.
func (c *Ctx) checkSubst(r *Report) {
	inj := c.names().AttrInjector
	if inj == nil {
		return
	}
	key := "C15.subst:" + fname(inj)
	found := false
	var bad []string
	camelFn := c.names().CamelFn
	eachInstr(inj, func(in ssa.Instruction) {
		lk, ok := in.(*ssa.Lookup)
		if !ok || !lk.CommaOk {
			return
		}
		// the substitution look-up: keyed directly by toCamelKey(<text derived from the value>)
		kc, ok := lk.Index.(*ssa.Call)
		if !ok || camelFn == nil || kc.Common().StaticCallee() != camelFn || len(kc.Call.Args) != 1 {
			return
		}
		sf := c.stripForm(kc.Call.Args[0], lk, 0)
		if sf == nil {
			// the attribute's own key is built from a constant tag part, not from the value: not the substitution
			if _, isConst := c.prov(kc.Call.Args[0], &Frame{Fn: inj}).constString(); isConst {
				return
			}
			found = true
			bad = append(bad, "the property name is not the value with a leading `${` and a trailing `}` removed: "+c.prov(kc.Call.Args[0], &Frame{Fn: inj}).String())
		} else {
			found = true
			if sf.pre != "${" || sf.suf != "}" {
				bad = append(bad, fmt.Sprintf("the property name is the value without %q in front and %q at the end (want `${` and `}`)", sf.pre, sf.suf))
			}
			for _, cond := range sf.conds {
				if !guardedTrue(lk, cond) {
					bad = append(bad, "substitution is not restricted to values of the form ${…}")
				}
			}
		}
		// miss ⇒ error
		missErr := false
		if refs := lk.Referrers(); refs != nil {
			for _, u := range *refs {
				if ex, ok := u.(*ssa.Extract); ok && ex.Index == 1 {
					if rr := ex.Referrers(); rr != nil {
						for _, q := range *rr {
							if iff, ok := q.(*ssa.If); ok {
								fb := iff.Block().Succs[1]
								if ret, ok := fb.Instrs[len(fb.Instrs)-1].(*ssa.Return); ok && !returnsNilErr(ret, fb) {
									missErr = true
								}
							}
						}
					}
				}
			}
		}
		if !missErr {
			bad = append(bad, "a missing property does not make the injection fail")
		}
	})
	switch {
	case !found:
		r.Fail(key, c.pos(inj.Pos()), "no ${key} substitution against the top-level properties found")
	case len(bad) > 0:
		r.Fail(key, c.pos(inj.Pos()), "%s", strings.Join(uniq(bad), "; "))
	default:
		r.OK(key, "${key} → top-level property toCamelKey(key); only for values of that form; absent property ⇒ error")
	}
}

// checkCamelShifts: in the key normaliser every case shift of a byte (c ± 32) is applied to exactly the letters of
// one case — upper-casing to 'a'..'z', lower-casing to 'A'..'Z' — decided by evaluating the byte tests that guard the
// shift for all 256 byte values. A letter left out of the range keeps kebab/snake spellings of a key from meeting
// its camelCase spelling.
func (c *Ctx) checkCamelShifts(r *Report) {
	fn := c.names().CamelFn
	if fn == nil {
		return
	}
	r.SawFunc(fn)
	n := 0
	eachInstr(fn, func(in ssa.Instruction) {
		b, ok := in.(*ssa.BinOp)
		if !ok || (b.Op != token.ADD && b.Op != token.SUB) || !isByteType(b.Type()) {
			return
		}
		k, ok := constInt(b.Y)
		if !ok || k != 32 {
			return
		}
		n++
		what, lo, hi := "upper-casing", int64('a'), int64('z')
		if b.Op == token.ADD {
			what, lo, hi = "lower-casing", int64('A'), int64('Z')
		}
		key := fmt.Sprintf("C15.camel:%s#%s@%s", fname(fn), what, c.instrPos(b))
		key = key[:strings.LastIndex(key, "@")] + fmt.Sprintf("#%d", n)
		var got []int
		undec := false
		for v := int64(0); v < 256; v++ {
			ev := &Evaluator{Assume: func(x ssa.Value, fr *Frame) (constant.Value, bool) {
				if x == b.X {
					return constant.MakeInt64(v), true
				}
				return nil, false
			}}
			all := true
			for _, g := range guardsOfInstr(b) {
				if !dependsOn(g.Cond, b.X, 0) {
					continue
				}
				kv, ok := ev.eval(g.Cond, nil, nil)
				if !ok || kv.Kind() != constant.Bool {
					undec = true
					continue
				}
				if constant.BoolVal(kv) != g.Polarity {
					all = false
				}
			}
			if all {
				got = append(got, int(v))
			}
		}
		r.Count("byte_values_evaluated", 256)
		var want []int
		for v := lo; v <= hi; v++ {
			want = append(want, int(v))
		}
		switch {
		case undec:
			r.Undecided(key, c.instrPos(b), "a guard of the case shift mixes the byte with other data")
		case fmt.Sprint(got) != fmt.Sprint(want):
			r.Fail(key, c.instrPos(b), "%s is applied to the bytes %s, expected exactly %s: a key spelled with '-' or '_' before a letter outside that set does not normalise to its camelCase spelling", what, setDesc(got), setDesc(want))
		default:
			r.OK(key, "%s applied to exactly %s", what, setDesc(want))
		}
	})
	r.Count("case_shifts", n)
	if n == 0 {
		r.OKTrivial("C15.camel:"+fname(fn), "no byte ± 32 case shift in the key normaliser (case conversion in another form is not decided here)")
	}
}

// checkParseWidth: an integer attribute of the platform's widest registered kind must accept every value of its
// type: a constant bit size passed to strconv.ParseInt/ParseUint in the attribute injector is 0 or 64.
func (c *Ctx) checkParseWidth(r *Report) {
	inj := c.names().AttrInjector
	if inj == nil {
		return
	}
	n := 0
	eachInstr(inj, func(in ssa.Instruction) {
		call, ok := in.(*ssa.Call)
		if !ok || !(calleeIs(call, "strconv", "", "ParseInt") || calleeIs(call, "strconv", "", "ParseUint")) || len(call.Call.Args) != 3 {
			return
		}
		n++
		key := fmt.Sprintf("C15.int-width:%s→%s#%d", fname(inj), call.Common().StaticCallee().Name(), n)
		k, isK := constInt(call.Call.Args[2])
		switch {
		case !isK:
			r.OK(key, "bit size is computed (not a constant)")
		case k == 0 || k == 64:
			r.OK(key, "bit size %d accepts every value of the widest integer attribute kind", k)
		default:
			r.Fail(key, c.instrPos(call), "integers are parsed with the constant bit size %d although the same arm serves int/int64 (uint/uint64) attributes: well-typed values beyond %d bits are rejected as out of range", k, k)
		}
	})
	r.Count("integer_parses", n)
}

// stripRes: v is base with the constant prefix pre and suffix suf removed, provided every value in conds is true.
type stripRes struct {
	base     ssa.Value
	pre, suf string
	conds    []ssa.Value
}

// guardedTrue: cond holds wherever `at` executes (it is a dominating guard taken on its true edge).
func guardedTrue(at ssa.Instruction, cond ssa.Value) bool {
	for _, g := range guardsOfInstr(at) {
		if g.Cond == cond && g.Polarity {
			return true
		}
	}
	return false
}

// stripForm recognises the ways of taking a prefix and a suffix off a string: s[k:len(s)-m] under HasPrefix/HasSuffix
// guards, strings.CutPrefix/CutSuffix (whose ok results become conditions), strings.TrimPrefix/TrimSuffix under the
// matching Has* guard, and an in-module helper returning (stripped, ok).
func (c *Ctx) stripForm(v ssa.Value, at ssa.Instruction, d int) *stripRes {
	if d > 6 {
		return nil
	}
	inner := func(x ssa.Value) *stripRes {
		if sr := c.stripForm(x, at, d+1); sr != nil {
			return sr
		}
		return &stripRes{base: x}
	}
	hasGuard := func(fn string, base ssa.Value, n int64) (string, ssa.Value) {
		for _, g := range guardsOfInstr(at) {
			if call, ok := g.Cond.(*ssa.Call); ok && g.Polarity && calleeIs(call, "strings", "", fn) && len(call.Call.Args) == 2 && call.Call.Args[0] == base {
				if k, ok := constString(call.Call.Args[1]); ok && (n < 0 || int64(len(k)) == n) {
					return k, call
				}
			}
		}
		return "", nil
	}
	switch x := v.(type) {
	case *ssa.Extract:
		call, ok := x.Tuple.(*ssa.Call)
		if !ok || x.Index != 0 {
			return nil
		}
		okOf := func() ssa.Value {
			if rr := call.Referrers(); rr != nil {
				for _, u := range *rr {
					if ex, ok := u.(*ssa.Extract); ok && ex.Index == 1 {
						return ex
					}
				}
			}
			return nil
		}
		if calleeIs(call, "strings", "", "CutPrefix") || calleeIs(call, "strings", "", "CutSuffix") {
			k, ok := constString(callArg(call, 1))
			okv := okOf()
			if !ok || okv == nil {
				return nil
			}
			sr := inner(call.Call.Args[0])
			if calleeIs(call, "strings", "", "CutPrefix") {
				sr.pre += k
			} else {
				sr.suf = k + sr.suf
			}
			sr.conds = append(sr.conds, okv)
			return sr
		}
		// in-module helper (string, bool)
		h := call.Common().StaticCallee()
		if h == nil || !c.inModule(h) || len(h.Blocks) == 0 || h.Signature.Results().Len() != 2 {
			return nil
		}
		var out *stripRes
		okAll := true
		eachInstr(h, func(in ssa.Instruction) {
			ret, isRet := in.(*ssa.Return)
			if !isRet || !okAll {
				return
			}
			if k, isK := ret.Results[1].(*ssa.Const); isK && k.Value != nil && !constant.BoolVal(k.Value) {
				return // a "no" return
			}
			sr := c.stripForm(ret.Results[0], ret, d+1)
			if sr == nil {
				okAll = false
				return
			}
			p, isP := sr.base.(*ssa.Parameter)
			if !isP {
				okAll = false
				return
			}
			exported := false
			for _, cond := range sr.conds {
				if cond == ret.Results[1] {
					exported = true
				} else if !guardedTrue(ret, cond) {
					okAll = false
				}
			}
			if k, isK := ret.Results[1].(*ssa.Const); isK && k.Value != nil && constant.BoolVal(k.Value) {
				exported = true // unconditional yes: all conditions were guards inside the helper
			}
			if !exported {
				okAll = false
			}
			idx := -1
			for i, hp := range h.Params {
				if hp == p {
					idx = i
				}
			}
			if idx < 0 || (out != nil && (out.pre != sr.pre || out.suf != sr.suf)) {
				okAll = false
				return
			}
			out = &stripRes{base: call.Call.Args[idx], pre: sr.pre, suf: sr.suf}
		})
		okv := okOf()
		if !okAll || out == nil || okv == nil {
			return nil
		}
		out.conds = []ssa.Value{okv}
		return out
	case *ssa.Call:
		for _, fn := range [][2]string{{"TrimPrefix", "HasPrefix"}, {"TrimSuffix", "HasSuffix"}} {
			if calleeIs(x, "strings", "", fn[0]) {
				k, ok := constString(callArg(x, 1))
				if !ok {
					return nil
				}
				sr := inner(x.Call.Args[0])
				got, g := hasGuard(fn[1], x.Call.Args[0], int64(len(k)))
				if g == nil || got != k {
					return nil
				}
				if fn[0] == "TrimPrefix" {
					sr.pre += k
				} else {
					sr.suf = k + sr.suf
				}
				return sr
			}
		}
	case *ssa.Slice:
		if !isStringType(x.X.Type()) {
			return nil
		}
		var lo, m int64
		if x.Low != nil {
			k, ok := constInt(x.Low)
			if !ok {
				return nil
			}
			lo = k
		}
		if x.High != nil {
			b, ok := x.High.(*ssa.BinOp)
			if !ok || b.Op != token.SUB {
				return nil
			}
			lc, ok := b.X.(*ssa.Call)
			if !ok {
				return nil
			}
			if bi, ok := lc.Call.Value.(*ssa.Builtin); !ok || bi.Name() != "len" || lc.Call.Args[0] != x.X {
				return nil
			}
			k, ok := constInt(b.Y)
			if !ok {
				return nil
			}
			m = k
		}
		sr := &stripRes{base: x.X}
		if lo > 0 {
			p, g := hasGuard("HasPrefix", x.X, lo)
			if g == nil {
				return nil
			}
			sr.pre = p
		}
		if m > 0 {
			q, g := hasGuard("HasSuffix", x.X, m)
			if g == nil {
				return nil
			}
			sr.suf = q
		}
		if lo == 0 && m == 0 {
			return nil
		}
		return sr
	}
	return nil
}

func init() {
	_ = token.ADD
}

func unusedAttrLookup() {}

func (c *Ctx) placeholderAttr() {
}

// ---- registry

func (c *Ctx) checkRegistry(r *Report, regs []pluginReg) {
	// consumer interfaces: unchecked assertions in Refresh on plugin instances created for a constant plugin type
	consumer := map[string]*types.Named{}
	rf := c.logFunc("Refresh")
	if rf != nil {
		eachInstr(rf, func(in ssa.Instruction) {
			ta, ok := in.(*ssa.TypeAssert)
			if !ok || ta.CommaOk {
				return
			}
			nt, ok := ta.AssertedType.(*types.Named)
			if !ok || !c.moduleIface(nt) {
				return
			}
			p := c.prov(ta.X, &Frame{Fn: rf}).String()
			for _, typ := range []string{"appender", "logger", "layout", "appenderRef"} {
				if strings.Contains(p, fmt.Sprintf("%q", typ)) || strings.Contains(p, "PluginType"+strings.Title(typ)) {
					consumer[typ] = nt
				}
			}
		})
	}
	// declared plugin type constants
	ptT := c.logType("PluginType")
	declared := map[string]bool{}
	for _, m := range c.LogS.Members {
		if nc, ok := m.(*ssa.NamedConst); ok && ptT != nil && types.Identical(nc.Type(), ptT) {
			declared[constant.StringVal(nc.Value.Value)] = true
		}
	}
	byType := map[string][]pluginReg{}
	for _, g := range regs {
		byType[g.Typ] = append(byType[g.Typ], g)
	}
	// element fields
	type elemField struct {
		owner *types.Named
		f     *types.Var
		kind  string // plugin type key
		def   string
		opt   bool
	}
	var elems []elemField
	for _, nt := range c.namedTypes(c.Log) {
		st, ok := nt.Underlying().(*types.Struct)
		if !ok {
			continue
		}
		for i := 0; i < st.NumFields(); i++ {
			v, ok := lookupTag(st.Tag(i), "PluginElement")
			if !ok {
				continue
			}
			parts := strings.Split(v, ",")
			name := parts[0]
			ef := elemField{owner: nt, f: st.Field(i)}
			if strings.HasSuffix(name, "?") {
				ef.opt = true
				name = strings.TrimSuffix(name, "?")
			}
			ef.kind = camelKey(name)
			for _, p := range parts[1:] {
				if strings.HasPrefix(p, "default=") {
					ef.def = strings.TrimPrefix(p, "default=")
				}
			}
			elems = append(elems, ef)
		}
	}
	r.Floor("PluginElement fields", len(elems), 5)
	for _, g := range regs {
		key := fmt.Sprintf("C15.registry:%s/%s", g.Typ, g.Name)
		var bad []string
		if !declared[g.Typ] {
			bad = append(bad, fmt.Sprintf("plugin type %q is not a declared PluginType", g.Typ))
		}
		if _, isStruct := g.T.Underlying().(*types.Struct); !isStruct {
			bad = append(bad, "registered type is not a struct")
		}
		if ci, ok := consumer[g.Typ]; ok {
			if !types.Implements(types.NewPointer(g.T), ci.Underlying().(*types.Interface)) {
				bad = append(bad, fmt.Sprintf("*%s does not implement %s, which Refresh asserts without a check: configuring this plugin panics", g.T.Obj().Name(), ci.Obj().Name()))
			}
		}
		// element fields of this kind must accept *T
		nField := 0
		for _, ef := range elems {
			if ef.kind != g.Typ {
				continue
			}
			nField++
			ft := ef.f.Type()
			if sl, ok := ft.Underlying().(*types.Slice); ok {
				ft = sl.Elem()
			}
			if !types.AssignableTo(types.NewPointer(g.T), ft) {
				bad = append(bad, fmt.Sprintf("*%s cannot be assigned to %s.%s (%s): reflect.Set panics when this plugin is configured there", g.T.Obj().Name(), ef.owner.Obj().Name(), ef.f.Name(), types.TypeString(ft, shortQual)))
			}
		}
		if _, hasConsumer := consumer[g.Typ]; !hasConsumer && nField == 0 {
			bad = append(bad, "no consumer of this plugin type found (neither an assertion in Refresh nor an element field)")
		}
		if len(bad) > 0 {
			r.Fail(key, g.Pos, "%s", strings.Join(bad, "; "))
		} else {
			r.OK(key, "%s satisfies its consumer (%d element field(s))", g.T.Obj().Name(), nField)
		}
	}
	for _, ef := range elems {
		key := fmt.Sprintf("C15.registry:element:%s.%s", ef.owner.Obj().Name(), ef.f.Name())
		var bad []string
		if !declared[ef.kind] {
			bad = append(bad, fmt.Sprintf("element kind %q is not a declared PluginType", ef.kind))
		}
		if len(byType[ef.kind]) == 0 {
			bad = append(bad, "no plugin of kind "+ef.kind+" is registered")
		}
		if ef.def != "" {
			for _, d := range strings.Split(ef.def, ";") {
				d = strings.TrimSpace(d)
				if d == "" {
					continue
				}
				found := false
				for _, g := range byType[ef.kind] {
					if g.Name == d {
						found = true
					}
				}
				if !found {
					bad = append(bad, fmt.Sprintf("default %q is not a registered %s plugin: every configuration that omits the element fails", d, ef.kind))
				}
			}
		}
		if !ef.f.Exported() {
			bad = append(bad, "field is unexported: reflect cannot set it (panic)")
		}
		switch ef.f.Type().Underlying().(type) {
		case *types.Slice, *types.Interface:
		default:
			bad = append(bad, "field kind is neither slice nor interface (unsupported by the injector: always an error)")
		}
		if len(bad) > 0 {
			r.Fail(key, c.pos(ef.f.Pos()), "%s", strings.Join(bad, "; "))
		} else {
			r.OK(key, "kind %s, default %q, optional=%v", ef.kind, ef.def, ef.opt)
		}
	}
}

// ---- attributes

func (c *Ctx) checkAttributes(r *Report, regs []pluginReg) {
	convs := c.converterTypes()
	r.Floor("registered converters", len(convs), 3)
	n := 0
	seen := map[*types.Var]bool{}
	var visit func(nt *types.Named)
	visit = func(nt *types.Named) {
		st, ok := nt.Underlying().(*types.Struct)
		if !ok {
			return
		}
		for i := 0; i < st.NumFields(); i++ {
			f := st.Field(i)
			if f.Embedded() {
				if en, ok := f.Type().(*types.Named); ok && en.Obj().Pkg() != nil && en.Obj().Pkg().Path() == logPath {
					visit(en)
				}
				continue
			}
			v, ok := lookupTag(st.Tag(i), "PluginAttribute")
			if !ok || seen[f] {
				continue
			}
			seen[f] = true
			n++
			key := fmt.Sprintf("C15.attributes:%s.%s", nt.Obj().Name(), f.Name())
			parts := strings.SplitN(v, ",", 2)
			attr := parts[0]
			def, hasDef := "", false
			if len(parts) == 2 {
				for _, p := range strings.Split(parts[1], ",") {
					if strings.HasPrefix(p, "default=") {
						def, hasDef = strings.TrimPrefix(p, "default="), true
					}
				}
			}
			var bad []string
			if !f.Exported() {
				bad = append(bad, "unexported field: reflect setters panic")
			}
			if attr == "" {
				bad = append(bad, "empty attribute name (always an error)")
			}
			ts := types.TypeString(f.Type(), nil)
			if attr == "name" {
				if !isStringType(f.Type()) {
					bad = append(bad, "the name attribute is set with SetString but the field is "+ts)
				}
			} else if fn, ok := convs[ts]; ok {
				if hasDef {
					if okd, why := c.converterAccepts(fn, def); !okd {
						bad = append(bad, fmt.Sprintf("default %q is not accepted by converter %s (%s): a configuration that omits the attribute fails", def, fname(fn), why))
					}
				}
			} else {
				b, isBasic := f.Type().Underlying().(*types.Basic)
				switch {
				case !isBasic:
					bad = append(bad, "type "+ts+" has no registered converter and is not a basic kind: every configuration of this plugin fails with 'unsupported inject type'")
				case b.Info()&types.IsUnsigned != 0:
					if hasDef {
						if _, err := strconv.ParseUint(def, 0, 0); err != nil {
							bad = append(bad, "default "+def+" does not parse as unsigned")
						}
					}
				case b.Info()&types.IsInteger != 0:
					if hasDef {
						v, err := strconv.ParseInt(def, 0, 0)
						if err != nil {
							bad = append(bad, "default "+def+" does not parse as integer")
						} else if bits, _, _ := intBits(f.Type()); bits > 0 && bits < 64 && (v >= 1<<(uint(bits)-1) || v < -(1<<(uint(bits)-1))) {
							bad = append(bad, "default "+def+" overflows "+ts)
						}
					}
				case b.Info()&types.IsFloat != 0:
					if hasDef {
						if _, err := strconv.ParseFloat(def, 64); err != nil {
							bad = append(bad, "default "+def+" does not parse as float")
						}
					}
				case b.Info()&types.IsBoolean != 0:
					if hasDef {
						if _, err := strconv.ParseBool(def); err != nil {
							bad = append(bad, "default "+def+" does not parse as bool")
						}
					}
				case b.Info()&types.IsString != 0:
				default:
					bad = append(bad, "kind of "+ts+" is not handled by the injector")
				}
			}
			if len(bad) > 0 {
				r.Fail(key, c.pos(f.Pos()), "%s", strings.Join(bad, "; "))
			} else {
				r.OK(key, "attribute %q of type %s; default %q (present=%v)", attr, types.TypeString(f.Type(), shortQual), def, hasDef)
			}
		}
	}
	// all plugin types and everything they embed
	for _, g := range regs {
		visit(g.T)
	}
	r.Floor("PluginAttribute fields", n, 20)
}

// converterAccepts decides statically whether a converter returns a nil error for the literal d.
func (c *Ctx) converterAccepts(fn *ssa.Function, d string) (bool, string) {
	if fn == nil {
		return false, "converter function not resolved"
	}
	param := fn.Params[0]
	// (a) switch/if on the parameter against constants with a nil-error return
	accepted := map[string]bool{}
	emptyOK := false
	eachInstr(fn, func(in ssa.Instruction) {
		ret, ok := in.(*ssa.Return)
		if !ok || len(ret.Results) != 2 || !isNilConst(ret.Results[1]) {
			return
		}
		for _, g := range guardsOfInstr(in) {
			b, ok := g.Cond.(*ssa.BinOp)
			if !ok || b.Op != token.EQL || !g.Polarity {
				continue
			}
			s, ok := constString(b.Y)
			if !ok {
				continue
			}
			if b.X == param {
				accepted[s] = true
			}
			// TrimSpace(param) == ""
			if call, ok := b.X.(*ssa.Call); ok && calleeIs(call, "strings", "", "TrimSpace") && call.Call.Args[0] == param && s == "" {
				emptyOK = true
			}
		}
	})
	if accepted[d] {
		return true, ""
	}
	if strings.TrimSpace(d) == "" && emptyOK {
		return true, ""
	}
	// (b) registry look-up keyed by the parameter: accepted keys are the constant first arguments of the registering function's call sites
	var regMap *ssa.Global
	eachInstr(fn, func(in ssa.Instruction) {
		if lk, ok := in.(*ssa.Lookup); ok && lk.Index == param {
			if ld, ok := lk.X.(*ssa.UnOp); ok {
				regMap, _ = ld.X.(*ssa.Global)
			}
		}
	})
	if regMap != nil {
		for _, f := range c.Funcs {
			var writes bool
			eachInstr(f, func(in ssa.Instruction) {
				if mu, ok := in.(*ssa.MapUpdate); ok {
					if ld, ok := mu.Map.(*ssa.UnOp); ok && ld.X == regMap {
						writes = true
					}
				}
			})
			if !writes {
				continue
			}
			for _, cs := range c.callSitesOf(f) {
				if s, ok := constString(cs.Common().Args[0]); ok && s == d {
					return true, ""
				}
			}
		}
		return false, "not among the registered names"
	}
	var as []string
	for a := range accepted {
		as = append(as, a)
	}
	sort.Strings(as)
	return false, fmt.Sprintf("accepted literals %v", as)
}

// ---- nil on a branch, dereferenced after the join

func (c *Ctx) checkNilPhiDeref(r *Report, cfg map[*ssa.Function]bool, regs []pluginReg) {
	n := 0
	nPhi := 0
	for _, f := range sortedFuncs(cfg) {
		eachInstr(f, func(in ssa.Instruction) {
			phi, ok := in.(*ssa.Phi)
			if !ok {
				return
			}
			if _, isPtr := phi.Type().Underlying().(*types.Pointer); !isPtr {
				return
			}
			nilEdges := 0
			for _, e := range phi.Edges {
				if isNilConst(e) {
					nilEdges++
				}
			}
			if nilEdges == 0 {
				return
			}
			nPhi++
			// dereferencing uses
			if refs := phi.Referrers(); refs != nil {
				for _, u := range *refs {
					deref := false
					switch x := u.(type) {
					case *ssa.FieldAddr:
						deref = x.X == phi
					case *ssa.UnOp:
						deref = x.Op == token.MUL && x.X == phi
					case *ssa.Store:
						deref = x.Addr == phi
					case ssa.CallInstruction:
						if s := x.Common().StaticCallee(); s != nil && len(x.Common().Args) > 0 && x.Common().Args[0] == phi && s.Signature.Recv() != nil {
							deref = true
						}
					}
					if !deref {
						continue
					}
					guarded := false
					for _, g := range guardsOfInstr(u) {
						if b, ok := g.Cond.(*ssa.BinOp); ok && b.X == phi && isNilConst(b.Y) && ((b.Op == token.NEQ) == g.Polarity) {
							guarded = true
						}
					}
					if guarded {
						continue
					}
					n++
					// which plugin types reach the nil edge: type-switch cases vs registered types of the asserted kind
					var covered []string
					eachInstr(f, func(j ssa.Instruction) {
						if ta, ok := j.(*ssa.TypeAssert); ok && ta.CommaOk {
							covered = append(covered, types.TypeString(ta.AssertedType, shortQual))
						}
					})
					var uncovered []string
					for _, g := range regs {
						if g.Typ != "logger" {
							continue
						}
						hit := false
						for _, cv := range covered {
							if cv == "*"+g.T.Obj().Name() {
								hit = true
							}
						}
						if !hit {
							uncovered = append(uncovered, g.Name+" ("+g.T.Obj().Name()+")")
						}
					}
					key := fmt.Sprintf("C15.exhaustive:%s#%s", fname(f), phi.Comment)
					r.Fail(key, c.instrPos(u), "%s is nil on a branch of the preceding type switch (cases %v) and is dereferenced here without a nil test: configuring a registered logger type outside those cases — %v — makes Refresh panic instead of succeeding", phi.Comment, covered, uncovered)
				}
			}
		})
	}
	r.Count("nil_phis_examined", nPhi)
	if n == 0 {
		r.OK("C15.exhaustive:config-path", "%d pointer φ-nodes with a nil incoming edge on the configuration path; none is dereferenced without a nil test", nPhi)
	}
	// values returned as nil pointers and dereferenced by the caller
	for _, f := range sortedFuncs(cfg) {
		nilRet := map[int]bool{}
		eachInstr(f, func(in ssa.Instruction) {
			if ret, ok := in.(*ssa.Return); ok {
				for i, v := range ret.Results {
					if _, isPtr := v.Type().Underlying().(*types.Pointer); !isPtr {
						continue
					}
					// a nil pointer returned together with a nil error
					if len(ret.Results) >= 2 && !isNilConst(ret.Results[len(ret.Results)-1]) {
						continue
					}
					if isNilConst(v) {
						nilRet[i] = true
					}
					if phi, ok := v.(*ssa.Phi); ok {
						for _, e := range phi.Edges {
							if isNilConst(e) {
								nilRet[i] = true
							}
						}
					}
				}
			}
		})
		if len(nilRet) == 0 {
			continue
		}
		key := "C15.exhaustive:" + fname(f) + "#result"
		r.Fail(key, c.pos(f.Pos()), "returns a nil pointer together with a nil error on some path; callers dereference the result after checking only the error")
	}
}

// ---- unchecked assertions

func (c *Ctx) checkAsserts(r *Report, cfg map[*ssa.Function]bool, regs []pluginReg) {
	n := 0
	for _, f := range sortedFuncs(cfg) {
		eachInstr(f, func(in ssa.Instruction) {
			ta, ok := in.(*ssa.TypeAssert)
			if !ok || ta.CommaOk {
				return
			}
			n++
			key := fmt.Sprintf("C15.assert:%s→%s", fname(f), types.TypeString(ta.AssertedType, shortQual))
			p := c.prov(ta.X, &Frame{Fn: f}).String()
			switch {
			case c.moduleIface(ta.AssertedType) && strings.Contains(p, "reflect.Value).Interface("):
				// discharged by C15.registry: every registered plugin of that kind implements the interface
				r.OK(key, "plugin instance asserted to %s: discharged by C15.registry for every registered type", types.TypeString(ta.AssertedType, shortQual))
			case types.TypeString(ta.AssertedType, nil) == "error" && strings.Contains(p, "reflect.Value).Interface("):
				// second result of a Converter[T] func(string) (T, error), after !IsNil
				okG := false
				for _, g := range guardsOfInstr(in) {
					if strings.Contains(c.prov(g.Cond, &Frame{Fn: f}).String(), "IsNil") && !g.Polarity {
						okG = true
					}
				}
				if okG {
					r.OK(key, "converter's error result, asserted only when non-nil (Converter[T] fixes its static type)")
				} else {
					r.Fail(key, c.instrPos(in), "assertion to error without the non-nil guard")
				}
			case strings.Contains(p, "sync.Pool).Get(") || strings.Contains(p, "sync.Map).Load("):
				r.OK(key, "value from a pool/cache that only this package fills with this type")
			default:
				r.Fail(key, c.instrPos(in), "unchecked type assertion on %s: a configuration can make it panic", p)
			}
		})
	}
	r.Floor("unchecked assertions on the configuration path", n, 3)
}

// ---- explicit panics

func (c *Ctx) checkConfigPanics(r *Report, cfg map[*ssa.Function]bool) {
	n := 0
	for _, f := range sortedFuncs(cfg) {
		eachInstr(f, func(in ssa.Instruction) {
			if p, ok := in.(*ssa.Panic); ok {
				if isCompilerPanic(p) {
					return
				}
				n++
				r.Fail("C15.no-panic:"+fname(f), c.instrPos(in), "explicit panic reachable from Refresh/NewPlugin: a configuration error must be returned, not thrown")
			}
			if ci, ok := in.(ssa.CallInstruction); ok && (calleeIs(ci, "os", "", "Exit")) {
				n++
				r.Fail("C15.no-panic:"+fname(f), c.instrPos(in), "os.Exit on the configuration path")
			}
		})
	}
	if n == 0 {
		r.OK("C15.no-panic:config-path", "no explicit panic or os.Exit in the %d functions of the configuration path", len(cfg))
	}
	// reflect setters are dominated by the matching kind test
	inj := c.names().AttrInjector
	if inj != nil {
		bad := 0
		cnt := 0
		eachInstr(inj, func(in ssa.Instruction) {
			call, ok := in.(*ssa.Call)
			if !ok {
				return
			}
			s := call.Common().StaticCallee()
			if s == nil || !funcIs(s, "reflect", "Value", s.Name()) {
				return
			}
			want := map[string]string{"SetUint": "Uint", "SetInt": "Int", "SetFloat": "Float", "SetBool": "Bool"}[s.Name()]
			if want == "" {
				return
			}
			cnt++
			family := map[string][2]int64{"Uint": {7, 12}, "Int": {2, 6}, "Float": {13, 14}, "Bool": {1, 1}}[want]
			// the case body of the kind switch that dominates the setter
			body := in.Block()
			for body != nil && body.Comment != "switch.body" {
				body = body.Idom()
			}
			ok2 := body != nil && len(body.Preds) > 0
			for _, pb := range predsOf(body) {
				iff, isIf := pb.Instrs[len(pb.Instrs)-1].(*ssa.If)
				if !isIf || pb.Succs[0] != body {
					ok2 = false
					continue
				}
				b, isB := iff.Cond.(*ssa.BinOp)
				if !isB || b.Op != token.EQL {
					ok2 = false
					continue
				}
				k, isK := constInt(b.Y)
				kc, isCall := b.X.(*ssa.Call)
				if !isK || !isCall || !calleeIs(kc, "reflect", "Value", "Kind") || k < family[0] || k > family[1] {
					ok2 = false
				}
			}
			if !ok2 {
				bad++
				r.Fail("C15.no-panic:injectAttribute→"+s.Name(), c.instrPos(in), "reflect.%s is not dominated by a Kind() test", s.Name())
			}
		})
		if bad == 0 && cnt > 0 {
			r.OK("C15.no-panic:injectAttribute→reflect-setters", "%d typed reflect setters, each under the Kind() case of its family", cnt)
		}
	}
}

// ---- errors consumed

func (c *Ctx) checkConfigErrors(r *Report, cfg map[*ssa.Function]bool) {
	n, bad := 0, 0
	for _, f := range sortedFuncs(cfg) {
		if f.Pkg != c.LogS {
			continue
		}
		// Lifecycle.Stop has no error result by contract: what a Stop does with Sync/Close errors is the shutdown
		// path's matter (C05, C20), not the configuration's
		if f.Name() == "Stop" && f.Signature.Recv() != nil && f.Signature.Results().Len() == 0 && f.Signature.Params().Len() == 0 {
			continue
		}
		eachInstr(f, func(in ssa.Instruction) {
			call, ok := in.(*ssa.Call)
			if !ok {
				return
			}
			sig := call.Call.Signature()
			if sig == nil || sig.Results().Len() == 0 {
				return
			}
			last := sig.Results().At(sig.Results().Len() - 1).Type()
			if types.TypeString(last, nil) != "error" {
				return
			}
			// documented as "the returned error is always nil": nothing can be dropped
			if sc := call.Common().StaticCallee(); sc != nil && sc.Signature.Recv() != nil {
				rt := sc.Signature.Recv().Type()
				if p, ok := rt.(*types.Pointer); ok {
					rt = p.Elem()
				}
				if (isNamed(rt, "strings", "Builder") || isNamed(rt, "bytes", "Buffer")) && (sc.Name() == "Write" || sc.Name() == "WriteByte" || sc.Name() == "WriteRune" || sc.Name() == "WriteString") {
					return
				}
			}
			// an observing call into package os (ReadDir, Stat, Lstat, ReadFile, Getwd) whose error is given up for a
			// fallback changes nothing that was configured
			if sc := call.Common().StaticCallee(); sc != nil && sc.Pkg != nil && sc.Pkg.Pkg.Path() == "os" && sc.Signature.Recv() == nil {
				switch sc.Name() {
				case "ReadDir", "Stat", "Lstat", "ReadFile", "Getwd", "Hostname", "UserHomeDir":
					return
				}
			}
			n++
			used := false
			if refs := call.Referrers(); refs != nil {
				for _, u := range *refs {
					if sig.Results().Len() == 1 {
						if _, isDbg := u.(*ssa.DebugRef); !isDbg {
							used = true
						}
					} else if ex, ok := u.(*ssa.Extract); ok && ex.Index == sig.Results().Len()-1 {
						if rr := ex.Referrers(); rr != nil && len(*rr) > 0 {
							used = true
						}
					}
				}
			}
			if !used {
				bad++
				r.Fail("C15.errors:"+fname(f)+"→"+calleeName(call), c.instrPos(in), "error result is dropped on the configuration path: a failing step is reported as success")
			}
		})
	}
	if bad == 0 {
		r.OK("C15.errors:config-path", "%d calls returning an error, every error value is consumed", n)
	}
}

// ---- channel size

func (c *Ctx) checkChanSize(r *Report) {
	cfgInts := c.configIntFields()
	n := 0
	for _, f := range c.Funcs {
		eachInstr(f, func(in ssa.Instruction) {
			mk, ok := in.(*ssa.MakeChan)
			if !ok {
				return
			}
			name, dep := c.dependsOnConfigInt(mk.Size, cfgInts)
			if !dep {
				return
			}
			n++
			key := "C15.chan-size:" + fname(f)
			lc := &linCtx{c: c, fn: f, vars: map[string]ssa.Value{}}
			var facts []Ineq
			for _, g := range guardsOfInstr(in) {
				if fs, ok := lc.condFacts(g.Cond, g.Polarity); ok {
					facts = append(facts, fs...)
				}
			}
			szs := lc.lin(mk.Size, 0)
			ok2 := len(szs) == 1
			if ok2 {
				ok2, _ = implies(facts, Ineq{szs[0].L})
			}
			if ok2 {
				r.OK(key, "make(chan, %s) is reached only with a validated non-negative size", name)
			} else {
				r.Fail(key, c.instrPos(in), "make(chan, %s) can be reached with a negative size (panic) — no dominating lower-bound check", name)
			}
		})
	}
	r.Floor("config-sized channels", n, 1)
}

// ---- storage keys

func (c *Ctx) checkStorageKeys(r *Report, cfg map[*ssa.Function]bool) {
	toCamel := c.names().CamelFn
	n, bad := 0, 0
	for _, f := range sortedFuncs(cfg) {
		if f.Pkg != c.LogS {
			continue
		}
		eachInstr(f, func(in ssa.Instruction) {
			var keyV ssa.Value
			what := ""
			switch x := in.(type) {
			case *ssa.Call:
				s := x.Common().StaticCallee()
				if s != nil && s.Object() != nil && s.Object().Pkg() != nil && strings.HasSuffix(s.Object().Pkg().Path(), "flatten") && s.Signature.Recv() != nil {
					switch s.Name() {
					case "Has", "Get", "Set", "SubKeys":
						keyV, what = x.Call.Args[1], s.Name()
					}
				}
			case *ssa.Lookup:
				if p := c.prov(x.X, &Frame{Fn: f}).String(); strings.Contains(p, "RawData(") {
					keyV, what = x.Index, "RawData[]"
				}
			}
			if keyV == nil {
				return
			}
			n++
			var leaves []string
			depthKeys := 0
			var walk func(p *PNode)
			walk = func(p *PNode) {
				if p == nil {
					return
				}
				switch {
				case p.Kind == "const":
					if s, ok := p.constString(); ok && camelKey(s) != s {
						leaves = append(leaves, fmt.Sprintf("constant %q is not a fixed point of the key normalisation", s))
					}
				case p.Kind == "concat" || p.Kind == "phi" || p.Kind == "slice" || p.Kind == "extract":
					for _, a := range p.Args {
						walk(a)
					}
				case p.Kind == "call" && toCamel != nil && p.Name == qualName(toCamel):
				case p.Kind == "call" && (p.Name == "strconv.Itoa" || strings.HasPrefix(p.Name, "strings.LastIndex") || p.Name == "strings.CutSuffix" || p.Name == "strings.TrimSpace"):
					if p.Name == "strings.CutSuffix" || p.Name == "strings.TrimSpace" {
						walk(p.Args[0])
					}
				case p.Kind == "path" && strings.HasPrefix(p.Name, "param:") && !strings.Contains(p.Name, "."):
					// a string parameter (prefix, type key): built by the callers — checked at every in-module call site;
					// parameters of exported entry points and of closures are the caller's contract
					if prm, ok := p.V.(*ssa.Parameter); ok && depthKeys < 3 {
						fn := prm.Parent()
						idx := -1
						for i, q := range fn.Params {
							if q == prm {
								idx = i
							}
						}
						for _, cs := range c.callSitesOf(fn) {
							if idx >= 0 && idx < len(cs.Common().Args) && cs.Parent() != fn {
								depthKeys++
								walk(c.prov(cs.Common().Args[idx], &Frame{Fn: cs.Parent()}))
								depthKeys--
							}
						}
					}
				case p.Kind == "path" && strings.Contains(p.Name, ").SubKeys("):
					// names read back from the storage are already normalised
				case p.Kind == "path" && strings.HasPrefix(p.Name, "free:"):
					// captured variable: follow the cell in the enclosing function
					if fv, ok := p.V.(*ssa.UnOp); ok {
						if v, ok := fv.X.(*ssa.FreeVar); ok {
							if cell, parent := freeVarCell(v); cell != nil {
								sts := storesTo(cell)
								for _, st := range sts {
									if st.Parent() == parent {
										walk(c.prov(st.Val, &Frame{Fn: parent}))
									}
								}
								if len(sts) > 0 {
									return
								}
							}
						}
					}
					leaves = append(leaves, "un-normalised captured value "+p.Name)
				case p.Kind == "path":
					leaves = append(leaves, "un-normalised value "+p.Name)
				case p.Kind == "binop" || p.Kind == "convert" || p.Kind == "unop":
				default:
					if p.Inl != nil {
						walk(p.Inl)
					} else {
						leaves = append(leaves, "unrecognised key piece "+p.String())
					}
				}
			}
			walk(c.prov(keyV, &Frame{Fn: f}))
			if len(leaves) > 0 {
				bad++
				r.Fail(fmt.Sprintf("C15.keys:%s→%s", fname(f), what), c.instrPos(in), "storage key is not built from camel-cased pieces (%s): the same setting written in kebab/snake case would not be found", strings.Join(uniq(leaves), "; "))
			}
		})
	}
	if bad == 0 {
		r.OK("C15.keys:config-path", "%d storage accesses; every key is built from toCamelKey results, normalised constants, indices and prefixes", n)
	}
	r.Floor("storage accesses on the configuration path", n, 10)
}

// ---- bounds of non-constant index/slice operations

func (c *Ctx) checkConfigBoundsAll(r *Report, cfg map[*ssa.Function]bool) {
	n, bad := 0, 0
	for _, f := range sortedFuncs(cfg) {
		if f.Pkg != c.LogS && !(f.Parent() != nil && c.inModule(f)) {
			continue
		}
		if c.libraryIndexed[f] {
			continue // indices supplied by package sort/slices are in range by that package's contract
		}
		eachInstr(f, func(in ssa.Instruction) {
			switch x := in.(type) {
			case *ssa.Slice:
				if x.Low == nil && x.High == nil {
					return
				}
				if _, isArr := x.X.Type().Underlying().(*types.Pointer); isArr {
					return // slicing a local array (varargs)
				}
				n++
				if ok, why := c.proveSlice(f, x); !ok {
					bad++
					r.Fail(fmt.Sprintf("C15.bounds:%s#slice(%s)", fname(f), x.X.Name()), c.instrPos(in), "cannot prove the slice bounds for every configuration: %s", why)
				}
			case *ssa.IndexAddr:
				if _, isArr := x.X.Type().Underlying().(*types.Pointer); isArr {
					return
				}
				if _, isConst := constInt(x.Index); !isConst {
					// range loops index with a counter below len: recognised by the rangeindex idiom
					if strings.Contains(x.Block().Comment, "rangeindex") || strings.Contains(x.Block().Comment, "for.body") {
						return
					}
				}
				n++
				if ok, why := c.proveIndex(f, x.X, x.Index, in); !ok {
					bad++
					r.Fail(fmt.Sprintf("C15.bounds:%s#index(%s)", fname(f), x.X.Name()), c.instrPos(in), "cannot prove the index is in range for every configuration: %s", why)
				}
			case *ssa.Index:
				if isStringType(x.X.Type()) {
					n++
					if ok, why := c.proveIndex(f, x.X, x.Index, in); !ok {
						bad++
						r.Fail(fmt.Sprintf("C15.bounds:%s#index(%s)", fname(f), x.X.Name()), c.instrPos(in), "cannot prove the index is in range for every configuration: %s", why)
					}
				}
			}
		})
	}
	r.Count("bounds_sites", n)
	if bad == 0 {
		r.OK("C15.bounds:config-path", "%d non-trivial index/slice operations on the configuration path, all proved in range (linear facts from guards and string-library post-conditions)", n)
	}
}

// stringFacts: linear facts about len() of string values and results of strings.* calls in f.
func (c *Ctx) libFacts(f *ssa.Function, lc *linCtx) []Ineq {
	var facts []Ineq
	// monotone loop counters: `for i := a; …; i--` never exceeds a, `i++` never falls below a (induction on the
	// single update i ± k)
	eachInstr(f, func(in ssa.Instruction) {
		phi, ok := in.(*ssa.Phi)
		if !ok || len(phi.Edges) != 2 {
			return
		}
		if _, _, isInt := intBits(phi.Type()); !isInt {
			return
		}
		for i := 0; i < 2; i++ {
			upd, ok := phi.Edges[i].(*ssa.BinOp)
			if !ok || upd.X != ssa.Value(phi) || (upd.Op != token.ADD && upd.Op != token.SUB) {
				continue
			}
			k, ok := constInt(upd.Y)
			if !ok || k <= 0 {
				continue
			}
			back := phi.Block().Preds[i]
			if !(phi.Block() == back || phi.Block().Dominates(back)) {
				continue
			}
			init := lc.lin(phi.Edges[1-i], 0)
			if len(init) != 1 {
				continue
			}
			pv := linVar(lc.varName(phi))
			if upd.Op == token.SUB {
				facts = append(facts, Ineq{init[0].L.add(pv, -1)}) // phi <= init
			} else {
				facts = append(facts, Ineq{pv.add(init[0].L, -1)}) // phi >= init
			}
		}
	})
	eachInstr(f, func(in ssa.Instruction) {
		call, ok := in.(*ssa.Call)
		if !ok {
			return
		}
		if b, ok := call.Call.Value.(*ssa.Builtin); ok && b.Name() == "len" {
			facts = append(facts, Ineq{linVar(lc.varName(call))})
			// len of a concatenation with constant pieces
			if k := c.minLen(call.Call.Args[0], &Frame{Fn: f}, 0); k > 0 {
				facts = append(facts, Ineq{linVar(lc.varName(call)).add(linConst(k), -1)})
			}
			return
		}
		if calleeIs(call, "strings", "", "LastIndex") || calleeIs(call, "strings", "", "Index") {
			v := lc.varName(call)
			// r >= -1
			facts = append(facts, Ineq{linVar(v).add(linConst(1), 1)})
			// r <= len(s) - len(sep)
			if sep, ok := constString(call.Call.Args[1]); ok {
				lv := c.lenVarOf(call.Call.Args[0], f, lc)
				facts = append(facts, Ineq{linVar(lv).add(linVar(v), -1).add(linConst(int64(len(sep))), -1)})
				// r >= 0 when s certainly contains sep
				if c.certainlyContains(call.Call.Args[0], sep, f) {
					facts = append(facts, Ineq{linVar(v)})
				}
			}
		}
		// the byte / rune variants: -1 ≤ r ≤ len(s) − 1
		if calleeIs(call, "strings", "", "LastIndexByte") || calleeIs(call, "strings", "", "IndexByte") || calleeIs(call, "strings", "", "IndexRune") || calleeIs(call, "strings", "", "IndexAny") || calleeIs(call, "strings", "", "LastIndexAny") {
			v := lc.varName(call)
			facts = append(facts, Ineq{linVar(v).add(linConst(1), 1)})
			lv := c.lenVarOf(call.Call.Args[0], f, lc)
			facts = append(facts, Ineq{linVar(lv).add(linVar(v), -1).add(linConst(1), -1)})
		}
	})
	return facts
}

// lenVarOf: the linear variable naming len(v).
func (c *Ctx) lenVarOf(v ssa.Value, f *ssa.Function, lc *linCtx) string {
	// []byte(s) and string(b) have the length of their operand
	if cv, ok := v.(*ssa.Convert); ok && (isByteLike(cv.X.Type()) && isByteLike(cv.Type())) {
		return c.lenVarOf(cv.X, f, lc)
	}
	v = c.canonLoad(v)
	name := ""
	eachInstr(f, func(in ssa.Instruction) {
		if call, ok := in.(*ssa.Call); ok {
			if b, ok := call.Call.Value.(*ssa.Builtin); ok && b.Name() == "len" && c.canonLoad(call.Call.Args[0]) == v {
				name = lc.varName(call)
			}
		}
	})
	if name == "" {
		name = "len(" + v.Name() + ")"
		lc.vars[name] = v
	}
	return name
}

// minLen: a lower bound on the length of a string value from its constant pieces / prefix tests.
func (c *Ctx) minLen(v ssa.Value, fr *Frame, d int) int64 {
	p := c.prov(v, fr)
	var rec func(p *PNode) int64
	rec = func(p *PNode) int64 {
		p = p.eff()
		switch p.Kind {
		case "const":
			if s, ok := p.constString(); ok {
				return int64(len(s))
			}
		case "concat":
			var t int64
			for _, a := range p.Args {
				t += rec(a)
			}
			return t
		}
		return 0
	}
	return rec(p)
}

// certainlyContains: every call-site binding of v is a concatenation with a constant piece containing sep.
func (c *Ctx) certainlyContains(v ssa.Value, sep string, f *ssa.Function) bool {
	contains := func(p *PNode) bool {
		hit := false
		p.walk(func(n *PNode) {
			if s, ok := n.constString(); ok && strings.Contains(s, sep) {
				hit = true
			}
		})
		return hit
	}
	if prm, ok := v.(*ssa.Parameter); ok {
		idx := -1
		for i, q := range f.Params {
			if q == prm {
				idx = i
			}
		}
		// closures called through a cell: find call sites by resolving function values
		sites := c.callSitesOf(f)
		if len(sites) == 0 {
			for _, g := range c.Funcs {
				eachInstr(g, func(in ssa.Instruction) {
					if call, ok := in.(*ssa.Call); ok && call.Common().StaticCallee() == nil && !call.Common().IsInvoke() {
						fs, _ := c.resolveFuncValue(call.Call.Value, 0)
						for _, x := range fs {
							if x == f {
								sites = append(sites, call)
							}
						}
					}
				})
			}
		}
		if len(sites) == 0 || idx < 0 {
			return false
		}
		for _, s := range sites {
			args := s.Common().Args
			if idx >= len(args) || !contains(c.prov(args[idx], &Frame{Fn: s.Parent()})) {
				return false
			}
		}
		return true
	}
	return contains(c.prov(v, &Frame{Fn: f}))
}

// nonEmptyFacts: guards `s != ""` / `s == ""` on strings give len(s) ≥ 1 / len(s) = 0; combined
// HasPrefix/HasSuffix tests with non-overlapping constants give len(s) ≥ len(p)+len(q).
func (c *Ctx) nonEmptyFacts(at ssa.Instruction, f *ssa.Function, lc *linCtx) []Ineq {
	var out []Ineq
	pre, suf := map[ssa.Value]string{}, map[ssa.Value]string{}
	// early returns of the form `if s == "" { return }` dominate `at` on their false edge: guardsOf covers them
	for _, g := range guardsOfInstr(at) {
		if b, ok := g.Cond.(*ssa.BinOp); ok && (b.Op == token.EQL || b.Op == token.NEQ) && isStringType(b.X.Type()) {
			if s, ok := constString(b.Y); ok && s == "" {
				nonEmpty := (b.Op == token.NEQ) == g.Polarity
				lv := c.lenVarOf(b.X, f, lc)
				if nonEmpty {
					out = append(out, Ineq{linVar(lv).add(linConst(1), -1)})
				}
			}
		}
		if call, ok := g.Cond.(*ssa.Call); ok && g.Polarity {
			if k, ok := constString(callArg(call, 1)); ok {
				if calleeIs(call, "strings", "", "HasPrefix") {
					pre[call.Call.Args[0]] = k
				}
				if calleeIs(call, "strings", "", "HasSuffix") {
					suf[call.Call.Args[0]] = k
				}
			}
		}
	}
	for v, p := range pre {
		q, ok := suf[v]
		if !ok {
			continue
		}
		overlap := false
		for i := 1; i <= len(p) && i <= len(q); i++ {
			if p[len(p)-i:] == q[:i] {
				overlap = true
			}
		}
		if !overlap {
			out = append(out, Ineq{linVar(c.lenVarOf(v, f, lc)).add(linConst(int64(len(p)+len(q))), -1)})
		}
	}
	return out
}

func callArg(call *ssa.Call, i int) ssa.Value {
	if i < len(call.Call.Args) {
		return call.Call.Args[i]
	}
	return nil
}

func (c *Ctx) proveSlice(f *ssa.Function, x *ssa.Slice) (bool, string) {
	lc := &linCtx{c: c, fn: f, vars: map[string]ssa.Value{}}
	lenVar := c.lenVarOf(x.X, f, lc)
	facts := c.libFacts(f, lc)
	facts = append(facts, Ineq{linVar(lenVar)})
	facts = append(facts, c.nonEmptyFacts(x, f, lc)...)
	for _, g := range guardsOfInstr(x) {
		if fs, ok := lc.condFacts(g.Cond, g.Polarity); ok {
			facts = append(facts, fs...)
		}
		// HasPrefix/HasSuffix lemma
		facts = append(facts, c.prefixFacts(g, f, lc)...)
	}
	lows := []linAlt{{L: linConst(0)}}
	if x.Low != nil {
		lows = lc.lin(x.Low, 0)
	}
	highs := []linAlt{{L: linVar(lenVar)}}
	if x.High != nil {
		highs = lc.lin(x.High, 0)
	}
	for _, lo := range lows {
		for _, hi := range highs {
			fs := append(append(append([]Ineq{}, facts...), lo.Facts...), hi.Facts...)
			for _, g := range []struct {
				q Ineq
				t string
			}{{Ineq{lo.L}, "0 ≤ low"}, {Ineq{hi.L.add(lo.L, -1)}, "low ≤ high"}, {Ineq{linVar(lenVar).add(hi.L, -1)}, "high ≤ len"}} {
				if ok, wit := implies(fs, g.q); !ok {
					return false, fmt.Sprintf("%s not implied (low=%s high=%s len=%s); e.g. %s", g.t, lo.L, hi.L, lenVar, wit)
				}
			}
		}
	}
	return true, ""
}

// prefixFacts: HasPrefix(s,p) ∧ HasSuffix(s,q) with constants ⇒ len(s) ≥ len(p)+len(q) when no suffix of p is a prefix of q;
// a single test gives len(s) ≥ len(const).
func (c *Ctx) prefixFacts(g Guard, f *ssa.Function, lc *linCtx) []Ineq {
	call, ok := g.Cond.(*ssa.Call)
	if !ok || !g.Polarity {
		return nil
	}
	if !(calleeIs(call, "strings", "", "HasPrefix") || calleeIs(call, "strings", "", "HasSuffix")) {
		return nil
	}
	k, ok := constString(call.Call.Args[1])
	if !ok {
		return nil
	}
	lv := c.lenVarOf(call.Call.Args[0], f, lc)
	out := []Ineq{{linVar(lv).add(linConst(int64(len(k))), -1)}}
	// combine with a sibling test on the same string
	for _, g2 := range guardsOfInstr(call) {
		_ = g2
	}
	return out
}

func (c *Ctx) proveIndex(f *ssa.Function, base, idx ssa.Value, at ssa.Instruction) (bool, string) {
	lc := &linCtx{c: c, fn: f, vars: map[string]ssa.Value{}}
	lenVar := c.lenVarOf(base, f, lc)
	facts := c.libFacts(f, lc)
	facts = append(facts, Ineq{linVar(lenVar)})
	facts = append(facts, c.nonEmptyFacts(at, f, lc)...)
	// results of reflect.Value.Call on a Converter[T] func(string) (T, error): exactly two values
	if call, ok := base.(*ssa.Call); ok && calleeIs(call, "reflect", "Value", "Call") {
		facts = append(facts, Ineq{linVar(lenVar).add(linConst(2), -1)})
	}
	// strings.Split with a non-empty separator yields at least one element
	if ld, ok := base.(*ssa.Call); ok && calleeIs(ld, "strings", "", "Split") {
		if sep, ok := constString(ld.Call.Args[1]); ok && sep != "" {
			facts = append(facts, Ineq{linVar(lenVar).add(linConst(1), -1)})
		}
	}
	for _, g := range guardsOfInstr(at) {
		if fs, ok := lc.condFacts(g.Cond, g.Polarity); ok {
			facts = append(facts, fs...)
		}
	}
	// loop counters: for i := a; i < len(x); i++ — the dominating loop condition is among the guards
	is := lc.lin(idx, 0)
	for _, i := range is {
		fs := append(append([]Ineq{}, facts...), i.Facts...)
		if ok, wit := implies(fs, Ineq{i.L}); !ok {
			// loop phis starting at a non-negative constant and only incremented are non-negative
			if !c.nonNegativeCounter(idx) {
				return false, fmt.Sprintf("0 ≤ index not implied (index=%s); e.g. %s", i.L, wit)
			}
		}
		if ok, wit := implies(fs, Ineq{linVar(lenVar).add(i.L, -1).add(linConst(1), -1)}); !ok {
			return false, fmt.Sprintf("index < len not implied (index=%s, len=%s); e.g. %s", i.L, lenVar, wit)
		}
	}
	return true, ""
}

// nonNegativeCounter: v is a loop φ whose entry value is a non-negative constant and whose other edges add a positive constant.
func (c *Ctx) nonNegativeCounter(v ssa.Value) bool {
	phi, ok := v.(*ssa.Phi)
	if !ok {
		if b, ok := v.(*ssa.BinOp); ok && b.Op == token.ADD {
			if k, ok := constInt(b.Y); ok && k >= 0 {
				return c.nonNegativeCounter(b.X)
			}
		}
		return false
	}
	for _, e := range phi.Edges {
		if k, ok := constInt(e); ok {
			if k < -1 {
				return false
			}
			continue
		}
		b, ok := e.(*ssa.BinOp)
		if !ok || b.Op != token.ADD || b.X != phi {
			return false
		}
		if k, ok := constInt(b.Y); !ok || k <= 0 {
			return false
		}
	}
	return true
}

// freeVarCell: the Alloc bound to a free variable and the function that owns it.
func freeVarCell(fv *ssa.FreeVar) (*ssa.Alloc, *ssa.Function) {
	fn := fv.Parent()
	idx := -1
	for i, v := range fn.FreeVars {
		if v == fv {
			idx = i
		}
	}
	parent := fn.Parent()
	if parent == nil || idx < 0 {
		return nil, nil
	}
	var cell *ssa.Alloc
	eachInstr(parent, func(in ssa.Instruction) {
		if mc, ok := in.(*ssa.MakeClosure); ok && mc.Fn == fn {
			cell, _ = mc.Bindings[idx].(*ssa.Alloc)
		}
	})
	return cell, parent
}

func predsOf(b *ssa.BasicBlock) []*ssa.BasicBlock {
	if b == nil {
		return nil
	}
	return b.Preds
}

// isCompilerPanic: the panic is the guard the compiler inserts into range-over-func loops ("yield function called after
// range loop exit" and friends), not one the programmer wrote.
func isCompilerPanic(p *ssa.Panic) bool {
	if strings.Contains(p.Block().Comment, "yield") || strings.HasPrefix(p.Block().Comment, "rangefunc") {
		return true
	}
	if mi, ok := p.X.(*ssa.MakeInterface); ok {
		if s, ok := constString(mi.X); ok && (strings.HasPrefix(s, "yield function called after range loop exit") || strings.Contains(s, "range function continued iteration") || strings.Contains(s, "iterator call did not preserve panic")) {
			return true
		}
	}
	// the generated "exit" dispatch of a range-over-func body re-panics with a runtime error value
	if strings.Contains(p.X.Type().String(), "runtime.") {
		return true
	}
	return false
}
