package main

// rules_async.go: C04 (conservation), C05 (stop/flush/descriptors), C06 (order and overflow policy).

import (
	"fmt"
	"go/constant"
	"go/token"
	"go/types"
	"os"
	"sort"
	"strings"

	"golang.org/x/tools/go/ssa"
)

func init() {
	register("C04", checkC04)
	register("C05", checkC05)
	register("C06", checkC06)
}

// asyncInfo gathers the async logger's anchors by role.
type asyncInfo struct {
	T        *types.Named
	Buf      *types.Var // channel the worker receives from
	Counter  *types.Var // field passed to atomic.Add*
	PolicyF  *types.Var // field of a named integer type with declared constants, switched on in the overflow handler
	Policies []*ssa.NamedConst
	Append   *ssa.Function
	Write    *ssa.Function
	Stop     *ssa.Function
	Start    *ssa.Function
	Worker   *ssa.Function
	PutEvent *ssa.Function
	// assumeFull makes runProducer explore only the paths on which the first non-blocking send attempt finds the
	// queue full (the overflow policy is what happens then)
	assumeFull bool
	// assumeSpace explores only the paths on which every non-blocking send attempt succeeds (the queue never fills)
	assumeSpace bool
}

func (c *Ctx) asyncInfo(ro *Roles, r *Report) *asyncInfo {
	if ro.WorkerOwner == nil || ro.Worker == nil || ro.BufField == nil {
		r.Undecided(r.Prop+".anchor:async-worker", "", "no asynchronous logger found (a Lifecycle type whose Start launches a goroutine receiving from a channel field)")
		return nil
	}
	a := &asyncInfo{T: ro.WorkerOwner, Buf: ro.BufField, Worker: ro.Worker}
	a.Append = c.declaredMethod(a.T, "Append")
	a.Write = c.declaredMethod(a.T, "Write")
	a.Stop = c.declaredMethod(a.T, "Stop")
	a.Start = c.declaredMethod(a.T, "Start")
	a.PutEvent = c.logFunc("PutEvent")
	st := a.T.Underlying().(*types.Struct)
	// counter: field whose address is passed to sync/atomic.Add*
	for _, f := range c.Funcs {
		if recvNamed(f) != a.T && (f.Parent() == nil || recvNamed(f.Parent()) != a.T) {
			continue
		}
		eachInstr(f, func(in ssa.Instruction) {
			if call, ok := in.(*ssa.Call); ok {
				if s := call.Common().StaticCallee(); s != nil && s.Object() != nil && s.Object().Pkg() != nil && s.Object().Pkg().Path() == "sync/atomic" && strings.HasPrefix(s.Name(), "Add") {
					if fa, ok := call.Call.Args[0].(*ssa.FieldAddr); ok {
						a.Counter = fieldOfAddr(fa)
					}
				}
			}
		})
	}
	for i := 0; i < st.NumFields(); i++ {
		ft, ok := st.Field(i).Type().(*types.Named)
		if !ok || ft.Obj().Pkg() == nil || ft.Obj().Pkg().Path() != logPath {
			continue
		}
		if b, ok := ft.Underlying().(*types.Basic); !ok || b.Info()&types.IsInteger == 0 {
			continue
		}
		var ks []*ssa.NamedConst
		for _, m := range c.LogS.Members {
			if nc, ok := m.(*ssa.NamedConst); ok && types.Identical(nc.Type(), ft) {
				ks = append(ks, nc)
			}
		}
		if len(ks) >= 2 {
			sort.Slice(ks, func(i, j int) bool { return ks[i].Name() < ks[j].Name() })
			a.PolicyF, a.Policies = st.Field(i), ks
		}
	}
	var miss []string
	if a.Append == nil || a.Write == nil || a.Stop == nil {
		miss = append(miss, "Append/Write/Stop")
	}
	if a.Counter == nil {
		miss = append(miss, "discard counter")
	}
	if a.PolicyF == nil {
		miss = append(miss, "overflow policy field")
	}
	if len(miss) > 0 {
		r.Undecided(r.Prop+".anchor:async-logger", c.pos(a.T.Obj().Pos()), "cannot resolve %s of %s", strings.Join(miss, ", "), a.T.Obj().Name())
		return nil
	}
	for _, f := range []*ssa.Function{a.Append, a.Write, a.Stop, a.Start, a.Worker} {
		r.SawFunc(f)
	}
	return a
}

// isFieldLoad: v is a load of the given struct field.
func isFieldLoad(v ssa.Value, f *types.Var) bool {
	ld, ok := v.(*ssa.UnOp)
	if !ok || ld.Op != token.MUL {
		return false
	}
	fa, ok := ld.X.(*ssa.FieldAddr)
	return ok && fieldOfAddr(fa) == f
}

// rootVal strips interface boxing / assertions / tuple extraction and binds parameters to the caller's value.
func rootVal(v ssa.Value, fr *Frame) (ssa.Value, *Frame) {
	for i := 0; i < 20; i++ {
		switch x := v.(type) {
		case *ssa.MakeInterface:
			v = x.X
		case *ssa.ChangeInterface:
			v = x.X
		case *ssa.ChangeType:
			v = x.X
		case *ssa.TypeAssert:
			v = x.X
		case *ssa.Extract:
			if ta, ok := x.Tuple.(*ssa.TypeAssert); ok {
				v = ta.X
			} else {
				return v, fr
			}
		case *ssa.Parameter:
			if a, ok := fr.actualArg(x); ok {
				v, fr = a, fr.Parent
			} else {
				return v, fr
			}
		case *ssa.UnOp:
			// a load from a local that is written once as a whole (a spilled struct parameter, `x := y`)
			if al, ok := x.X.(*ssa.Alloc); ok && x.Op == token.MUL {
				if sts := storesTo(al); len(sts) == 1 {
					v = sts[0].Val
					continue
				}
			}
			return v, fr
		case *ssa.Phi:
			// phi whose edges share one root
			var r0 ssa.Value
			same := true
			for _, e := range x.Edges {
				rv, _ := rootVal(e, fr)
				if r0 == nil {
					r0 = rv
				} else if rv != r0 {
					same = false
				}
			}
			if same && r0 != nil {
				return r0, fr
			}
			return v, fr
		default:
			return v, fr
		}
	}
	return v, fr
}

// producer state
type pstate struct {
	enq, cntv, deq, cntd int
	gate                 string // "", "T", "F"
	blk                  bool   // a blocking channel operation happened
	tried                bool   // a non-blocking send on the queue was attempted on this path
	rem                  bool   // an item was removed from the queue on this path (sticky)
	bad                  string
}

func (p pstate) String() string {
	return fmt.Sprintf("enq=%d;cntv=%d;deq=%d;cntd=%d;g=%s;blk=%v;tried=%v;rem=%v;bad=%s", p.enq, p.cntv, p.deq, p.cntd, p.gate, p.blk, p.tried, p.rem, p.bad)
}

func parsePstate(s string) pstate {
	var p pstate
	if s == "" {
		return p
	}
	for _, kv := range strings.Split(s, ";") {
		i := strings.Index(kv, "=")
		k, v := kv[:i], kv[i+1:]
		n := 0
		fmt.Sscanf(v, "%d", &n)
		switch k {
		case "enq":
			p.enq = n
		case "cntv":
			p.cntv = n
		case "deq":
			p.deq = n
		case "cntd":
			p.cntd = n
		case "g":
			p.gate = v
		case "blk":
			p.blk = v == "true"
		case "tried":
			p.tried = v == "true"
		case "rem":
			p.rem = v == "true"
		case "bad":
			p.bad = v
		}
	}
	return p
}

func sat(n int) int {
	if n > 2 {
		return 2
	}
	return n
}

type prodOut struct {
	st    pstate
	kind  string
	trail []string
}

// runProducer explores a producer entry (Append/Write) under a fixed overflow policy.
func (c *Ctx) runProducer(a *asyncInfo, ro *Roles, root *ssa.Function, policy constant.Value, r *Report) ([]prodOut, []string) {
	submitted := root.Params[1]
	ev := &Evaluator{Assume: func(v ssa.Value, fr *Frame) (constant.Value, bool) {
		if policy != nil && isFieldLoad(v, a.PolicyF) {
			return policy, true
		}
		return nil, false
	}}
	ts := &TS{C: c, Ev: ev}
	ts.Inline = func(s *TSCtx, call ssa.CallInstruction, callee *ssa.Function) bool {
		if callee == ro.Enable || callee == a.PutEvent {
			return false
		}
		return call.Common().StaticCallee() != nil && recvNamed(callee) == a.T
	}
	isSubmitted := func(v ssa.Value, fr *Frame) bool {
		rv, rfr := rootVal(v, fr)
		// a copy of the submitted bytes is the submitted item
		for i := 0; i < 4; i++ {
			call, ok := rv.(*ssa.Call)
			if !ok {
				break
			}
			src, isCopy := copySource(call)
			if !isCopy {
				break
			}
			rv, rfr = rootVal(src, rfr)
		}
		if rv == submitted {
			return true
		}
		// the item wrapped in a struct literal (a typed queue element): one of its fields is the submitted item
		if ld, ok := rv.(*ssa.UnOp); ok && ld.Op == token.MUL {
			if al, ok := ld.X.(*ssa.Alloc); ok && al.Referrers() != nil {
				if _, isStruct := al.Type().Underlying().(*types.Pointer).Elem().Underlying().(*types.Struct); isStruct {
					for _, rr := range *al.Referrers() {
						if fa, ok := rr.(*ssa.FieldAddr); ok {
							for _, st := range storesTo(fa) {
								fv, ffr := rootVal(st.Val, rfr)
								for i := 0; i < 4; i++ {
									call, ok := fv.(*ssa.Call)
									if !ok {
										break
									}
									src, isCopy := copySource(call)
									if !isCopy {
										break
									}
									fv, ffr = rootVal(src, ffr)
								}
								if fv == submitted {
									return true
								}
							}
						}
					}
				}
			}
		}
		return false
	}
	ts.OnBranch = func(s *TSCtx, iff *ssa.If, taken bool) (string, bool) {
		cond, pol := iff.Cond, taken
		for {
			u, ok := cond.(*ssa.UnOp)
			if !ok || u.Op != token.NOT {
				break
			}
			cond, pol = u.X, !pol
		}
		if _, _, isGate := c.gateOf(cond, ro, s.Frame); isGate {
			p := parsePstate(s.A)
			if pol {
				p.gate = "T"
			} else {
				p.gate = "F"
			}
			return p.String(), true
		}
		return "", false
	}
	ts.OnSelect = func(s *TSCtx, sel *ssa.Select, chosen int) []string {
		p := parsePstate(s.A)
		if sel.Blocking {
			p.blk = true
		}
		if !sel.Blocking {
			hasSend := false
			for _, st := range sel.States {
				if st.Dir == types.SendOnly && chanFieldOf(st.Chan) == a.Buf {
					hasSend = true
				}
			}
			if hasSend {
				if a.assumeFull && !p.tried && chosen >= 0 && sel.States[chosen].Dir == types.SendOnly && chanFieldOf(sel.States[chosen].Chan) == a.Buf {
					return []string{} // the queue is full at the first attempt: this outcome is not explored
				}
				if a.assumeSpace && !(chosen >= 0 && sel.States[chosen].Dir == types.SendOnly && chanFieldOf(sel.States[chosen].Chan) == a.Buf) {
					return []string{} // there is room: a send attempt does not fail
				}
				p.tried = true
			}
		}
		if chosen >= 0 {
			st := sel.States[chosen]
			if chanFieldOf(st.Chan) == a.Buf {
				if st.Dir == types.SendOnly {
					if isSubmitted(st.Send, s.Frame) {
						p.enq = sat(p.enq + 1)
						s.Trail = append(append([]string{}, s.Trail...), "ENQ(select) "+c.instrPos(sel))
					} else {
						p.bad = "a value other than the submitted item is enqueued"
					}
				} else {
					p.deq = sat(p.deq + 1)
					p.rem = true
					s.Trail = append(append([]string{}, s.Trail...), "DEQ "+c.instrPos(sel))
				}
			}
		}
		return []string{p.String()}
	}
	ts.OnInstr = func(s *TSCtx, in ssa.Instruction) []string {
		p := parsePstate(s.A)
		switch x := in.(type) {
		case *ssa.Send:
			p.blk = true
			if chanFieldOf(x.Chan) == a.Buf {
				if isSubmitted(x.X, s.Frame) {
					p.enq = sat(p.enq + 1)
					s.Trail = append(append([]string{}, s.Trail...), "ENQ(blocking) "+c.instrPos(in))
				} else {
					p.bad = "a value other than the submitted item is enqueued"
				}
			}
			return []string{p.String()}
		case *ssa.UnOp:
			if x.Op == token.ARROW {
				p.blk = true
				if chanFieldOf(x.X) == a.Buf {
					p.deq = sat(p.deq + 1)
					p.rem = true
				}
				return []string{p.String()}
			}
		case ssa.CallInstruction:
			if f := x.Common().StaticCallee(); f != nil && f.Object() != nil && f.Object().Pkg() != nil && f.Object().Pkg().Path() == "sync/atomic" {
				if fa, ok := x.Common().Args[0].(*ssa.FieldAddr); ok && fieldOfAddr(fa) == a.Counter {
					if strings.HasPrefix(f.Name(), "Add") {
						d, ok := constInt(x.Common().Args[1])
						if !ok || d != 1 {
							p.bad = fmt.Sprintf("discard counter changed by %d", d)
						}
						if p.deq > p.cntd {
							p.cntd = sat(p.cntd + 1)
						} else {
							p.cntv = sat(p.cntv + 1)
						}
						if p.deq == p.cntd && p.deq > 0 && p.bad == "" {
							p.deq, p.cntd = 0, 0 // balanced: keep the automaton finite
						}
						s.Trail = append(append([]string{}, s.Trail...), "CNT "+c.instrPos(in))
						return []string{p.String()}
					}
				}
			}
		}
		return nil
	}
	ts.OnJump = func(s *TSCtx, from, to *ssa.BasicBlock) (string, bool) {
		// leaving an iteration with a removed-but-uncounted item is an error even if a later iteration would count
		if to == from || to.Dominates(from) {
			p := parsePstate(s.A)
			if p.deq != p.cntd && p.bad == "" {
				p.bad = "an item removed from the queue is not counted before the next iteration"
				return p.String(), true
			}
		}
		return "", false
	}
	outs := ts.Run(root, pstate{}.String(), nil)
	if r != nil {
		r.Count("typestate_states", ts.States)
	}
	var res []prodOut
	for _, o := range outs {
		res = append(res, prodOut{parsePstate(o.A), o.Kind, o.Trail})
	}
	return res, ts.Truncated
}

func policyName(k *ssa.NamedConst) string { return strings.TrimPrefix(k.Name(), "BufferFullPolicy") }

func checkC04(c *Ctx, r *Report) {
	r.Explanation = "decided by typestate simulation of each submitted item through the producer code (non-blocking enqueue, overflow handler inlined, one run per overflow-policy constant) and through the worker: at every return of Append (enabled branch) and Write the item is in exactly one of the states enqueued (one send on the buffer, not counted) or counted (no send, discard counter +1 exactly once); every item removed from the queue by a producer is counted exactly once before anything else happens; under Block the counter is never touched; on the disabled branch nothing is enqueued or counted; in the worker every received item other than the stop marker reaches exactly one fan-out, and only *Event and []byte are ever sent on the buffer; the counter is touched only by atomic +1 and atomic load. Not decided: Go channel semantics (FIFO, no loss), producers racing with Stop."
	r.Undecidedcl = []string{"delivered + discarded = submitted as a count over real schedules (follows from per-item exactly-once plus channel semantics, which are trusted)", "producers that race with Stop"}
	r.Assumptions = []string{"Go channels neither lose nor duplicate items", "atomic.AddInt64 is atomic"}
	ro := c.roles(r)
	if c.checkAsyncSemantics(r, ro, "C04.async-values") {
		r.Decide([]string{"C04.producer:", "C04.worker:", "C04.send-types:", "C04.removals:", "C04.anchor:"}, nil, "the queueing logger evaluated under scripted schedules: conservation, order, policies, Stop")
	}
	a := c.asyncInfo(ro, r)
	if a == nil {
		return
	}
	r.Floor("overflow policy constants", len(a.Policies), 3)
	for _, root := range []*ssa.Function{a.Append, a.Write} {
		for _, pk := range a.Policies {
			key := fmt.Sprintf("C04.producer:%s[%s]", fname(root), policyName(pk))
			outs, trunc := c.runProducer(a, ro, root, pk.Value.Value, r)
			if len(trunc) > 0 {
				r.Undecided(key, c.pos(root.Pos()), "exploration truncated: %v", trunc)
				continue
			}
			r.Count("paths_enumerated", len(outs))
			var bad []string
			ends := map[string]bool{}
			for _, o := range outs {
				p := o.st
				if o.kind != "return" {
					bad = append(bad, "panic exit")
					continue
				}
				switch {
				case p.bad != "":
					bad = append(bad, p.bad)
				case p.deq != p.cntd:
					bad = append(bad, fmt.Sprintf("an item removed from the queue is not counted exactly once (removed=%d counted=%d): %v", p.deq, p.cntd, o.trail))
				case p.gate == "F":
					if p.enq != 0 || p.cntv != 0 {
						bad = append(bad, fmt.Sprintf("disabled level: enq=%d counted=%d (want neither)", p.enq, p.cntv))
					} else {
						ends["disabled"] = true
					}
				case p.enq == 1 && p.cntv == 0:
					ends["enqueued"] = true
				case p.enq == 0 && p.cntv == 1:
					ends["counted"] = true
				default:
					bad = append(bad, fmt.Sprintf("item ends with enqueued=%d counted=%d (want exactly one of the two): %v", p.enq, p.cntv, o.trail))
				}
			}
			if len(bad) > 0 {
				r.Fail(key, c.pos(root.Pos()), "%s", strings.Join(firstN(uniq(bad), 3), "; "))
			} else {
				var es []string
				for e := range ends {
					es = append(es, e)
				}
				sort.Strings(es)
				r.OK(key, "%d exit state(s), end states %v; removals counted one-for-one", len(outs), es)
			}
			// Block: no CNT at all
			if pv, _ := constant.Int64Val(pk.Value.Value); policyName(pk) == "Block" || pv == 0 && policyName(pk) == "" {
				keyB := fmt.Sprintf("C04.block:%s", fname(root))
				cnt := false
				for _, o := range outs {
					if o.st.cntv > 0 || o.st.cntd > 0 || o.st.deq > 0 {
						cnt = true
					}
				}
				if cnt {
					r.Fail(keyB, c.pos(root.Pos()), "under the Block policy a path touches the discard counter or removes an item")
				} else {
					r.OK(keyB, "no counter update and no removal on any path under Block")
				}
			}
		}
	}
	// the disabled branch exists for Append
	c.checkWorkerItems(r, ro, a, "C04.worker")
	// only *Event and []byte are sent
	var sendTypes []string
	okTypes := true
	for _, f := range c.Funcs {
		eachInstr(f, func(in ssa.Instruction) {
			var vals []ssa.Value
			switch x := in.(type) {
			case *ssa.Send:
				if chanFieldOf(x.Chan) == a.Buf {
					vals = append(vals, x.X)
				}
			case *ssa.Select:
				for _, st := range x.States {
					if st.Dir == types.SendOnly && chanFieldOf(st.Chan) == a.Buf {
						vals = append(vals, st.Send)
					}
				}
			}
			for _, v := range vals {
				// trace back through interface boxing and through parameters of the helpers that enqueue
				// (overflow handler, an extracted enqueue function) to what the callers pass
				var trace func(v ssa.Value, d int)
				trace = func(v ssa.Value, d int) {
					rv, _ := rootVal(v, nil)
					if p, ok := rv.(*ssa.Parameter); ok && d < 4 && len(c.callSitesOf(p.Parent())) > 0 {
						idx := 0
						for i, q := range p.Parent().Params {
							if q == p {
								idx = i
							}
						}
						for _, cs := range c.callSitesOf(p.Parent()) {
							trace(cs.Common().Args[idx], d+1)
						}
						return
					}
					t := rv.Type()
					sendTypes = append(sendTypes, types.TypeString(t, shortQual))
					okT := func(t types.Type) bool {
						_, isSlice := t.Underlying().(*types.Slice)
						return isEventPtr(t) || (isByteLike(t) && isSlice) // a string would not match the worker's []byte case
					}
					if st, isStruct := t.Underlying().(*types.Struct); isStruct && st.NumFields() == 2 && okT(st.Field(0).Type()) && okT(st.Field(1).Type()) && !types.Identical(st.Field(0).Type(), st.Field(1).Type()) {
						// a typed queue element holding either an event or raw bytes
					} else if !okT(t) {
						okTypes = false
					}
				}
				trace(v, 0)
			}
		})
	}
	sort.Strings(sendTypes)
	if okTypes && len(sendTypes) > 0 {
		r.OK("C04.worker:send-types", "%d send operands on the buffer, all *Event or []byte: %v", len(sendTypes), uniq(sendTypes))
	} else {
		r.Fail("C04.worker:send-types", c.pos(a.T.Obj().Pos()), "values of other types are sent on the buffer (%v): the worker's type switch would drop them silently", uniq(sendTypes))
	}
	r.Floor("sends on the buffer channel", len(sendTypes), 2)
	// counter discipline
	nAcc := 0
	badAcc := 0
	for _, f := range c.Funcs {
		eachInstr(f, func(in ssa.Instruction) {
			fa, ok := in.(*ssa.FieldAddr)
			if !ok || fieldOfAddr(fa) != a.Counter {
				return
			}
			if refs := fa.Referrers(); refs != nil {
				for _, u := range *refs {
					nAcc++
					call, ok := u.(*ssa.Call)
					good := false
					if ok {
						if s := call.Common().StaticCallee(); s != nil && s.Object() != nil && s.Object().Pkg() != nil && s.Object().Pkg().Path() == "sync/atomic" {
							if strings.HasPrefix(s.Name(), "Load") {
								good = true
							}
							if strings.HasPrefix(s.Name(), "Add") {
								if d, ok := constInt(call.Call.Args[1]); ok && d == 1 {
									good = true
								}
							}
						}
					}
					if !good {
						badAcc++
						r.Fail("C04.counter:"+fname(f), c.instrPos(u), "discard counter accessed other than by atomic +1 / atomic load")
					}
				}
			}
		})
	}
	if badAcc == 0 {
		r.OK("C04.counter:"+a.T.Obj().Name()+"."+a.Counter.Name(), "%d accesses, all atomic.Add(+1) or atomic.Load", nAcc)
	}
	r.Floor("discard counter accesses", nAcc, 2) // at least one increment and the accessor's load
}

// checkWorkerItems: per received item, exactly one fan-out unless it is the marker.
func (c *Ctx) checkWorkerItems(r *Report, ro *Roles, a *asyncInfo, rule string) {
	w := a.Worker
	key := rule + ":" + fname(w)
	// the worker loop: the innermost natural loop around the receive(s) from the buffer (a `for v := range ch` loop
	// receives in its own header; a `for { select { case v = <-ch: … } }` loop receives somewhere in its body)
	// … in the worker function itself or in an unexported helper it was moved to (`go func() { c.drain(); close(done) }()`)
	loopFn := w
	hasRecv := func(f *ssa.Function) bool {
		found := false
		eachInstr(f, func(in ssa.Instruction) {
			switch x := in.(type) {
			case *ssa.UnOp:
				if x.Op == token.ARROW && chanFieldOf(x.X) == a.Buf {
					found = true
				}
			case *ssa.Select:
				for _, st := range x.States {
					if st.Dir == types.RecvOnly && chanFieldOf(st.Chan) == a.Buf {
						found = true
					}
				}
			}
		})
		return found
	}
	if !hasRecv(w) {
		seen := map[*ssa.Function]bool{w: true}
		frontier := []*ssa.Function{w}
		for d := 0; d < 3 && loopFn == w; d++ {
			var next []*ssa.Function
			for _, f := range frontier {
				for _, g := range c.moduleCallees(f) {
					if seen[g] || g.Object() == nil || (g.Object().Exported() && recvNamed(g) != a.T) {
						continue
					}
					seen[g] = true
					if hasRecv(g) && loopFn == w {
						loopFn = g
					}
					next = append(next, g)
				}
			}
			frontier = next
		}
	}
	var recvBlocks []*ssa.BasicBlock
	for _, b := range loopFn.Blocks {
		for _, in := range b.Instrs {
			switch x := in.(type) {
			case *ssa.UnOp:
				if x.Op == token.ARROW && chanFieldOf(x.X) == a.Buf {
					recvBlocks = append(recvBlocks, b)
				}
			case *ssa.Select:
				for _, st := range x.States {
					if st.Dir == types.RecvOnly && chanFieldOf(st.Chan) == a.Buf {
						recvBlocks = append(recvBlocks, b)
					}
				}
			}
		}
	}
	var header *ssa.BasicBlock
	if len(recvBlocks) > 0 {
		for _, b := range loopFn.Blocks {
			isHeader := false
			for _, p := range b.Preds {
				if b == p || b.Dominates(p) {
					isHeader = true
				}
			}
			if !isHeader {
				continue
			}
			all := true
			for _, rb := range recvBlocks {
				if !(b == rb || b.Dominates(rb)) || !blockInLoop(rb, b) {
					all = false
				}
			}
			if all && (header == nil || header.Dominates(b)) {
				header = b
			}
		}
	}
	if header == nil {
		r.Undecided(key, c.pos(w.Pos()), "worker loop (a loop around the receive from the buffer) not found")
		return
	}
	refAppend, refWrite := c.declaredMethod(ro.AppenderRef, "Append"), c.declaredMethod(ro.AppenderRef, "Write")
	// a fan-out is a function that itself (or in a function literal of its own: an iterator callback, a
	// range-over-func body) hands the item to appenders — through the reference's Append/Write or directly through
	// the reference's embedded appender
	directHit := func(f *ssa.Function) bool {
		hit := false
		scan := func(g *ssa.Function) {
			eachInstr(g, func(in ssa.Instruction) {
				ci, ok := in.(ssa.CallInstruction)
				if !ok {
					return
				}
				com := ci.Common()
				if s := com.StaticCallee(); s != nil && (s == refAppend || s == refWrite) {
					hit = true
				}
				if com.IsInvoke() && (com.Method.Name() == "Append" || com.Method.Name() == "Write") && c.moduleIface(com.Value.Type()) {
					hit = true
				}
			})
		}
		scan(f)
		for _, an := range f.AnonFuncs {
			scan(an)
		}
		return hit
	}
	isFan := func(f *ssa.Function) bool {
		return f != nil && len(f.Blocks) > 0 && c.inModule(f) && recvNamed(f) != ro.AppenderRef && f.Parent() == nil && directHit(f)
	}
	reachesFan := map[*ssa.Function]bool{}
	var reaches func(f *ssa.Function, d int) bool
	reaches = func(f *ssa.Function, d int) bool {
		if f == nil || d > 4 || len(f.Blocks) == 0 || !c.inModule(f) {
			return false
		}
		if v, ok := reachesFan[f]; ok {
			return v
		}
		reachesFan[f] = false
		hit := isFan(f) || f == a.PutEvent
		for _, g := range c.moduleCallees(f) {
			if reaches(g, d+1) {
				hit = true
			}
		}
		reachesFan[f] = hit
		return hit
	}
	records := map[string]bool{}
	exits := map[string]bool{}
	ts := &TS{C: c, Ev: &Evaluator{}}
	// helpers the worker's loop body was split into (deliver, dispatch, consume, publish …) are part of the worker
	ts.Inline = func(s *TSCtx, call ssa.CallInstruction, callee *ssa.Function) bool {
		if call.Common().StaticCallee() == nil || isFan(callee) || callee == a.PutEvent || ro.AppenderRef == recvNamed(callee) {
			return false
		}
		if callee.Object() != nil && callee.Object().Exported() && recvNamed(callee) != a.T {
			return false
		}
		return reaches(callee, 0) || callee == loopFn
	}
	ts.OnInstr = func(s *TSCtx, in ssa.Instruction) []string {
		switch x := in.(type) {
		case ssa.CallInstruction:
			if f := x.Common().StaticCallee(); f != nil {
				if isFan(f) {
					kind := "F(raw)"
					for _, arg := range x.Common().Args {
						if isEventPtr(arg.Type()) {
							kind = "F(event)"
						}
						if call, ok := arg.(*ssa.Call); ok && call.Common().IsInvoke() && call.Common().Method.Name() == "ToBytes" {
							kind = "F(event-bytes)"
						}
					}
					if strings.Count(s.A, "F(") >= 3 {
						return nil
					}
					return []string{s.A + kind + ";"}
				}
				if f == a.PutEvent {
					return []string{s.A + "PUT;"}
				}
			}
			if b, ok := x.Common().Value.(*ssa.Builtin); ok && b.Name() == "close" {
				return []string{s.A + "CLOSE(" + c.accessPath(x.Common().Args[0], s.Frame) + ");"}
			}
			if isGoStart(in) {
				return []string{s.A + "GO;"}
			}
		}
		return nil
	}
	// a worker that receives in a select: the iteration takes an item only when the buffer's case is chosen; other
	// cases (a ticker, a default) are idle iterations
	ts.OnSelect = func(s *TSCtx, sel *ssa.Select, chosen int) []string {
		bufState := -1
		for i, st := range sel.States {
			if st.Dir == types.RecvOnly && chanFieldOf(st.Chan) == a.Buf {
				bufState = i
			}
		}
		if bufState < 0 {
			return nil
		}
		if chosen == bufState {
			return []string{s.A + "RECV;"}
		}
		return []string{s.A + "IDLE;"}
	}
	recvOK := func(v ssa.Value) (isOK bool, negated bool) {
		if u, ok := v.(*ssa.UnOp); ok && u.Op == token.NOT {
			v, negated = u.X, true
		}
		ex, ok := v.(*ssa.Extract)
		if !ok || ex.Index != 1 {
			return false, false
		}
		switch t := ex.Tuple.(type) {
		case *ssa.Select:
			return true, negated
		case *ssa.UnOp:
			return t.Op == token.ARROW && t.CommaOk && chanFieldOf(t.X) == a.Buf, negated
		}
		return false, false
	}
	ts.OnBranch = func(s *TSCtx, iff *ssa.If, taken bool) (string, bool) {
		na := s.A
		ch := false
		if bo, ok := iff.Cond.(*ssa.BinOp); ok {
			for _, o := range []ssa.Value{bo.X, bo.Y} {
				if ex, ok := o.(*ssa.Extract); ok && ex.Index == 0 {
					if _, isSel := ex.Tuple.(*ssa.Select); isSel {
						return na, false // dispatch on the chosen select case: decided by OnSelect
					}
				}
			}
		}
		if isOK, neg := recvOK(iff.Cond); isOK && iff.Block() != header {
			if taken != neg { // the channel delivered a value
				return na, false
			}
			return na + "EXIT(closed);", true
		}
		if iff.Block() == header {
			// ok / !ok of the receive
			if taken {
				if s.A != "" {
					records[s.A] = true
				}
				return "", true
			}
			return "EXIT(closed);", true
		}
		switch x := iff.Cond.(type) {
		case *ssa.BinOp:
			// marker test: received item == recv.<marker field>
			px, py := c.accessPath(x.X, s.Frame), c.accessPath(x.Y, s.Frame)
			if (strings.Contains(px, "<-") || strings.Contains(py, "<-")) && (x.Op == token.EQL || x.Op == token.NEQ) {
				isM := (x.Op == token.EQL) == taken
				other, item := px, x.Y
				if strings.Contains(px, "<-") {
					other, item = py, x.X
				}
				if other == "nil" {
					// `item.field != nil`: which kind of item this is (a typed queue element with one field per kind)
					ft := item.Type()
					present := !isM
					na, ch = na+fmt.Sprintf("is(%s)=%v;", types.TypeString(ft, shortQual), present), true
					if st := itemStruct(item); st != nil && st.NumFields() == 2 && !present {
						for i := 0; i < 2; i++ {
							if !types.Identical(st.Field(i).Type(), ft) {
								na += fmt.Sprintf("is(%s)=true;", types.TypeString(st.Field(i).Type(), shortQual))
							}
						}
					}
				} else {
					na, ch = na+fmt.Sprintf("marker(%s)=%v;", other, isM), true
				}
			}
		case *ssa.Extract:
			if ta, ok := x.Tuple.(*ssa.TypeAssert); ok && x.Index == 1 {
				na, ch = na+fmt.Sprintf("is(%s)=%v;", types.TypeString(ta.AssertedType, shortQual), taken), true
			}
		default:
			p := c.accessPath(iff.Cond, s.Frame)
			if !strings.Contains(p, "Layout") {
				na, ch = na+fmt.Sprintf("cond(%s)=%v;", p, taken), true
			}
		}
		if bo, ok := iff.Cond.(*ssa.BinOp); ok {
			p := c.accessPath(bo.X, s.Frame)
			if !strings.Contains(p, "Layout") && !strings.Contains(na, "marker(") && !ch {
				na, ch = na+fmt.Sprintf("cond(%s)=%v;", p, taken), true
			}
		}
		succ := iff.Block().Succs[1]
		if taken {
			succ = iff.Block().Succs[0]
		}
		if blockInLoop(iff.Block(), header) && succ != header && !blockInLoop(succ, header) {
			exits[na] = true
			na, ch = na+"AFTER;", true
		}
		if succ == header && iff.Block() != loopFn.Blocks[0] {
			// a conditional back edge (`if … { … }` as the last statement of the loop body): the iteration ends here
			records[na] = true
			return "", true
		}
		return na, ch
	}
	ts.OnJump = func(s *TSCtx, from, to *ssa.BasicBlock) (string, bool) {
		if to == header && from != loopFn.Blocks[0] {
			records[s.A] = true
			return "", true
		}
		if !header.Dominates(to) || (to != header && !blockInLoop(to, header)) {
			// leaving the loop
			if blockInLoop(from, header) {
				exits[s.A] = true
				return "AFTER;", true
			}
		}
		return "", false
	}
	outs := ts.Run(w, "", nil)
	r.Count("typestate_states", ts.States)
	if os.Getenv("VCHECK_DEBUG") != "" {
		for rec := range records {
			fmt.Fprintln(os.Stderr, "DEBUG worker record:", rec)
		}
		for e := range exits {
			fmt.Fprintln(os.Stderr, "DEBUG worker exit:", e)
		}
		for _, o := range outs {
			fmt.Fprintln(os.Stderr, "DEBUG worker out:", o.Kind, o.A)
		}
		fmt.Fprintln(os.Stderr, "DEBUG header block:", header.Index, header.Comment, ts.Truncated)
	}
	var bad []string
	for rec := range records {
		nF := strings.Count(rec, "F(")
		if strings.Contains(rec, "IDLE;") && !strings.Contains(rec, "RECV;") {
			// an iteration that took nothing from the queue delivers and releases nothing
			if nF != 0 || strings.Contains(rec, "PUT;") {
				bad = append(bad, "an iteration that received no item performs a fan-out or releases an event: "+rec)
			}
			continue
		}
		switch {
		case strings.Contains(rec, "=true;") && strings.Contains(rec, "marker(") && markerTrue(rec):
			bad = append(bad, "the stop marker continues the loop: "+rec)
		case strings.Contains(rec, "is(*Event)=true"):
			if nF != 1 || strings.Contains(rec, "F(raw)") {
				bad = append(bad, fmt.Sprintf("an *Event item reaches %d fan-out call(s) (want exactly 1 event fan-out): %s", nF, rec))
			}
			if strings.Count(rec, "PUT;") != 1 || strings.Index(rec, "PUT;") < strings.Index(rec, "F(") {
				bad = append(bad, "an *Event item is not released to the pool exactly once after its fan-out: "+rec)
			}
		case strings.Contains(rec, "is([]byte)=true"):
			if nF != 1 || !strings.Contains(rec, "F(raw)") {
				bad = append(bad, fmt.Sprintf("a []byte item reaches %d fan-out call(s) (want exactly 1 raw fan-out): %s", nF, rec))
			}
		default:
			if nF != 0 {
				bad = append(bad, "fan-out for an item of unknown type: "+rec)
			}
			if strings.Contains(rec, "cond(") {
				bad = append(bad, "an item is skipped under a condition other than its type: "+rec)
			}
		}
		if strings.Contains(rec, "cond(") && (strings.Contains(rec, "is(*Event)=true") || strings.Contains(rec, "is([]byte)=true")) && nF != 1 {
			bad = append(bad, "an item is skipped under an extra condition: "+rec)
		}
	}
	haveE, haveB := false, false
	for rec := range records {
		if strings.Contains(rec, "is(*Event)=true") {
			haveE = true
		}
		if strings.Contains(rec, "is([]byte)=true") {
			haveB = true
		}
	}
	if !haveE || !haveB {
		bad = append(bad, fmt.Sprintf("worker does not handle both item kinds (events=%v raw=%v)", haveE, haveB))
	}
	r.Count("paths_enumerated", len(records))
	if len(bad) > 0 {
		r.Fail(key, c.pos(w.Pos()), "%s", strings.Join(firstN(uniq(bad), 3), "; "))
	} else {
		r.OK(key, "%d per-item paths: event → one event fan-out then release; []byte → one raw fan-out; marker → exit", len(records))
	}
	// exit discipline (C05.worker-exit) is evaluated from the same run
	if rule == "C05.worker" {
		keyE := "C05.worker-exit:" + fname(w)
		var badE []string
		for e := range exits {
			if !markerTrue(e) {
				badE = append(badE, "loop exit not controlled by the stop marker or channel close: "+e)
			}
			if strings.Contains(e, "F(") {
				badE = append(badE, "loop exit after a fan-out in the same iteration: "+e)
			}
		}
		done := 0
		for _, o := range outs {
			if o.Kind != "return" {
				continue
			}
			if !strings.Contains(o.A, "CLOSE(") && !ro.WorkerDoneByWG {
				badE = append(badE, "a worker exit path does not signal completion: "+o.A)
			} else {
				done++
			}
		}
		if len(exits) == 0 {
			// range loop exits only through !ok
			for _, o := range outs {
				if !strings.Contains(o.A, "EXIT(closed)") && !strings.Contains(o.A, "AFTER") && !markerTrue(o.A) {
					badE = append(badE, "worker returns without leaving the loop through marker/close: "+o.A)
				}
			}
		}
		if len(badE) > 0 {
			r.Fail(keyE, c.pos(w.Pos()), "%s", strings.Join(firstN(uniq(badE), 3), "; "))
		} else {
			r.OK(keyE, "loop exits only on the stop marker or a closed channel; completion signal on all %d exit path(s)", done)
		}
		// no goroutine inside the worker
		for rec := range records {
			if strings.Contains(rec, "GO;") {
				r.Fail("C05.worker-exit:"+fname(w)+"#go", c.pos(w.Pos()), "the worker hands items to further goroutines: Stop cannot wait for them")
			}
		}
	}
}

// workerExitsOnClose: every receive of the worker from the buffer observes whether the channel is closed.
func (c *Ctx) workerExitsOnClose(a *asyncInfo) bool {
	found, all := false, true
	for f := range c.reach(a.Worker) {
		if c.reach(a.Append)[f] {
			continue
		}
		eachInstr(f, func(in ssa.Instruction) {
			switch x := in.(type) {
			case *ssa.UnOp:
				if x.Op == token.ARROW && chanFieldOf(x.X) == a.Buf {
					found = true
					if !x.CommaOk {
						all = false
					}
				}
			case *ssa.Select:
				for _, st := range x.States {
					if st.Dir == types.RecvOnly && chanFieldOf(st.Chan) == a.Buf {
						found = true
						used := false
						if refs := x.Referrers(); refs != nil {
							for _, rr := range *refs {
								if ex, ok := rr.(*ssa.Extract); ok && ex.Index == 1 && ex.Referrers() != nil && len(*ex.Referrers()) > 0 {
									used = true
								}
							}
						}
						if !used {
							all = false
						}
					}
				}
			}
		})
	}
	return found && all
}

func markerTrue(rec string) bool {
	i := strings.Index(rec, "marker(")
	if i < 0 {
		return false
	}
	j := strings.Index(rec[i:], ")=")
	return strings.HasPrefix(rec[i+j+2:], "true")
}

// blockInLoop: b is dominated by header and can reach header.
func blockInLoop(b, header *ssa.BasicBlock) bool {
	if b != header && !header.Dominates(b) {
		return false
	}
	seen := map[*ssa.BasicBlock]bool{}
	var dfs func(x *ssa.BasicBlock) bool
	dfs = func(x *ssa.BasicBlock) bool {
		if x == header {
			return true
		}
		if seen[x] {
			return false
		}
		seen[x] = true
		for _, s := range x.Succs {
			if dfs(s) {
				return true
			}
		}
		return false
	}
	for _, s := range b.Succs {
		if dfs(s) {
			return true
		}
	}
	return false
}

func canReachBlock(from, to *ssa.BasicBlock) bool {
	seen := map[*ssa.BasicBlock]bool{}
	var dfs func(x *ssa.BasicBlock) bool
	dfs = func(x *ssa.BasicBlock) bool {
		if x == to {
			return true
		}
		if seen[x] {
			return false
		}
		seen[x] = true
		for _, s := range x.Succs {
			if dfs(s) {
				return true
			}
		}
		return false
	}
	return dfs(from)
}

// ---------------------------------------------------------------------------
// C06

// checkBufferCapacity: "the buffer is full" means the configured number of items are pending — the channel the
// producers fill is made with exactly the configured buffer size as capacity (not a value derived from it).
func (c *Ctx) checkBufferCapacity(r *Report, a *asyncInfo) {
	cfg := c.configIntFields()
	n := 0
	for _, f := range c.Funcs {
		if recvNamed(f) != a.T && (f.Parent() == nil || recvNamed(f.Parent()) != a.T) {
			continue
		}
		eachInstr(f, func(in ssa.Instruction) {
			st, ok := in.(*ssa.Store)
			if !ok {
				return
			}
			fa, ok := st.Addr.(*ssa.FieldAddr)
			if !ok || fieldOfAddr(fa) != a.Buf {
				return
			}
			mk, ok := st.Val.(*ssa.MakeChan)
			if !ok {
				return
			}
			n++
			key := "C06.capacity:" + fname(f)
			lc := &linCtx{c: c, fn: f, vars: map[string]ssa.Value{}}
			alts := lc.lin(mk.Size, 0)
			good := false
			var name string
			if len(alts) == 1 && alts[0].L.K == 0 && len(alts[0].L.Coef) == 1 {
				for v, k := range alts[0].L.Coef {
					if ld, ok := lc.vars[v].(*ssa.UnOp); ok && k == 1 {
						if fa, ok := ld.X.(*ssa.FieldAddr); ok {
							if nme, ok := cfg[fieldOfAddr(fa)]; ok {
								good, name = true, nme
							}
						}
					}
				}
			}
			if good {
				r.OK(key, "the buffer channel's capacity is exactly the configured %s", name)
			} else {
				var ss []string
				for _, al := range alts {
					ss = append(ss, al.L.String())
				}
				r.Fail(key, c.instrPos(mk), "the buffer channel's capacity is %s, not the configured buffer size itself: the overflow policy fires while the configured buffer still has room (or only after it is exceeded)", strings.Join(ss, " | "))
			}
		})
	}
	if n == 0 {
		r.Undecided("C06.capacity:"+a.T.Obj().Name(), c.pos(a.T.Obj().Pos()), "no make(chan) stored into the buffer field found")
	}
}

func checkC06(c *Ctx, r *Report) {
	r.Explanation = "decided: the buffer channel has a single consumer goroutine (the worker started by the only go statement in Start; the only other receive is the DiscardOldest removal in a producer) and the worker spawns nothing, so FIFO order of the channel is delivery order; events and raw writes are sent on the same channel; under each overflow policy constant the buffer-full path does what the policy says — Discard: no send, no removal, item counted, only non-blocking channel operations; DiscardOldest: every removal is a receive from the same channel, the arriving item ends enqueued, only non-blocking operations; Block: the item ends enqueued through a blocking send and nothing is counted or removed; the policy parser maps each documented name to the constant of that name. Not decided: scheduling; FIFO of Go channels is trusted."
	r.Undecidedcl = []string{"per-producer order under real schedules (follows from single FIFO queue + single consumer; channel FIFO is trusted)"}
	r.Assumptions = []string{"Go channels are FIFO"}
	ro := c.roles(r)
	if c.checkAsyncSemantics(r, ro, "C06.async-values") {
		r.Decide([]string{"C06.policy:", "C06.nonblocking:", "C06.anchor:", "C06.consumer:", "C06.capacity:"}, nil, "the queueing logger evaluated under scripted schedules: conservation, order, policies, Stop")
	}
	a := c.asyncInfo(ro, r)
	if a == nil {
		return
	}
	c.checkBufferCapacity(r, a)
	// single consumer
	type site struct {
		fn   *ssa.Function
		kind string
		pos  string
	}
	var recvs, sends []site
	chans := map[string]bool{}
	for _, f := range c.Funcs {
		eachInstr(f, func(in ssa.Instruction) {
			switch x := in.(type) {
			case *ssa.UnOp:
				if x.Op == token.ARROW && chanFieldOf(x.X) == a.Buf {
					recvs = append(recvs, site{f, "recv", c.instrPos(in)})
				}
			case *ssa.Select:
				for _, st := range x.States {
					if chanFieldOf(st.Chan) == a.Buf {
						if st.Dir == types.RecvOnly {
							recvs = append(recvs, site{f, "select-recv", c.instrPos(in)})
						} else {
							sends = append(sends, site{f, "select-send", c.instrPos(in)})
						}
					}
					if fv := chanFieldOf(st.Chan); fv != nil && st.Dir == types.SendOnly {
						chans[fv.Name()] = true
					}
				}
			case *ssa.Send:
				if chanFieldOf(x.Chan) == a.Buf {
					sends = append(sends, site{f, "send", c.instrPos(in)})
				}
				if fv := chanFieldOf(x.Chan); fv != nil {
					chans[fv.Name()] = true
				}
			}
		})
	}
	r.Count("call_sites", len(recvs)+len(sends))
	var bad []string
	nWorker, nProd := 0, 0
	for _, s := range recvs {
		inWorker := s.fn == a.Worker || (a.Worker != nil && c.reach(a.Worker)[s.fn] && !c.reach(a.Append)[s.fn])
		switch {
		case inWorker: // `for v := range buf`, `v := <-buf` or a select case in the worker (or an unexported helper only it runs)
			nWorker++
		case recvNamed(s.fn) == a.T && s.kind == "select-recv":
			nProd++
		case s.kind == "select-recv" && c.reach(a.Append)[s.fn] && unexportedHelper(s.fn):
			// the non-blocking removal of the overflow policy, in an unexported helper (a queue type's poll) the producer path runs
			nProd++
		default:
			bad = append(bad, fmt.Sprintf("additional receiver of the buffer in %s at %s", fname(s.fn), s.pos))
		}
	}
	if nWorker != 1 {
		bad = append(bad, fmt.Sprintf("%d receive sites in the worker (want 1)", nWorker))
	}
	goes := 0
	for _, f := range c.Funcs {
		if recvNamed(f) != a.T && !(f.Parent() != nil && recvNamed(f.Parent()) == a.T) {
			continue
		}
		eachInstr(f, func(in ssa.Instruction) {
			if isGoStart(in) {
				goes++
				if f == a.Worker {
					bad = append(bad, "the worker starts further goroutines at "+c.instrPos(in))
				} else if f != a.Start {
					bad = append(bad, "goroutine started outside Start at "+c.instrPos(in))
				}
			}
		})
	}
	if goes != 1 {
		bad = append(bad, fmt.Sprintf("%d go statements in the asynchronous logger (want exactly one worker)", goes))
	}
	// the go statement is not in a loop
	eachInstr(a.Start, func(in ssa.Instruction) {
		if isGoStart(in) {
			if blockInLoop(in.Block(), in.Block()) {
				bad = append(bad, "the worker is started in a loop")
			}
		}
	})
	if len(bad) > 0 {
		r.Fail("C06.single-consumer:"+a.T.Obj().Name(), c.pos(a.T.Obj().Pos()), "%s", strings.Join(bad, "; "))
	} else {
		r.OK("C06.single-consumer:"+a.T.Obj().Name(), "1 worker receive, %d producer-side removal(s), 1 go statement, no go inside the worker", nProd)
	}
	// one queue: every send site of Append/Write/overflow handler targets the same channel field
	evSend, rawSend := false, false
	for _, root := range []*ssa.Function{a.Append, a.Write} {
		for f := range c.reach(root) {
			if recvNamed(f) != a.T && !(unexportedHelper(f) && (c.inModule(f) || (f.Origin() != nil && c.inModule(f.Origin()))) && recvNamed(f) != nil && !c.isLifecycleType(recvNamed(f))) {
				continue
			}
			eachInstr(f, func(in ssa.Instruction) {
				switch x := in.(type) {
				case *ssa.Send:
					if chanFieldOf(x.Chan) != a.Buf {
						bad = append(bad, "send on a different channel at "+c.instrPos(in))
					} else if root == a.Append {
						evSend = true
					} else {
						rawSend = true
					}
				case *ssa.Select:
					for _, st := range x.States {
						if st.Dir == types.SendOnly {
							if chanFieldOf(st.Chan) != a.Buf {
								bad = append(bad, "send on a different channel at "+c.instrPos(in))
							} else if root == a.Append {
								evSend = true
							} else {
								rawSend = true
							}
						}
					}
				}
			})
		}
	}
	if len(bad) > 0 || !evSend || !rawSend {
		r.Fail("C06.one-queue:"+a.T.Obj().Name(), c.pos(a.T.Obj().Pos()), "events and raw writes do not share one queue (events=%v raw=%v) %s", evSend, rawSend, strings.Join(bad, "; "))
	} else {
		r.OK("C06.one-queue:"+a.T.Obj().Name(), "events and raw writes are sent on the same channel field %s (%d send sites)", a.Buf.Name(), len(sends))
	}
	// policy semantics on the buffer-full path: run the overflow handler itself
	var handler *ssa.Function
	hcands := append([]*ssa.Function{}, c.moduleCallees(a.Append)...)
	for _, f := range c.moduleCallees(a.Append) {
		if recvNamed(f) == a.T {
			hcands = append(hcands, c.moduleCallees(f)...) // through an extracted enqueue helper
		}
	}
	for _, f := range hcands {
		if recvNamed(f) == a.T && f != a.Append {
			uses := false
			eachInstr(f, func(in ssa.Instruction) {
				if isFieldLoadInstr(in, a.PolicyF) {
					uses = true
				}
			})
			if uses {
				handler = f
			}
		}
	}
	if handler == nil {
		r.Undecided("C06.policy:handler", c.pos(a.Append.Pos()), "overflow handler (method reading the policy field, called from Append) not found")
		return
	}
	r.SawFunc(handler)
	// both producers use the same handler
	usesW := false
	for _, f := range c.moduleCallees(a.Write) {
		if f == handler {
			usesW = true
		}
		if recvNamed(f) == a.T {
			for _, g := range c.moduleCallees(f) {
				if g == handler {
					usesW = true
				}
			}
		}
	}
	if !usesW {
		r.Fail("C06.policy:shared-handler", c.pos(a.Write.Pos()), "Write does not use the overflow handler of Append: raw writes follow a different policy")
	} else {
		r.OK("C06.policy:shared-handler", "Append and Write share %s", fname(handler))
	}
	for _, pk := range a.Policies {
		key := "C06.policy:" + fname(handler) + "[" + policyName(pk) + "]"
		// what a log call and a raw write do when the first attempt finds the queue full
		a.assumeFull = true
		var outs []prodOut
		var trunc []string
		for _, root := range []*ssa.Function{a.Append, a.Write} {
			o2, t2 := c.runProducer(a, ro, root, pk.Value.Value, r)
			for _, o := range o2 {
				if o.st.gate != "F" {
					outs = append(outs, o)
				}
			}
			trunc = append(trunc, t2...)
		}
		a.assumeFull = false
		if len(trunc) > 0 {
			r.Undecided(key, c.pos(handler.Pos()), "truncated: %v", trunc)
			continue
		}
		var bad []string
		for _, o := range outs {
			p := o.st
			if p.bad != "" {
				bad = append(bad, p.bad)
			}
			switch policyName(pk) {
			case "Discard":
				if p.enq != 0 || p.deq != 0 || p.cntd != 0 || p.cntv != 1 {
					bad = append(bad, fmt.Sprintf("Discard must drop the arriving item (no send, no removal, counted once): enq=%d removed=%d counted=%d", p.enq, p.deq+p.cntd, p.cntv))
				}
				if p.blk {
					bad = append(bad, "a blocking channel operation under Discard")
				}
			case "DiscardOldest":
				if p.enq != 1 || p.cntv != 0 {
					bad = append(bad, fmt.Sprintf("DiscardOldest must keep the arriving item: enq=%d counted-as-dropped=%d", p.enq, p.cntv))
				}
				if p.deq != p.cntd {
					bad = append(bad, "a removed item is not counted")
				}
				if p.blk {
					bad = append(bad, "a blocking channel operation under DiscardOldest")
				}
			case "Block":
				if p.enq != 1 || p.cntv != 0 || p.deq != 0 || p.cntd != 0 {
					bad = append(bad, fmt.Sprintf("Block must enqueue without dropping: enq=%d counted=%d removed=%d", p.enq, p.cntv, p.deq))
				}
				if !p.blk {
					bad = append(bad, "Block does not wait for space (no blocking send)")
				}
			default:
				bad = append(bad, "unknown policy constant "+pk.Name())
			}
		}
		if len(outs) == 0 {
			bad = append(bad, "no exit path")
		}
		if len(bad) > 0 {
			r.Fail(key, c.pos(handler.Pos()), "%s", strings.Join(firstN(uniq(bad), 3), "; "))
		} else {
			r.OK(key, "%d exit state(s) consistent with the %s policy", len(outs), policyName(pk))
		}
	}
	// while there is room nothing is dropped: on the paths where no send attempt fails, the item is enqueued and nothing
	// is removed or counted, whatever the policy
	for _, pk := range a.Policies {
		key := "C06.policy:" + fname(handler) + "[" + policyName(pk) + "]#room"
		a.assumeSpace = true
		var bad []string
		n := 0
		for _, root := range []*ssa.Function{a.Append, a.Write} {
			o2, t2 := c.runProducer(a, ro, root, pk.Value.Value, r)
			if len(t2) > 0 {
				bad = append(bad, fmt.Sprintf("truncated: %v", t2))
			}
			for _, o := range o2 {
				if o.st.gate == "F" {
					continue
				}
				n++
				if o.st.enq != 1 || o.st.deq != 0 || o.st.cntd != 0 || o.st.cntv != 0 || o.st.rem {
					bad = append(bad, fmt.Sprintf("%s with room in the queue: enqueued=%d, an item removed=%v, counted-as-dropped=%d (want 1, false, 0) %v", fname(root), o.st.enq, o.st.rem, o.st.cntv+o.st.cntd, o.trail))
				}
			}
		}
		a.assumeSpace = false
		if len(bad) > 0 {
			r.Fail(key, c.pos(handler.Pos()), "%s", strings.Join(firstN(uniq(bad), 2), "; "))
		} else {
			r.OK(key, "%d exit state(s): with room in the queue the item is enqueued and nothing is dropped", n)
		}
	}
	// the whole producer path (not only the overflow handler) is non-blocking under the two discard policies:
	// a check-then-act fast path with a plain send blocks when several producers race for the last slot
	for _, root := range []*ssa.Function{a.Append, a.Write} {
		for _, pk := range a.Policies {
			if policyName(pk) == "Block" {
				continue
			}
			key := fmt.Sprintf("C06.nonblocking:%s[%s]", fname(root), policyName(pk))
			outs, trunc := c.runProducer(a, ro, root, pk.Value.Value, r)
			if len(trunc) > 0 {
				r.Undecided(key, c.pos(root.Pos()), "truncated: %v", trunc)
				continue
			}
			blk := false
			var where []string
			for _, o := range outs {
				if o.st.blk {
					blk = true
					where = o.trail
				}
			}
			if blk {
				r.Fail(key, c.pos(root.Pos()), "a path of the log call performs a blocking channel operation under the %s policy (%v): the caller can wait for the appender", policyName(pk), where)
			} else {
				r.OK(key, "%d exit state(s), every channel operation on every path is a select with default", len(outs))
			}
		}
	}
	// DiscardOldest must actually be able to remove (a removal path exists)
	for _, pk := range a.Policies {
		if policyName(pk) != "DiscardOldest" {
			continue
		}
		removes := false
		for f := range c.reach(a.Append) {
			if recvNamed(f) != a.T {
				continue
			}
			eachInstr(f, func(in ssa.Instruction) {
				if sel, ok := in.(*ssa.Select); ok {
					for _, st := range sel.States {
						if st.Dir == types.RecvOnly && chanFieldOf(st.Chan) == a.Buf {
							removes = true
						}
					}
				}
			})
		}
		if removes {
			r.OK("C06.policy:"+fname(handler)+"#removes-head", "DiscardOldest removes by receiving from the same queue (its head)")
		} else {
			r.Fail("C06.policy:"+fname(handler)+"#removes-head", c.pos(handler.Pos()), "DiscardOldest never receives from the queue: it cannot make room")
		}
	}
	// parser: name -> constant of that name
	c.checkPolicyParser(r, a)
}

func isFieldLoadInstr(in ssa.Instruction, f *types.Var) bool {
	v, ok := in.(ssa.Value)
	return ok && isFieldLoad(v, f)
}

func (c *Ctx) checkPolicyParser(r *Report, a *asyncInfo) {
	pt := a.PolicyF.Type()
	for _, f := range c.Funcs {
		if f.Pkg != c.LogS || f.Signature.Recv() != nil || f.Signature.Params().Len() != 1 || f.Signature.Results().Len() != 2 {
			continue
		}
		if !isStringType(f.Signature.Params().At(0).Type()) || !types.Identical(f.Signature.Results().At(0).Type(), pt) {
			continue
		}
		r.SawFunc(f)
		key := "C06.parser:" + fname(f)
		var bad []string
		n := 0
		eachInstr(f, func(in ssa.Instruction) {
			ret, ok := in.(*ssa.Return)
			if !ok {
				return
			}
			if k, isK := ret.Results[1].(*ssa.Const); !isK || k.Value != nil {
				return
			}
			kv, ok := constOf(ret.Results[0])
			if !ok {
				return
			}
			// the string this branch matched
			for _, g := range guardsOfInstr(in) {
				if b, ok := g.Cond.(*ssa.BinOp); ok && b.Op == token.EQL && g.Polarity {
					if s, ok := constString(b.Y); ok {
						n++
						want := ""
						for _, pk := range a.Policies {
							if constant.Compare(pk.Value.Value, token.EQL, kv) {
								want = policyName(pk)
							}
						}
						if want != s {
							bad = append(bad, fmt.Sprintf("%q parses to %s", s, want))
						}
					}
				}
			}
		})
		if len(bad) > 0 || n != len(a.Policies) {
			r.Fail(key, c.pos(f.Pos()), "policy names do not map one-to-one onto the constants of the same name (%d names): %s", n, strings.Join(bad, "; "))
		} else {
			r.OK(key, "%d names, each parsed to the constant of the same name", n)
		}
	}
}

// ---------------------------------------------------------------------------
// C05

func checkC05(c *Ctx, r *Report) {
	r.Explanation = "decided: the asynchronous logger's Stop signals termination through the queue itself (marker send or close, hence behind everything already accepted) and then waits for the worker on every path; the worker leaves its loop only on that marker or a closed channel, never spawns, and signals completion on every exit; Destroy stops all loggers before any appender and returns early only when not initialised; Refresh registers everything it started in the lists Destroy walks; every Lifecycle type that creates Lifecycle children itself starts them on every successful Start path and stops them in Stop; every leaf appender's Stop closes every field that can hold a file whenever it is non-nil; in the rotation step a file-holding field is overwritten only after its previous content was closed or handed to another file-holding field that was itself emptied first (at most two descriptors). Not decided: bounded time, behaviour with concurrent log calls, fsync/readability guarantees of the OS."
	r.Undecidedcl = []string{"termination in bounded time", "Stop racing with concurrent log calls", "data readable from the file after Close (OS contract)"}
	r.Assumptions = []string{"channel FIFO: a marker sent after item x is received after x", "(*os.File).Close releases the descriptor"}
	ro := c.roles(r)
	if c.checkAsyncSemantics(r, ro, "C05.async-values") {
		r.Decide([]string{"C05.worker:", "C05.worker-exit:", "C05.stop-signal:", "C05.anchor:async-worker", "C05.start:"}, nil, "the queueing logger evaluated under scripted schedules: conservation, order, policies, Stop")
	}
	fileAppenderDecisions(r, c.checkFileAppenderSemantics(r, ro, "C05.file-values"))
	for tn, ok := range c.checkRollingLoggerSemantics(r, ro, "C05.rolling-values") {
		if ok {
			tn := tn
			// the appenders only: whether the inner logger is started matters in asynchronous mode, which is not evaluated here
			r.Decide([]string{"C05.owned-lifecycle:"}, func(k string) bool {
				rest, ok := strings.CutPrefix(k, "C05.owned-lifecycle:"+tn+".")
				if !ok {
					return false
				}
				field, _, _ := strings.Cut(rest, "→")
				return !strings.Contains(strings.ToLower(field), "logger")
			},
				tn+" evaluated in synchronous mode: Start opens the files of the appenders it creates, Stop closes them all")
		}
	}
	if c.checkLifecycleSemantics(r, ro, "C05.lifecycle-values", r.Tier == "thorough") {
		r.Decide([]string{"C05.registered:", "C05.destroy-order:"}, nil, "Refresh/Destroy evaluated: everything started is stopped once, loggers first")
	}
	a := c.asyncInfo(ro, r)
	if a != nil {
		c.checkStopSignal(r, a)
		c.checkWorkerItems(r, ro, a, "C05.worker")
	}
	c.checkDestroyOrder(r, ro)
	c.checkOwnedLifecycle(r, ro)
	c.checkCloseAll(r, ro)
	c.checkFdBound(r, ro)
}

func (c *Ctx) checkStopSignal(r *Report, a *asyncInfo) {
	key := "C05.stop-signal:" + fname(a.Stop)
	ts := &TS{C: c, Ev: &Evaluator{}}
	ts.Inline = func(s *TSCtx, call ssa.CallInstruction, callee *ssa.Function) bool {
		return call.Common().StaticCallee() != nil && recvNamed(callee) == a.T
	}
	ts.OnInstr = func(s *TSCtx, in ssa.Instruction) []string {
		switch x := in.(type) {
		case *ssa.Send:
			if chanFieldOf(x.Chan) == a.Buf {
				return []string{s.A + "SIG(send " + c.accessPath(x.X, s.Frame) + ");"}
			}
		case *ssa.UnOp:
			if x.Op == token.ARROW {
				if fv := chanFieldOf(x.X); fv != nil && fv != a.Buf {
					return []string{s.A + "WAIT(" + fv.Name() + ");"}
				}
			}
		case ssa.CallInstruction:
			if b, ok := x.Common().Value.(*ssa.Builtin); ok && b.Name() == "close" {
				if chanFieldOf(x.Common().Args[0]) == a.Buf {
					return []string{s.A + "SIG(close);"}
				}
			}
			if f := x.Common().StaticCallee(); f != nil && funcIs(f, "sync", "WaitGroup", "Wait") {
				return []string{s.A + "WAIT(wg);"}
			}
		}
		return nil
	}
	ts.OnSelect = func(s *TSCtx, sel *ssa.Select, chosen int) []string {
		add := func(tok string) []string {
			if strings.Count(s.A, tok) >= 2 {
				return nil // saturate: loops must not grow the automaton state
			}
			return []string{s.A + tok}
		}
		if chosen < 0 {
			return add("SKIP(default);")
		}
		st := sel.States[chosen]
		if st.Dir == types.SendOnly && chanFieldOf(st.Chan) == a.Buf {
			return add("SIG(select-send);")
		}
		if st.Dir == types.RecvOnly && chanFieldOf(st.Chan) == a.Buf {
			return add("DROP(recv);")
		}
		return nil
	}
	outs := ts.Run(a.Stop, "", nil)
	r.Count("typestate_states", ts.States)
	var bad []string
	closeAsSignal := false
	for _, o := range outs {
		if o.Kind != "return" {
			bad = append(bad, "Stop can panic")
			continue
		}
		i, j := strings.Index(o.A, "SIG("), strings.Index(o.A, "WAIT(")
		switch {
		case i < 0:
			bad = append(bad, "a path of Stop never signals the worker through the queue")
		case j < 0:
			bad = append(bad, "a path of Stop returns without waiting for the worker: items still queued are not delivered when Stop returns")
		case j < i:
			bad = append(bad, "Stop waits before signalling")
		}
		if k := strings.LastIndex(o.A, "SKIP(default)"); k >= 0 {
			// a non-blocking attempt that failed is fine when the same path then signals for certain (close of the
			// queue, a blocking send) before it waits
			rest := o.A[k:]
			si, wi := strings.Index(rest, "SIG("), strings.Index(rest, "WAIT(")
			if si < 0 || (wi >= 0 && wi < si) {
				bad = append(bad, "the stop signal is sent non-blockingly: with a full buffer it is subject to the overflow policy (dropped under Discard, so Stop never returns; evicting accepted items under DiscardOldest)")
			}
		}
		if ci := strings.Index(o.A, "SIG(close)"); ci >= 0 && j >= 0 && ci < j && !closeAsSignal {
			closeAsSignal = true
		}
		if strings.Contains(o.A, "DROP(recv)") {
			bad = append(bad, "Stop removes accepted items from the queue")
		}
	}
	// the wait channel is the one the worker closes / sends on
	waitOK := false
	var waitF string
	eachInstr(a.Stop, func(in ssa.Instruction) {
		if u, ok := in.(*ssa.UnOp); ok && u.Op == token.ARROW {
			if fv := chanFieldOf(u.X); fv != nil && fv != a.Buf {
				waitF = fv.Name()
			}
		}
	})
	eachInstr(a.Worker, func(in ssa.Instruction) {
		if call, ok := in.(ssa.CallInstruction); ok { // a plain or a deferred close
			if _, isGo := in.(*ssa.Go); !isGo {
				if b, ok := call.Common().Value.(*ssa.Builtin); ok && b.Name() == "close" {
					if fv := chanFieldOf(call.Common().Args[0]); fv != nil && fv.Name() == waitF {
						waitOK = true
					}
				}
			}
		}
		if snd, ok := in.(*ssa.Send); ok {
			if fv := chanFieldOf(snd.Chan); fv != nil && fv.Name() == waitF {
				waitOK = true
			}
		}
	})
	if closeAsSignal && !c.workerExitsOnClose(a) {
		bad = append(bad, "a path of Stop closes the queue and then waits for the worker, but the worker's receive has no closed-channel test (no range loop, no `v, ok := <-ch`): it keeps receiving zero values from the closed channel and never signals completion, so Stop never returns")
	}
	if waitF != "" && !waitOK {
		bad = append(bad, "Stop waits on "+waitF+", which the worker never closes or sends on")
	}
	// the marker sent is the one the worker compares against
	if len(bad) > 0 {
		r.Fail(key, c.pos(a.Stop.Pos()), "%s", strings.Join(uniq(bad), "; "))
	} else {
		r.OK(key, "%d path(s): signal through the queue, then wait on %s (closed by the worker)", len(outs), waitF)
	}
	// Start creates the channels the other methods use, with a validated capacity
	key = "C05.start:" + fname(a.Start)
	made := map[string]bool{}
	eachInstr(a.Start, func(in ssa.Instruction) {
		if st, ok := in.(*ssa.Store); ok {
			if fa, ok := st.Addr.(*ssa.FieldAddr); ok {
				if isFreshChan(st.Val, 0) {
					made[fieldOfAddr(fa).Name()] = true
				}
			}
		}
	})
	if made[a.Buf.Name()] && (waitF == "" || made[waitF]) {
		r.OK(key, "Start creates %v before launching the worker", made)
	} else {
		r.Fail(key, c.pos(a.Start.Pos()), "Start does not create the buffer/wait channels (%v)", made)
	}
}

func (c *Ctx) checkDestroyOrder(r *Report, ro *Roles) {
	d := c.logFunc("Destroy")
	key := "C05.destroy-order:Destroy"
	if d == nil {
		r.Undecided(key, "", "Destroy not found")
		return
	}
	r.SawFunc(d)
	var logStops, appStops []ssa.Instruction
	loggerI, appI := c.logIface("Logger"), c.logIface("Appender")
	eachInstr(d, func(in ssa.Instruction) {
		ci, ok := in.(ssa.CallInstruction)
		if !ok || !ci.Common().IsInvoke() || ci.Common().Method.Name() != "Stop" {
			return
		}
		t := ci.Common().Value.Type()
		switch {
		case types.Identical(t.Underlying(), loggerI):
			logStops = append(logStops, in)
		case types.Identical(t.Underlying(), appI):
			appStops = append(appStops, in)
		}
	})
	if len(logStops) == 0 || len(appStops) == 0 {
		r.Fail(key, c.pos(d.Pos()), "Destroy does not stop both loggers (%d sites) and appenders (%d sites)", len(logStops), len(appStops))
		return
	}
	var bad []string
	for _, as := range appStops {
		for _, ls := range logStops {
			// the logger loop must be complete: its header dominates the appender stop, and the appender stop cannot reach the logger stop
			if !ls.Block().Idom().Dominates(as.Block()) && !ls.Block().Dominates(as.Block()) {
				bad = append(bad, "an appender is stopped on a path that has not gone through the logger loop")
			}
			if canReachBlock(as.Block(), ls.Block()) {
				bad = append(bad, "a logger can still be stopped after an appender was stopped (an asynchronous logger would flush into a closed file)")
			}
		}
	}
	// elements come from the global lists
	src := func(in ssa.Instruction) string {
		return c.accessPath(in.(ssa.CallInstruction).Common().Value, &Frame{Fn: d})
	}
	if !strings.HasPrefix(src(logStops[0]), "global:") || !strings.HasPrefix(src(appStops[0]), "global:") || src(logStops[0]) == src(appStops[0]) {
		bad = append(bad, fmt.Sprintf("stopped values are not the elements of the global lists (%s, %s)", src(logStops[0]), src(appStops[0])))
	}
	if len(bad) > 0 {
		r.Fail(key, c.instrPos(appStops[0]), "%s", strings.Join(uniq(bad), "; "))
	} else {
		r.OK(key, "all loggers are stopped (loop complete) before the first appender is stopped")
	}
	// C05.registered: Refresh appends every started logger/appender to those lists on the success path
	rf := c.logFunc("Refresh")
	if rf == nil {
		r.Undecided("C05.registered:Refresh", "", "Refresh not found")
		return
	}
	r.SawFunc(rf)
	started := map[string]bool{}
	registered := map[string]string{}
	fr := &Frame{Fn: rf}
	eachInstr(rf, func(in ssa.Instruction) {
		if ci, ok := in.(ssa.CallInstruction); ok && ci.Common().IsInvoke() && ci.Common().Method.Name() == "Start" {
			started[rangeSource(c, ci.Common().Value, fr)] = true
		}
		if st, ok := in.(*ssa.Store); ok {
			p := c.accessPath(st.Addr, fr)
			if p == c.names().LoggerList || p == c.names().AppenderList {
				// value = append(list, elem)
				if call, ok := st.Val.(*ssa.Call); ok {
					if b, ok := call.Call.Value.(*ssa.Builtin); ok && b.Name() == "append" {
						elems := variadicElems(call.Call.Args[1], c, fr)
						for _, e := range elems {
							if e.V != nil {
								registered[rangeSource(c, e.V, fr)] = p
							}
						}
					}
					// list = slices.AppendSeq(list, maps.Values(m)) / slices.Collect(maps.Values(m)) / slices.AppendSeq(…, slices.Values(s))
					if pk, _ := calleePkgName(call); pk == "slices" {
						for _, arg := range call.Call.Args {
							if inner, ok := arg.(*ssa.Call); ok {
								if ipk, iname := calleePkgName(inner); (ipk == "maps" || ipk == "slices") && iname == "Values" && len(inner.Call.Args) == 1 {
									src := inner.Call.Args[0]
									pp := c.accessPath(src, fr)
									if strings.HasPrefix(pp, "?") || strings.HasPrefix(pp, "alloc:") {
										pp = fmt.Sprintf("%s:%s", src.Name(), types.TypeString(src.Type(), shortQual))
									}
									registered[pp] = p
								}
							}
						}
					}
				}
			}
		}
	})
	var missing []string
	for s := range started {
		if _, ok := registered[s]; !ok {
			missing = append(missing, s)
		}
	}
	sort.Strings(missing)
	if len(started) < 2 {
		r.Fail("C05.registered:Refresh", c.pos(rf.Pos()), "Refresh starts %d collections (expected appenders and loggers)", len(started))
	} else if len(missing) > 0 {
		r.Fail("C05.registered:Refresh", c.pos(rf.Pos()), "started but never registered for Destroy: %v", missing)
	} else {
		r.OK("C05.registered:Refresh", "every started collection (%d) is appended to the list Destroy walks: %v", len(started), registered)
	}
}

// rangeSource: v is the value (or key-derived element) of a range over a map/slice: name the collection.
func rangeSource(c *Ctx, v ssa.Value, fr *Frame) string {
	for i := 0; i < 8; i++ {
		switch x := v.(type) {
		case *ssa.Extract:
			if nx, ok := x.Tuple.(*ssa.Next); ok {
				if rg, ok := nx.Iter.(*ssa.Range); ok {
					p := c.accessPath(rg.X, fr)
					if strings.HasPrefix(p, "?") || strings.HasPrefix(p, "alloc:") {
						p = fmt.Sprintf("%s:%s", rg.X.Name(), types.TypeString(rg.X.Type(), shortQual))
					}
					return p
				}
			}
			return c.accessPath(v, fr)
		case *ssa.MakeInterface:
			v = x.X
		case *ssa.ChangeInterface:
			v = x.X
		case *ssa.UnOp:
			if ia, ok := x.X.(*ssa.IndexAddr); ok {
				return c.accessPath(ia.X, fr)
			}
			return c.accessPath(v, fr)
		default:
			return c.accessPath(v, fr)
		}
	}
	return c.accessPath(v, fr)
}

// checkOwnedLifecycle: owners start and stop the Lifecycle children they create.
func (c *Ctx) checkOwnedLifecycle(r *Report, ro *Roles) {
	lifeI := c.logIface("Lifecycle")
	nOwned := 0
	for _, nt := range ro.Lifecycles {
		st, ok := nt.Underlying().(*types.Struct)
		if !ok {
			continue
		}
		start, stop := c.declaredMethod(nt, "Start"), c.declaredMethod(nt, "Stop")
		if start == nil || stop == nil {
			continue
		}
		for i := 0; i < st.NumFields(); i++ {
			f := st.Field(i)
			if f.Exported() || f.Embedded() || st.Tag(i) != "" {
				continue
			}
			elem := f.Type()
			if sl, ok := elem.Underlying().(*types.Slice); ok {
				elem = sl.Elem()
			}
			isLife := types.Implements(elem, lifeI)
			if p, ok := elem.(*types.Pointer); ok && !isLife {
				isLife = types.Implements(p, lifeI)
			}
			if !isLife {
				continue
			}
			nOwned++
			_, isSlice := f.Type().Underlying().(*types.Slice)
			// for slice children: which of Start/Stop is called on elements of a range over the field (anywhere in the module's methods of nt and helpers)
			loopCalls := map[string]bool{}
			if isSlice {
				for _, fn := range c.Funcs {
					eachInstr(fn, func(in ssa.Instruction) {
						ci, ok := in.(ssa.CallInstruction)
						if !ok {
							return
						}
						name := ""
						var recv ssa.Value
						if ci.Common().IsInvoke() {
							name, recv = ci.Common().Method.Name(), ci.Common().Value
						} else if sc := ci.Common().StaticCallee(); sc != nil && sc.Signature.Recv() != nil && len(ci.Common().Args) > 0 {
							name, recv = sc.Name(), ci.Common().Args[0]
						}
						if recv == nil || (name != "Start" && name != "Stop") {
							return
						}
						if elemOfFieldSlice(recv, f) || aliasOfField(recv, f) {
							loopCalls[name] = true
						}
					})
				}
			}
			for _, m := range []struct {
				fn   *ssa.Function
				name string
			}{{start, "Start"}, {stop, "Stop"}} {
				key := fmt.Sprintf("C05.owned-lifecycle:%s.%s→%s", nt.Obj().Name(), f.Name(), m.name)
				r.SawFunc(m.fn)
				ts := &TS{C: c, Ev: &Evaluator{}}
				ts.Inline = func(s *TSCtx, call ssa.CallInstruction, callee *ssa.Function) bool {
					// helpers that receive the owner
					if call.Common().StaticCallee() == nil {
						return false
					}
					for _, a := range call.Common().Args {
						if p, ok := a.Type().(*types.Pointer); ok && p.Elem() == types.Type(nt) {
							return true
						}
					}
					return false
				}
				fieldTag := "." + f.Name()
				ts.OnInstr = func(s *TSCtx, in ssa.Instruction) []string {
					ci, ok := in.(ssa.CallInstruction)
					if !ok {
						return nil
					}
					name := ""
					var recv ssa.Value
					if ci.Common().IsInvoke() {
						name, recv = ci.Common().Method.Name(), ci.Common().Value
					} else if sc := ci.Common().StaticCallee(); sc != nil && sc.Signature.Recv() != nil && len(ci.Common().Args) > 0 {
						name, recv = sc.Name(), ci.Common().Args[0]
					}
					if b, isB := ci.Common().Value.(*ssa.Builtin); isB && b.Name() == "len" && isSlice {
						// entering the loop over the owned slice: all elements are visited (possibly none)
						if (isFieldLoad(ci.Common().Args[0], f) || storedToField(ci.Common().Args[0], f)) && loopCalls[m.name] && !strings.Contains(s.A, "CHILD;") {
							return []string{s.A + "CHILD;"}
						}
					}
					if name != m.name || recv == nil {
						return nil
					}
					p := c.accessPath(recv, s.Frame)
					src := rangeSource(c, recv, s.Frame)
					if strings.Contains(p, fieldTag) || strings.Contains(src, fieldTag) || c.loadedFromField(recv, f) || aliasOfField(recv, f) {
						if strings.Contains(s.A, "CHILD;") {
							return nil
						}
						return []string{s.A + "CHILD;"}
					}
					return nil
				}
				ts.OnBranch = func(s *TSCtx, iff *ssa.If, taken bool) (string, bool) {
					// a nil child has nothing to start/stop: the nil edge of a nil test on the field satisfies the obligation
					if b, ok := iff.Cond.(*ssa.BinOp); ok && isNilConst(b.Y) && isFieldLoad(b.X, f) {
						if (b.Op == token.EQL) == taken && !strings.Contains(s.A, "CHILD;") {
							return s.A + "CHILD;", true
						}
					}
					return "", false
				}
				outs := ts.Run(m.fn, "", nil)
				r.Count("typestate_states", ts.States)
				var bad []string
				nSucc := 0
				for _, o := range outs {
					if o.Kind != "return" {
						continue
					}
					if m.name == "Start" {
						// success = returns the nil error
						if len(o.Ret) == 1 && isNilK(o.Ret[0]) {
							nSucc++
							if !strings.Contains(o.A, "CHILD;") {
								bad = append(bad, "a successful Start path never starts the child")
							}
						} else if len(o.Ret) == 1 && o.Ret[0] == nil {
							// error value of unknown nil-ness: treated as an error path unless it is the child's own Start result
						}
					} else {
						nSucc++
						if !strings.Contains(o.A, "CHILD;") {
							bad = append(bad, "a Stop path never stops the child")
						}
					}
				}
				if m.name == "Start" && nSucc == 0 {
					// all returns are error-typed values; accept when the last returned value is the child's Start result
					tail := false
					eachInstr(m.fn, func(in ssa.Instruction) {})
					for _, o := range outs {
						if o.Kind == "return" && strings.Contains(o.A, "CHILD;") {
							tail = true
						}
					}
					if !tail {
						bad = append(bad, "no successful Start path starts the child")
					} else {
						// every return that does not carry CHILD must be an error return
						for _, o := range outs {
							if o.Kind == "return" && !strings.Contains(o.A, "CHILD;") {
								if !(len(o.Ret) == 1 && o.Ret[0] == nil) {
									bad = append(bad, "a successful Start path never starts the child")
								}
							}
						}
					}
				}
				if len(bad) > 0 {
					r.Fail(key, c.pos(m.fn.Pos()), "%s.%s holds a Lifecycle value the type creates itself, but %s: the child is never %s", nt.Obj().Name(), f.Name(), strings.Join(uniq(bad), "; "), map[string]string{"Start": "started (its worker and channels do not exist)", "Stop": "stopped (buffered items are never flushed)"}[m.name])
				} else {
					r.OK(key, "%d path(s): %s of the owned child is called on every %s path", len(outs), m.name, map[string]string{"Start": "successful", "Stop": ""}[m.name])
				}
			}
		}
	}
	r.Floor("owned Lifecycle children", nOwned, 2)
}

// elemOfFieldSlice: v is (a field of) an element of the slice stored in field f.
func elemOfFieldSlice(v ssa.Value, f *types.Var) bool {
	for i := 0; i < 8; i++ {
		switch x := v.(type) {
		case *ssa.UnOp:
			v = x.X
		case *ssa.FieldAddr:
			v = x.X
		case *ssa.IndexAddr:
			return isFieldLoad(x.X, f)
		default:
			return false
		}
	}
	return false
}

// storedToField: the SSA value v is itself stored into field f somewhere in its function (`refs := …; x.f = refs`):
// v and the field then name the same children.
func storedToField(v ssa.Value, f *types.Var) bool {
	if v == nil {
		return false
	}
	refs := v.Referrers()
	if refs == nil {
		return false
	}
	for _, u := range *refs {
		if st, ok := u.(*ssa.Store); ok && st.Val == v {
			if fa, ok := st.Addr.(*ssa.FieldAddr); ok {
				if pt, ok := fa.X.Type().Underlying().(*types.Pointer); ok {
					if stt, ok := pt.Elem().Underlying().(*types.Struct); ok && stt.Field(fa.Field) == f {
						return true
					}
				}
			}
		}
	}
	return false
}

// aliasOfField: v is (an element of) a local value that is also stored into field f.
func aliasOfField(v ssa.Value, f *types.Var) bool {
	for i := 0; i < 8 && v != nil; i++ {
		if storedToField(v, f) {
			return true
		}
		switch x := v.(type) {
		case *ssa.UnOp:
			v = x.X
		case *ssa.IndexAddr:
			v = x.X
		case *ssa.FieldAddr:
			v = x.X
		case *ssa.MakeInterface:
			v = x.X
		case *ssa.ChangeInterface:
			v = x.X
		case *ssa.Extract:
			nx, ok := x.Tuple.(*ssa.Next)
			if !ok {
				return false
			}
			rg, ok := nx.Iter.(*ssa.Range)
			if !ok {
				return false
			}
			v = rg.X
		default:
			return false
		}
	}
	return false
}

// loadedFromField: v is a load of field f.
func (c *Ctx) loadedFromField(v ssa.Value, f *types.Var) bool {
	return isFieldLoad(v, f)
}

func (c *Ctx) checkCloseAll(r *Report, ro *Roles) {
	n := 0
	for _, nt := range ro.LeafAppenders {
		fields := fileHolderFields(nt)
		if len(fields) == 0 {
			continue
		}
		stop := c.declaredMethod(nt, "Stop")
		if stop == nil {
			r.Fail("C05.close-all:"+nt.Obj().Name(), c.pos(nt.Obj().Pos()), "appender holds files but has no Stop")
			continue
		}
		r.SawFunc(stop)
		for _, f := range fields {
			n++
			key := fmt.Sprintf("C05.close-all:%s.%s", nt.Obj().Name(), f.Name())
			// find Close calls on values obtained from f
			closed := false
			var why string
			eachInstr(stop, func(in ssa.Instruction) {
				call, ok := in.(*ssa.Call)
				if !ok {
					return
				}
				var v ssa.Value
				if hf := c.emptyingHelperField(call); hf == f {
					// the helper takes the file out of this field itself and closes it
					okG := true
					for range guardsOfInstr(in) {
						okG = false
					}
					if okG {
						closed = true
					} else {
						why = "the closing helper is called conditionally"
					}
					return
				}
				if calleeIs(call, "os", "File", "Close") {
					v = call.Call.Args[0]
				} else if i, vv := c.closingHelperArg(call, func(a ssa.Value) bool { return c.fromFileField(a, f) }); i >= 0 {
					v = vv // a helper of the module that closes its parameter whenever it is non-nil
				}
				if v == nil || !c.fromFileField(v, f) {
					return
				}
				// guards must be nil tests of that same value only
				okG := true
				for _, g := range guardsOfInstr(in) {
					b, isB := g.Cond.(*ssa.BinOp)
					if !isB || !((b.X == v || c.sameFieldLoad(b.X, v)) && isNilConst(b.Y)) {
						okG = false
						why = "close is conditional on " + c.accessPath(g.Cond, &Frame{Fn: stop})
					}
				}
				if okG {
					closed = true
				}
			})
			if closed {
				r.OK(key, "closed in Stop whenever non-nil")
			} else {
				if why == "" {
					why = "no Close call on a value taken from this field"
				}
				r.Fail(key, c.pos(stop.Pos()), "Stop leaves the descriptor held by %s open: %s", f.Name(), why)
			}
		}
	}
	r.Floor("file-holding fields", n, 1)
}

// closingHelperArg: the call goes to a function of the module that closes one of its *os.File parameters on every
// path on which that parameter is non-nil, and the matching argument satisfies want.
func (c *Ctx) closingHelperArg(call ssa.CallInstruction, want func(ssa.Value) bool) (int, ssa.Value) {
	sc := call.Common().StaticCallee()
	if sc == nil || !c.inModule(sc) || len(sc.Blocks) == 0 || call.Common().IsInvoke() {
		return -1, nil
	}
	for i, a := range call.Common().Args {
		if i < len(sc.Params) && want(a) && closesParam(sc, sc.Params[i]) {
			return i, a
		}
	}
	return -1, nil
}

// closesParam: no path from f's entry reaches a return without calling (*os.File).Close on p, except over the
// edge on which p was just tested nil.
func closesParam(f *ssa.Function, p *ssa.Parameter) bool {
	if len(f.Blocks) == 0 {
		return false
	}
	return closesValueFrom(f, p, f.Blocks[0])
}

// swapsOutAndCloses: f takes a pointer to a file holder (atomic.Pointer[os.File]) as parameter p, swaps nil into it
// unconditionally (in its entry block) and closes what it took out whenever that is non-nil.
func swapsOutAndCloses(f *ssa.Function, p *ssa.Parameter) bool {
	if len(f.Blocks) == 0 {
		return false
	}
	for _, in := range f.Blocks[0].Instrs {
		call, ok := in.(*ssa.Call)
		if !ok {
			continue
		}
		sc := call.Common().StaticCallee()
		if sc == nil || sc.Name() != "Swap" || len(call.Call.Args) != 2 || call.Call.Args[0] != ssa.Value(p) || !isNilConst(call.Call.Args[1]) {
			continue
		}
		return closesValueFrom(f, call, f.Blocks[0])
	}
	return false
}

// closesValueFrom: no path from block `from` reaches a return without calling (*os.File).Close on p, except over the
// edge on which p was just tested nil.
func closesValueFrom(f *ssa.Function, p ssa.Value, from *ssa.BasicBlock) bool {
	if len(f.Blocks) == 0 {
		return false
	}
	closes := func(b *ssa.BasicBlock) bool {
		for _, in := range b.Instrs {
			if ci, ok := in.(ssa.CallInstruction); ok {
				if _, isGo := in.(*ssa.Go); isGo {
					continue
				}
				if calleeIs(ci, "os", "File", "Close") && len(ci.Common().Args) > 0 && ci.Common().Args[0] == p {
					return true
				}
			}
		}
		return false
	}
	seen := map[*ssa.BasicBlock]bool{}
	var walk func(b *ssa.BasicBlock) bool
	walk = func(b *ssa.BasicBlock) bool {
		if seen[b] {
			return true
		}
		seen[b] = true
		if closes(b) {
			return true
		}
		last := b.Instrs[len(b.Instrs)-1]
		switch x := last.(type) {
		case *ssa.Return:
			return false
		case *ssa.If:
			if bo, ok := x.Cond.(*ssa.BinOp); ok && bo.X == p && isNilConst(bo.Y) && (bo.Op == token.EQL || bo.Op == token.NEQ) {
				nonNil := b.Succs[0]
				if bo.Op == token.EQL {
					nonNil = b.Succs[1]
				}
				return walk(nonNil)
			}
		}
		for _, su := range b.Succs {
			if !walk(su) {
				return false
			}
		}
		return true
	}
	return walk(from)
}

// emptyingHelperField: the call passes the address of a file-holding field to a module helper that swaps it empty and
// closes the previous content; returns that field.
func (c *Ctx) emptyingHelperField(call ssa.CallInstruction) *types.Var {
	sc := call.Common().StaticCallee()
	if sc == nil || !c.inModule(sc) || len(sc.Blocks) == 0 || call.Common().IsInvoke() {
		return nil
	}
	for i, a := range call.Common().Args {
		fa, ok := a.(*ssa.FieldAddr)
		if !ok || i >= len(sc.Params) || !isFileHolder(fieldOfAddr(fa).Type()) {
			continue
		}
		if swapsOutAndCloses(sc, sc.Params[i]) {
			return fieldOfAddr(fa)
		}
	}
	return nil
}

func isNilConst(v ssa.Value) bool {
	k, ok := v.(*ssa.Const)
	return ok && k.Value == nil
}

// fromFileField: v was obtained from field f (plain load, atomic Load or Swap).
func (c *Ctx) fromFileField(v ssa.Value, f *types.Var) bool {
	switch x := v.(type) {
	case *ssa.UnOp:
		if fa, ok := x.X.(*ssa.FieldAddr); ok {
			return fieldOfAddr(fa) == f
		}
	case *ssa.Call:
		if len(x.Call.Args) > 0 {
			if fa, ok := x.Call.Args[0].(*ssa.FieldAddr); ok && fieldOfAddr(fa) == f {
				n := x.Common().StaticCallee()
				return n != nil && (n.Name() == "Load" || n.Name() == "Swap")
			}
		}
	}
	return false
}

// sameFieldLoad: two loads of the same field of the same object (go/ssa does no CSE, so
// identity is decided on the access path of the address).
func (c *Ctx) sameFieldLoad(a, b ssa.Value) bool {
	la, ok1 := a.(*ssa.UnOp)
	lb, ok2 := b.(*ssa.UnOp)
	if !ok1 || !ok2 {
		return false
	}
	fa, ok1 := la.X.(*ssa.FieldAddr)
	fb, ok2 := lb.X.(*ssa.FieldAddr)
	if !(ok1 && ok2 && fieldOfAddr(fa) == fieldOfAddr(fb)) {
		return false
	}
	if fa.X == fb.X {
		return true
	}
	pa, pb := c.accessPath(fa, nil), c.accessPath(fb, nil)
	return pa == pb && !strings.Contains(pa, "?") && !strings.Contains(pa, "[]")
}

// checkFdBound: ownership typestate over the rotation step.
func (c *Ctx) checkFdBound(r *Report, ro *Roles) {
	fn := ro.Rotation
	if fn == nil {
		r.Undecided("C05.fd-bound:anchor", "", "rotation step not found")
		return
	}
	r.SawFunc(fn)
	key := "C05.fd-bound:" + fname(fn)
	nt := rollingType(ro)
	fields := fileHolderFields(nt)
	// state: per field "own" | "empty" | "moved"; pending = values swapped out and not yet closed
	type st struct {
		f    map[string]string
		pend map[string]bool
		bad  string
	}
	enc := func(s st) string {
		var ks []string
		for k, v := range s.f {
			ks = append(ks, k+"="+v)
		}
		sort.Strings(ks)
		var ps []string
		for k := range s.pend {
			ps = append(ps, k)
		}
		sort.Strings(ps)
		return strings.Join(ks, ",") + "|" + strings.Join(ps, ",") + "|" + s.bad
	}
	dec := func(a string) st {
		parts := strings.SplitN(a, "|", 3)
		s := st{f: map[string]string{}, pend: map[string]bool{}}
		for _, kv := range strings.Split(parts[0], ",") {
			if i := strings.Index(kv, "="); i > 0 {
				s.f[kv[:i]] = kv[i+1:]
			}
		}
		if len(parts) > 1 {
			for _, p := range strings.Split(parts[1], ",") {
				if p != "" {
					s.pend[p] = true
				}
			}
		}
		if len(parts) > 2 {
			s.bad = parts[2]
		}
		return s
	}
	init := st{f: map[string]string{}, pend: map[string]bool{}}
	for _, f := range fields {
		init.f[f.Name()] = "own"
	}
	fieldOfArg0 := func(ci ssa.CallInstruction) *types.Var {
		if len(ci.Common().Args) == 0 {
			return nil
		}
		if fa, ok := ci.Common().Args[0].(*ssa.FieldAddr); ok && isFileHolder(fieldOfAddr(fa).Type()) {
			return fieldOfAddr(fa)
		}
		return nil
	}
	ts := &TS{C: c, Ev: &Evaluator{}}
	ts.OnInstr = func(s *TSCtx, in ssa.Instruction) []string {
		ci, ok := in.(ssa.CallInstruction)
		if !ok {
			return nil
		}
		sc := ci.Common().StaticCallee()
		if sc == nil {
			return nil
		}
		cur := dec(s.A)
		if _, isGo := in.(*ssa.Go); !isGo {
			if hf := c.emptyingHelperField(ci); hf != nil {
				cur.f[hf.Name()] = "empty"
				return []string{enc(cur)}
			}
			if i, v := c.closingHelperArg(ci, func(a ssa.Value) bool { return cur.pend[a.Name()] }); i >= 0 {
				delete(cur.pend, v.Name())
				return []string{enc(cur)}
			}
		}
		switch {
		case funcIs(sc, "os", "File", "Close"):
			v := ci.Common().Args[0]
			name := v.Name()
			if cur.pend[name] {
				delete(cur.pend, name)
				return []string{enc(cur)}
			}
			// closing a value loaded from a field empties it in effect
			for _, f := range fields {
				if c.fromFileField(v, f) {
					cur.f[f.Name()] = "empty"
					return []string{enc(cur)}
				}
			}
		case sc.Name() == "Swap" && fieldOfArg0(ci) != nil:
			f := fieldOfArg0(ci)
			newV := ci.Common().Args[1]
			if cur.f[f.Name()] == "own" {
				if v, ok := in.(ssa.Value); ok {
					cur.pend[v.Name()] = true
				}
			}
			if isNilConst(newV) {
				cur.f[f.Name()] = "empty"
			} else {
				cur.f[f.Name()] = "own"
			}
			return []string{enc(cur)}
		case sc.Name() == "Store" && fieldOfArg0(ci) != nil:
			f := fieldOfArg0(ci)
			newV := ci.Common().Args[1]
			if cur.f[f.Name()] == "own" {
				cur.bad = fmt.Sprintf("%s is overwritten while it may still hold an open file that was neither closed nor handed to another field (%s)", f.Name(), c.instrPos(in))
			}
			// transfer: storing the content of another file field
			moved := false
			for _, g := range fields {
				if g != f && c.fromFileField(newV, g) {
					cur.f[g.Name()] = "moved"
					moved = true
				}
			}
			_ = moved
			// transfer: a value swapped out of another field goes straight into this one
			if cur.pend[newV.Name()] {
				delete(cur.pend, newV.Name())
			}
			if isNilConst(newV) {
				cur.f[f.Name()] = "empty"
			} else {
				cur.f[f.Name()] = "own"
			}
			return []string{enc(cur)}
		}
		return nil
	}
	ts.OnBranch = func(s *TSCtx, iff *ssa.If, taken bool) (string, bool) {
		// nil test of a swapped-out value: on the nil edge nothing is pending
		if b, ok := iff.Cond.(*ssa.BinOp); ok && isNilConst(b.Y) {
			isNil := (b.Op == token.EQL) == taken
			cur := dec(s.A)
			if isNil && cur.pend[b.X.Name()] {
				delete(cur.pend, b.X.Name())
				return enc(cur), true
			}
		}
		return "", false
	}
	outs := ts.Run(fn, enc(init), nil)
	r.Count("typestate_states", ts.States)
	var bad []string
	for _, o := range outs {
		s := dec(o.A)
		if s.bad != "" {
			bad = append(bad, s.bad)
		}
		if len(s.pend) > 0 {
			bad = append(bad, "a file taken out of a field is not closed on some path")
		}
	}
	if len(bad) > 0 {
		r.Fail(key, c.pos(fn.Pos()), "%s — descriptors accumulate across rotations", strings.Join(uniq(bad), "; "))
	} else {
		r.OK(key, "%d exit state(s): every overwrite of a file-holding field follows a close or a hand-over of its previous content (≤ %d descriptors)", len(outs), len(fields))
	}
}

// isFreshChan: v is a make(chan …), possibly through a local variable that holds nothing else.
func isFreshChan(v ssa.Value, d int) bool {
	if d > 4 {
		return false
	}
	switch x := v.(type) {
	case *ssa.MakeChan:
		return true
	case *ssa.ChangeType:
		return isFreshChan(x.X, d+1)
	case *ssa.UnOp:
		if al, ok := x.X.(*ssa.Alloc); ok && x.Op == token.MUL {
			sts := storesTo(al)
			if len(sts) == 0 {
				return false
			}
			for _, st := range sts {
				if !isFreshChan(st.Val, d+1) {
					return false
				}
			}
			return true
		}
	}
	return false
}

// itemStruct: v is a field read of a struct-typed value (x.f, or *(&x.f)) → that struct type.
func itemStruct(v ssa.Value) *types.Struct {
	switch x := v.(type) {
	case *ssa.Field:
		st, _ := x.X.Type().Underlying().(*types.Struct)
		return st
	case *ssa.UnOp:
		if fa, ok := x.X.(*ssa.FieldAddr); ok {
			st, _ := fa.X.Type().Underlying().(*types.Pointer).Elem().Underlying().(*types.Struct)
			return st
		}
	case *ssa.Phi:
		for _, e := range x.Edges {
			if st := itemStruct(e); st != nil {
				return st
			}
		}
	}
	return nil
}

// copySource: call makes a fresh copy of one of its arguments (bytes.Clone(x), slices.Clone(x),
// append([]byte(nil), x...), append(make([]T, 0, n), x...)) → that argument.
func copySource(call *ssa.Call) (ssa.Value, bool) {
	if defaultCopyMaker(call) && len(call.Call.Args) >= 1 {
		return call.Call.Args[0], true
	}
	if b, ok := call.Call.Value.(*ssa.Builtin); ok && b.Name() == "append" && len(call.Call.Args) == 2 {
		switch d := call.Call.Args[0].(type) {
		case *ssa.Const:
			if d.Value == nil {
				return call.Call.Args[1], true
			}
		case *ssa.MakeSlice:
			if n, ok := constInt(d.Len); ok && n == 0 {
				return call.Call.Args[1], true
			}
		}
	}
	return nil, false
}

// unexportedHelper: the function is not part of the package's API (unexported itself, or a method of an unexported type).
func unexportedHelper(f *ssa.Function) bool {
	o := f.Object()
	if f.Origin() != nil {
		o = f.Origin().Object()
	}
	if o == nil {
		return true // a function literal
	}
	if !o.Exported() {
		return true
	}
	if nt := recvNamed(f); nt != nil {
		return !nt.Obj().Exported()
	}
	if f.Origin() != nil {
		if nt := recvNamed(f.Origin()); nt != nil {
			return !nt.Obj().Exported()
		}
	}
	return false
}

// isLifecycleType: the named type has Start and Stop methods (a logger or appender of its own, not a helper type).
func (c *Ctx) isLifecycleType(nt *types.Named) bool {
	return nt != nil && c.method(nt, "Start") != nil && c.method(nt, "Stop") != nil
}
