package main

// rules_sync.go: C03 (whole unmixed lines) and C12 (raw Write).

import (
	"fmt"
	"go/token"
	"go/types"
	"sort"
	"strings"

	"golang.org/x/tools/go/ssa"
)

func init() {
	register("C03", checkC03)
	register("C12", checkC12)
}

// poolPutters: functions that hand (a value derived from) parameter i to (*sync.Pool).Put.
func (c *Ctx) poolPutters() map[*ssa.Function]int {
	out := map[*ssa.Function]int{}
	for _, f := range c.Funcs {
		eachInstr(f, func(in ssa.Instruction) {
			call, ok := in.(*ssa.Call)
			if !ok || !calleeIs(call, "sync", "Pool", "Put") {
				return
			}
			rv, _ := rootVal(call.Call.Args[1], nil)
			for i, p := range f.Params {
				if rv == p {
					out[f] = i
				}
			}
		})
	}
	return out
}

func checkC03(c *Ctx, r *Report) {
	r.Explanation = "decided: no layout returns bytes that alias a buffer it (or a deferred call) hands back to a sync.Pool — once released the storage can be rewritten by another goroutine before the sink has consumed the line; an event is never used, sent or released again after it was released to the pool, and never released after it was handed to the asynchronous queue; every leaf appender performs exactly one sink write per call with the whole formatted slice (no second write for a newline, no re-slicing) whenever it has a file; every log file is opened O_APPEND without O_TRUNC; no function on the log call path performs a non-atomic store to state shared between goroutines (fields of loggers, appenders, layouts, tags, handles, package variables). Not decided: atomicity of write(2) with O_APPEND, the scheduler."
	r.Undecidedcl = []string{"atomicity of a single write(2) on an O_APPEND descriptor / the console stream (OS contract)", "the multiset equality lines = events over real schedules"}
	r.Assumptions = []string{"sync.Pool may hand a released object to any goroutine immediately", "one write(2) per (*os.File).Write call for the sizes involved"}
	ro := c.roles(r)
	fileAppenderDecisions(r, c.checkFileAppenderSemantics(r, ro, "C03.file-values"))
	r.Floor("layout implementations", len(ro.Layouts), 2)
	putters := c.poolPutters()
	r.Count("pool_putters", len(putters))

	// ---- C03.alias
	for _, lt := range ro.Layouts {
		m := c.declaredMethod(lt, "ToBytes")
		if m == nil {
			r.Undecided("C03.alias:"+lt.Obj().Name(), c.pos(lt.Obj().Pos()), "layout has no ToBytes of its own")
			continue
		}
		r.SawFunc(m)
		key := "C03.alias:" + fname(m)
		var released []ssa.Value
		eachInstr(m, func(in ssa.Instruction) {
			ci, ok := in.(ssa.CallInstruction)
			if !ok {
				return
			}
			f := ci.Common().StaticCallee()
			if f == nil {
				return
			}
			if idx, ok := putters[f]; ok && idx < len(ci.Common().Args) {
				released = append(released, ci.Common().Args[idx])
			}
			if funcIs(f, "sync", "Pool", "Put") {
				rv, _ := rootVal(ci.Common().Args[1], nil)
				released = append(released, rv)
			}
		})
		if len(released) == 0 {
			r.OK(key, "no buffer is released to a pool by this layout; returned bytes are private")
			continue
		}
		bad := 0
		for _, rel := range released {
			fl := newFlow(c)
			fl.Add(rel)
			r.Count("flows", len(fl.Set))
			for _, s := range fl.Sinks {
				if s.Kind == "return" && s.Instr.Parent() == m && bad == 0 {
					bad++
					r.Fail(key, c.instrPos(s.Instr), "returns bytes that alias the pooled buffer %s which this function releases (deferred or direct): the appender still reads them after another goroutine may have reacquired and rewritten the buffer; via %s", rel.Name(), c.prov(s.Via, &Frame{Fn: m}))
				}
			}
		}
		if bad == 0 {
			r.OK(key, "%d released buffer(s); no returned value is in their alias closure (a copy is returned)", len(released))
		}
	}

	// ---- C03.event
	c.checkEventTypestate(r, ro)

	// a recycled event (every field stale, handed back through PutEvent) through every entry point in every environment
	// class: nothing stale may be published
	entryOK := c.checkEntrySemantics(r, ro, "C03.entry-values")
	// the line of an event is a function of that event alone: the layouts evaluated over their value domain, each
	// field slice with caller-owned elements in its spare capacity that formatting must not touch
	c.checkLayoutSemantics(r, ro, "C03.layout-values")
	allEntries := len(ro.EntryPoints) > 0
	for _, E := range ro.EntryPoints {
		allEntries = allEntries && entryOK[E.Name()]
	}
	// ---- C03.reset: a pooled event must not carry data of the previous event: every field is either cleared by
	// Reset or written by the recorder on every path before publication
	if ev := c.logType("Event"); ev != nil && ro.Recorder != nil {
		st := ev.Underlying().(*types.Struct)
		pd := postDominators(ro.Recorder)
		var getEv ssa.Instruction
		eachInstr(ro.Recorder, func(in ssa.Instruction) {
			if call, ok := in.(*ssa.Call); ok {
				if s := call.Common().StaticCallee(); s != nil && s.Name() == "GetEvent" {
					getEv = in
				}
			}
		})
		var stale []string
		for i := 0; i < st.NumFields(); i++ {
			fld := st.Field(i).Name()
			written := false
			if getEv != nil {
				eachInstr(ro.Recorder, func(in ssa.Instruction) {
					if s2, ok := in.(*ssa.Store); ok {
						if fa, ok := s2.Addr.(*ssa.FieldAddr); ok && isEventPtr(fa.X.Type()) && fieldName(fa) == fld {
							if in.Block() == getEv.Block() || pd[getEv.Block()][in.Block()] {
								written = true
							}
						}
					}
				})
			}
			if !written && !c.resetClears(fld) {
				stale = append(stale, fld)
			}
		}
		// the evaluation hands every entry point a recycled event whose Level, Time, File, Line, Tag, Fields, CtxString and
		// CtxFields are stale and finds none of it published: for those fields it decides; a field it does not know
		// (a new one) stays with the rule
		evaluated := map[string]bool{"Level": true, "Time": true, "File": true, "Line": true, "Tag": true, "Fields": true, "CtxString": true, "CtxFields": true}
		onlyEvaluated := len(stale) > 0
		for _, f := range stale {
			onlyEvaluated = onlyEvaluated && evaluated[f]
		}
		if onlyEvaluated && allEntries {
			r.OK("C03.reset:Event", "field(s) %v are neither cleared by Reset nor provably rewritten on every path, but all %d entry points evaluated with a recycled event whose fields are all stale publish nothing stale (decided by partial evaluation)", stale, len(ro.EntryPoints))
		} else if len(stale) > 0 {
			r.Fail("C03.reset:Event", c.pos(ev.Obj().Pos()), "field(s) %v of a recycled event are neither cleared by Reset nor rewritten on every path of the recorder: a line can carry data that belongs to another event", stale)
		} else {
			r.OK("C03.reset:Event", "all %d Event fields are cleared by Reset or rewritten on every path before publication", st.NumFields())
		}
	}

	// ---- C03.single-write
	for _, nt := range ro.LeafAppenders {
		wr := c.declaredMethod(nt, "Write")
		if wr == nil {
			continue
		}
		r.SawFunc(wr)
		key := "C03.single-write:" + fname(wr)
		sw := sinkWrites(wr)
		// also sink writes in callees other than the rotation step
		if len(wr.Blocks) == 0 || (len(wr.Blocks) == 1 && len(wr.Blocks[0].Instrs) == 1) {
			r.OKTrivial(key, "no-op appender")
			continue
		}
		if len(sw) != 1 {
			r.Fail(key, c.pos(wr.Pos()), "%d sink writes per call (want exactly 1): a line written in pieces can interleave with other goroutines' lines", len(sw))
			continue
		}
		arg := sw[0].Common().Args[len(sw[0].Common().Args)-1]
		if sw[0].Common().IsInvoke() {
			arg = sw[0].Common().Args[0]
		}
		if arg != wr.Params[1] {
			r.Fail(key, c.instrPos(sw[0]), "the sink receives %s instead of the whole formatted slice", c.prov(arg, &Frame{Fn: wr}))
			continue
		}
		// in a loop?
		if blockInLoop(sw[0].Block(), sw[0].Block()) {
			r.Fail(key, c.instrPos(sw[0]), "the sink write is inside a loop")
			continue
		}
		var extra []string
		for _, g := range guardsOfInstr(sw[0]) {
			b, ok := g.Cond.(*ssa.BinOp)
			recv := sw[0].Common().Args[0]
			if ok && isNilConst(b.Y) && b.X == recv {
				continue
			}
			extra = append(extra, c.prov(g.Cond, &Frame{Fn: wr}).String())
		}
		if len(extra) > 0 {
			r.Fail(key, c.instrPos(sw[0]), "the sink write is skipped under %v: lines can be lost", extra)
		} else {
			r.OK(key, "one sink write of the whole slice on every path that has a file")
		}
		// Append: the bytes written are exactly the layout's result
		ap := c.declaredMethod(nt, "Append")
		if ap != nil {
			keyA := "C03.single-write:" + fname(ap)
			okA := false
			nCalls := 0
			eachInstr(ap, func(in ssa.Instruction) {
				if call, ok := in.(*ssa.Call); ok && call.Common().StaticCallee() == wr {
					nCalls++
					if tb, ok := call.Call.Args[1].(*ssa.Call); ok && tb.Common().IsInvoke() && tb.Common().Method.Name() == "ToBytes" && tb.Common().Args[0] == ap.Params[1] {
						okA = true
					}
				}
			})
			if okA && nCalls == 1 {
				r.OK(keyA, "Write(Layout.ToBytes(e)) exactly once")
			} else {
				r.Fail(keyA, c.pos(ap.Pos()), "Append does not write exactly the layout's bytes for the event once (%d Write calls)", nCalls)
			}
		}
	}
	// ---- C03.append-flag
	checkOpenFlags(c, r, "C03.append-flag")
	// ---- C03.no-shared-writes
	c.checkNoSharedWrites(r, ro, "C03.no-shared-writes")
}

// checkEventTypestate: live → released | sent; no use after release, no release after send.
func (c *Ctx) checkEventTypestate(r *Report, ro *Roles) {
	putEvent := c.logFunc("PutEvent")
	if putEvent == nil {
		r.Undecided("C03.event:anchor", "", "PutEvent not found")
		return
	}
	type root struct {
		fn  *ssa.Function
		val ssa.Value
	}
	var roots []root
	for _, l := range ro.Loggers {
		if m := c.declaredMethod(l, "Append"); m != nil {
			roots = append(roots, root{m, m.Params[1]})
		}
	}
	if ro.AppenderRef != nil {
		if m := c.declaredMethod(ro.AppenderRef, "Append"); m != nil {
			roots = append(roots, root{m, m.Params[1]})
		}
	}
	for _, a := range ro.LeafAppenders {
		if m := c.declaredMethod(a, "Append"); m != nil {
			roots = append(roots, root{m, m.Params[1]})
		}
	}
	if ro.Recorder != nil {
		// the pooled event obtained by the recorder
		eachInstr(ro.Recorder, func(in ssa.Instruction) {
			if call, ok := in.(*ssa.Call); ok && call.Common().StaticCallee() != nil && call.Common().StaticCallee().Name() == "GetEvent" {
				roots = append(roots, root{ro.Recorder, call})
			}
		})
	}
	if ro.Worker != nil {
		eachInstr(ro.Worker, func(in ssa.Instruction) {
			if u, ok := in.(*ssa.UnOp); ok && u.Op == token.ARROW {
				roots = append(roots, root{ro.Worker, u})
			}
		})
	}
	r.Floor("event-handling roots", len(roots), 8)
	// do the bytes a layout returns alias storage that goes back to a pool with the event (no copy on the way out)?
	layoutsAlias := false
	if layI := c.logIface("Layout"); layI != nil {
		var aliases func(v ssa.Value, depth int) bool
		aliases = func(v ssa.Value, depth int) bool {
			if depth > 3 {
				return false
			}
			switch x := v.(type) {
			case *ssa.Call:
				if calleeIs(x, "bytes", "", "Clone") || calleeIs(x, "slices", "", "Clone") {
					return false
				}
				if sc := x.Common().StaticCallee(); sc != nil {
					if sc.Name() == "Bytes" && sc.Signature.Recv() != nil && strings.Contains(sc.Signature.Recv().Type().String(), "bytes.Buffer") {
						return true
					}
					if c.inModule(sc) && len(sc.Blocks) > 0 {
						res := false
						eachInstr(sc, func(in ssa.Instruction) {
							if ret, ok := in.(*ssa.Return); ok && len(ret.Results) > 0 && aliases(ret.Results[0], depth+1) {
								res = true
							}
						})
						return res
					}
				}
			case *ssa.Phi:
				for _, e := range x.Edges {
					if aliases(e, depth+1) {
						return true
					}
				}
			case *ssa.Slice:
				return aliases(x.X, depth+1)
			}
			return false
		}
		for _, nt := range c.implementers(layI) {
			if m := c.method(nt, "ToBytes"); m != nil && len(m.Blocks) > 0 {
				eachInstr(m, func(in ssa.Instruction) {
					if ret, ok := in.(*ssa.Return); ok && len(ret.Results) > 0 && aliases(ret.Results[0], 0) {
						layoutsAlias = true
					}
				})
			}
		}
	}
	for _, rt := range roots {
		r.SawFunc(rt.fn)
		key := "C03.event:" + fname(rt.fn)
		isT := func(v ssa.Value, fr *Frame) bool {
			rv, _ := rootVal(v, fr)
			if rv == rt.val {
				return true
			}
			// value received from the channel: `<-ch,ok` tuple → extract #0
			if ex, ok := rv.(*ssa.Extract); ok && ex.Tuple == rt.val {
				return true
			}
			return false
		}
		var viol []string
		// bytes formatted from the event by a layout that hands out its buffer's own storage: borrowed from the event
		borrowed := map[ssa.Value]bool{}
		ts := &TS{C: c, Ev: &Evaluator{}}
		ts.Inline = func(s *TSCtx, call ssa.CallInstruction, callee *ssa.Function) bool {
			if callee == putEvent || call.Common().StaticCallee() == nil {
				return false
			}
			// follow helpers of the same receiver type that receive the event
			for _, a := range call.Common().Args {
				if isT(a, s.Frame) {
					return recvNamed(callee) == recvNamed(rt.fn) || (rt.fn.Parent() != nil && recvNamed(callee) == recvNamed(rt.fn.Parent()))
				}
			}
			return false
		}
		step := func(s *TSCtx, what string, in ssa.Instruction) []string {
			st := s.A
			switch what {
			case "REL":
				switch st {
				case "released":
					viol = append(viol, "released twice ("+c.instrPos(in)+")")
				case "sent":
					viol = append(viol, "released after it was handed to the queue: the worker will use a recycled event ("+c.instrPos(in)+")")
				}
				return []string{"released"}
			case "SEND":
				if st == "released" {
					viol = append(viol, "sent after release ("+c.instrPos(in)+")")
				}
				if st == "sent" {
					viol = append(viol, "sent twice ("+c.instrPos(in)+")")
				}
				return []string{"sent"}
			case "USE":
				if st == "released" {
					viol = append(viol, "used after it was returned to the pool ("+c.instrPos(in)+"): another goroutine may already be refilling it")
				}
			}
			return nil
		}
		ts.OnInstr = func(s *TSCtx, in ssa.Instruction) []string {
			switch x := in.(type) {
			case *ssa.Send:
				if isT(x.X, s.Frame) {
					return step(s, "SEND", in)
				}
			case ssa.CallInstruction:
				com := x.Common()
				if com.StaticCallee() == putEvent && isT(com.Args[0], s.Frame) {
					return step(s, "REL", in)
				}
				if layoutsAlias && x.Value() != nil {
					name := ""
					if com.IsInvoke() {
						name = com.Method.Name()
					} else if sc := com.StaticCallee(); sc != nil {
						name = sc.Name()
					}
					if name == "ToBytes" {
						for _, a := range com.Args {
							if isT(a, s.Frame) {
								borrowed[x.Value()] = true
							}
						}
					}
				}
				for _, a := range com.Args {
					if borrowed[a] && s.A == "released" {
						viol = append(viol, "bytes a layout formatted from the event are used after the event went back to the pool ("+c.instrPos(in)+"): the layouts hand out their buffer's own storage, which is recycled with the event")
					}
				}
				for _, a := range com.Args {
					if isT(a, s.Frame) {
						return step(s, "USE", in)
					}
				}
				if com.IsInvoke() && isT(com.Value, s.Frame) {
					return step(s, "USE", in)
				}
			case *ssa.FieldAddr:
				if isT(x.X, s.Frame) {
					return step(s, "USE", in)
				}
			}
			return nil
		}
		ts.OnSelect = func(s *TSCtx, sel *ssa.Select, chosen int) []string {
			if chosen >= 0 && sel.States[chosen].Dir == types.SendOnly && isT(sel.States[chosen].Send, s.Frame) {
				return step(s, "SEND", sel)
			}
			return nil
		}
		ts.OnJump = func(s *TSCtx, from, to *ssa.BasicBlock) (string, bool) {
			// a new received item per worker iteration
			if rt.fn == ro.Worker && (to == from || to.Dominates(from)) {
				if in, ok := rt.val.(ssa.Instruction); ok && in.Block() == to {
					return "live", true
				}
			}
			return "", false
		}
		outs := ts.Run(rt.fn, "live", nil)
		r.Count("typestate_states", ts.States)
		ends := map[string]bool{}
		for _, o := range outs {
			ends[o.A] = true
		}
		var es []string
		for e := range ends {
			es = append(es, e)
		}
		sort.Strings(es)
		if len(viol) > 0 {
			r.Fail(key, c.pos(rt.fn.Pos()), "event %s", strings.Join(uniq(viol), "; "))
		} else {
			r.OK(key, "no use/send/release after release, no release after send; end states %v", es)
		}
	}
}

// sharedTypes: types whose instances are reachable from several goroutines during logging.
func (c *Ctx) sharedTypes(ro *Roles) map[*types.Named]bool {
	shared := map[*types.Named]bool{}
	var add func(nt *types.Named)
	add = func(nt *types.Named) {
		if nt == nil || shared[nt] {
			return
		}
		shared[nt] = true
		if st, ok := nt.Underlying().(*types.Struct); ok {
			for i := 0; i < st.NumFields(); i++ {
				if !st.Field(i).Embedded() {
					continue
				}
				if n, ok := st.Field(i).Type().(*types.Named); ok && n.Obj().Pkg() != nil && n.Obj().Pkg().Path() == logPath {
					if _, isS := n.Underlying().(*types.Struct); isS {
						add(n)
					}
				}
			}
		}
	}
	for _, nt := range ro.Lifecycles {
		add(nt)
	}
	for _, nt := range ro.Layouts {
		add(nt)
	}
	add(ro.AppenderRef)
	add(c.logType("Tag"))
	add(c.logType("LoggerWrapper"))
	add(c.logType("AppenderRefs"))
	return shared
}

// storeRoot classifies the root of a store address.
func (c *Ctx) storeRoot(addr ssa.Value) (kind string, nt *types.Named, desc string) {
	v := addr
	for i := 0; i < 16; i++ {
		switch x := v.(type) {
		case *ssa.FieldAddr:
			// the struct being written
			if p, ok := x.X.Type().Underlying().(*types.Pointer); ok {
				if n, ok := p.Elem().(*types.Named); ok && nt == nil {
					nt = n
				}
			}
			v = x.X
			continue
		case *ssa.IndexAddr:
			v = x.X
			continue
		case *ssa.UnOp:
			if x.Op == token.MUL {
				// a load of a local cell that holds a pointer (captured or spilled parameter): follow the stored pointer
				if al, ok := x.X.(*ssa.Alloc); ok {
					if sts := storesTo(al); len(sts) == 1 {
						v = sts[0].Val
						continue
					}
				}
				v = x.X
				continue
			}
		case *ssa.Global:
			return "global", nt, x.Name()
		case *ssa.Alloc:
			return "local", nt, x.Comment
		case *ssa.Parameter, *ssa.FreeVar:
			return "param", nt, v.Name()
		case *ssa.Call, *ssa.Extract, *ssa.TypeAssert, *ssa.Phi, *ssa.MakeSlice, *ssa.Slice:
			return "value", nt, v.Name()
		}
		break
	}
	return "other", nt, fmt.Sprintf("%T", v)
}

func (c *Ctx) checkNoSharedWrites(r *Report, ro *Roles, rule string) {
	shared := c.sharedTypes(ro)
	r.Count("shared_types", len(shared))
	n, bad := 0, 0
	for _, f := range sortedFuncs(ro.HotPath) {
		r.SawFunc(f)
		eachInstr(f, func(in ssa.Instruction) {
			var addr ssa.Value
			what := ""
			switch x := in.(type) {
			case *ssa.Store:
				addr, what = x.Addr, "store"
			case *ssa.MapUpdate:
				addr, what = x.Map, "map update"
			default:
				return
			}
			n++
			kind, nt, desc := c.storeRoot(addr)
			switch {
			case kind == "global":
				bad++
				r.Fail(rule+":"+fname(f)+"→"+desc, c.instrPos(in), "non-atomic %s to package variable %s on the log call path (data race between concurrently logging goroutines)", what, desc)
			case kind == "local":
			case nt != nil && shared[nt]:
				bad++
				r.Fail(rule+":"+fname(f)+"→"+nt.Obj().Name(), c.instrPos(in), "non-atomic %s to a field of shared type %s on the log call path: concurrent log calls race on it and can mix their data", what, nt.Obj().Name())
			}
		})
	}
	r.Count("stores_examined", n)
	if bad == 0 {
		r.OK(rule+":hot-path", "%d stores/map updates in %d hot-path functions: none targets a package variable or a field of a shared type (events, encoders and fresh allocations are single-owner)", n, len(ro.HotPath))
	}
}

// ---------------------------------------------------------------------------
// C12

func checkC12(c *Ctx, r *Report) {
	r.Explanation = "decided: from the named handle's Write and from every logger's Write (and the asynchronous worker's raw branch) each appender reference's Write is reached with no level gate on the chain — for any fixed level there are reference ranges that exclude it, so any gate contradicts 'every appender for all reference level settings' — and exactly once per reference; the bytes handed on are the caller's parameter itself or a copy of it (no re-slicing or concatenation); a []byte parameter is never retained beyond the call (queue send, heap store, closure/goroutine capture) unless copied first; the handle's Write reports (len(b), nil) on every path; GetLogger returns the stored handle for a known name and stores only on the miss branch; Refresh binds a handle only after a successful look-up of its name and returns an error otherwise. Not decided: call order across concurrent writers."
	r.Undecidedcl = []string{"order of raw writes from concurrent writers (schedule property; single queue/single consumer is decided in C06)"}
	r.Assumptions = []string{"closed world of appender implementations"}
	ro := c.roles(r)
	if c.checkLifecycleSemantics(r, ro, "C12.lifecycle-values", r.Tier == "thorough") {
		r.Decide([]string{"C12.handle:", "C12.unknown-name:", "C12.forward:", "C12.len:"}, nil, "handles evaluated over operation sequences")
	}
	c.checkFanoutSemantics(r, ro, "C12.fanout-values")
	if ro.WorkerOwner != nil && c.checkAsyncSemantics(r, ro, "C12.async-values") {
		tn := ro.WorkerOwner.Obj().Name()
		r.Decide([]string{"C12.verbatim:", "C12.no-retain:", "C12.every-ref:", "C12.ungated:"}, func(k string) bool { return strings.Contains(k, "(*"+tn+")") },
			tn+" evaluated under scripted schedules: raw bytes reach every reference once, in call order and unchanged although the caller overwrites its buffer after Write returns")
	}
	lw := c.logType("LoggerWrapper")
	if lw == nil {
		r.Undecided("C12.anchor:handle", "", "LoggerWrapper not found")
		return
	}
	hw := c.declaredMethod(lw, "Write")
	type root struct {
		fn   *ssa.Function
		name string
	}
	var roots []root
	for _, l := range ro.Loggers {
		if m := c.declaredMethod(l, "Write"); m != nil {
			roots = append(roots, root{m, fname(m)})
		} else if pm := c.method(l, "Write"); pm != nil {
			r.OKTrivial("C12.ungated:"+l.Obj().Name()+".Write", "promoted leaf write %s (no references to gate)", fname(pm))
		}
	}
	nChains := 0
	for _, rt := range roots {
		r.SawFunc(rt.fn)
		ds, trunc := c.deliveries(rt.fn, ro, r)
		if len(trunc) > 0 {
			r.Undecided("C12.ungated:"+rt.name, c.pos(rt.fn.Pos()), "truncated: %v", trunc)
			continue
		}
		if len(ds) == 0 {
			r.Fail("C12.ungated:"+rt.name, c.pos(rt.fn.Pos()), "raw bytes reach no appender, queue or inner logger")
			continue
		}
		for _, d := range ds {
			nChains++
			key := fmt.Sprintf("C12.ungated:%s→%s@%s", rt.name, d.Kind, strings.TrimPrefix(d.Chain, rt.name))
			var gates []string
			for _, g := range d.Gates {
				if strings.HasSuffix(g, "=true") {
					gates = append(gates, g)
				}
			}
			if len(gates) > 0 {
				r.Fail(key, d.Pos, "raw bytes are delivered only under the level gate %v: for references whose range excludes that level nothing is written (with the global MaxLevel as the level, Enable is `code < code` and never holds for any parsable range)", gates)
			} else {
				r.OK(key, "no level gate between the logger's Write and the delivery (%d path(s))", d.Paths)
			}
			// verbatim
			keyV := fmt.Sprintf("C12.verbatim:%s→%s@%s", rt.name, d.Kind, strings.TrimPrefix(d.Chain, rt.name))
			p := "param:" + rt.fn.Params[1].Name()
			arg := d.Arg
			// a queue item that wraps the bytes in a struct: the one field that is set
			if strings.HasPrefix(arg, "lit{") && strings.HasSuffix(arg, "}") && strings.Count(arg, "=") == 1 {
				arg = arg[strings.Index(arg, "=")+1 : len(arg)-1]
			}
			if arg == p || arg == "bytes.Clone("+p+")" || arg == "slices.Clone("+p+")" || arg == "builtin:append(nil,"+p+")" {
				r.OK(keyV, "delivers %s", d.Arg)
			} else {
				r.Fail(keyV, d.Pos, "delivers %s instead of the caller's bytes", d.Arg)
			}
		}
	}
	// worker raw branch
	if ro.Worker != nil {
		r.SawFunc(ro.Worker)
		ds, _ := c.deliveries(ro.Worker, ro, r)
		found := false
		for _, d := range ds {
			if d.Kind != "dyn-write" || strings.Contains(d.Arg, "ToBytes") {
				continue
			}
			found = true
			nChains++
			key := "C12.ungated:" + fname(ro.Worker) + "→dyn-write@" + strings.TrimPrefix(d.Chain, fname(ro.Worker))
			var gates []string
			for _, g := range d.Gates {
				if strings.HasSuffix(g, "=true") {
					gates = append(gates, g)
				}
			}
			if len(gates) > 0 {
				r.Fail(key, d.Pos, "queued raw bytes are delivered only under the level gate %v", gates)
			} else {
				r.OK(key, "no level gate on the worker's raw branch")
			}
			if !strings.Contains(d.Arg, "<-") {
				r.Fail("C12.verbatim:"+fname(ro.Worker), d.Pos, "the worker delivers %s instead of the dequeued bytes", d.Arg)
			} else {
				r.OK("C12.verbatim:"+fname(ro.Worker), "delivers the dequeued item unchanged")
			}
		}
		if !found {
			r.Fail("C12.ungated:"+fname(ro.Worker), c.pos(ro.Worker.Pos()), "the worker has no raw-bytes delivery")
		}
	}
	r.Count("delivery_chains", nChains)
	r.Floor("raw delivery chains", nChains, 5)

	// every reference exactly once: the raw fan-out loop delivers on every iteration path
	c.checkRawFanout(r, ro)

	// no-retain
	for _, rt := range roots {
		key := "C12.no-retain:" + rt.name + "#" + rt.fn.Params[1].Name()
		fl := newFlow(c)
		fl.Add(rt.fn.Params[1])
		r.Count("flows", len(fl.Set))
		var bad []string
		for _, s := range fl.Sinks {
			switch s.Kind {
			case "send", "heap-store", "global-store", "closure", "go", "defer":
				bad = append(bad, fmt.Sprintf("%s at %s", s.Kind, c.instrPos(s.Instr)))
			}
		}
		if len(bad) > 0 {
			r.Fail(key, c.pos(rt.fn.Pos()), "the caller's slice is retained beyond the call without a copy (%s): bytes the caller writes into its buffer afterwards are what gets logged", strings.Join(uniq(bad), "; "))
		} else {
			r.OK(key, "%d alias(es), no retention sink (copy made before any queue send)", len(fl.Set))
		}
	}
	if hw != nil {
		r.SawFunc(hw)
		// len
		key := "C12.len:" + fname(hw)
		okLen := true
		n := 0
		eachInstr(hw, func(in ssa.Instruction) {
			ret, ok := in.(*ssa.Return)
			if !ok {
				return
			}
			n++
			p := c.prov(ret.Results[0], &Frame{Fn: hw}).String()
			if p != "builtin:len(param:"+hw.Params[1].Name()+")" || !isNilConst(ret.Results[1]) {
				okLen = false
			}
		})
		if okLen && n > 0 {
			r.OK(key, "returns (len(b), nil) on all %d return(s)", n)
		} else {
			r.Fail(key, c.pos(hw.Pos()), "Write does not report the full length with a nil error on every path")
		}
		// forwards to the bound logger's Write with the same bytes on every path
		key = "C12.forward:" + fname(hw)
		ts := &TS{C: c, Ev: &Evaluator{}}
		ts.OnInstr = func(s *TSCtx, in ssa.Instruction) []string {
			if ci, ok := in.(ssa.CallInstruction); ok && ci.Common().IsInvoke() && ci.Common().Method.Name() == "Write" && c.moduleIface(ci.Common().Value.Type()) {
				if ci.Common().Args[0] == hw.Params[1] {
					return []string{s.A + "W"}
				}
				return []string{s.A + "X"}
			}
			return nil
		}
		outs := ts.Run(hw, "", nil)
		okF := len(outs) > 0
		for _, o := range outs {
			if o.A != "W" {
				okF = false
			}
		}
		if okF {
			r.OK(key, "exactly one Logger.Write(b) on every path")
		} else {
			r.Fail(key, c.pos(hw.Pos()), "a path of the handle's Write does not forward the bytes exactly once")
		}
	}
	c.checkHandleRegistry(r)
}

func (c *Ctx) checkRawFanout(r *Report, ro *Roles) {
	if ro.AppenderRef == nil {
		return
	}
	refWrite := c.declaredMethod(ro.AppenderRef, "Write")
	// fan-outs reachable from a logger's Write or the worker raw branch with a []byte and no event
	for _, l := range ro.Loggers {
		m := c.declaredMethod(l, "Write")
		if m == nil {
			continue
		}
		for _, f := range c.moduleCallees(m) {
			calls := false
			eachInstr(f, func(in ssa.Instruction) {
				if ci, ok := in.(ssa.CallInstruction); ok && ci.Common().StaticCallee() == refWrite {
					calls = true
				}
			})
			if !calls {
				continue
			}
			r.SawFunc(f)
			key := "C12.every-ref:" + fname(m) + "→" + fname(f)
			var header *ssa.BasicBlock
			for _, b := range f.Blocks {
				if strings.Contains(b.Comment, "range") && strings.Contains(b.Comment, "loop") {
					header = b
				}
			}
			if header == nil {
				r.Undecided(key, c.pos(f.Pos()), "raw fan-out is not a range loop")
				continue
			}
			// find the call site in m to bind context (level argument)
			var site ssa.CallInstruction
			eachInstr(m, func(in ssa.Instruction) {
				if ci, ok := in.(ssa.CallInstruction); ok && ci.Common().StaticCallee() == f {
					site = ci
				}
			})
			records := map[string]bool{}
			ts := &TS{C: c, Ev: &Evaluator{}}
			ts.Inline = func(s *TSCtx, call ssa.CallInstruction, callee *ssa.Function) bool { return callee == f }
			ts.OnInstr = func(s *TSCtx, in ssa.Instruction) []string {
				if ci, ok := in.(ssa.CallInstruction); ok && ci.Common().StaticCallee() == refWrite {
					return []string{s.A + "D"}
				}
				return nil
			}
			ts.OnBranch = func(s *TSCtx, iff *ssa.If, taken bool) (string, bool) {
				if iff.Block() == header {
					return "i:", true
				}
				na := s.A + fmt.Sprintf("br(%s)=%v;", c.prov(iff.Cond, s.Frame), taken)
				succ := iff.Block().Succs[1]
				if taken {
					succ = iff.Block().Succs[0]
				}
				if succ == header && blockInLoop(iff.Block(), header) {
					records[na] = true
					return "i:", true
				}
				return na, true
			}
			ts.OnJump = func(s *TSCtx, from, to *ssa.BasicBlock) (string, bool) {
				if to == header && blockInLoop(from, header) {
					records[s.A] = true
					return "i:", true
				}
				return "", false
			}
			_ = site
			ts.Run(m, "", nil)
			r.Count("typestate_states", ts.States)
			var bad []string
			for rec := range records {
				if rec == "i:" {
					bad = append(bad, "an iteration delivers nothing")
				}
				if strings.Count(rec, "D") != 1 {
					bad = append(bad, fmt.Sprintf("a reference receives %d writes on path %q", strings.Count(rec, "D"), rec))
				}
			}
			if len(records) == 0 {
				bad = append(bad, "no iteration path found")
			}
			if len(bad) > 0 {
				r.Fail(key, c.pos(f.Pos()), "not every reference receives the raw bytes exactly once: %s", strings.Join(uniq(bad), "; "))
			} else {
				r.OK(key, "%d iteration path(s), each with exactly one reference Write", len(records))
			}
		}
	}
}

func (c *Ctx) checkHandleRegistry(r *Report) {
	gl := c.logFunc("GetLogger")
	g := c.names().HandleMap
	if gl == nil || g == nil {
		r.Undecided("C12.handle:GetLogger", "", "GetLogger / handle map not found")
		return
	}
	r.SawFunc(gl)
	key := "C12.handle:" + fname(gl)
	var upds []*ssa.MapUpdate
	for _, f := range c.Funcs {
		eachInstr(f, func(in ssa.Instruction) {
			if mu, ok := in.(*ssa.MapUpdate); ok {
				if ld, ok := mu.Map.(*ssa.UnOp); ok && ld.X == g {
					upds = append(upds, mu)
				}
			}
		})
	}
	var bad []string
	for _, f := range c.Funcs {
		eachInstr(f, func(in ssa.Instruction) {
			if st, ok := in.(*ssa.Store); ok && st.Addr == ssa.Value(g) {
				bad = append(bad, "the handle map is replaced in "+fname(f)+" at "+c.instrPos(in))
			}
			if call, ok := in.(*ssa.Call); ok {
				if b, ok := call.Call.Value.(*ssa.Builtin); ok && (b.Name() == "delete" || b.Name() == "clear") && len(call.Call.Args) > 0 {
					if ld, ok := call.Call.Args[0].(*ssa.UnOp); ok && ld.X == ssa.Value(g) {
						bad = append(bad, "handles are removed from the map in "+fname(f)+" at "+c.instrPos(in)+": a handle obtained earlier is no longer the handle for its name (not re-bound by the next Refresh, a second GetLogger returns a different one)")
					}
				}
			}
		})
	}
	if len(upds) != 1 || upds[0].Parent() != gl {
		bad = append(bad, fmt.Sprintf("%d stores into the handle map (want 1, in GetLogger)", len(upds)))
	} else {
		miss := false
		for _, gd := range guardsOfInstr(upds[0]) {
			if ex, ok := gd.Cond.(*ssa.Extract); ok && ex.Index == 1 && !gd.Polarity {
				if lk, ok := ex.Tuple.(*ssa.Lookup); ok && lk.CommaOk && lk.Index == gl.Params[0] {
					miss = true
				}
			}
		}
		if !miss {
			bad = append(bad, "the store is not restricted to the miss branch of a look-up of the same name: a second GetLogger(name) returns a different handle")
		}
		if upds[0].Key != gl.Params[0] {
			bad = append(bad, "stored under a key other than the requested name")
		}
	}
	// returned value: phi(lookup value, new handle)
	eachInstr(gl, func(in ssa.Instruction) {
		if ret, ok := in.(*ssa.Return); ok {
			p := c.prov(ret.Results[0], &Frame{Fn: gl}).String()
			if !strings.Contains(p, "lookup") {
				bad = append(bad, "the returned handle is never the stored one: "+p)
			}
		}
	})
	if len(bad) > 0 {
		r.Fail(key, c.pos(gl.Pos()), "%s", strings.Join(bad, "; "))
	} else {
		r.OK(key, "get-or-create: stored only on the miss branch, stored value returned otherwise")
	}
	// Refresh binding
	rf := c.logFunc("Refresh")
	if rf == nil {
		return
	}
	key = "C12.unknown-name:Refresh"
	var stores []*ssa.Store
	eachInstr(rf, func(in ssa.Instruction) {
		if st, ok := in.(*ssa.Store); ok {
			if fa, ok := st.Addr.(*ssa.FieldAddr); ok && recvTypeOfAddr(fa) == c.logType("LoggerWrapper") && c.moduleIface(fieldOfAddr(fa).Type()) {
				stores = append(stores, st)
			}
		}
	})
	if len(stores) != 1 {
		r.Fail(key, c.pos(rf.Pos()), "%d handle bindings in Refresh (want 1)", len(stores))
		return
	}
	st := stores[0]
	okB := false
	for _, gd := range guardsOfInstr(st) {
		if ex, ok := gd.Cond.(*ssa.Extract); ok && ex.Index == 1 && gd.Polarity {
			if lk, ok := ex.Tuple.(*ssa.Lookup); ok && lk.CommaOk {
				// looked up by the handle's own name, value stored is the look-up's value
				kp := c.prov(lk.Index, &Frame{Fn: rf}).String()
				vp, ok2 := st.Val.(*ssa.Extract)
				if strings.Contains(kp, "param:") == false && strings.Count(kp, ".") >= 1 && ok2 && vp.Tuple == lk && vp.Index == 0 {
					okB = true
				}
				// miss edge returns a non-nil error
				missBlk := gd.If.Block().Succs[1]
				if ret, ok := missBlk.Instrs[len(missBlk.Instrs)-1].(*ssa.Return); !ok || isNilConst(ret.Results[0]) {
					okB = false
				}
			}
		}
	}
	if okB {
		r.OK(key, "handle bound to the logger configured under its name; a missing name returns an error")
	} else {
		r.Fail(key, c.instrPos(st), "handle binding is not guarded by a successful look-up of the handle's own name with an error return on a miss")
	}
}
