package main

// core.go: loading /repo, the obligation/report plumbing, evidence files,
// known findings. Everything a rule file needs is reachable from *Ctx and
// *Report.

import (
	"crypto/sha1"
	"encoding/json"
	"fmt"
	"go/ast"
	"go/token"
	"go/types"
	"os"
	"path/filepath"
	"sort"
	"strings"
	"time"

	"golang.org/x/tools/go/callgraph"
	"golang.org/x/tools/go/packages"
	"golang.org/x/tools/go/ssa"
	"golang.org/x/tools/go/ssa/ssautil"
)

const (
	logPath  = "github.com/go-spring/log"
	exprPath = "github.com/go-spring/log/expr"
)

// Ctx is one loaded, type-checked, SSA-built view of the repository.
type Ctx struct {
	narrowAgeMul string // set by durLin when the age arithmetic is done in a narrow integer type
	Repo         string
	GOOS         string
	GOARCH       string
	Fset         *token.FileSet
	Pkgs         []*packages.Package
	Log          *packages.Package
	Expr         *packages.Package
	Prog         *ssa.Program
	LogS         *ssa.Package
	ExprS        *ssa.Package
	// all source-level functions of the module (methods, closures, generic instances)
	Funcs []*ssa.Function

	cgCache        map[*ssa.Function][]*ssa.Function
	provBusy       map[provKey]bool
	libraryIndexed map[*ssa.Function]bool
	vtaG           *callgraph.Graph
	nm             *Names
	layoutMemo     *[2]bool // result of the layout evaluation (computed once per loaded tree)
	escMemo        *bool
	lcMemo         *bool
	fsMemo         map[string]bool
	cfgMemo        *bool
	exprMemo       *bool
	retMemo        *bool
	asyncMemo      *bool
	rollMemo       map[string]bool
}

// LoadOpts selects the build configuration and an optional overlay.
type LoadOpts struct {
	Repo    string
	GOOS    string
	GOARCH  string
	Overlay map[string][]byte
}

func loadRepo(o LoadOpts) (*Ctx, error) {
	env := os.Environ()
	// deterministic toolchain, independent of the caller's environment
	env = setEnv(env, "PATH", "/opt/veriftools/go1.26.8/bin:"+os.Getenv("PATH"))
	env = setEnv(env, "GOTOOLCHAIN", "local")
	env = setEnv(env, "GOPROXY", "off")
	env = setEnv(env, "GOFLAGS", "")
	env = setEnv(env, "GOWORK", "off")
	env = setEnv(env, "CGO_ENABLED", "0")
	if o.GOOS != "" {
		env = setEnv(env, "GOOS", o.GOOS)
	}
	if o.GOARCH != "" {
		env = setEnv(env, "GOARCH", o.GOARCH)
	}
	cfg := &packages.Config{
		Mode:    packages.LoadAllSyntax,
		Dir:     o.Repo,
		Env:     env,
		Tests:   false,
		Overlay: o.Overlay,
	}
	pkgs, err := packages.Load(cfg, "./...")
	if err != nil {
		return nil, fmt.Errorf("go/packages: %w", err)
	}
	c := &Ctx{Repo: o.Repo, GOOS: o.GOOS, GOARCH: o.GOARCH, Pkgs: pkgs, cgCache: map[*ssa.Function][]*ssa.Function{}, libraryIndexed: map[*ssa.Function]bool{}}
	nerr := 0
	packages.Visit(pkgs, nil, func(p *packages.Package) {
		for _, e := range p.Errors {
			nerr++
			fmt.Fprintf(os.Stderr, "load error: %s: %v\n", p.PkgPath, e)
		}
	})
	if nerr > 0 {
		return nil, fmt.Errorf("%d load/type errors", nerr)
	}
	for _, p := range pkgs {
		switch p.PkgPath {
		case logPath:
			c.Log = p
		case exprPath:
			c.Expr = p
		}
	}
	if len(pkgs) != 2 || c.Log == nil || c.Expr == nil {
		var names []string
		for _, p := range pkgs {
			names = append(names, p.PkgPath)
		}
		return nil, fmt.Errorf("expected exactly the packages %s and %s, got %v", logPath, exprPath, names)
	}
	c.Fset = c.Log.Fset
	prog, _ := ssautil.AllPackages(pkgs, ssa.InstantiateGenerics)
	prog.Build()
	c.Prog = prog
	c.LogS = prog.Package(c.Log.Types)
	closedWorldNoImpl = func(it *types.Interface) bool { return len(c.implementers(it)) == 0 }
	c.ExprS = prog.Package(c.Expr.Types)
	if c.LogS == nil || c.ExprS == nil {
		return nil, fmt.Errorf("SSA packages missing")
	}
	c.collectFuncs()
	return c, nil
}

func setEnv(env []string, k, v string) []string {
	out := env[:0:0]
	for _, e := range env {
		if !strings.HasPrefix(e, k+"=") {
			out = append(out, e)
		}
	}
	return append(out, k+"="+v)
}

func (c *Ctx) inModule(fn *ssa.Function) bool {
	if fn == nil {
		return false
	}
	p := fn.Pkg
	if p == nil {
		// generic instance or synthetic: use origin / parent
		if o := fn.Origin(); o != nil && o.Pkg != nil {
			p = o.Pkg
		} else if fn.Parent() != nil {
			return c.inModule(fn.Parent())
		} else if fn.Object() != nil && fn.Object().Pkg() != nil {
			pp := fn.Object().Pkg().Path()
			return pp == logPath || pp == exprPath
		} else {
			return false
		}
	}
	return p == c.LogS || p == c.ExprS
}

func (c *Ctx) collectFuncs() {
	seen := map[*ssa.Function]bool{}
	var add func(f *ssa.Function)
	add = func(f *ssa.Function) {
		if f == nil || seen[f] {
			return
		}
		seen[f] = true
		if f.Blocks != nil {
			c.Funcs = append(c.Funcs, f)
		}
		for _, a := range f.AnonFuncs {
			add(a)
		}
	}
	for f := range ssautil.AllFunctions(c.Prog) {
		if c.inModule(f) && f.Synthetic == "" || c.inModule(f) && strings.Contains(f.Synthetic, "instance") {
			add(f)
		}
	}
	// methods of every named type of the module, whether or not the type is ever converted to an interface
	for _, p := range []*packages.Package{c.Log, c.Expr} {
		for _, nt := range c.namedTypes(p) {
			if nt.TypeParams().Len() > 0 {
				continue
			}
			for _, tt := range []types.Type{nt, types.NewPointer(nt)} {
				ms := c.Prog.MethodSets.MethodSet(tt)
				for i := 0; i < ms.Len(); i++ {
					if f := c.Prog.MethodValue(ms.At(i)); f != nil && f.Synthetic == "" {
						add(f)
					}
				}
			}
		}
	}
	sort.Slice(c.Funcs, func(i, j int) bool { return c.Funcs[i].String() < c.Funcs[j].String() })
}

// pos renders a position relative to the repository root.
func (c *Ctx) pos(p token.Pos) string {
	if !p.IsValid() {
		return "-"
	}
	q := c.Fset.Position(p)
	rel, err := filepath.Rel(c.Repo, q.Filename)
	if err != nil || strings.HasPrefix(rel, "..") {
		rel = q.Filename
	}
	return fmt.Sprintf("%s:%d", rel, q.Line)
}

func (c *Ctx) instrPos(i ssa.Instruction) string {
	p := i.Pos()
	if !p.IsValid() {
		// fall back to any positioned instruction of the block, then the function
		for _, j := range i.Block().Instrs {
			if j.Pos().IsValid() {
				p = j.Pos()
				break
			}
		}
		if !p.IsValid() {
			p = i.Parent().Pos()
		}
	}
	return c.pos(p)
}

// fname is a stable, line-free name for a function.
func fname(f *ssa.Function) string {
	if f == nil {
		return "<nil>"
	}
	s := f.String()
	s = strings.ReplaceAll(s, logPath+"/expr.", "expr.")
	s = strings.ReplaceAll(s, logPath+".", "")
	return s
}

// ---------------------------------------------------------------------------
// lookups by exported role

func (c *Ctx) logType(name string) *types.Named {
	o := c.Log.Types.Scope().Lookup(name)
	if o == nil {
		return nil
	}
	n, _ := o.Type().(*types.Named)
	return n
}

func (c *Ctx) logIface(name string) *types.Interface {
	n := c.logType(name)
	if n == nil {
		return nil
	}
	i, _ := n.Underlying().(*types.Interface)
	return i
}

func (c *Ctx) logFunc(name string) *ssa.Function {
	return c.LogS.Func(name)
}

func (c *Ctx) logGlobal(name string) *ssa.Global {
	g, _ := c.LogS.Members[name].(*ssa.Global)
	return g
}

// method returns the SSA function for (*T).name or T.name (declared or promoted).
func (c *Ctx) method(t types.Type, name string) *ssa.Function {
	var wrapper *ssa.Function
	for _, tt := range []types.Type{types.NewPointer(t), t} {
		ms := c.Prog.MethodSets.MethodSet(tt)
		for i := 0; i < ms.Len(); i++ {
			sel := ms.At(i)
			if sel.Obj().Name() == name {
				f := c.Prog.MethodValue(sel)
				if f == nil {
					continue
				}
				// prefer the declared function over a synthetic wrapper (promotion / pointer-receiver thunk)
				if f.Synthetic == "" {
					return f
				}
				if d := c.Prog.FuncValue(sel.Obj().(*types.Func)); d != nil && d.Synthetic == "" {
					return d
				}
				if wrapper == nil {
					wrapper = f
				}
			}
		}
	}
	return wrapper
}

// declaredMethod returns the method only if declared directly on T (not promoted).
func (c *Ctx) declaredMethod(t *types.Named, name string) *ssa.Function {
	for i := 0; i < t.NumMethods(); i++ {
		m := t.Method(i)
		if m.Name() == name {
			return c.Prog.FuncValue(m)
		}
	}
	return nil
}

// namedStructs lists the module's named struct types of package log, sorted.
func (c *Ctx) namedTypes(p *packages.Package) []*types.Named {
	var out []*types.Named
	sc := p.Types.Scope()
	for _, n := range sc.Names() {
		if tn, ok := sc.Lookup(n).(*types.TypeName); ok && !tn.IsAlias() {
			if nt, ok := tn.Type().(*types.Named); ok {
				out = append(out, nt)
			}
		}
	}
	return out
}

// implementers returns named non-interface types T of package log with *T implementing iface.
func (c *Ctx) implementers(iface *types.Interface) []*types.Named {
	var out []*types.Named
	if iface == nil {
		return nil
	}
	for _, nt := range c.namedTypes(c.Log) {
		if _, isI := nt.Underlying().(*types.Interface); isI {
			continue
		}
		if nt.TypeParams().Len() > 0 {
			continue
		}
		if types.Implements(types.NewPointer(nt), iface) || types.Implements(nt, iface) {
			out = append(out, nt)
		}
	}
	return out
}

// ---------------------------------------------------------------------------
// obligations

type Status string

const (
	Discharged Status = "discharged"
	Violated   Status = "violated"
	Undecided  Status = "undecided"
	Known      Status = "known"
)

type Obligation struct {
	Key     string         `json:"key"`
	Status  Status         `json:"status"`
	Pos     string         `json:"pos,omitempty"`
	Detail  string         `json:"detail"`
	Trivial bool           `json:"trivial,omitempty"`
	Extra   map[string]any `json:"extra,omitempty"`
}

type Report struct {
	Prop        string
	Tier        string
	Obls        []*Obligation
	Counters    map[string]int
	Floors      map[string][2]int // name -> {found, floor}
	Canaries    map[string]bool
	Notes       []string
	Explanation string
	Undecidedcl []string // clauses not decided, repeated in evidence
	Assumptions []string
	Trusted     []string
	funcsSeen   map[string]bool
	Matrix      map[string]map[string]int
	SelfTest    []map[string]any
	baseObls    int
	decisions   []decision
}

// decision: a clause decided for a construct by partial evaluation (P13) — a failed or undecided shape obligation of
// the same clause and construct is then a limitation of the shape recogniser, not a finding.
type decision struct {
	prefixes []string
	match    func(key string) bool
	why      string
}

// Decide registers a conclusive positive verdict of the partial evaluator for the obligations whose key starts with
// one of the prefixes (an include prefix such as "C10.record/" may precede it) and satisfies match.
func (r *Report) Decide(prefixes []string, match func(key string) bool, why string) {
	if p13Off {
		return
	}
	r.decisions = append(r.decisions, decision{prefixes, match, why})
}

// p13Off (VERIF_P13=off) gives the verdict of the shape rules alone: the partial evaluators' obligations are recorded
// as not counted and they override nothing (DESIGN.md 10.3).
var p13Off = os.Getenv("VERIF_P13") == "off"

func isEvaluatorKey(k string) bool {
	return strings.Contains(k, "-values:") || strings.Contains(k, ".prefix-order:")
}

func (r *Report) applyDecisions() {
	for _, ob := range r.Obls {
		if ob.Status != Violated && ob.Status != Undecided {
			continue
		}
		for _, d := range r.decisions {
			hit := false
			for _, p := range d.prefixes {
				if strings.HasPrefix(ob.Key, p) || strings.Contains(ob.Key, "/"+p) {
					hit = true
				}
			}
			if hit && (d.match == nil || d.match(ob.Key)) {
				if ob.Extra == nil {
					ob.Extra = map[string]any{}
				}
				ob.Extra["shape_rule_said"] = string(ob.Status) + ": " + ob.Detail
				ob.Status = Discharged
				ob.Detail = "decided by partial evaluation (" + d.why + "); the shape rule does not recognise this form of the code"
				r.Count("decided_by_evaluation", 1)
				break
			}
		}
	}
}

func newReport(prop, tier string) *Report {
	return &Report{Prop: prop, Tier: tier, Counters: map[string]int{}, Floors: map[string][2]int{},
		Canaries: map[string]bool{}, funcsSeen: map[string]bool{}, Matrix: map[string]map[string]int{}}
}

func (r *Report) add(o *Obligation) *Obligation {
	if p13Off && isEvaluatorKey(o.Key) {
		o.Detail = "partial evaluation switched off (VERIF_P13=off), result not counted: " + string(o.Status) + " " + o.Detail
		o.Status, o.Trivial = Discharged, true
	}
	// keys are unique per run; a duplicate key gets a numeric suffix so nothing is silently merged
	base := o.Key
	n := 1
	for {
		dup := false
		for _, e := range r.Obls {
			if e.Key == o.Key {
				dup = true
				break
			}
		}
		if !dup {
			break
		}
		n++
		o.Key = fmt.Sprintf("%s#%d", base, n)
	}
	r.Obls = append(r.Obls, o)
	return o
}

func (r *Report) OK(key, detail string, args ...any) *Obligation {
	return r.add(&Obligation{Key: key, Status: Discharged, Detail: fmt.Sprintf(detail, args...)})
}

// OKTrivial records a discharged obligation that examined nothing (vacuous instance).
func (r *Report) OKTrivial(key, detail string, args ...any) *Obligation {
	return r.add(&Obligation{Key: key, Status: Discharged, Detail: fmt.Sprintf(detail, args...), Trivial: true})
}

func (r *Report) Fail(key, pos, detail string, args ...any) *Obligation {
	return r.add(&Obligation{Key: key, Status: Violated, Pos: pos, Detail: fmt.Sprintf(detail, args...)})
}

func (r *Report) Undecided(key, pos, detail string, args ...any) *Obligation {
	return r.add(&Obligation{Key: key, Status: Undecided, Pos: pos, Detail: fmt.Sprintf(detail, args...)})
}

func (r *Report) Count(name string, n int) { r.Counters[name] += n }

func (r *Report) SawFunc(f *ssa.Function) {
	if f != nil {
		r.funcsSeen[fname(f)] = true
	}
}

// Floor records a role resolution count; below the floor is an undecided obligation.
func (r *Report) Floor(name string, found, floor int) bool {
	r.Floors[name] = [2]int{found, floor}
	if found < floor {
		r.Undecided(r.Prop+".anchor:"+name, "", "anchor-below-floor: role %q resolved %d instance(s), hand-confirmed floor is %d", name, found, floor)
		return false
	}
	return true
}

// ---------------------------------------------------------------------------
// known findings

type KnownFile struct {
	Findings []struct {
		Property string `json:"property"`
		Key      string `json:"key"`
		What     string `json:"what"`
	} `json:"findings"`
	Fixed []string `json:"fixed"`
}

func loadKnown(path string) (*KnownFile, error) {
	var k KnownFile
	b, err := os.ReadFile(path)
	if err != nil {
		if os.IsNotExist(err) {
			return &k, nil
		}
		return nil, err
	}
	if err := json.Unmarshal(b, &k); err != nil {
		return nil, err
	}
	return &k, nil
}

// ---------------------------------------------------------------------------
// finishing: print, evidence, exit code

type finishOpts struct {
	verifDir string
	start    time.Time
	seed     int
	noWrite  bool
}

func (r *Report) finish(o finishOpts) int {
	known, err := loadKnown(filepath.Join(o.verifDir, "known_findings.json"))
	if err != nil {
		fmt.Printf("FAIL  %s.internal: cannot read known_findings.json: %v\n", r.Prop, err)
		r.Undecided(r.Prop+".internal:known-findings", "", "cannot read known_findings.json: %v", err)
	}
	r.applyDecisions()
	sort.SliceStable(r.Obls, func(i, j int) bool { return r.Obls[i].Key < r.Obls[j].Key })
	nViol, nUndec, nKnown, nOK, nNontriv := 0, 0, 0, 0, 0
	var failing []*Obligation
	for _, ob := range r.Obls {
		if ob.Status == Violated && known != nil {
			for _, k := range known.Findings {
				if k.Property == r.Prop && k.Key == ob.Key {
					ob.Status = Known
					ob.Extra = map[string]any{"known_finding": k.What}
				}
			}
		}
		switch ob.Status {
		case Discharged:
			nOK++
			if !ob.Trivial {
				nNontriv++
			}
			fmt.Printf("OK    %s  %s\n", ob.Key, ob.Detail)
		case Known:
			nKnown++
			nNontriv++
			fmt.Printf("KNOWN-FINDING: property=%s %s %s (%s)\n", r.Prop, ob.Key, ob.Detail, ob.Pos)
		case Violated:
			nViol++
			nNontriv++
			failing = append(failing, ob)
			fmt.Printf("FAIL  %s  %s  %s\n", ob.Key, ob.Pos, ob.Detail)
		case Undecided:
			nUndec++
			failing = append(failing, ob)
			fmt.Printf("UNDECIDED  %s  %s  %s\n", ob.Key, ob.Pos, ob.Detail)
		}
	}
	if len(r.Obls) == 0 {
		nUndec++
		o := &Obligation{Key: r.Prop + ".internal:no-obligations", Status: Undecided, Detail: "the check produced no obligations"}
		failing = append(failing, o)
		fmt.Printf("UNDECIDED  %s  %s\n", o.Key, o.Detail)
	}
	exit := 0
	var replay string
	if len(failing) > 0 {
		exit = 1
		h := sha1.New()
		for _, f := range failing {
			fmt.Fprintf(h, "%s\n", f.Key)
		}
		replay = filepath.Join(o.verifDir, "replays", fmt.Sprintf("%s-%x.json", r.Prop, h.Sum(nil)[:4]))
		if !o.noWrite {
			_ = os.MkdirAll(filepath.Dir(replay), 0o755)
			b, _ := json.MarshalIndent(map[string]any{
				"property": r.Prop, "tier": r.Tier, "failing": failing,
				"replay_cmd": fmt.Sprintf("./run %s --replay %s", r.Prop, replay),
			}, "", " ")
			_ = os.WriteFile(replay, b, 0o644)
		}
		fmt.Printf("VIOLATION property=%s replay=%s\n", r.Prop, replay)
	}
	// evidence
	samples := []any{}
	for _, ob := range r.Obls {
		if !ob.Trivial && len(samples) < 6 {
			samples = append(samples, ob)
		}
	}
	for _, ob := range failing {
		samples = append(samples, ob)
	}
	funcs := make([]string, 0, len(r.funcsSeen))
	for f := range r.funcsSeen {
		funcs = append(funcs, f)
	}
	sort.Strings(funcs)
	floors := map[string]any{}
	for k, v := range r.Floors {
		floors[k] = map[string]int{"found": v[0], "floor": v[1]}
	}
	cov := map[string]any{
		"explanation":         r.Explanation,
		"not_decided":         r.Undecidedcl,
		"obligations":         len(r.Obls),
		"discharged":          nOK,
		"known_findings":      nKnown,
		"undecided":           nUndec,
		"evaluations":         len(r.Obls),
		"distinct_nontrivial": nNontriv,
		"rule":                "one obligation per (rule id, resolved construct); evaluations = obligations evaluated on this run; non-trivial = the rule examined at least one path, flow, call site or table entry of that construct (vacuous instances are marked trivial and not counted)",
		"samples":             samples,
		"functions_analysed":  len(funcs),
		"functions":           funcs,
		"counters":            r.Counters,
		"floors":              floors,
		"canaries":            r.Canaries,
		"checker_cmd":         fmt.Sprintf("./run %s %s", r.Prop, r.Tier),
		"trusted_base":        append([]string{"go/types", "go/ssa (x/tools v0.50.0)", "go list of go1.26.8"}, r.Trusted...),
		"notes":               r.Notes,
	}
	if len(r.Matrix) > 0 {
		cov["build_matrix"] = r.Matrix
	}
	if r.SelfTest != nil {
		cov["self_test_variants"] = r.SelfTest
	}
	ev := map[string]any{
		"property_id": r.Prop,
		"tier":        r.Tier,
		"seed":        o.seed,
		"level":       "other",
		"coverage":    cov,
		"assumptions": r.Assumptions,
		"wall_s":      time.Since(o.start).Seconds(),
		"violations":  nViol + nUndec,
	}
	if !o.noWrite {
		dir := filepath.Join(o.verifDir, "evidence")
		_ = os.MkdirAll(dir, 0o755)
		b, _ := json.MarshalIndent(ev, "", " ")
		if err := os.WriteFile(filepath.Join(dir, r.Prop+".json"), b, 0o644); err != nil {
			fmt.Printf("FAIL  cannot write evidence: %v\n", err)
			return 1
		}
	}
	fmt.Printf("SUMMARY property=%s tier=%s obligations=%d discharged=%d known=%d violated=%d undecided=%d functions=%d\n",
		r.Prop, r.Tier, len(r.Obls), nOK, nKnown, nViol, nUndec, len(funcs))
	return exit
}

// ---------------------------------------------------------------------------
// small AST helpers shared by rules

func (c *Ctx) fileOf(p *packages.Package, pos token.Pos) *ast.File {
	for _, f := range p.Syntax {
		if f.Pos() <= pos && pos <= f.End() {
			return f
		}
	}
	return nil
}

// funcDecl finds the declaration of a package-level function or method in the log package.
func (c *Ctx) funcDecl(p *packages.Package, recv, name string) *ast.FuncDecl {
	for _, f := range p.Syntax {
		for _, d := range f.Decls {
			fd, ok := d.(*ast.FuncDecl)
			if !ok || fd.Name.Name != name {
				continue
			}
			if recv == "" && fd.Recv == nil {
				return fd
			}
			if recv != "" && fd.Recv != nil && len(fd.Recv.List) == 1 {
				t := fd.Recv.List[0].Type
				if s, ok := t.(*ast.StarExpr); ok {
					t = s.X
				}
				if ix, ok := t.(*ast.IndexExpr); ok {
					t = ix.X
				}
				if id, ok := t.(*ast.Ident); ok && id.Name == recv {
					return fd
				}
			}
		}
	}
	return nil
}

// include evaluates a sub-rule of another property into r: discharged obligations are summarised in one
// line, everything else is copied with the given key prefix (so a shared mechanism fails every property
// that depends on it).
func (r *Report) include(prefix, what string, fn func(sub *Report)) {
	sub := newReport(r.Prop, r.Tier)
	fn(sub)
	sub.applyDecisions()
	nOK := 0
	for _, ob := range sub.Obls {
		if ob.Status == Discharged {
			nOK++
			continue
		}
		o2 := *ob
		o2.Key = prefix + ob.Key
		r.add(&o2)
	}
	for f := range sub.funcsSeen {
		r.funcsSeen[f] = true
	}
	for k, v := range sub.Counters {
		r.Counters[k] += v
	}
	if nOK == len(sub.Obls) && nOK > 0 {
		r.OK(prefix+what, "all %d shared obligations hold", nOK)
	}
}
