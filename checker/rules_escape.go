package main

// rules_escape.go: C09 — the string escaper, decided for all 256 byte values
// and all four truth assignments of the UTF-8 error test.

import (
	"encoding/hex"
	"fmt"
	"go/constant"
	"go/token"
	"go/types"
	"strings"

	"golang.org/x/tools/go/ssa"
)

func init() { register("C09", checkC09) }

func isBytesBufferPtr(t types.Type) bool {
	p, ok := t.(*types.Pointer)
	if !ok {
		return false
	}
	n, ok := p.Elem().(*types.Named)
	return ok && n.Obj().Pkg() != nil && n.Obj().Pkg().Path() == "bytes" && n.Obj().Name() == "Buffer"
}

// bufWrite classifies a call as a write to a *bytes.Buffer.
// kind: "WB" WriteByte, "WS" WriteString, "W" Write, "WR" WriteRune; arg = the written operand.
func bufWrite(ci ssa.CallInstruction) (kind string, buf, arg ssa.Value, ok bool) {
	f := ci.Common().StaticCallee()
	if f == nil || !funcIs(f, "bytes", "Buffer", f.Name()) {
		return "", nil, nil, false
	}
	args := ci.Common().Args
	switch f.Name() {
	case "WriteByte":
		return "WB", args[0], args[1], true
	case "WriteString":
		return "WS", args[0], args[1], true
	case "Write":
		return "W", args[0], args[1], true
	case "WriteRune":
		return "WR", args[0], args[1], true
	}
	return "", nil, nil, false
}

// escaperFuncs: functions reachable from Encoder.AppendString/AppendKey that take a *bytes.Buffer parameter.
func (c *Ctx) escaperFuncs(ro *Roles) (all []*ssa.Function, main *ssa.Function, ascii *ssa.Function, errh *ssa.Function) {
	var roots []*ssa.Function
	for _, e := range ro.Encoders {
		roots = append(roots, c.method(e, "AppendString"), c.method(e, "AppendKey"))
	}
	for _, f := range sortedFuncs(c.reach(roots...)) {
		if f.Signature.Recv() != nil || len(f.Params) == 0 || !isBytesBufferPtr(f.Params[0].Type()) {
			continue
		}
		all = append(all, f)
		ps := f.Signature.Params()
		switch {
		case ps.Len() == 2 && isStringType(ps.At(1).Type()) && f.Signature.Results().Len() == 0:
			main = f
		case ps.Len() == 2 && isByteType(ps.At(1).Type()) && f.Signature.Results().Len() == 1:
			ascii = f
		case ps.Len() == 3 && f.Signature.Results().Len() == 1:
			errh = f
		}
	}
	return
}

func isByteType(t types.Type) bool {
	b, ok := t.Underlying().(*types.Basic)
	return ok && (b.Kind() == types.Uint8 || b.Kind() == types.Byte)
}

// decodeJSONFragment decodes one JSON string-escape fragment; ok=false if it is not a valid fragment.
func decodeJSONFragment(b []byte) (rune, bool) {
	if len(b) == 1 {
		if b[0] < 0x20 || b[0] == '"' || b[0] == '\\' {
			return 0, false
		}
		return rune(b[0]), true
	}
	if len(b) == 2 && b[0] == '\\' {
		switch b[1] {
		case '"', '\\', '/':
			return rune(b[1]), true
		case 'b':
			return '\b', true
		case 'f':
			return '\f', true
		case 'n':
			return '\n', true
		case 'r':
			return '\r', true
		case 't':
			return '\t', true
		}
		return 0, false
	}
	if len(b) == 6 && b[0] == '\\' && b[1] == 'u' {
		var r rune
		for _, h := range b[2:] {
			var d byte
			switch {
			case h >= '0' && h <= '9':
				d = h - '0'
			case h >= 'a' && h <= 'f':
				d = h - 'a' + 10
			case h >= 'A' && h <= 'F':
				d = h - 'A' + 10
			default:
				return 0, false
			}
			r = r<<4 | rune(d)
		}
		return r, true
	}
	return 0, false
}

func checkC09(c *Ctx, r *Report) {
	r.Explanation = "decided for every byte value and every outcome of the UTF-8 decode test: the ASCII handler returns handled exactly for 0x00–0x7F and writes, for each such byte, a fragment that is a valid RFC 8259 string fragment decoding to that byte (raw only for 0x20–0x7F without quote and backslash; two-character escapes from the RFC table; \\u00XX with both hex digits taken from a 16-character constant table); bytes ≥ 0x80 are not handled and write nothing; in the main loop a handled byte advances by 1, a (RuneError,size 1) decode writes the constant \\ufffd and advances by 1, everything else copies s[i:i+size] with the size returned by the decoder and advances by it; the loop starts at 0 and runs while i < len(s). Given the contract of utf8.DecodeRuneInString this covers every byte string."
	r.Undecidedcl = []string{"utf8.DecodeRuneInString itself (trusted contract: returns (RuneError,1) exactly for invalid encodings, otherwise a valid rune of `size` bytes)"}
	r.Assumptions = []string{"unicode/utf8.DecodeRuneInString contract", "bytes.Buffer writes append exactly the given bytes"}
	ro := c.roles(r)
	{
		jok, tok := c.checkLayoutSemantics(r, ro, "C09.layout-values")
		layoutDecisions(r, jok, tok)
		if c.checkEscaperSemantics(r, ro, "C09.escape-values", r.Tier == "thorough") && jok && tok {
			r.Decide([]string{"C09."}, nil, "escaping evaluated through both encoders' AppendString/AppendKey and through both layouts")
		}
	}
	all, mainF, ascii, errh := c.escaperFuncs(ro)
	r.Floor("escaper functions", len(all), 2)
	if mainF == nil || ascii == nil {
		r.Undecided("C09.anchor:escaper", "", "escaper main loop func(*bytes.Buffer,string) or ASCII handler func(*bytes.Buffer,byte) bool not found among %d candidates", len(all))
		return
	}
	for _, f := range all {
		r.SawFunc(f)
	}

	// ---- per-byte table of the ASCII handler
	type res struct {
		out     []byte
		handled string // "T","F","?"
		bad     string
	}
	table := make([]res, 256)
	for v := 0; v < 256; v++ {
		bv := int64(v)
		ts := &TS{C: c, Ev: &Evaluator{Assume: func(x ssa.Value, fr *Frame) (constant.Value, bool) {
			if x == ascii.Params[1] {
				return constant.MakeInt64(bv), true
			}
			return nil, false
		}}}
		ts.Inline = func(s *TSCtx, call ssa.CallInstruction, callee *ssa.Function) bool { return true }
		ts.OnInstr = func(s *TSCtx, in ssa.Instruction) []string {
			ci, ok := in.(ssa.CallInstruction)
			if !ok {
				return nil
			}
			kind, _, arg, ok := bufWrite(ci)
			if !ok {
				return nil
			}
			k, isK := s.Eval(arg)
			switch {
			case kind == "WB" && isK && k.Kind() == constant.Int:
				n, _ := constant.Int64Val(k)
				return []string{s.A + hex.EncodeToString([]byte{byte(n)})}
			case kind == "WS" && isK && k.Kind() == constant.String:
				return []string{s.A + hex.EncodeToString([]byte(constant.StringVal(k)))}
			}
			return []string{s.A + "!" + kind + "(" + s.ts.C.prov(arg, s.Frame).String() + ")"}
		}
		outs := ts.Run(ascii, "", nil)
		r.Count("typestate_states", ts.States)
		if len(outs) != 1 {
			table[v] = res{bad: fmt.Sprintf("%d distinct outcomes (behaviour not determined by the byte)", len(outs))}
			continue
		}
		o := outs[0]
		if o.Kind != "return" {
			table[v] = res{bad: "panics"}
			continue
		}
		rs := res{handled: "?"}
		if len(o.Ret) == 1 && o.Ret[0] != nil && o.Ret[0].Kind() == constant.Bool {
			if constant.BoolVal(o.Ret[0]) {
				rs.handled = "T"
			} else {
				rs.handled = "F"
			}
		}
		if strings.Contains(o.A, "!") {
			rs.bad = "non-constant write " + o.A
		} else {
			rs.out, _ = hex.DecodeString(o.A)
		}
		table[v] = rs
	}
	r.Count("byte_values_evaluated", 256)
	var badRaw, badTotal, badEsc []string
	nRaw, nEsc2, nEscU := 0, 0, 0
	for v := 0; v < 256; v++ {
		t := table[v]
		if t.bad != "" {
			badTotal = append(badTotal, fmt.Sprintf("0x%02x: %s", v, t.bad))
			continue
		}
		if v >= 0x80 {
			if t.handled != "F" || len(t.out) != 0 {
				badTotal = append(badTotal, fmt.Sprintf("0x%02x: handled=%s wrote %q (must be left to the UTF-8 path)", v, t.handled, t.out))
			}
			continue
		}
		if t.handled != "T" {
			badTotal = append(badTotal, fmt.Sprintf("0x%02x: handled=%s (ASCII byte not handled)", v, t.handled))
			continue
		}
		if len(t.out) == 0 {
			badTotal = append(badTotal, fmt.Sprintf("0x%02x: handled but nothing written", v))
			continue
		}
		dec, ok := decodeJSONFragment(t.out)
		if !ok {
			if len(t.out) == 1 {
				badRaw = append(badRaw, fmt.Sprintf("0x%02x written raw", v))
			} else {
				badEsc = append(badEsc, fmt.Sprintf("0x%02x → %q is not a valid JSON string fragment", v, t.out))
			}
			continue
		}
		if dec != rune(v) {
			badEsc = append(badEsc, fmt.Sprintf("0x%02x → %q decodes to U+%04X", v, t.out, dec))
			continue
		}
		switch len(t.out) {
		case 1:
			nRaw++
		case 2:
			nEsc2++
		default:
			nEscU++
		}
	}
	kA := "C09.raw:" + fname(ascii)
	if len(badRaw) > 0 {
		r.Fail(kA, c.pos(ascii.Pos()), "bytes emitted raw outside [0x20,0x7F]∖{\",\\}: %s", strings.Join(badRaw, "; "))
	} else {
		r.OK(kA, "%d bytes written raw, all within [0x20,0x7F]∖{\",\\}", nRaw)
	}
	kT := "C09.total:" + fname(ascii)
	if len(badTotal) > 0 {
		r.Fail(kT, c.pos(ascii.Pos()), "%s", strings.Join(firstN(badTotal, 6), "; "))
	} else {
		r.OK(kT, "handled=true with a non-empty write exactly for 0x00–0x7F; handled=false and no write for 0x80–0xFF")
	}
	kE := "C09.escapes:" + fname(ascii)
	if len(badEsc) > 0 {
		r.Fail(kE, c.pos(ascii.Pos()), "%s", strings.Join(firstN(badEsc, 6), "; "))
	} else {
		r.OK(kE, "%d two-character escapes and %d \\u00XX escapes, each a valid RFC 8259 fragment decoding to its input byte", nEsc2, nEscU)
	}

	// ---- main loop
	c.checkEscapeLoop(r, mainF, ascii, errh)

	// ---- every string/key parameter of the encoders reaches the buffer only through the escaper
	c.checkEscaperUse(r, ro, mainF)
}

func firstN(s []string, n int) []string {
	if len(s) > n {
		return append(append([]string{}, s[:n]...), fmt.Sprintf("… %d more", len(s)-n))
	}
	return s
}

func (c *Ctx) checkEscapeLoop(r *Report, mainF, ascii, errh *ssa.Function) {
	key := "C09.utf8:" + fname(mainF)
	sP := mainF.Params[1]
	// loop index: the phi used as index of s
	var idx *ssa.Phi
	eachInstr(mainF, func(in ssa.Instruction) {
		switch x := in.(type) {
		case *ssa.Index:
			if x.X == sP {
				if p, ok := x.Index.(*ssa.Phi); ok {
					idx = p
				}
			}
		case *ssa.Lookup:
			if x.X == sP {
				if p, ok := x.Index.(*ssa.Phi); ok {
					idx = p
				}
			}
		}
	})
	if idx == nil {
		r.Undecided(key, c.pos(mainF.Pos()), "main loop is not an index loop over the string parameter")
		return
	}
	header := idx.Block()
	// start at 0, bound len(s)
	start := false
	for i, e := range idx.Edges {
		if !header.Dominates(header.Preds[i]) {
			if k, ok := constInt(e); ok && k == 0 {
				start = true
			} else {
				r.Fail(key+"#start", c.instrPos(idx), "loop does not start at index 0")
				return
			}
		}
	}
	bound := false
	if iff, ok := header.Instrs[len(header.Instrs)-1].(*ssa.If); ok {
		if cmp, ok := iff.Cond.(*ssa.BinOp); ok && cmp.Op == token.LSS && cmp.X == idx {
			if call, ok := cmp.Y.(*ssa.Call); ok {
				if b, ok := call.Call.Value.(*ssa.Builtin); ok && b.Name() == "len" && call.Call.Args[0] == sP {
					bound = true
				}
			}
		}
	}
	if !start || !bound {
		r.Fail(key+"#bounds", c.instrPos(idx), "loop is not `for i := 0; i < len(s)` (start0=%v bound=%v): some bytes would be skipped", start, bound)
		return
	}
	var decode *ssa.Call
	eachInstr(mainF, func(in ssa.Instruction) {
		if call, ok := in.(*ssa.Call); ok && (calleeIs(call, "unicode/utf8", "", "DecodeRuneInString") || calleeIs(call, "unicode/utf8", "", "DecodeRune")) {
			decode = call
		}
	})
	canon := func(v ssa.Value, s *TSCtx) string { return c.canonIdx(v, idx, sP, decode, s) }

	// per-iteration records
	records := map[string]bool{}
	ts := &TS{C: c, Ev: &Evaluator{}}
	ts.Inline = func(s *TSCtx, call ssa.CallInstruction, callee *ssa.Function) bool { return callee != ascii }
	ts.OnInstr = func(s *TSCtx, in ssa.Instruction) []string {
		switch x := in.(type) {
		case ssa.CallInstruction:
			if x.Common().StaticCallee() == ascii {
				return []string{s.A + "|ascii(" + canon(x.Common().Args[1], s) + ")"}
			}
			if call, ok := in.(*ssa.Call); ok && call == decode {
				return []string{s.A + "|decode(" + canon(call.Call.Args[0], s) + ")"}
			}
			if kind, _, arg, ok := bufWrite(x); ok {
				if k, isK := s.Eval(arg); isK && k.Kind() == constant.String {
					return []string{s.A + "|" + kind + ":" + fmt.Sprintf("%q", constant.StringVal(k))}
				}
				return []string{s.A + "|" + kind + ":" + canon(arg, s)}
			}
		}
		return nil
	}
	ts.OnBranch = func(s *TSCtx, iff *ssa.If, taken bool) (string, bool) {
		if iff.Block() == header {
			if taken {
				return "", true // new iteration
			}
			return "done", true
		}
		return s.A + fmt.Sprintf("|br(%s)=%v", canon(iff.Cond, s), taken), true
	}
	ts.OnJump = func(s *TSCtx, from, to *ssa.BasicBlock) (string, bool) {
		if to == header {
			pi := -1
			for i, p := range header.Preds {
				if p == from {
					pi = i
				}
			}
			if s.A != "" || from != mainF.Blocks[0] {
				records[s.A+"|next="+canon(idx.Edges[pi], s)] = true
			}
			return "", true
		}
		return "", false
	}
	ts.Run(mainF, "", nil)
	r.Count("typestate_states", ts.States)
	r.Count("paths_enumerated", len(records))
	delete(records, "|next=0")
	if len(ts.Truncated) > 0 {
		r.Undecided(key, c.pos(mainF.Pos()), "exploration truncated: %v", ts.Truncated)
		return
	}
	var bad []string
	var ok3 [3]int
	for rec := range records {
		ev := strings.Split(strings.TrimPrefix(rec, "|"), "|")
		// classify
		handled := ""
		rErr, size1 := "?", "?"
		var writes []string
		next := ""
		dec := ""
		for _, e := range ev {
			switch {
			case strings.HasPrefix(e, "br(ascii(s[i]))="):
				handled = strings.TrimPrefix(e, "br(ascii(s[i]))=")
			case strings.HasPrefix(e, "ascii("):
				if e != "ascii(s[i])" {
					bad = append(bad, "ASCII handler called on "+e+" instead of s[i]")
				}
			case strings.HasPrefix(e, "decode("):
				dec = e
			case strings.HasPrefix(e, "br("):
				cond := e[3:strings.LastIndex(e, ")=")]
				val := e[strings.LastIndex(e, ")=")+2:]
				switch cond {
				case "r==65533":
					rErr = val
				case "r!=65533":
					rErr = neg(val)
				case "size==1":
					size1 = val
				case "size!=1":
					size1 = neg(val)
				default:
					if strings.HasPrefix(cond, "call:") {
						// result of an inlined helper already folded
					} else {
						bad = append(bad, "unrecognised branch condition "+cond)
					}
				}
			case strings.HasPrefix(e, "W"):
				writes = append(writes, e)
			case strings.HasPrefix(e, "next="):
				next = strings.TrimPrefix(e, "next=")
			}
		}
		switch {
		case handled == "true":
			if len(writes) != 0 || next != "(i+1)" {
				bad = append(bad, fmt.Sprintf("handled ASCII byte: writes=%v next=%s (want no further write, i+1)", writes, next))
			} else {
				ok3[0]++
			}
		case handled == "false":
			if dec != "decode(s[i:])" {
				bad = append(bad, "decoder applied to "+dec+" instead of s[i:]")
				continue
			}
			if rErr == "true" && size1 == "true" {
				if len(writes) == 1 && writes[0] == `WS:"\\ufffd"` && next == "(i+1)" {
					ok3[1]++
				} else {
					bad = append(bad, fmt.Sprintf("invalid byte (RuneError,1): writes=%v next=%s (want the constant \\ufffd and i+1)", writes, next))
				}
			} else if rErr == "false" || size1 == "false" {
				if len(writes) == 1 && writes[0] == "WS:s[i:(i+size)]" && next == "(i+size)" {
					ok3[2]++
				} else {
					bad = append(bad, fmt.Sprintf("valid rune (r==RuneError:%s size==1:%s): writes=%v next=%s (want s[i:i+size] and i+size)", rErr, size1, writes, next))
				}
			} else {
				bad = append(bad, fmt.Sprintf("path with undetermined decode test (r==RuneError:%s size==1:%s): writes=%v next=%s", rErr, size1, writes, next))
			}
		default:
			bad = append(bad, "iteration without a decision on the ASCII handler's result: "+rec)
		}
	}
	if len(bad) > 0 {
		r.Fail(key, c.pos(mainF.Pos()), "%s", strings.Join(firstN(bad, 5), "; "))
		return
	}
	if ok3[0] == 0 || ok3[1] == 0 || ok3[2] == 0 {
		r.Fail(key, c.pos(mainF.Pos()), "missing continuation: handled-ASCII=%d invalid-byte=%d valid-rune=%d iteration paths", ok3[0], ok3[1], ok3[2])
		return
	}
	r.OK(key, "%d iteration paths: handled ASCII → i+1; (RuneError,1) → \"\\ufffd\", i+1; otherwise s[i:i+size], i+size", len(records))
}

func neg(s string) string {
	if s == "true" {
		return "false"
	}
	if s == "false" {
		return "true"
	}
	return s
}

// canonIdx renders index arithmetic of the escaper loop canonically.
func (c *Ctx) canonIdx(v ssa.Value, idx *ssa.Phi, sP ssa.Value, decode *ssa.Call, s *TSCtx) string {
	var rec func(v ssa.Value, fr *Frame, d int) string
	rec = func(v ssa.Value, fr *Frame, d int) string {
		if d > 12 {
			return "?"
		}
		if v == idx {
			return "i"
		}
		if v == sP {
			return "s"
		}
		switch x := v.(type) {
		case *ssa.Parameter:
			if a, ok := fr.actualArg(x); ok {
				return rec(a, fr.Parent, d+1)
			}
			return x.Name()
		case *ssa.Const:
			if x.Value == nil {
				return "nil"
			}
			return x.Value.ExactString()
		case *ssa.Extract:
			if decode != nil && x.Tuple == decode {
				if x.Index == 0 {
					return "r"
				}
				return "size"
			}
			return rec(x.Tuple, fr, d+1) + fmt.Sprintf("#%d", x.Index)
		case *ssa.BinOp:
			a, b := rec(x.X, fr, d+1), rec(x.Y, fr, d+1)
			switch x.Op {
			case token.EQL, token.NEQ, token.LSS, token.GTR, token.LEQ, token.GEQ:
				return a + x.Op.String() + b
			}
			return "(" + a + x.Op.String() + b + ")"
		case *ssa.Index:
			return rec(x.X, fr, d+1) + "[" + rec(x.Index, fr, d+1) + "]"
		case *ssa.Lookup:
			return rec(x.X, fr, d+1) + "[" + rec(x.Index, fr, d+1) + "]"
		case *ssa.Slice:
			lo, hi := "", ""
			if x.Low != nil {
				lo = rec(x.Low, fr, d+1)
			}
			if x.High != nil {
				hi = rec(x.High, fr, d+1)
			}
			return rec(x.X, fr, d+1) + "[" + lo + ":" + hi + "]"
		case *ssa.Convert:
			return rec(x.X, fr, d+1)
		case *ssa.Phi:
			// a join variable (`width := 1; if … { width = size }`): its value on this path
			if k, ok := s.Env[envKey{x, -1, ""}]; ok {
				return k.ExactString()
			}
			if sel, ok := s.Env[envKey{x, -2, ""}]; ok {
				if i, exact := constant.Int64Val(sel); exact && int(i) < len(x.Edges) {
					return rec(x.Edges[i], fr, d+1)
				}
			}
		case *ssa.Call:
			if f := x.Common().StaticCallee(); f != nil {
				var as []string
				for _, a := range x.Common().Args {
					if isBytesBufferPtr(a.Type()) {
						continue
					}
					as = append(as, rec(a, fr, d+1))
				}
				if strings.HasPrefix(f.Name(), "tryAddRuneSelf") || (len(f.Params) == 2 && isByteType(f.Params[1].Type())) {
					return "ascii(" + strings.Join(as, ",") + ")"
				}
				return "call:" + f.Name() + "(" + strings.Join(as, ",") + ")"
			}
		}
		return fmt.Sprintf("?%T", v)
	}
	return rec(v, s.Frame, 0)
}

// checkEscaperUse: in the encoders, string-typed method parameters are written to the buffer only through the escaper.
func (c *Ctx) checkEscaperUse(r *Report, ro *Roles, mainF *ssa.Function) {
	n := 0
	for _, e := range ro.Encoders {
		for _, mname := range []string{"AppendKey", "AppendString"} {
			m := c.declaredMethod(e, mname)
			if m == nil {
				continue
			}
			r.SawFunc(m)
			key := "C09.use:" + fname(m)
			param := m.Params[1]
			var raw []string
			esc := 0
			deleg := 0
			var follow func(p *ssa.Parameter, d int)
			follow = func(p *ssa.Parameter, d int) {
				refs := p.Referrers()
				if refs == nil {
					return
				}
				for _, u := range *refs {
					ci, ok := u.(ssa.CallInstruction)
					if !ok {
						if _, isDbg := u.(*ssa.DebugRef); !isDbg {
							raw = append(raw, fmt.Sprintf("%T at %s", u, c.instrPos(u)))
						}
						continue
					}
					sc := ci.Common().StaticCallee()
					switch {
					case sc == mainF:
						esc++
					case sc != nil && c.inModule(sc) && sc.Name() == mname:
						deleg++ // same-named method of the embedded JSON encoder
					case sc != nil && c.inModule(sc) && len(sc.Blocks) > 0 && sc.Object() != nil && !sc.Object().Exported() && d < 3 && !ci.Common().IsInvoke():
						// an unexported helper (code extracted from the method): the text must reach only the
						// escaper inside it, too
						r.SawFunc(sc)
						for i, a := range ci.Common().Args {
							if a == ssa.Value(p) && i < len(sc.Params) {
								follow(sc.Params[i], d+1)
							}
						}
					default:
						raw = append(raw, fmt.Sprintf("passed to %s at %s", calleeName(ci), c.instrPos(u)))
					}
				}
			}
			follow(param, 0)
			n++
			if len(raw) > 0 {
				r.Fail(key, c.pos(m.Pos()), "key/string parameter bypasses the escaper: %s", strings.Join(raw, "; "))
			} else if esc+deleg == 0 {
				r.Fail(key, c.pos(m.Pos()), "key/string parameter is never written")
			} else {
				r.OK(key, "parameter flows only into the escaper (%d) / the embedded encoder's %s (%d)", esc, mname, deleg)
			}
		}
	}
	r.Floor("encoder string/key methods", n, 4)
}

func calleeName(ci ssa.CallInstruction) string {
	if f := ci.Common().StaticCallee(); f != nil {
		return qualName(f)
	}
	if ci.Common().IsInvoke() {
		return "invoke:" + ci.Common().Method.Name()
	}
	return "dynamic"
}
