package main

// Channels, goroutines and a cooperative scheduler for the abstract interpreter (P13, concurrency part).
//
// With Interp.Sched set, `go` statements create tasks, channel operations have queue semantics, and an operation that
// cannot proceed parks its task and hands control back to the rule, which decides what runs next: the schedule is
// scripted by the rule (like the clock and the file system), and where Go leaves a choice open — several ready cases
// of one select — the rule's Choose callback picks, so that a rule can evaluate a scenario under each choice policy.
// Exactly one task runs at any time (the interpreter's state is not shared); tasks are checker goroutines that pass a
// baton. Without Sched the old behaviour stays: concurrency instructions leave the evaluated fragment.

import (
	"fmt"
	"go/types"

	"golang.org/x/tools/go/ssa"
)

func chanElem(v ssa.Value) types.Type { return v.Type().Underlying().(*types.Chan).Elem() }

type Task struct {
	ID      int
	Name    string
	State   string // "new", "running", "blocked", "done"
	Why     string // what it is blocked on
	Err     any    // oodError / panicError that ended it
	resume  chan bool
	run     func()
	depth   int
	stack   []*ssa.Function
	pframes []*aframe
	started bool
	// Preemptible: with Sched.PreemptOps, this task yields before each channel operation
	Preemptible bool
}

type Sched struct {
	ip      *Interp
	Tasks   []*Task
	cur     *Task
	yield   chan *Task
	killing bool
	// Choose picks among n ready cases of a select (default: the first)
	Choose func(n int) int
	// PreemptOps: every channel operation first hands control back to the rule (state "ready"), so that the rule can
	// interleave producers between their channel operations
	PreemptOps bool
	nextID     int
}

// preempt parks the running task as "ready" before a channel operation (only for tasks the rule marked).
func (s *Sched) preempt(what string) {
	if s == nil || !s.PreemptOps || s.cur == nil || !s.cur.Preemptible {
		return
	}
	t := s.cur
	t.State, t.Why = "ready", "before "+what
	s.yield <- t
	<-t.resume
	if s.killing {
		panic(killError{})
	}
	t.State = "running"
}

type killError struct{}

func (ip *Interp) NewSched() *Sched {
	s := &Sched{ip: ip, yield: make(chan *Task)}
	ip.Sched = s
	return s
}

// Spawn creates a task that will run f when first stepped.
func (s *Sched) Spawn(name string, f func()) *Task {
	s.nextID++
	t := &Task{ID: s.nextID, Name: name, State: "new", resume: make(chan bool), run: f}
	s.Tasks = append(s.Tasks, t)
	return t
}

// Step runs t until it parks, finishes or fails, and returns its state.
func (s *Sched) Step(t *Task) string {
	if t.State == "done" {
		return "done"
	}
	ip := s.ip
	// save the controller's (or previous task's) interpreter context
	saveDepth, saveStack, savePF, saveCur := ip.depth, ip.Stack, ip.panicFrames, s.cur
	ip.depth, ip.Stack, ip.panicFrames = t.depth, t.stack, t.pframes
	s.cur = t
	t.State = "running"
	if !t.started {
		t.started = true
		go func() {
			<-t.resume
			defer func() {
				if x := recover(); x != nil {
					if _, killed := x.(killError); !killed {
						t.Err = x
					}
				}
				t.State = "done"
				s.yield <- t
			}()
			t.run()
		}()
	}
	t.resume <- true
	<-s.yield
	t.depth, t.stack, t.pframes = ip.depth, ip.Stack, ip.panicFrames
	ip.depth, ip.Stack, ip.panicFrames, s.cur = saveDepth, saveStack, savePF, saveCur
	return t.State
}

// park is called by a task that cannot proceed; it returns when the rule steps the task again.
func (s *Sched) park(why string) {
	t := s.cur
	if t == nil {
		ood("blocking operation outside a task: %s", why)
	}
	t.State, t.Why = "blocked", why
	s.yield <- t
	<-t.resume
	if s.killing {
		panic(killError{})
	}
	t.State = "running"
}

// Kill unwinds every task that is still parked (so that no checker goroutine stays behind).
func (s *Sched) Kill() {
	s.killing = true
	for _, t := range s.Tasks {
		if t.started && (t.State == "blocked" || t.State == "ready") {
			s.Step(t)
		}
	}
	s.ip.Sched = nil
}

// RunUntilQuiet steps the given tasks round-robin until none of them makes progress (all done or parked on
// conditions that do not change), with a bound on the number of steps.
func (s *Sched) RunUntilQuiet(ts []*Task, max int) {
	for i := 0; i < max; i++ {
		progress := false
		for _, t := range ts {
			if t.State == "done" {
				continue
			}
			before := s.ip.Steps
			s.Step(t)
			if s.ip.Steps-before > 3 || t.State == "done" {
				progress = true
			}
		}
		if !progress {
			return
		}
	}
}

// ---- channel operations

func chanOf(v AV, what string) *ChanV {
	switch c := v.(type) {
	case *ChanV:
		return c
	case NilV:
		return nil
	}
	ood("%s on %s", what, avString(v))
	return nil
}

func (ip *Interp) chanSend(v AV, x AV) {
	if ip.Sched == nil {
		ood("concurrency instruction *ssa.Send")
	}
	ch := chanOf(v, "send")
	ip.Sched.preempt("send")
	for {
		if ch == nil {
			ip.Sched.park("send on nil channel (blocks forever)")
			continue
		}
		if ch.Closed {
			rtPanic("send on closed channel")
		}
		if len(ch.Buf) < ch.Cap || (ch.Cap == 0 && ch.recvWaiting > 0 && len(ch.Buf) == 0) {
			ch.Buf = append(ch.Buf, copyVal(x))
			return
		}
		ip.Sched.park(fmt.Sprintf("send on a full channel (cap %d)", ch.Cap))
	}
}

func (ip *Interp) chanRecv(v AV, zero AV, commaOk bool) AV {
	if ip.Sched == nil {
		ood("channel receive")
	}
	ch := chanOf(v, "receive")
	ip.Sched.preempt("receive")
	for {
		if ch != nil && len(ch.Buf) > 0 {
			x := ch.Buf[0]
			ch.Buf = ch.Buf[1:]
			if commaOk {
				return TupleV{x, kBool(true)}
			}
			return x
		}
		if ch != nil && ch.Closed {
			if commaOk {
				return TupleV{zero, kBool(false)}
			}
			return zero
		}
		if ch != nil {
			ch.recvWaiting++
		}
		ip.Sched.park("receive on an empty channel")
		if ch != nil {
			ch.recvWaiting--
		}
	}
}

func (ip *Interp) chanClose(v AV) {
	ch := chanOf(v, "close")
	if ch == nil {
		rtPanic("close of nil channel")
	}
	if ch.Closed {
		rtPanic("close of closed channel")
	}
	ch.Closed = true
}

// selectOp evaluates a select statement: (index, recvOk, received values …).
func (ip *Interp) selectOp(fr *aframe, x *ssa.Select) AV {
	if ip.Sched == nil {
		ood("concurrency instruction *ssa.Select")
	}
	type cs struct {
		ch   *ChanV
		send AV
		recv bool
	}
	var cases []cs
	nRecv := 0
	for _, st := range x.States {
		c := cs{ch: chanOf(ip.operand(fr, st.Chan), "select")}
		if st.Dir == 1 { // types.SendOnly
			c.send = ip.operand(fr, st.Send)
		} else {
			c.recv = true
			nRecv++
		}
		cases = append(cases, c)
	}
	result := func(idx int, ok bool, got AV, gotIdx int) AV {
		out := TupleV{kInt(int64(idx)), kBool(ok)}
		for i, st := range x.States {
			if st.Dir == 1 {
				continue
			}
			if i == gotIdx && got != nil {
				out = append(out, got)
			} else {
				out = append(out, ip.zeroOf(chanElem(st.Chan)))
			}
		}
		return out
	}
	ip.Sched.preempt("select")
	for {
		var ready []int
		for i, c := range cases {
			if c.ch == nil {
				continue
			}
			if c.recv {
				if len(c.ch.Buf) > 0 || c.ch.Closed {
					ready = append(ready, i)
				}
			} else if c.ch.Closed || len(c.ch.Buf) < c.ch.Cap {
				ready = append(ready, i)
			}
		}
		if len(ready) > 0 {
			pick := 0
			if len(ready) > 1 && ip.Sched.Choose != nil {
				pick = ip.Sched.Choose(len(ready))
				if pick < 0 || pick >= len(ready) {
					pick = 0
				}
			}
			i := ready[pick]
			c := cases[i]
			if !c.recv {
				if c.ch.Closed {
					rtPanic("send on closed channel")
				}
				c.ch.Buf = append(c.ch.Buf, copyVal(c.send))
				return result(i, false, nil, -1)
			}
			if len(c.ch.Buf) > 0 {
				v := c.ch.Buf[0]
				c.ch.Buf = c.ch.Buf[1:]
				return result(i, true, v, i)
			}
			return result(i, false, ip.zeroOf(chanElem(x.States[i].Chan)), i)
		}
		if !x.Blocking {
			return result(-1, false, nil, -1)
		}
		ip.Sched.park("select with no ready case")
	}
}
