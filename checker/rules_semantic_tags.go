package main

// Tag-name evaluation (P13): RegisterTag, the app/biz/rpc helpers and GetAllTags are evaluated on an explicit domain
// of names — every string of length ≤ 6 over {a, z, 9, _, A}, every byte value inside an otherwise valid name, every
// composition of 1–6 segments with lengths from {1, 2, 9} with and without leading/trailing/doubled underscores,
// single segments of every length 1–38 and of the lengths 255–296, 511–552, 65535–65576 — against the documented language: 3–36 characters of [a-z0-9_], at most
// one leading underscore, 1–4 non-empty segments.

import (
	"fmt"
	"go/constant"
	"sort"
	"strings"
)

func tagNameValid(tag string) bool {
	if len(tag) < 3 || len(tag) > 36 {
		return false
	}
	for i := 0; i < len(tag); i++ {
		c := tag[i]
		if !(c >= 'a' && c <= 'z') && !(c >= '0' && c <= '9') && c != '_' {
			return false
		}
	}
	segs := strings.Split(strings.TrimPrefix(tag, "_"), "_")
	if len(segs) < 1 || len(segs) > 4 {
		return false
	}
	for _, s := range segs {
		if s == "" {
			return false
		}
	}
	return true
}

func tagNameDomain() []string {
	seen := map[string]bool{}
	var out []string
	add := func(s string) {
		if !seen[s] {
			seen[s] = true
			out = append(out, s)
		}
	}
	alpha := []byte{'a', 'z', '9', '_', 'A'}
	var rec func(prefix []byte)
	rec = func(prefix []byte) {
		add(string(prefix))
		if len(prefix) == 6 {
			return
		}
		for _, c := range alpha {
			rec(append(append([]byte{}, prefix...), c))
		}
	}
	rec(nil)
	for b := 0; b < 256; b++ {
		add("ab" + string([]byte{byte(b)}) + "cd")
		add(string([]byte{byte(b)}) + "bcd")
		add("abc" + string([]byte{byte(b)}))
	}
	// well-formed multi-byte runes that Unicode classifies as lower-case letters or digits
	for _, u := range []string{"é", "ß", "α", "я", "ａ", "１", "٣", "ǆ", "\u00aa"} {
		add("ab" + u + "cd")
		add(u + u + u)
		add("abc_" + u)
	}
	// lengths around every multiple of 256 and 65536 (a length test done in a narrower integer type wraps there)
	for _, base := range []int{256, 512, 65536} {
		for n := base - 1; n <= base+40; n++ {
			add(strings.Repeat("s", n))
		}
	}
	for n := 1; n <= 38; n++ {
		add(strings.Repeat("s", n))
		add("_" + strings.Repeat("s", n))
		if n >= 2 {
			add(strings.Repeat("s", n-1) + "_")
		}
	}
	lens := []int{1, 2, 9}
	var comp func(segs []string)
	comp = func(segs []string) {
		if len(segs) >= 1 {
			j := strings.Join(segs, "_")
			add(j)
			add("_" + j)
			add("__" + j)
			add(j + "_")
			if len(segs) >= 2 {
				add(strings.Join(segs[:1], "_") + "__" + strings.Join(segs[1:], "_"))
			}
		}
		if len(segs) == 6 {
			return
		}
		for _, l := range lens {
			comp(append(append([]string{}, segs...), strings.Repeat(string(rune('a'+len(segs))), l)))
		}
	}
	comp(nil)
	// total length exactly at the bounds with several segments
	for _, total := range []int{35, 36, 37} {
		for _, n := range []int{2, 3, 4} {
			rest := total - (n - 1)
			segs := make([]string, n)
			for i := range segs {
				l := rest / n
				if i == 0 {
					l += rest % n
				}
				segs[i] = strings.Repeat("q", l)
			}
			add(strings.Join(segs, "_"))
			add("_" + strings.Join(segs, "_")[1:])
		}
	}
	return out
}

func (c *Ctx) checkTagSemantics(r *Report, ro *Roles, rule string) bool {
	w, why := c.newLcWorld(ro)
	key := rule + ":RegisterTag"
	if w == nil {
		r.Inconclusive(key, "%s", why)
		return false
	}
	st := w.newState()
	st.ip.MaxSteps = 60000000
	getAll := c.logFunc("GetAllTags")
	names := tagNameDomain()
	registered := map[string]bool{}
	ptrs := map[string]*Ptr{}
	// tags the package registers for itself while it is initialised are part of the registry from the start
	st.ip.initGlobals()
	if getAll != nil {
		if res, out, err := st.call(getAll); err == nil && out == "ok" {
			for _, n := range avStrings(res) {
				registered[n] = true
			}
		}
	}
	var bad []string
	fail := func(format string, args ...any) {
		if len(bad) < 4 {
			bad = append(bad, fmt.Sprintf(format, args...))
		}
	}
	for _, name := range names {
		res, out, err := st.call(w.regTag, kStr(name))
		if err != nil {
			r.Inconclusive(key, "%v", err)
			return false
		}
		want := tagNameValid(name)
		switch {
		case out == "ok" && !want:
			fail("%q is accepted (the documented language is 3–36 characters of [a-z0-9_], at most one leading underscore, 1–4 non-empty segments)", name)
			registered[name] = true
		case out != "ok" && want:
			fail("%q is refused: %s", name, out)
		case out == "ok":
			registered[name] = true
			if p, ok := res.(*Ptr); ok {
				ptrs[name] = p
			}
		}
	}
	// idempotence
	n := 0
	for name, p := range ptrs {
		if n++; n > 200 {
			break
		}
		res, out, err := st.call(w.regTag, kStr(name))
		if err != nil {
			r.Inconclusive(key, "%v", err)
			return false
		}
		if p2, ok := res.(*Ptr); out != "ok" || !ok || p2.O != p.O {
			fail("registering %q a second time does not return the same tag (%s)", name, out)
		}
	}
	// helpers
	for _, h := range []struct{ fn, main string }{{"RegisterAppTag", "app"}, {"RegisterBizTag", "biz"}, {"RegisterRPCTag", "rpc"}} {
		f := c.logFunc(h.fn)
		if f == nil {
			continue
		}
		long := func(n int) string { return strings.Repeat("k", n) }
		for _, parts := range [][2]string{{"startup", "init"}, {"startup", ""}, {"s", "a"}, {"x9", ""}, {"shard", "0"}, {"shard", "9"}, {"q", "00"},
			{long(30), ""}, {long(31), ""}, {long(32), ""}, {long(20), long(10)}, {long(20), long(11)}} {
			res, out, err := st.call(f, kStr(parts[0]), kStr(parts[1]))
			if err != nil {
				r.Inconclusive(key, "%v", err)
				return false
			}
			want := "_" + h.main + "_" + parts[0]
			if parts[1] != "" {
				want += "_" + parts[1]
			}
			if !tagNameValid(want) {
				if out == "ok" {
					fail("%s(%q, %q) registers %q, which is not a valid name", h.fn, parts[0], parts[1], want)
				}
				continue
			}
			if out != "ok" {
				fail("%s(%q, %q) %s (the name %q is valid)", h.fn, parts[0], parts[1], out, want)
				continue
			}
			registered[want] = true
			if p, ok := res.(*Ptr); ok {
				// the tag carries the composed name
				if tv, ok := p.load().(*StructV); ok {
					named := false
					for _, f := range tv.F {
						if k, ok := f.(constant.Value); ok && k.Kind() == constant.String && constant.StringVal(k) == want {
							named = true
						}
					}
					if !named {
						fail("%s(%q, %q) returns a tag that is not named %q", h.fn, parts[0], parts[1], want)
					}
				}
				if old, had := ptrs[want]; had && old.O != p.O {
					fail("%s(%q, %q) does not return the tag registered as %q", h.fn, parts[0], parts[1], want)
				}
				ptrs[want] = p
			}
		}
	}
	if getAll != nil {
		res, out, err := st.call(getAll)
		if err != nil {
			r.Inconclusive(key, "%v", err)
			return false
		}
		if out != "ok" {
			fail("GetAllTags %s", out)
		} else {
			got := avStrings(res)
			sort.Strings(got)
			var want []string
			for n := range registered {
				want = append(want, n)
			}
			sort.Strings(want)
			if strings.Join(got, "\x00") != strings.Join(want, "\x00") {
				var extra, missing []string
				ws := map[string]bool{}
				for _, n := range want {
					ws[n] = true
				}
				gs := map[string]bool{}
				for _, n := range got {
					gs[n] = true
					if !ws[n] && len(extra) < 3 {
						extra = append(extra, n)
					}
				}
				for _, n := range want {
					if !gs[n] && len(missing) < 3 {
						missing = append(missing, n)
					}
				}
				fail("GetAllTags lists %d names, %d were registered (not registered but listed: %q; registered but not listed: %q)", len(got), len(want), extra, missing)
			}
		}
	}
	r.Count("tag_evaluations", len(names))
	if len(bad) > 0 {
		r.Fail(key, c.pos(w.regTag.Pos()), "%s", strings.Join(bad, "; "))
		return false
	}
	r.OK(key, "%d names evaluated through RegisterTag: accepted exactly when 3–36 characters of [a-z0-9_] with at most one leading underscore and 1–4 non-empty segments; refused names register nothing; a second registration returns the same tag; the app/biz/rpc helpers build accepted names; GetAllTags lists exactly the registered names", len(names))
	return true
}
