package main

// rules_atn.go: C17.tables — the generated lexer's transition table (serialized ATN in expr_lexer.go) agrees with the
// character classes, ranges and literals written in Expr.g4. The table is what runs; the grammar is what the rest of
// the C17 rules (and the unquoter) are checked against, so a table that was edited by hand or not regenerated after
// a grammar change silently moves the accepted language. Decided part: every interval set, range label and atom
// label of the table is one the grammar spells, and every class/range of the grammar's lexer rules is present in the
// table. Not decided: the state graph itself (that needs the ANTLR tool, which is not available offline).

import (
	"fmt"
	"go/ast"
	"os"
	"path/filepath"
	"sort"
	"strings"
)

type ivl struct{ a, b int }

func canonSet(in []ivl) string {
	if len(in) == 0 {
		return ""
	}
	s := append([]ivl{}, in...)
	sort.Slice(s, func(i, j int) bool { return s[i].a < s[j].a })
	out := []ivl{s[0]}
	for _, x := range s[1:] {
		l := &out[len(out)-1]
		if x.a <= l.b+1 {
			if x.b > l.b {
				l.b = x.b
			}
		} else {
			out = append(out, x)
		}
	}
	var ps []string
	for _, x := range out {
		ps = append(ps, fmt.Sprintf("%d-%d", x.a, x.b))
	}
	return strings.Join(ps, ",")
}

func showSet(c string) string {
	var ps []string
	for _, p := range strings.Split(c, ",") {
		var a, b int
		fmt.Sscanf(p, "%d-%d", &a, &b)
		q := func(v int) string {
			if v >= 0x21 && v < 0x7f {
				return fmt.Sprintf("'%c'", v)
			}
			return fmt.Sprintf("0x%02x", v)
		}
		if a == b {
			ps = append(ps, q(a))
		} else {
			ps = append(ps, q(a)+".."+q(b))
		}
	}
	return "{" + strings.Join(ps, ",") + "}"
}

// ---- grammar side

type g4tok struct {
	kind string // "lit", "range", "class", "nclass", "id", or a punctuation character
	set  []ivl
	text string
}

func g4Escape(s string, i int) (int, int) { // returns value, next index
	if s[i] != '\\' || i+1 >= len(s) {
		return int(s[i]), i + 1
	}
	switch s[i+1] {
	case 'n':
		return '\n', i + 2
	case 'r':
		return '\r', i + 2
	case 't':
		return '\t', i + 2
	case 'b':
		return '\b', i + 2
	case 'f':
		return '\f', i + 2
	case 'u':
		if i+6 <= len(s) {
			var v int
			fmt.Sscanf(s[i+2:i+6], "%x", &v)
			return v, i + 6
		}
	}
	return int(s[i+1]), i + 2
}

func g4Tokens(body string) ([]g4tok, error) {
	var out []g4tok
	i := 0
	for i < len(body) {
		ch := body[i]
		switch {
		case ch == ' ' || ch == '\t' || ch == '\n' || ch == '\r':
			i++
		case ch == '\'':
			j := i + 1
			var chars []int
			for j < len(body) && body[j] != '\'' {
				v, nj := g4Escape(body, j)
				chars = append(chars, v)
				j = nj
			}
			if j >= len(body) {
				return nil, fmt.Errorf("unterminated literal")
			}
			i = j + 1
			t := g4tok{kind: "lit", text: body[:0]}
			for _, v := range chars {
				t.set = append(t.set, ivl{v, v})
			}
			// range 'a'..'b'
			rest := strings.TrimLeft(body[i:], " \t\r\n")
			if strings.HasPrefix(rest, "..") && len(chars) == 1 {
				k := len(body) - len(rest) + 2
				for k < len(body) && (body[k] == ' ' || body[k] == '\t') {
					k++
				}
				if k < len(body) && body[k] == '\'' {
					v, nk := g4Escape(body, k+1)
					if nk < len(body) && body[nk] == '\'' {
						t = g4tok{kind: "range", set: []ivl{{chars[0], v}}}
						i = nk + 1
					}
				}
			}
			out = append(out, t)
		case ch == '[' || (ch == '~' && i+1 < len(body) && body[i+1] == '['):
			neg := ch == '~'
			if neg {
				i++
			}
			j := i + 1
			var set []ivl
			for j < len(body) && body[j] != ']' {
				a, nj := g4Escape(body, j)
				j = nj
				if j+1 < len(body) && body[j] == '-' && body[j+1] != ']' {
					b, nj2 := g4Escape(body, j+1)
					j = nj2
					set = append(set, ivl{a, b})
				} else {
					set = append(set, ivl{a, a})
				}
			}
			if j >= len(body) {
				return nil, fmt.Errorf("unterminated class")
			}
			i = j + 1
			k := "class"
			if neg {
				k = "nclass"
			}
			out = append(out, g4tok{kind: k, set: set})
		case ch == '-' && i+1 < len(body) && body[i+1] == '>':
			// lexer command: rest of the alternative
			j := i + 2
			for j < len(body) && body[j] != '|' && body[j] != ')' {
				j++
			}
			i = j
		case ch == '_' || (ch >= 'a' && ch <= 'z') || (ch >= 'A' && ch <= 'Z'):
			j := i
			for j < len(body) && (body[j] == '_' || (body[j] >= 'a' && body[j] <= 'z') || (body[j] >= 'A' && body[j] <= 'Z') || (body[j] >= '0' && body[j] <= '9')) {
				j++
			}
			out = append(out, g4tok{kind: "id", text: body[i:j]})
			i = j
		default:
			out = append(out, g4tok{kind: string(ch)})
			i++
		}
	}
	return out, nil
}

type g4Derived struct {
	sets   map[string]string // canonical -> where
	ranges map[string]string
	atoms  map[int]bool
}

// deriveFromAlternation walks one rule body: every parenthesised group and the body itself is an alternation; the
// single-element alternatives made of one character, range or class are merged into one set, as the ANTLR tool does.
func (d *g4Derived) walk(toks []g4tok, where string, lexer bool) {
	// split into groups recursively
	inMerged := map[int]bool{}
	var parseAlt func(i int) int
	parseAlt = func(i int) int {
		// returns index after the alternation (at ')' or end)
		var merged []ivl
		var mergedIdx []int
		nMerge := 0
		for {
			// one alternative
			start := i
			var elems []g4tok
			var elemIdx []int
			simple := true
			for i < len(toks) && toks[i].kind != "|" && toks[i].kind != ")" {
				t := toks[i]
				switch t.kind {
				case "(":
					i = parseAlt(i+1) + 1
					simple = false
					elems = append(elems, g4tok{kind: "group"})
					continue
				case "?", "*", "+":
					simple = false
				case "~":
					simple = false
				default:
					elems = append(elems, t)
					elemIdx = append(elemIdx, i)
				}
				i++
			}
			_ = start
			if lexer && simple && len(elems) == 1 {
				e := elems[0]
				if (e.kind == "lit" && len(e.set) == 1) || e.kind == "range" || e.kind == "class" {
					merged = append(merged, e.set...)
					mergedIdx = append(mergedIdx, elemIdx[0])
					nMerge++
				}
			}
			if i >= len(toks) || toks[i].kind == ")" {
				break
			}
			i++ // skip '|'
		}
		if nMerge >= 2 {
			d.sets[canonSet(merged)] = where
			for _, k := range mergedIdx {
				inMerged[k] = true
			}
		}
		return i
	}
	parseAlt(0)
	for ti, t := range toks {
		if inMerged[ti] {
			for _, x := range t.set {
				if x.a == x.b {
					d.atoms[x.a] = true
				}
			}
			continue
		}
		switch t.kind {
		case "lit":
			for _, x := range t.set {
				d.atoms[x.a] = true
			}
		case "range":
			if lexer {
				d.ranges[canonSet(t.set)] = where
			}
		case "class", "nclass":
			if !lexer {
				continue
			}
			cs := canonSet(t.set)
			if strings.Contains(cs, ",") || t.kind == "nclass" {
				d.sets[cs] = where
			} else if t.set[0].a == t.set[0].b && len(t.set) == 1 {
				d.atoms[t.set[0].a] = true
			} else {
				d.ranges[cs] = where
			}
		}
	}
}

func g4Rules(src string) map[string]string {
	// comments are already stripped by the caller; rules end at ';' outside quotes and classes
	rules := map[string]string{}
	i := 0
	cur := ""
	inQ, inB := false, false
	flush := func(s string) {
		s = strings.TrimSpace(s)
		if s == "" || strings.HasPrefix(s, "grammar ") {
			return
		}
		k := strings.Index(s, ":")
		if k < 0 {
			return
		}
		name := strings.TrimSpace(s[:k])
		name = strings.TrimSpace(strings.TrimPrefix(name, "fragment"))
		rules[name] = s[k+1:]
	}
	for i < len(src) {
		ch := src[i]
		switch {
		case ch == '\\' && (inQ || inB):
			cur += src[i : i+2]
			i += 2
			continue
		case ch == '\'' && !inB:
			inQ = !inQ
		case ch == '[' && !inQ:
			inB = true
		case ch == ']' && !inQ:
			inB = false
		case ch == ';' && !inQ && !inB:
			flush(cur)
			cur = ""
			i++
			continue
		}
		cur += string(ch)
		i++
	}
	return rules
}

// ---- table side

type atnTable struct {
	sets   []string
	ranges []string
	atoms  []int
	usedS  map[int]bool
}

func decodeATN(v []int) (*atnTable, error) {
	p := 0
	next := func() (int, error) {
		if p >= len(v) {
			return 0, fmt.Errorf("table ends early at %d", p)
		}
		p++
		return v[p-1], nil
	}
	must := func() int {
		x, err := next()
		if err != nil {
			panic(err)
		}
		return x
	}
	t := &atnTable{usedS: map[int]bool{}}
	var err error
	func() {
		defer func() {
			if r := recover(); r != nil {
				err = fmt.Errorf("%v", r)
			}
		}()
		if ver := must(); ver != 4 {
			panic(fmt.Sprintf("serialization version %d (only 4 is understood)", ver))
		}
		gtype := must()
		must() // max token type
		ns := must()
		for i := 0; i < ns; i++ {
			st := must()
			if st == 0 {
				continue
			}
			must() // rule index
			if st == 12 || st == 3 || st == 4 || st == 5 {
				must()
			}
		}
		for n := must(); n > 0; n-- {
			must()
		}
		for n := must(); n > 0; n-- {
			must()
		}
		for n := must(); n > 0; n-- {
			must()
			if gtype == 0 {
				must()
			}
		}
		for n := must(); n > 0; n-- {
			must()
		}
		nsets := must()
		for i := 0; i < nsets; i++ {
			ni := must()
			eof := must()
			var s []ivl
			if eof != 0 {
				s = append(s, ivl{-1, -1})
			}
			for k := 0; k < ni; k++ {
				a, b := must(), must()
				s = append(s, ivl{a, b})
			}
			t.sets = append(t.sets, canonSet(s))
		}
		ne := must()
		for i := 0; i < ne; i++ {
			must()
			must()
			tt, a1, a2, _ := must(), must(), must(), must()
			switch tt {
			case 2:
				t.ranges = append(t.ranges, canonSet([]ivl{{a1, a2}}))
			case 5:
				t.atoms = append(t.atoms, a1)
			case 7, 8:
				t.usedS[a1] = true
			}
		}
	}()
	return t, err
}

// serializedATN reads the []int32 literal assigned to a selector named serializedATN in the given file.
func (c *Ctx) serializedATN(fileSuffix string) ([]int, string) {
	if c.Expr == nil {
		return nil, ""
	}
	for _, f := range c.Expr.Syntax {
		name := c.Fset.Position(f.Pos()).Filename
		if !strings.HasSuffix(name, fileSuffix) {
			continue
		}
		var out []int
		ast.Inspect(f, func(n ast.Node) bool {
			as, ok := n.(*ast.AssignStmt)
			if !ok || len(as.Lhs) != 1 || len(as.Rhs) != 1 {
				return true
			}
			sel, ok := as.Lhs[0].(*ast.SelectorExpr)
			if !ok || sel.Sel.Name != "serializedATN" {
				return true
			}
			cl, ok := as.Rhs[0].(*ast.CompositeLit)
			if !ok {
				return true
			}
			for _, e := range cl.Elts {
				tv, ok := c.Expr.TypesInfo.Types[e]
				if !ok || tv.Value == nil {
					out = nil
					return false
				}
				k, _ := constantInt(tv.Value)
				out = append(out, int(k))
			}
			return false
		})
		return out, name
	}
	return nil, ""
}

func (c *Ctx) checkLexerTables(r *Report) {
	key := "C17.tables:expr_lexer.go"
	vals, file := c.serializedATN("expr_lexer.go")
	if len(vals) == 0 {
		r.Undecided(key, "", "no serializedATN literal found in the generated lexer")
		return
	}
	t, err := decodeATN(vals)
	if err != nil {
		r.Undecided(key, file, "cannot decode the serialized ATN: %v", err)
		return
	}
	gpath := filepath.Join(c.Repo, "expr", "Expr.g4")
	b, err := os.ReadFile(gpath)
	if err != nil {
		r.Undecided(key, gpath, "%v", err)
		return
	}
	var lines []string
	for _, ln := range strings.Split(string(b), "\n") {
		// strip // comments outside quotes and classes
		inQ, inB := false, false
		for i := 0; i < len(ln); i++ {
			switch {
			case ln[i] == '\\':
				i++
			case ln[i] == '\'' && !inB:
				inQ = !inQ
			case ln[i] == '[' && !inQ:
				inB = true
			case ln[i] == ']' && !inQ:
				inB = false
			case ln[i] == '/' && i+1 < len(ln) && ln[i+1] == '/' && !inQ && !inB:
				ln = ln[:i]
			}
		}
		lines = append(lines, ln)
	}
	rules := g4Rules(strings.Join(lines, "\n"))
	d := &g4Derived{sets: map[string]string{}, ranges: map[string]string{}, atoms: map[int]bool{}}
	nLex := 0
	var names []string
	for n := range rules {
		names = append(names, n)
	}
	sort.Strings(names)
	for _, n := range names {
		toks, err := g4Tokens(rules[n])
		if err != nil {
			r.Undecided(key, gpath, "rule %s: %v", n, err)
			return
		}
		lexer := n[0] >= 'A' && n[0] <= 'Z'
		if lexer {
			nLex++
		}
		d.walk(toks, n, lexer)
	}
	r.Count("grammar_rules", len(rules))
	r.Count("table_sets", len(t.sets))
	r.Count("table_ranges", len(t.ranges))
	r.Count("table_atoms", len(t.atoms))
	var bad []string
	inTable := map[string]bool{}
	for i, s := range t.sets {
		inTable[s] = true
		if _, ok := d.sets[s]; !ok {
			bad = append(bad, fmt.Sprintf("table set #%d %s is not a character class of the grammar", i, showSet(s)))
		}
	}
	for s, where := range d.sets {
		if !inTable[s] {
			bad = append(bad, fmt.Sprintf("the class %s of rule %s is not in the table", showSet(s), where))
		}
	}
	rangeInTable := map[string]bool{}
	for _, s := range t.ranges {
		rangeInTable[s] = true
		if _, ok := d.ranges[s]; !ok {
			bad = append(bad, fmt.Sprintf("table range %s is not a range of the grammar", showSet(s)))
		}
	}
	for s, where := range d.ranges {
		if !rangeInTable[s] {
			bad = append(bad, fmt.Sprintf("the range %s of rule %s is not in the table", showSet(s), where))
		}
	}
	for _, a := range t.atoms {
		if !d.atoms[a] {
			bad = append(bad, fmt.Sprintf("table atom %s does not occur in any literal of the grammar", showSet(canonSet([]ivl{{a, a}}))))
		}
	}
	sort.Strings(bad)
	if len(bad) > 0 {
		r.Fail(key, file, "the generated lexer table and Expr.g4 disagree (the table was edited or not regenerated): %s", strings.Join(firstN(uniq(bad), 6), "; "))
	} else {
		r.OK(key, "%d interval sets, %d range labels and %d atom labels of the serialized ATN all spell classes, ranges and literals of Expr.g4 (%d lexer rules), and every class/range of the grammar is in the table", len(t.sets), len(uniq(t.ranges)), len(t.atoms), nLex)
	}
}
