module vcheck

go 1.26.0

require golang.org/x/tools v0.50.0

require github.com/spf13/cast v1.10.0 // indirect

require (
	github.com/go-spring/stdlib v0.0.5
	golang.org/x/mod v0.41.0 // indirect
	golang.org/x/sync v0.23.0 // indirect
)
