package main

// rules_expr.go: C17 — the config-expression parser.

import (
	"fmt"
	"go/ast"
	"go/constant"
	"go/parser"
	"go/token"
	"go/types"
	"os"
	"path/filepath"
	"runtime"
	"sort"
	"strconv"
	"strings"

	"golang.org/x/tools/go/ssa"
)

func init() { register("C17", checkC17) }

// ---- a small reader for the STRING lexer rule and the `value` parser rule of Expr.g4

type grammarInfo struct {
	Escapes   map[byte]bool // characters admitted after a backslash in STRING
	RawExcl   map[byte]bool // characters excluded from the raw alternative ~[...]
	ValueAlts []string      // alternatives of the `value` rule
	Rules     map[string]string
	Err       string
}

func readGrammar(path string) *grammarInfo {
	g := &grammarInfo{Escapes: map[byte]bool{}, RawExcl: map[byte]bool{}}
	b, err := os.ReadFile(path)
	if err != nil {
		g.Err = err.Error()
		return g
	}
	// strip // comments
	var lines []string
	for _, ln := range strings.Split(string(b), "\n") {
		if i := strings.Index(ln, "//"); i >= 0 {
			ln = ln[:i]
		}
		lines = append(lines, ln)
	}
	src := strings.Join(lines, "\n")
	rule := func(name string) string {
		// find "name" at line start followed by ':' ... ';'
		idx := 0
		for {
			i := strings.Index(src[idx:], name)
			if i < 0 {
				return ""
			}
			i += idx
			before := i == 0 || src[i-1] == '\n' || src[i-1] == ' ' || src[i-1] == '\t'
			rest := strings.TrimLeft(src[i+len(name):], " \t\r\n")
			if before && strings.HasPrefix(rest, ":") {
				body := rest[1:]
				// the rule ends at the first ';' outside quotes/brackets
				inQ, inB := false, false
				for j := 0; j < len(body); j++ {
					ch := body[j]
					switch {
					case ch == '\\':
						j++
					case ch == '\'' && !inB:
						inQ = !inQ
					case ch == '[' && !inQ:
						inB = true
					case ch == ']' && !inQ:
						inB = false
					case ch == ';' && !inQ && !inB:
						return body[:j]
					}
				}
				return body
			}
			idx = i + len(name)
		}
	}
	str := rule("STRING")
	if str == "" {
		g.Err = "STRING rule not found"
		return g
	}
	// character classes: ~["\\]  and  '\\' ["\\/bfnrt]
	parseClass := func(s string) map[byte]bool {
		m := map[byte]bool{}
		for i := 0; i < len(s); i++ {
			ch := s[i]
			if ch == '\\' && i+1 < len(s) {
				i++
				switch s[i] {
				case 'n':
					m['\n'] = true
				case 'r':
					m['\r'] = true
				case 't':
					m['\t'] = true
				default:
					m[s[i]] = true
				}
				continue
			}
			m[ch] = true
		}
		return m
	}
	// negated raw class
	if i := strings.Index(str, "~["); i >= 0 {
		j := i + 2
		for j < len(str) && str[j] != ']' {
			if str[j] == '\\' {
				j++
			}
			j++
		}
		g.RawExcl = parseClass(str[i+2 : j])
	} else {
		g.Err = "raw alternative ~[...] not found in STRING"
	}
	// escape class: after '\\'
	if i := strings.Index(str, `'\\'`); i >= 0 {
		rest := str[i+4:]
		if k := strings.Index(rest, "["); k >= 0 {
			j := k + 1
			for j < len(rest) && rest[j] != ']' {
				if rest[j] == '\\' {
					j++
				}
				j++
			}
			g.Escapes = parseClass(rest[k+1 : j])
		}
	} else {
		g.Err = "escape alternative not found in STRING"
	}
	g.Rules = map[string]string{}
	for _, n := range []string{"WS", "innerExprList", "root", "expr", "innerExpr", "fieldAccess"} {
		g.Rules[n] = strings.Join(strings.Fields(rule(n)), " ")
	}
	val := rule("value")
	for _, a := range strings.Split(val, "|") {
		a = strings.TrimSpace(a)
		if a != "" {
			g.ValueAlts = append(g.ValueAlts, a)
		}
	}
	return g
}

// strconvUnquoteTable extracts from $GOROOT/src/strconv/quote.go the single-character
// escapes UnquoteChar accepts inside a double-quoted string and the raw bytes unquote rejects.
func strconvUnquoteTable() (esc map[byte]bool, rawRejected map[byte]bool, err error) {
	root := runtime.GOROOT()
	if _, e := os.Stat(filepath.Join(root, "src/strconv/quote.go")); e != nil {
		root = "/opt/veriftools/go1.26.8"
	}
	fset := token.NewFileSet()
	f, e := parser.ParseFile(fset, filepath.Join(root, "src/strconv/quote.go"), nil, 0)
	if e != nil {
		return nil, nil, e
	}
	esc, rawRejected = map[byte]bool{}, map[byte]bool{}
	charLit := func(x ast.Expr) (byte, bool) {
		bl, ok := x.(*ast.BasicLit)
		if !ok || bl.Kind != token.CHAR {
			return 0, false
		}
		s, e := strconv.Unquote(bl.Value)
		if e != nil || len(s) != 1 {
			return 0, false
		}
		return s[0], true
	}
	for _, d := range f.Decls {
		fd, ok := d.(*ast.FuncDecl)
		if !ok {
			continue
		}
		switch fd.Name.Name {
		case "UnquoteChar":
			ast.Inspect(fd.Body, func(n ast.Node) bool {
				sw, ok := n.(*ast.SwitchStmt)
				if !ok || sw.Tag == nil {
					return true
				}
				if id, ok := sw.Tag.(*ast.Ident); !ok || id.Name != "c" {
					return true
				}
				for _, cl := range sw.Body.List {
					cc := cl.(*ast.CaseClause)
					multi := false
					// clauses that consume further characters (x,u,U,octal) are not plain escapes
					ast.Inspect(cc, func(m ast.Node) bool {
						if fs, ok := m.(*ast.ForStmt); ok && fs != nil {
							multi = true
						}
						return true
					})
					for _, e := range cc.List {
						if ch, ok := charLit(e); ok && !multi {
							esc[ch] = true
						}
					}
				}
				return false
			})
		case "unquote":
			ast.Inspect(fd.Body, func(n ast.Node) bool {
				be, ok := n.(*ast.BinaryExpr)
				if !ok || be.Op != token.EQL {
					return true
				}
				if ch, ok := charLit(be.Y); ok {
					if ix, ok := be.X.(*ast.IndexExpr); ok {
						if id, ok := ix.X.(*ast.Ident); ok && id.Name == "in" {
							rawRejected[ch] = true
						}
					}
				}
				return true
			})
		}
	}
	// inside "..." the single quote escape is rejected (c != quote)
	delete(esc, '\'')
	if len(esc) < 5 {
		return nil, nil, fmt.Errorf("could not extract the escape table of strconv.UnquoteChar")
	}
	return esc, rawRejected, nil
}

func byteSetDesc(m map[byte]bool) string {
	var vs []int
	for b := range m {
		vs = append(vs, int(b))
	}
	return setDesc(vs)
}

func checkC17(c *Ctx, r *Report) {
	r.Explanation = "decided: Parse installs a deferred recover that turns any panic into (nil map, non-nil error); its returns are exactly (nil,nil) for the empty input, (nil, collected syntax error) when a syntax error was recorded and (map, nil) otherwise; no goroutine start, os.Exit or log.Fatal is reachable from Parse inside the module (thorough: through the ANTLR runtime with a VTA call graph); every escape and raw character the STRING lexer rule admits is accepted by the routine that unquotes string tokens, with the JSON-style meaning, so a lexically valid string literal can never make the walker fail; the value rule's alternatives and the walker's case analysis agree; type keys are <path>.type (or type) and field keys <path>.<field access text>, nested expressions recursing with the field key. Not decided: termination of ANTLR prediction and stack depth for all inputs, exact flattening for all inputs."
	r.Undecidedcl = []string{"termination and stack depth of the generated ANTLR parser on arbitrary 64 KiB inputs", "Expr.g4 is assumed to be the source of the generated lexer/parser"}
	r.Assumptions = []string{"the generated lexer implements Expr.g4", "recover() catches every panic raised below Parse on the same goroutine"}
	parse := c.ExprS.Func("Parse")
	if parse == nil {
		r.Undecided("C17.anchor:Parse", "", "expr.Parse not found")
		return
	}
	r.SawFunc(parse)
	exprOK := c.checkExprSemantics(r, "C17.parse-values")
	if exprOK {
		r.Decide([]string{"C17.keys:", "C17.alternatives:", "C17.escapes:", "C17.input:", "C17.returns:", "C17.anchor:"}, nil,
			"Parse evaluated through the generated lexer/parser and the ANTLR runtime on generated well-formed and malformed inputs and compared with the reference flattening")
	}
	// Parse may delegate to a core function (a wrapper passing its input on and returning the results unchanged)
	core := parse
	for i := 0; i < 3; i++ {
		hasStream := false
		var only *ssa.Function
		nCalls := 0
		eachInstr(core, func(in ssa.Instruction) {
			if call, ok := in.(*ssa.Call); ok {
				if sc := call.Common().StaticCallee(); sc != nil {
					if sc.Name() == "NewInputStream" {
						hasStream = true
					}
					if sc.Pkg == c.ExprS && sc.Signature.Results().Len() == 2 {
						nCalls++
						only = sc
					}
				}
			}
		})
		if hasStream || nCalls != 1 || len(core.Blocks) != 1 {
			break
		}
		// the single block returns exactly the callee's results
		ret, ok := core.Blocks[0].Instrs[len(core.Blocks[0].Instrs)-1].(*ssa.Return)
		direct := ok && len(ret.Results) == 2
		if direct {
			for i, rv := range ret.Results {
				ex, ok := rv.(*ssa.Extract)
				if !ok || ex.Index != i {
					direct = false
				} else if call, ok := ex.Tuple.(*ssa.Call); !ok || call.Common().StaticCallee() != only {
					direct = false
				}
			}
		}
		if !direct {
			break
		}
		core = only
		r.SawFunc(core)
	}
	c.checkRecover(r, core)
	c.checkParseReturns(r, core)
	c.checkParseReach(r, parse)
	c.checkParseInput(r, core)
	g := readGrammar(filepath.Join(c.Repo, "expr", "Expr.g4"))
	if g.Err != "" {
		r.Undecided("C17.anchor:grammar", "expr/Expr.g4", "cannot read the grammar: %s", g.Err)
		return
	}
	c.checkUnquoter(r, g)
	c.checkLexerTables(r)
	c.checkAlternatives(r, g)
	c.checkExprKeys(r)
	// grammar-level clauses: whitespace is skipped, a trailing comma is optional, the whole input is one expression
	var badG []string
	ws := g.Rules["WS"]
	if !strings.Contains(ws, "-> skip") {
		badG = append(badG, "whitespace is not skipped (rule WS: `"+ws+"`)")
	}
	for _, ch := range []string{" ", "\\t", "\\r", "\\n"} {
		if i, j := strings.Index(ws, "["), strings.Index(ws, "]"); i < 0 || j < i || !strings.Contains(ws[i:j], ch) {
			badG = append(badG, fmt.Sprintf("whitespace class lacks %q", ch))
		}
	}
	iel := strings.ReplaceAll(g.Rules["innerExprList"], " ", "")
	if !strings.HasSuffix(iel, "','?") || !strings.Contains(iel, "(','innerExpr)*") || !strings.HasPrefix(iel, "innerExpr") {
		badG = append(badG, "innerExprList is not `innerExpr (',' innerExpr)* ','?` (separating commas, optional trailing comma): `"+g.Rules["innerExprList"]+"`")
	}
	if f := strings.Fields(g.Rules["root"]); len(f) != 2 || f[0] != "expr" || f[1] != "EOF" {
		badG = append(badG, "root is not `expr EOF` (the whole input must be one expression): `"+g.Rules["root"]+"`")
	}
	sort.Strings(badG)
	if len(badG) > 0 {
		r.Fail("C17.grammar:Expr.g4", "expr/Expr.g4", "%s", strings.Join(badG, "; "))
	} else {
		r.OK("C17.grammar:Expr.g4", "whitespace skipped, optional trailing comma, root = expr EOF, assignment = fieldAccess '=' value")
	}
}

func (c *Ctx) checkRecover(r *Report, parse *ssa.Function) {
	key := "C17.recover:" + fname(parse)
	var deferred *ssa.Function
	callsRecover := func(f *ssa.Function) bool {
		found := false
		eachInstr(f, func(in ssa.Instruction) {
			if call, ok := in.(*ssa.Call); ok {
				if b, ok := call.Call.Value.(*ssa.Builtin); ok && b.Name() == "recover" {
					found = true
				}
			}
		})
		return found
	}
	eachInstr(parse, func(in ssa.Instruction) {
		if d, ok := in.(*ssa.Defer); ok {
			var cand *ssa.Function
			if mc, ok := d.Call.Value.(*ssa.MakeClosure); ok {
				cand = mc.Fn.(*ssa.Function)
			} else if sc := d.Call.StaticCallee(); sc != nil && sc.Pkg == parse.Pkg && len(sc.Blocks) > 0 {
				cand = sc // a named function deferred directly: recover() works in it
			}
			// several defers (a pooled object handed back, …): the one that recovers is the handler
			if cand != nil && (deferred == nil || (!callsRecover(deferred) && callsRecover(cand))) {
				deferred = cand
			}
		}
	})
	if deferred == nil {
		r.Fail(key, c.pos(parse.Pos()), "Parse has no deferred function: a panic in the lexer, parser or walker crashes the caller")
		return
	}
	r.SawFunc(deferred)
	// the defer must be installed before the first call that can panic (lexer construction onwards)
	var rec *ssa.Call
	eachInstr(deferred, func(in ssa.Instruction) {
		if call, ok := in.(*ssa.Call); ok {
			if b, ok := call.Call.Value.(*ssa.Builtin); ok && b.Name() == "recover" {
				rec = call
			}
		}
	})
	if rec == nil {
		r.Fail(key, c.pos(deferred.Pos()), "the deferred function does not call recover()")
		return
	}
	// under r != nil: ret = nil and err = non-nil
	var setRet, setErr bool
	eachInstr(deferred, func(in ssa.Instruction) {
		st, ok := in.(*ssa.Store)
		if !ok {
			return
		}
		var fvName string
		switch a := st.Addr.(type) {
		case *ssa.FreeVar:
			fvName = a.Name()
		case *ssa.Parameter:
			fvName = a.Name()
		default:
			return
		}
		guarded := false
		for _, g := range guardsOfInstr(in) {
			if b, ok := g.Cond.(*ssa.BinOp); ok && b.X == rec && isNilConst(b.Y) && ((b.Op == token.NEQ) == g.Polarity) {
				guarded = true
			}
		}
		if !guarded {
			return
		}
		switch fvName {
		case "ret":
			if isNilConst(st.Val) {
				setRet = true
			}
		case "err":
			if !isNilConst(st.Val) {
				setErr = true
			}
		}
	})
	// fallback by type when result names differ
	if !setRet || !setErr {
		eachInstr(deferred, func(in ssa.Instruction) {
			st, ok := in.(*ssa.Store)
			if !ok {
				return
			}
			switch st.Addr.(type) {
			case *ssa.FreeVar, *ssa.Parameter:
			default:
				return
			}
			t := st.Val.Type().Underlying().String()
			if strings.HasPrefix(t, "map[") && isNilConst(st.Val) {
				setRet = true
			}
			if strings.Contains(st.Val.Type().String(), "error") && !isNilConst(st.Val) {
				setErr = true
			}
		})
	}
	// installed before the risky calls
	early := true
	var deferInstr ssa.Instruction
	eachInstr(parse, func(in ssa.Instruction) {
		if d, ok := in.(*ssa.Defer); ok {
			var callee *ssa.Function
			if mc, ok := d.Call.Value.(*ssa.MakeClosure); ok {
				callee = mc.Fn.(*ssa.Function)
			} else {
				callee = d.Call.StaticCallee()
			}
			if callee == deferred || deferInstr == nil {
				deferInstr = in
			}
		}
	})
	eachInstr(parse, func(in ssa.Instruction) {
		if call, ok := in.(*ssa.Call); ok {
			if f := call.Common().StaticCallee(); f != nil && f.Object() != nil && f.Object().Pkg() != nil && strings.Contains(f.Object().Pkg().Path(), "antlr") {
				if !instrDominates(deferInstr, in) {
					early = false
				}
			}
		}
	})
	if !setRet {
		// the map result needs no reset when it is nil whenever a panic can be in flight: the result cell is written
		// only on return paths, with nothing that can panic between the store and the function's exit
		clean, stores := true, 0
		for _, b := range parse.Blocks {
			for i, in := range b.Instrs {
				st, ok := in.(*ssa.Store)
				if !ok {
					continue
				}
				al, ok := st.Addr.(*ssa.Alloc)
				if !ok || !strings.HasPrefix(types.TypeString(al.Type().(*types.Pointer).Elem().Underlying(), nil), "map[") || len(parse.Signature.Results().At(0).Name()) == 0 || al.Comment != parse.Signature.Results().At(0).Name() {
					continue
				}
				if isNilConst(st.Val) {
					continue
				}
				stores++
				for _, after := range b.Instrs[i+1:] {
					switch after.(type) {
					case *ssa.Store, *ssa.RunDefers, *ssa.Return, *ssa.UnOp, *ssa.DebugRef:
					default:
						clean = false
					}
				}
				if _, ok := b.Instrs[len(b.Instrs)-1].(*ssa.Return); !ok {
					clean = false
				}
			}
		}
		if clean && parse.Signature.Results().Len() == 2 && parse.Signature.Results().At(0).Name() != "" {
			setRet = true
		}
	}
	switch {
	case !setRet || !setErr:
		r.Fail(key, c.pos(deferred.Pos()), "on a recovered panic the results are not reset to (nil map, non-nil error) (ret reset=%v, err set=%v): the caller can receive a partial map together with no error", setRet, setErr)
	case !early:
		r.Fail(key, c.instrPos(deferInstr), "the recover handler is installed after calls into the ANTLR runtime")
	default:
		r.OK(key, "deferred recover before the first ANTLR call; a panic yields (nil, error)")
	}
}

func (c *Ctx) checkParseReturns(r *Report, parse *ssa.Function) {
	key := "C17.returns:" + fname(parse)
	// named results are cells; each return block stores (ret, err) before rundefers
	type rv struct{ ret, err, guards, pos string }
	var rs []rv
	for _, b := range parse.Blocks {
		ret, ok := b.Instrs[len(b.Instrs)-1].(*ssa.Return)
		if !ok || b == parse.Recover {
			continue // the recover block returns whatever the deferred handler stored (C17.recover)
		}
		cur := rv{pos: c.instrPos(ret)}
		fr := &Frame{Fn: parse}
		for _, in := range b.Instrs {
			if st, ok := in.(*ssa.Store); ok {
				if al, ok := st.Addr.(*ssa.Alloc); ok {
					switch al.Comment {
					case "ret":
						cur.ret = c.prov(st.Val, fr).String()
					case "err":
						cur.err = c.prov(st.Val, fr).String()
					}
				}
			}
		}
		var gs []string
		for _, g := range guardsOf(b) {
			gs = append(gs, fmt.Sprintf("%s=%v", c.prov(g.Cond, fr), g.Polarity))
		}
		cur.guards = strings.Join(gs, " & ")
		rs = append(rs, cur)
	}
	var bad []string
	kinds := map[string]int{}
	for _, x := range rs {
		switch {
		case x.ret == "nil" && x.err == "nil":
			if !strings.Contains(x.guards, `, "")=true`) {
				bad = append(bad, "(nil,nil) returned for a non-empty input at "+x.pos)
			}
			kinds["empty"]++
		case x.ret == "nil" && x.err != "" && x.err != "nil":
			if !strings.Contains(x.guards, ".Error, nil)=true") || !strings.Contains(x.guards, "binop:!=") {
				bad = append(bad, "(nil, err) returned without err != nil at "+x.pos)
			}
			kinds["error"]++
		case x.ret != "" && x.ret != "nil" && x.err == "nil":
			if !strings.Contains(x.guards, ".Error, nil)=false") {
				bad = append(bad, "a map is returned although a syntax error may have been recorded at "+x.pos)
			}
			if !strings.HasSuffix(x.ret, ".Result") && !strings.Contains(x.ret, "MakeMap") {
				bad = append(bad, "the returned map is not the walker's result: "+x.ret)
			}
			kinds["map"]++
		default:
			bad = append(bad, fmt.Sprintf("return shape (ret=%s, err=%s) is none of (nil,nil) / (nil,err) / (map,nil) at %s", x.ret, x.err, x.pos))
		}
	}
	if kinds["empty"] == 0 || kinds["error"] == 0 || kinds["map"] == 0 {
		bad = append(bad, fmt.Sprintf("missing return kind: %v", kinds))
	}
	if len(bad) > 0 {
		r.Fail(key, c.pos(parse.Pos()), "%s", strings.Join(uniq(bad), "; "))
	} else {
		r.OK(key, "%d returns: (nil,nil) iff input empty; (nil,err) iff a syntax error was recorded; (map,nil) otherwise", len(rs))
	}
}

// checkParseInput: the text handed to the lexer is the argument itself, at most trimmed at its ends; any other
// rewriting is not token-aware and changes the content of string literals.
func (c *Ctx) checkParseInput(r *Report, parse *ssa.Function) {
	key := "C17.input:" + fname(parse)
	n := 0
	eachInstr(parse, func(in ssa.Instruction) {
		call, ok := in.(*ssa.Call)
		if !ok {
			return
		}
		s := call.Common().StaticCallee()
		if s == nil || s.Name() != "NewInputStream" {
			return
		}
		n++
		p := c.prov(call.Call.Args[0], &Frame{Fn: parse}).String()
		arg := "param:" + parse.Params[0].Name()
		if p == arg || p == "strings.TrimSpace("+arg+")" {
			r.OK(key, "the lexer reads %s", p)
		} else {
			r.Fail(key, c.instrPos(in), "the input is rewritten before lexing (%s): the rewrite is not token-aware, so whitespace or other characters inside string literals change and the value in the map is not the literal's value", p)
		}
	})
	if n == 0 {
		r.Undecided(key, c.pos(parse.Pos()), "no ANTLR input stream constructed in Parse")
	}
}

func (c *Ctx) checkParseReach(r *Report, parse *ssa.Function) {
	key := "C17.no-escape:" + fname(parse)
	var bad []string
	n := 0
	for f := range c.reach(parse) {
		n++
		r.SawFunc(f)
		eachInstr(f, func(in ssa.Instruction) {
			switch x := in.(type) {
			case *ssa.Go:
				bad = append(bad, "go statement in "+fname(f)+" at "+c.instrPos(in)+" (a panic on another goroutine is not recovered)")
			case ssa.CallInstruction:
				if calleeIs(x, "os", "", "Exit") {
					bad = append(bad, "os.Exit in "+fname(f))
				}
				if s := x.Common().StaticCallee(); s != nil && s.Object() != nil && s.Object().Pkg() != nil && s.Object().Pkg().Path() == "log" && strings.HasPrefix(s.Name(), "Fatal") {
					bad = append(bad, "log.Fatal in "+fname(f))
				}
			}
		})
	}
	if len(bad) > 0 {
		r.Fail(key, c.pos(parse.Pos()), "%s", strings.Join(uniq(bad), "; "))
	} else {
		r.OK(key, "no go statement, os.Exit or log.Fatal in the %d module functions reachable from Parse", n)
	}
	c.wholeProgramObligation(r, key+"#whole-program", []*ssa.Function{parse}, true, true, false, "reachable below Parse, outside the reach of its recover")
}

func (c *Ctx) checkUnquoter(r *Report, g *grammarInfo) {
	// the routine applied to STRING token text in the walker
	var site *ssa.Call
	var owner *ssa.Function
	for _, f := range c.Funcs {
		if f.Pkg != c.ExprS {
			continue
		}
		eachInstr(f, func(in ssa.Instruction) {
			call, ok := in.(*ssa.Call)
			if !ok || call.Common().IsInvoke() || len(call.Call.Args) == 0 {
				return
			}
			// argument: invoke GetText on the result of STRING()
			arg, ok := call.Call.Args[0].(*ssa.Call)
			if !ok || !arg.Common().IsInvoke() || arg.Common().Method.Name() != "GetText" {
				return
			}
			if recv, ok := arg.Common().Value.(*ssa.Call); ok && recv.Common().IsInvoke() && recv.Common().Method.Name() == "STRING" {
				site, owner = call, f
			}
		})
	}
	key := "C17.escapes:"
	if site == nil {
		r.Undecided(key+"anchor", "", "no routine applied to STRING().GetText() found in the walker")
		return
	}
	r.SawFunc(owner)
	callee := site.Common().StaticCallee()
	key += fname(owner) + "→" + qualName(callee)
	lexEsc := g.Escapes
	r.Count("lexer_escapes", len(lexEsc))
	if calleeIs(site, "strconv", "", "Unquote") {
		esc, rawRej, err := strconvUnquoteTable()
		if err != nil {
			r.Undecided(key, c.instrPos(site), "%v", err)
			return
		}
		var badE, badR []int
		for e := range lexEsc {
			if !esc[e] {
				badE = append(badE, int(e))
			}
		}
		for b := range rawRej {
			if !g.RawExcl[b] {
				badR = append(badR, int(b))
			}
		}
		if len(badE) > 0 || len(badR) > 0 {
			msg := ""
			if len(badE) > 0 {
				msg += fmt.Sprintf("the lexer admits the escape(s) \\%s which strconv.Unquote rejects; ", strings.Trim(setDesc(badE), "{}"))
			}
			if len(badR) > 0 {
				msg += fmt.Sprintf("the lexer admits the raw byte(s) %s inside a string which strconv.Unquote rejects; ", setDesc(badR))
			}
			r.Fail(key, c.instrPos(site), "%sa lexically valid literal makes the walker fail (panic → error) instead of yielding the map. Lexer escapes %s, Unquote escapes %s", msg, byteSetDesc(lexEsc), byteSetDesc(esc))
		} else {
			r.OK(key, "lexer escapes %s ⊆ strconv.Unquote escapes %s; raw bytes rejected by Unquote are excluded by the lexer", byteSetDesc(lexEsc), byteSetDesc(esc))
		}
		return
	}
	if callee == nil || !c.inModule(callee) {
		r.Undecided(key, c.instrPos(site), "unquoting routine is neither strconv.Unquote nor a module function")
		return
	}
	r.SawFunc(callee)
	// in-module unquoter: total (no panic, no error) and a switch table agreeing with the lexer
	var bad []string
	eachInstr(callee, func(in ssa.Instruction) {
		if _, ok := in.(*ssa.Panic); ok {
			bad = append(bad, "the unquoter can panic at "+c.instrPos(in))
		}
	})
	if callee.Signature.Results().Len() != 1 {
		bad = append(bad, "the unquoter has an error result that the walker must handle")
	}
	// the token's surrounding quotes are removed by slicing exactly one byte off each end
	strip := false
	eachInstr(callee, func(in ssa.Instruction) {
		switch x := in.(type) {
		case *ssa.Slice:
			if x.X == ssa.Value(callee.Params[0]) {
				lo, okLo := constInt(x.Low)
				hp := ""
				if x.High != nil {
					hp = c.prov(x.High, &Frame{Fn: callee}).String()
				}
				if okLo && lo == 1 && hp == "binop:-(builtin:len(param:"+callee.Params[0].Name()+"), 1)" {
					strip = true
				} else {
					bad = append(bad, "the token is re-sliced as ["+fmt.Sprint(lo)+":"+hp+"] instead of [1:len-1]")
				}
			}
		case *ssa.Call:
			if s := x.Common().StaticCallee(); s != nil && s.Object() != nil && s.Object().Pkg() != nil && s.Object().Pkg().Path() == "strings" && strings.HasPrefix(s.Name(), "Trim") {
				for _, a := range x.Call.Args {
					if a == ssa.Value(callee.Params[0]) {
						bad = append(bad, "the quotes are removed with strings."+s.Name()+", which strips every matching character at the ends: a literal ending in an escaped quote (\\\") loses it")
					}
				}
			}
		}
	})
	if !strip && len(bad) == 0 {
		bad = append(bad, "the surrounding quotes are not removed by slicing [1:len-1]")
	}
	// every escape is resolved: the read of the escaped character s[i+1] is skipped only when no such byte exists —
	// whenever its bounds guard fails, i+1 >= len(s) must follow (for all i and lengths)
	{
		lc := &linCtx{c: c, fn: callee, vars: map[string]ssa.Value{}}
		eachInstr(callee, func(in ssa.Instruction) {
			lk, ok := in.(*ssa.Index) // s[i] on a string
			if !ok || !isStringType(lk.X.Type()) {
				return
			}
			if _, isPhi := lk.Index.(*ssa.Phi); isPhi {
				return // the current byte
			}
			idx := lc.lin(lk.Index, 0)
			if len(idx) != 1 {
				return
			}
			var lenCall ssa.Value
			eachInstr(callee, func(j ssa.Instruction) {
				if call, ok := j.(*ssa.Call); ok {
					if bi, ok := call.Call.Value.(*ssa.Builtin); ok && bi.Name() == "len" && call.Call.Args[0] == lk.X {
						lenCall = call
					}
				}
			})
			if lenCall == nil {
				return
			}
			lenVar := lc.varName(lenCall)
			for _, g := range guardsOfInstr(lk) {
				fs, ok := lc.condFacts(g.Cond, g.Polarity)

				if !ok {
					continue
				}
				mentions := false
				for _, f := range fs {
					if f.L.Coef[lenVar] != 0 {
						mentions = true
					}
				}
				if !mentions {
					continue
				}
				nfs, ok := lc.condFacts(g.Cond, !g.Polarity)
				if !ok {
					continue
				}
				facts := append([]Ineq{{linVar(lenVar)}}, nfs...)
				if ok2, wit := implies(facts, Ineq{idx[0].L.add(linVar(lenVar), -1)}); !ok2 {
					bad = append(bad, fmt.Sprintf("an escape is left unresolved although its character exists: the bounds test guarding the read at %s can fail while the index is still inside the string (e.g. %s) — an escape right before the closing quote keeps its backslash", c.instrPos(lk), wit))
				}
			}
		})
	}
	table, hasDefaultIdentity, ok := c.unquoteSwitchTable(callee)
	if !ok {
		// the escape table may have been extracted into a pure helper func(byte) byte: evaluate it for every byte
		eachInstr(callee, func(in ssa.Instruction) {
			call, isCall := in.(*ssa.Call)
			if !isCall || ok {
				return
			}
			h := call.Common().StaticCallee()
			if h == nil || !c.inModule(h) || len(h.Params) != 1 || !isByteType(h.Params[0].Type()) || h.Signature.Results().Len() != 1 || !isByteType(h.Signature.Results().At(0).Type()) {
				return
			}
			t := map[byte]byte{}
			ident := true
			ev := &Evaluator{}
			for v := 0; v < 256; v++ {
				rs, okv := ev.evalPure(h, []constant.Value{constant.MakeInt64(int64(v))}, 0)
				if !okv || len(rs) != 1 {
					return
				}
				o, _ := constant.Int64Val(rs[0])
				if byte(o) != byte(v) {
					t[byte(v)] = byte(o)
				}
			}
			r.SawFunc(h)
			r.Count("byte_values_evaluated", 256)
			table, hasDefaultIdentity, ok = t, ident, true
		})
	}
	if !ok {
		r.Undecided(key, c.pos(callee.Pos()), "escape handling of the in-module unquoter is not a recognisable switch over the escaped character")
		return
	}
	want := map[byte]byte{'b': '\b', 'f': '\f', 'n': '\n', 'r': '\r', 't': '\t', '"': '"', '\\': '\\', '/': '/'}
	for e := range lexEsc {
		w, known := want[e]
		if !known {
			bad = append(bad, fmt.Sprintf("the lexer admits \\%c, for which no meaning is specified", e))
			continue
		}
		got, inTable := table[e]
		switch {
		case inTable && got != w:
			bad = append(bad, fmt.Sprintf("\\%c is unquoted to %q, want %q", e, got, w))
		case !inTable && !(hasDefaultIdentity && w == e):
			bad = append(bad, fmt.Sprintf("\\%c is not handled", e))
		}
	}
	if len(bad) > 0 {
		r.Fail(key, c.pos(callee.Pos()), "%s", strings.Join(uniq(bad), "; "))
	} else {
		r.OK(key, "total unquoter; all %d lexer escapes %s map to their JSON meaning (%d explicit cases, identity default=%v)", len(lexEsc), byteSetDesc(lexEsc), len(table), hasDefaultIdentity)
	}
}

// unquoteSwitchTable reads `switch s[i] { case 'n': c = '\n' ... default: c = s[i] }` from the AST.
func (c *Ctx) unquoteSwitchTable(fn *ssa.Function) (map[byte]byte, bool, bool) {
	fd, ok := fn.Syntax().(*ast.FuncDecl)
	if !ok {
		return nil, false, false
	}
	info := c.Expr.TypesInfo
	table := map[byte]byte{}
	identity := false
	found := false
	constByte := func(e ast.Expr) (byte, bool) {
		tv, ok := info.Types[e]
		if !ok || tv.Value == nil {
			return 0, false
		}
		v, ok := constantInt(tv.Value)
		if !ok || v < 0 || v > 255 {
			return 0, false
		}
		return byte(v), true
	}
	ast.Inspect(fd.Body, func(n ast.Node) bool {
		sw, ok := n.(*ast.SwitchStmt)
		if !ok || sw.Tag == nil || found {
			return true
		}
		if _, isIdx := sw.Tag.(*ast.IndexExpr); !isIdx {
			return true
		}
		tagStr := exprString(sw.Tag)
		okAll := true
		for _, cl := range sw.Body.List {
			cc := cl.(*ast.CaseClause)
			if len(cc.Body) != 1 {
				okAll = false
				continue
			}
			as, ok := cc.Body[0].(*ast.AssignStmt)
			if !ok || len(as.Rhs) != 1 {
				okAll = false
				continue
			}
			if cc.List == nil {
				if exprString(as.Rhs[0]) == tagStr {
					identity = true
				} else {
					okAll = false
				}
				continue
			}
			v, ok := constByte(as.Rhs[0])
			if !ok {
				// `case '"', '\\', '/': c = s[i]` identity for listed characters
				if exprString(as.Rhs[0]) == tagStr {
					for _, e := range cc.List {
						if ch, ok := constByte(e); ok {
							table[ch] = ch
						}
					}
					continue
				}
				okAll = false
				continue
			}
			for _, e := range cc.List {
				if ch, ok := constByte(e); ok {
					table[ch] = v
				}
			}
		}
		if okAll {
			found = true
		}
		return true
	})
	return table, identity, found
}

func (c *Ctx) checkAlternatives(r *Report, g *grammarInfo) {
	key := "C17.alternatives:value"
	// accessors called on ctx.Value() in the walker and compared with nil
	handled := map[string]bool{}
	for _, f := range c.Funcs {
		if f.Pkg != c.ExprS || recvNamed(f) == nil || recvNamed(f).Obj().Name() != "ParseTreeListener" {
			continue
		}
		eachInstr(f, func(in ssa.Instruction) {
			b, ok := in.(*ssa.BinOp)
			if !ok || !isNilConst(b.Y) {
				return
			}
			call, ok := b.X.(*ssa.Call)
			if !ok || !call.Common().IsInvoke() {
				return
			}
			if recv, ok := call.Common().Value.(*ssa.Call); ok && recv.Common().IsInvoke() && recv.Common().Method.Name() == "Value" {
				handled[call.Common().Method.Name()] = true
			}
		})
	}
	var want []string
	for _, a := range g.ValueAlts {
		if a == "expr" {
			a = "Expr"
		}
		want = append(want, a)
	}
	sort.Strings(want)
	var got []string
	for h := range handled {
		got = append(got, h)
	}
	sort.Strings(got)
	if strings.Join(want, ",") == strings.Join(got, ",") && len(want) > 0 {
		r.OK(key, "grammar alternatives %v = alternatives handled by the walker", want)
	} else {
		r.Fail(key, "expr/parse.go", "the value rule has alternatives %v but the walker handles %v: an unhandled alternative is silently dropped from the map", want, got)
	}
}

func (c *Ctx) checkExprKeys(r *Report) {
	n := 0
	for _, f := range c.Funcs {
		if f.Pkg != c.ExprS || recvNamed(f) == nil || recvNamed(f).Obj().Name() != "ParseTreeListener" {
			continue
		}
		fr := &Frame{Fn: f}
		eachInstr(f, func(in ssa.Instruction) {
			mu, ok := in.(*ssa.MapUpdate)
			if !ok {
				return
			}
			n++
			kp := c.prov(mu.Key, fr).String()
			vp := c.prov(mu.Value, fr).String()
			key := fmt.Sprintf("C17.keys:%s#%d", fname(f), n)
			isType := strings.Contains(vp, "IDENT") && !strings.Contains(vp, "Value")
			kp = strings.ReplaceAll(kp, "param:"+paramOfType(f, isStringType), "param:key")
			switch {
			case isType:
				if kp == `phi:phi("type", concat:concat(param:key, ".type"))` || kp == `phi:phi(concat:concat(param:key, ".type"), "type")` {
					r.OK(key, "type name stored under key+\".type\" (or \"type\" at the root)")
				} else {
					r.Fail(key, c.instrPos(mu), "type name stored under %s", kp)
				}
			default:
				if strings.Contains(kp, "FieldAccess") && strings.Contains(kp, `param:key, "."`) {
					r.OK(key, "value stored under key+\".\"+field access text")
				} else {
					r.Fail(key, c.instrPos(mu), "value stored under %s", kp)
				}
			}
		})
	}
	r.Floor("map stores in the walker", n, 5)
	// "later assignments to the same key win": the type name is the first thing written for a block, so an
	// explicit `type = …` field of the same block (textually later) overrides it
	typeFn, fieldFn := c.walkerFuncs()
	if typeFn == nil || fieldFn == nil {
		r.Undecided("C17.keys:walker", "", "the walker's block function (stores the type name) and field function (stores values) were not identified")
	}
	for _, f := range c.Funcs {
		if f != typeFn {
			continue
		}
		var typeStore ssa.Instruction
		var inner []ssa.Instruction
		eachInstr(f, func(in ssa.Instruction) {
			if mu, ok := in.(*ssa.MapUpdate); ok {
				vp := c.prov(mu.Value, &Frame{Fn: f}).String()
				if strings.Contains(vp, "IDENT") {
					typeStore = in
				}
			}
			if call, ok := in.(*ssa.Call); ok {
				if s := call.Common().StaticCallee(); s != nil && s == fieldFn {
					inner = append(inner, in)
				}
			}
		})
		key := "C17.keys:" + fname(f) + "#type-first"
		switch {
		case typeStore == nil || len(inner) == 0:
			r.Undecided(key, c.pos(f.Pos()), "type store or field loop not found")
		default:
			ok := true
			for _, in := range inner {
				if !instrDominates(typeStore, in) {
					ok = false
				}
			}
			if ok {
				r.OK(key, "the type name is stored before the block's fields are walked (a later `type = …` field wins)")
			} else {
				r.Fail(key, c.instrPos(typeStore), "the type name is stored after the block's fields: it overwrites an explicit `type = …` assignment of the same block, so the later assignment does not win")
			}
		}
	}
	// nested expressions recurse with the field key
	for _, f := range c.Funcs {
		if f != fieldFn {
			continue
		}
		ok := false
		eachInstr(f, func(in ssa.Instruction) {
			if call, isC := in.(*ssa.Call); isC {
				if s := call.Common().StaticCallee(); s != nil && s == typeFn {
					kp := c.prov(call.Call.Args[1], &Frame{Fn: f}).String()
					if strings.Contains(kp, "FieldAccess") {
						ok = true
					}
				}
			}
		})
		if ok {
			r.OK("C17.keys:"+fname(f)+"#nested", "nested expressions are flattened under the field key")
		} else {
			r.Fail("C17.keys:"+fname(f)+"#nested", c.pos(f.Pos()), "nested expressions are not flattened under their field key")
		}
	}
}

func exprString(e ast.Expr) string {
	switch x := e.(type) {
	case *ast.Ident:
		return x.Name
	case *ast.IndexExpr:
		return exprString(x.X) + "[" + exprString(x.Index) + "]"
	case *ast.BasicLit:
		return x.Value
	case *ast.ParenExpr:
		return exprString(x.X)
	case *ast.SelectorExpr:
		return exprString(x.X) + "." + x.Sel.Name
	case *ast.BinaryExpr:
		return exprString(x.X) + x.Op.String() + exprString(x.Y)
	}
	return fmt.Sprintf("%T", e)
}

// walkerFuncs: the listener method that records a block's type name and the one that records field values.
func (c *Ctx) walkerFuncs() (typeFn, fieldFn *ssa.Function) {
	for _, f := range c.Funcs {
		if f.Pkg != c.ExprS || f.Signature.Recv() == nil {
			continue
		}
		eachInstr(f, func(in ssa.Instruction) {
			mu, ok := in.(*ssa.MapUpdate)
			if !ok {
				return
			}
			vp := c.prov(mu.Value, &Frame{Fn: f}).String()
			if strings.Contains(vp, "IDENT") && !strings.Contains(vp, "Value") {
				typeFn = f
			} else if strings.Contains(vp, "Value") {
				fieldFn = f
			}
		})
	}
	return
}
