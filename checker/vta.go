package main

// vta.go: whole-program reachability (thorough tier) with a VTA call graph seeded by CHA.

import (
	"fmt"
	"sort"
	"strings"

	"golang.org/x/tools/go/callgraph"
	"golang.org/x/tools/go/callgraph/cha"
	"golang.org/x/tools/go/callgraph/vta"
	"golang.org/x/tools/go/ssa"
	"golang.org/x/tools/go/ssa/ssautil"
)

func (c *Ctx) vtaGraph() *callgraph.Graph {
	if c.vtaG == nil {
		c.vtaG = vta.CallGraph(ssautil.AllFunctions(c.Prog), cha.CallGraph(c.Prog))
	}
	return c.vtaG
}

// vtaReach: every function (module, dependencies, standard library) reachable from roots.
func (c *Ctx) vtaReach(roots ...*ssa.Function) map[*ssa.Function]bool {
	g := c.vtaGraph()
	seen := map[*ssa.Function]bool{}
	var work []*ssa.Function
	for _, r := range roots {
		if r != nil && !seen[r] {
			seen[r] = true
			work = append(work, r)
		}
	}
	for len(work) > 0 {
		f := work[len(work)-1]
		work = work[:len(work)-1]
		n := g.Nodes[f]
		if n == nil {
			continue
		}
		for _, e := range n.Out {
			if t := e.Callee.Func; t != nil && !seen[t] {
				seen[t] = true
				work = append(work, t)
			}
		}
	}
	return seen
}

type wholeFinding struct {
	What string
	Fn   string
}

// scanWhole looks for process-ending calls, goroutine starts and buffered writers in a reachable set.
func (c *Ctx) scanWhole(reach map[*ssa.Function]bool, wantGo, wantExit, wantBufio bool) []wholeFinding {
	var out []wholeFinding
	for f := range reach {
		pk := ""
		if f.Pkg != nil {
			pk = f.Pkg.Pkg.Path()
		}
		if wantBufio && f.Signature.Recv() != nil && strings.Contains(f.Signature.Recv().Type().String(), "bufio.Writer") {
			out = append(out, wholeFinding{"bufio.Writer method", f.String()})
		}
		if pk == "runtime" || strings.HasPrefix(pk, "runtime/") || strings.HasPrefix(pk, "internal/") {
			continue
		}
		for _, b := range f.Blocks {
			for _, in := range b.Instrs {
				switch x := in.(type) {
				case *ssa.Go:
					// the standard library's own goroutines (context, net, time) are reached only through VTA's
					// over-approximation of interface calls and are its maintainers' contract; third-party code counts
					if wantGo && strings.Contains(strings.SplitN(pk, "/", 2)[0], ".") {
						out = append(out, wholeFinding{"go statement", f.String()})
					}
				case ssa.CallInstruction:
					if !wantExit {
						continue
					}
					if s := x.Common().StaticCallee(); s != nil && s.Pkg != nil {
						sp := s.Pkg.Pkg.Path()
						if (sp == "os" && s.Name() == "Exit") || (sp == "log" && (strings.HasPrefix(s.Name(), "Fatal") || strings.HasPrefix(s.Name(), "Panic"))) || (sp == "syscall" && s.Name() == "Exit") {
							out = append(out, wholeFinding{sp + "." + s.Name(), f.String()})
						}
					}
				}
			}
		}
	}
	sort.Slice(out, func(i, j int) bool { return out[i].What+out[i].Fn < out[j].What+out[j].Fn })
	return out
}

func findingsDesc(fs []wholeFinding, n int) string {
	var ss []string
	for i, f := range fs {
		if i >= n {
			ss = append(ss, fmt.Sprintf("… %d more", len(fs)-n))
			break
		}
		ss = append(ss, f.What+" in "+f.Fn)
	}
	return strings.Join(ss, "; ")
}

// wholeProgramObligation adds the thorough-tier reachability obligation to a report.
func (c *Ctx) wholeProgramObligation(r *Report, key string, roots []*ssa.Function, wantGo, wantExit, wantBufio bool, what string) {
	if r.Tier != "thorough" {
		return
	}
	reach := c.vtaReach(roots...)
	r.Count("vta_reachable_functions", len(reach))
	fs := c.scanWhole(reach, wantGo, wantExit, wantBufio)
	if len(fs) > 0 {
		r.Fail(key, "", "%s: %s (whole-program VTA call graph, %d reachable functions)", what, findingsDesc(fs, 5), len(reach))
	} else {
		r.OK(key, "none in the %d functions reachable in the whole-program VTA call graph (module, dependencies, standard library)", len(reach))
	}
}
